import Bt.Proofs.Paper
import Bt.Props.C08
import Bt.Props.C12
import Bt.Props.C13
/-!
C09 — a sub-strategy's price index is the index of the same definition backtested on its own
(property theorems only; helper lemmas live in `Bt.Proofs.Paper`, namespace `Bt.P09`).

Code: `StrategyBase.setup` (core.py l.565-600) gives every non-root strategy a deep-copied shadow ("paper")
copy, makes it its own root, sets it up with the same data and funds it with 1 000 000; the tail of
`StrategyBase.update` (l.857-868) steps that copy `if newpt: paper.update(date); if inow != 0 and not
paper.bankrupt: paper.run(); paper.update(date)` and sets `self._price = self._paper.price`; `Backtest.run`
(backtest.py l.218-261) is `adjust(capital); update(dates[0]); for dt in dates[1:]: update(dt);
if not bankrupt: run(); update(dt)`.

Model (`Bt.Engine.Backtest`): `btDay` = the loop body, `btLoop` = the loop, `btRun` = `Backtest.run` after
`setup`; `paperDay` = one step of the shadow copy (row 0: `updRoot`, any other row: `btDay`), `paperLoop`,
`paperStep` / `paperUpdates` = the shadow copy under the `update(date)` calls the child receives;
`clockDates calls now` = the dates on which the child's clock changes.  `run d w` is `Strategy.run()` at
row `d` (any function, may raise).  A paper-traded strategy's price is `paperPx` (`stratRows`).

**The two drivers are the same driver.**  `Backtest.run` does not call `run()` on the first row `dates[0]` of
the data (the dummy row a `Backtest` prepends), and neither does `StrategyBase.update` on the shadow copy
(`inow != 0`).  Hence the main theorem `paper_eq_standalone` holds for EVERY `run` - counting schedulers
(`RunOnce`, `RunEveryNPeriods`, `RunAfterDays`), stacks without any scheduler, `run_always` algos included -
with no hypothesis on the algos and none on the tree.

(History: before the repair of `StrategyBase.update` the shadow copy was given the whole loop body on row 0
too.  The theorem then needed "`run()` leaves the tree as it is on row 0" - true of calendar-gated stacks
(`gated_stack_noop`, `calendar_gate_closed_on_synthetic_row`, kept below as facts about those stacks) - and a
sub-strategy headed by `RunOnce` had a different index nested than stand-alone: `unrepaired_stepping_differs`
is the Lean witness of that defect, `ungated_index_equal` the same instance under the repaired stepping.)
-/
set_option linter.unusedSectionVars false
namespace Bt.C09
open Bt Bt.C08

variable {K : Type} [Field K] [LinearOrder K] [IsStrictOrderedRing K] [HasFloor K]

/-! ### concrete data used by the `example`s -/

/-- one plain security: NaN on the synthetic row 0, then 10, 11, 12 -/
def secP : SecData Rat :=
  { name := "a", kind := .plain, fixedIncome := false, integer := false, bidofferSet := false, mult := 1,
    now := none, price := none, value := 0, notl := 0, weight := 0, position := 0, lastPos := 0,
    outlayAcc := 0, bidoffer := some 0, bidofferPaid := 0, capital := 0, coupon := 0, holdingCost := 0,
    needupdate := true, prices := [none, some 10, some 11, some 12], bidoffers := [], coupons := [],
    costLong := none, costShort := none,
    rValue := [0, 0, 0, 0], rPosition := [0, 0, 0, 0], rNotl := [0, 0, 0, 0], rOutlay := [0, 0, 0, 0],
    rBidofferPaid := [0, 0, 0, 0], rCoupon := [0, 0, 0, 0], rHolding := [0, 0, 0, 0] }

/-- a strategy fresh from `setup` (price = PAR, nothing recorded yet) -/
def stratP : StratData Rat :=
  { name := "child", fixedIncome := false, bidofferSet := false, paperTrade := false, paperPx := 100,
    comm := fun _ _ => 0, now := none, capital := 0, price := 100, value := 0, notl := 0, weight := 0,
    netFlows := 0, lastValue := 0, lastNotl := 0, lastPrice := 100, lastFee := 0, bidofferPaid := 0,
    bankrupt := false, rPrice := [0, 0, 0, 0], rValue := [0, 0, 0, 0], rNotl := [0, 0, 0, 0],
    rCash := [0, 0, 0, 0], rFees := [0, 0, 0, 0], rFlows := [0, 0, 0, 0], rBidofferPaid := [0, 0, 0, 0] }

/-- the tree after `setup`: the stand-alone strategy and, being a deep copy of the same definition with the
    same data, the shadow copy of the sub-strategy -/
def w0Q : World Rat := ⟨.strat stratP [.sec secP], false⟩

/-- algos gated by a calendar scheduler: silent on the synthetic row 0, buy for 500 on row 1, hold after -/
def runQ : RunFn Rat := fun d w => if d == 1 then opAllocate cfgQ w [0] 500 true else .ok w

/-- the `update(date)` calls a child may receive from its parent: every date several times -/
def callsQ : List Nat := [0, 0, 1, 1, 1, 2, 3, 3]

/-- the fuelled update used to evaluate instances (sound for `updRoot`: `P08.updRootF_sound`) -/
def updQ : P09.UpdFn Rat := fun d w => P08.updRootF cfgQ d 2 w

theorem w0Q_noDust : P08.NoDust cfgQ w0Q.root := by
  simp only [w0Q, P08.noDust_strat, P08.noDust_sec, P08.NoDustL]
  decide +kernel

/-! ### (1) the shadow copy is stepped once per change of the child's clock — an update on row 0, the loop
    body of `Backtest.run` on every other row — whatever the parent does to the real child -/

/-- For every list of `update(date)` calls the child receives (any repetitions) and every start clock, the
    shadow copy ends where one step (`paperDay`) per clock date of the child ends — including raising
    the same error.  Neither the real child's cash nor anything its parent allocates occurs. -/
theorem paperUpdates_eq_clock (cfg : Cfg K) (run : RunFn K) (calls : List Nat) (now : Option Nat)
    (pw : World K) :
    paperUpdates cfg run calls now pw = paperLoop cfg run (clockDates calls now) pw :=
  P09.paperUpdates_eq_clock cfg run calls now pw

/-- one step: `update` on row 0, `update; if not bankrupt: run; update` on any other row -/
theorem paperDay_rows (cfg : Cfg K) (run : RunFn K) (pw : World K) :
    paperDay cfg run 0 pw = updRoot cfg 0 pw ∧ ∀ d, d ≠ 0 → paperDay cfg run d pw = btDay cfg run d pw :=
  ⟨P09.paperDay_zero cfg run pw, fun _ hd => P09.paperDay_pos cfg run hd pw⟩

/-- a clock that starts on row 0 and never returns to it: one `update(0)`, then the loop of `Backtest.run`
    over the other clock dates -/
theorem paperLoop_from_row0 (cfg : Cfg K) (run : RunFn K) (ds : List Nat) (pw : World K)
    (hpos : ∀ d ∈ ds, d ≠ 0) :
    paperLoop cfg run (0 :: ds) pw = (updRoot cfg 0 pw).bind (btLoop cfg run ds) :=
  P09.paperLoop_zero_cons cfg run ds pw hpos

example : clockDates callsQ none = [0, 1, 2, 3] := by decide
example (pw : World Rat) : paperUpdates cfgQ runQ callsQ none pw =
    (updRoot cfgQ 0 pw).bind (btLoop cfgQ runQ [1, 2, 3]) := by
  rw [paperUpdates_eq_clock cfgQ runQ callsQ none pw]
  exact paperLoop_from_row0 cfgQ runQ [1, 2, 3] pw (by decide)
/-- … and on `w0Q` funded with 1000 the eight calls leave the index at 110 -/
example : ((opAdjust w0Q [] 1000 true true).bind (P09.paperUpdatesG updQ runQ callsQ none)).toOption.map
    World.price = some 110 := by decide +kernel

/-- "Regardless of how much capital its parent gives it, when, or whether it ever holds capital at all":
    run the real child (`σ`: any state, any `update`) and its shadow copy side by side through any sequence
    of events — `update(d)` calls interleaved with arbitrary operations on the real child (`P09.ChildEv.op`:
    `adjust`, `allocate`, `rebalance`, …).  Two such histories, with different real children, different
    operations, different `update`s, whose clocks change on the same dates leave the same shadow copy,
    and it is the copy stepped once per clock date. -/
theorem paper_indep_of_child {σ₁ σ₂ : Type} (cfg : Cfg K) (run : RunFn K)
    (upd₁ : Nat → σ₁ → Except Err σ₁) (upd₂ : Nat → σ₂ → Except Err σ₂)
    (evs₁ : List (P09.ChildEv σ₁)) (evs₂ : List (P09.ChildEv σ₂))
    (st₁ st₁' : P09.ChildSt σ₁ K) (st₂ st₂' : P09.ChildSt σ₂ K)
    (hpaper : st₁.paper = st₂.paper)
    (hdates : clockDates (P09.updDates evs₁) st₁.now = clockDates (P09.updDates evs₂) st₂.now)
    (h₁ : P09.childRun cfg run upd₁ evs₁ st₁ = .ok st₁')
    (h₂ : P09.childRun cfg run upd₂ evs₂ st₂ = .ok st₂') :
    st₁'.paper = st₂'.paper ∧
      paperLoop cfg run (clockDates (P09.updDates evs₁) st₁.now) st₁.paper = .ok st₁'.paper := by
  have e₁ := P09.childRun_paper cfg run upd₁ evs₁ st₁ st₁' h₁
  have e₂ := P09.childRun_paper cfg run upd₂ evs₂ st₂ st₂' h₂
  rw [P09.paperUpdates_eq_clock] at e₁ e₂
  rw [← hdates, ← hpaper] at e₂
  exact ⟨Except.ok.inj (e₁.symm.trans e₂), e₁⟩

/-- real child = its cash; history 1: updated on row 0, given 500, updated again on row 0, given 250 more;
    history 2: updated once, never funded -/
example : ∃ pw st₁' st₂',
    P09.childRun cfgQ runQ (fun _ (c : Rat) => .ok c)
      [.update 0, .op (fun c => .ok (c + 500)), .update 0, .op (fun c => .ok (c + 250))] ⟨0, none, pw⟩ = .ok st₁' ∧
    P09.childRun cfgQ runQ (fun _ (c : Rat) => .ok c) [.update 0] ⟨0, none, pw⟩ = .ok st₂' ∧
    st₁'.real = 750 ∧ st₂'.real = 0 ∧ st₁'.paper = st₂'.paper := by
  have h0 : ((opAdjust w0Q [] 1000 true true).bind fun pw =>
      (updQ 0 pw).map fun _ => ()).toOption.isSome = true := by decide +kernel
  cases hp : opAdjust w0Q [] 1000 true true with
  | error e => rw [hp] at h0; cases h0
  | ok pw =>
    rw [hp] at h0
    cases hd : updQ 0 pw with
    | error e => simp [hd, Except.toOption, Except.map] at h0
    | ok pw' =>
      have hs : paperDay cfgQ runQ 0 pw = .ok pw' := by
        rw [P09.paperDay_zero]; exact P08.updRootF_sound hd
      refine ⟨pw, ⟨750, some 0, pw'⟩, ⟨0, some 0, pw'⟩, ?_, ?_, rfl, rfl, rfl⟩
      · simp [P09.childRun, P09.childStep, paperStep, hs, Except.map]
        norm_num
      · simp [P09.childRun, P09.childStep, paperStep, hs, Except.map]

/-- the shadow copy of a run is the copy stepped once per clock date of its update events -/
theorem childRun_paper (σ : Type) (cfg : Cfg K) (run : RunFn K) (upd : Nat → σ → Except Err σ)
    (evs : List (P09.ChildEv σ)) (st st' : P09.ChildSt σ K) (h : P09.childRun cfg run upd evs st = .ok st') :
    paperLoop cfg run (clockDates (P09.updDates evs) st.now) st.paper = .ok st'.paper := by
  rw [← P09.paperUpdates_eq_clock]; exact P09.childRun_paper cfg run upd evs st st' h

example : clockDates (P09.updDates ([.update 0, .op (fun c => .ok (c + 500)), .update 0, .update 2] :
    List (P09.ChildEv Rat))) none = [0, 2] := by decide

/-! ### (2) a `run` that is silent on a row: the loop body is then one update

    (No longer a hypothesis of the main theorem - since the repair the shadow copy is not run on row 0 at all.  Kept
    as a fact about the loop body on any row: it is why, before the repair, calendar-gated sub-strategies agreed with
    their stand-alone backtests although the copy was run on row 0.) -/

/-- If `run()` leaves the tree as it found it on a row `d0` (what a closed scheduler at the
    head of the stack guarantees), the loop body `update; if not bankrupt: run; update` on that row is a
    single `update`.  In the branch where the first update finds the tree
    bankrupt `run` is not called at all (no hypothesis on it).  `NoDust` is the hypothesis of C08
    (`updRoot_idem`): the second update of the same row is then the identity. -/
theorem synthetic_row_noop (cfg : Cfg K) (htol : 0 < cfg.tol) (run : RunFn K) (d0 : Nat) (pw0 : World K)
    (hnd : P08.NoDust cfg pw0.root)
    (hgate : ∀ w1, updRoot cfg d0 pw0 = .ok w1 → w1.bankrupt = false → run d0 w1 = .ok w1) :
    btDay cfg run d0 pw0 = updRoot cfg d0 pw0 :=
  P09.btDay_gated htol hnd hgate

example : 0 < cfgQ.tol ∧ P08.NoDust cfgQ w0Q.root ∧ (∀ w1 : World Rat, runQ 0 w1 = .ok w1) ∧
    ∃ w1, updRoot cfgQ 0 w0Q = .ok w1 ∧ btDay cfgQ runQ 0 w0Q = .ok w1 ∧ w1.price = 100 := by
  refine ⟨by decide +kernel, w0Q_noDust, fun _ => rfl, ?_⟩
  have h1 : (updQ 0 w0Q).toOption.map World.price = some 100 := by decide +kernel
  cases h : updQ 0 w0Q with
  | error e => rw [h] at h1; cases h1
  | ok w1 =>
    rw [h] at h1
    have hu := P08.updRootF_sound h
    refine ⟨w1, hu, ?_, by simpa [Except.toOption] using h1⟩
    rw [synthetic_row_noop cfgQ (by decide +kernel) runQ 0 w0Q w0Q_noDust (fun _ _ _ => rfl)]
    exact hu

/-- (`NoDust` of the updated tree, which `updRoot_idem` asks for, is not a hypothesis: an update that
    returns a non-bankrupt root has not liquidated, hence moved no position.) -/
theorem updRoot_noDust_of_not_bankrupt (cfg : Cfg K) (d : Nat) (w w' : World K)
    (h : updRoot cfg d w = .ok w') (hb : w'.bankrupt = false) :
    P08.NoDust cfg w'.root ↔ P08.NoDust cfg w.root :=
  P09.updRoot_noDust_of_not_bankrupt h hb

example : ∃ w1, updRoot cfgQ 0 w0Q = .ok w1 ∧ w1.bankrupt = false ∧ P08.NoDust cfgQ w1.root := by
  have h1 : (updQ 0 w0Q).toOption.map World.bankrupt = some false := by decide +kernel
  cases h : updQ 0 w0Q with
  | error e => rw [h] at h1; cases h1
  | ok w1 =>
    rw [h] at h1
    have hu := P08.updRootF_sound h
    have hb : w1.bankrupt = false := by simpa [Except.toOption] using h1
    exact ⟨w1, hu, hb, (updRoot_noDust_of_not_bankrupt cfgQ 0 w0Q w1 hu hb).2 w0Q_noDust⟩

/-! ### (3) the shadow copy is the stand-alone backtest -/

/-- **Main theorem — for EVERY `run`.**  `pw0` is the shadow copy after `setup`, `w0` the stand-alone tree after
    `setup`; they are equal as values (deep copy of the same definition, same data).  Both are funded with the same
    capital `c` (`adjust(c)`; the code uses 1 000 000 for the shadow copy, which is also `Backtest`'s
    default).  During the parent's backtest the child receives the `update(date)` calls `calls`, and its
    clock therefore runs through `0 :: ds` — the date list of the stand-alone backtest, the dummy row 0
    first, never again (`hpos`; the dates of a run increase).  Then the shadow copy ends in exactly the state the
    stand-alone backtest ends in; if one raises so does the other, with the same error.
    There is NO hypothesis on `run` (calendar schedulers, counting schedulers, no scheduler at all, raising
    algos), none on the tree (`NoDust`, `TOL` are gone), none on the real child or its parent. -/
theorem paper_eq_standalone (cfg : Cfg K) (run : RunFn K) (c : K)
    (calls : List Nat) (ds : List Nat) (pw0 w0 : World K) (hcopy : pw0 = w0)
    (hclock : clockDates calls none = 0 :: ds) (hpos : ∀ d ∈ ds, d ≠ 0) :
    (opAdjust pw0 [] c true true).bind (paperUpdates cfg run calls none) =
      btRun cfg run c (0 :: ds) w0 := by
  subst hcopy; exact P09.paper_eq_standalone_aux hclock hpos

/-- both sides succeed on concrete data: eight calls against the dates `[0,1,2,3]`;
    the common index is 100, 100, 105, 110 -/
example : ∃ w', (opAdjust w0Q [] 1000 true true).bind (paperUpdates cfgQ runQ callsQ none) = .ok w' ∧
    btRun cfgQ runQ 1000 [0, 1, 2, 3] w0Q = .ok w' ∧ w'.price = 110 ∧
    P09.rootRPrice w' = [100, 100, 105, 110] := by
  have h1 : (P09.btRunF cfgQ 2 runQ 1000 [0, 1, 2, 3] w0Q).toOption.map
      (fun w => (w.price, P09.rootRPrice w)) = some (110, [100, 100, 105, 110]) := by decide +kernel
  cases h : P09.btRunF cfgQ 2 runQ 1000 [0, 1, 2, 3] w0Q with
  | error e => rw [h] at h1; cases h1
  | ok w' =>
    rw [h] at h1
    simp only [Except.toOption, Option.map_some, Option.some.injEq, Prod.mk.injEq] at h1
    have hb := P09.btRunF_sound h
    refine ⟨w', ?_, hb, h1.1, h1.2⟩
    rw [paper_eq_standalone cfgQ runQ 1000 callsQ [1, 2, 3] w0Q w0Q rfl (by decide) (by decide)]
    exact hb

/-- **Date for date.**  For every prefix `0 :: ds'` of the date list there is a moment of the parent's
    backtest (a prefix `calls1` of the calls, after which the child's clock has run through exactly
    `0 :: ds'`) at which the shadow copy is the stand-alone backtest run up to that date — the whole
    state, hence its price (`World.price`, what the child then takes as its own price) and the recorded
    price series.  Every `run`. -/
theorem child_index_eq (cfg : Cfg K) (run : RunFn K) (c : K)
    (calls : List Nat) (ds : List Nat) (pw0 w0 : World K) (hcopy : pw0 = w0)
    (hclock : clockDates calls none = 0 :: ds) (hpos : ∀ d ∈ ds, d ≠ 0)
    (ds' : List Nat) (hpre : ds' <+: ds) :
    ∃ calls1, calls1 <+: calls ∧ clockDates calls1 none = 0 :: ds' ∧
      (opAdjust pw0 [] c true true).bind (paperUpdates cfg run calls1 none) =
        btRun cfg run c (0 :: ds') w0 ∧
      ((opAdjust pw0 [] c true true).bind (paperUpdates cfg run calls1 none)).map World.price =
        (btRun cfg run c (0 :: ds') w0).map World.price ∧
      ((opAdjust pw0 [] c true true).bind (paperUpdates cfg run calls1 none)).map P09.rootRPrice =
        (btRun cfg run c (0 :: ds') w0).map P09.rootRPrice := by
  subst hcopy
  obtain ⟨calls1, h1, h2, h3⟩ := P09.child_index_eq_aux (run := run) (c := c) (w0 := pw0) hclock hpos ds' hpre
  exact ⟨calls1, h1, h2, h3, by rw [h3], by rw [h3]⟩

/-- the prefix `[0, 1, 2]` of `[0, 1, 2, 3]`: reached after the calls `[0, 0, 1, 1, 1, 2]`; index 105 there -/
example : [1, 2] <+: [1, 2, 3] ∧ [0, 0, 1, 1, 1, 2] <+: callsQ ∧
    clockDates [0, 0, 1, 1, 1, 2] none = [0, 1, 2] ∧
    (P09.btRunF cfgQ 2 runQ 1000 [0, 1, 2] w0Q).toOption.map World.price = some 105 :=
  ⟨by decide, by decide, by decide, by decide +kernel⟩

/-- Conversely, at every moment of the parent's backtest (after any non-empty prefix `calls1` of the calls)
    the shadow copy is the stand-alone backtest over the dates the child's clock has seen so far.  Every `run`. -/
theorem child_index_eq_at_every_call (cfg : Cfg K) (run : RunFn K) (c : K)
    (calls : List Nat) (ds : List Nat) (pw0 w0 : World K) (hcopy : pw0 = w0)
    (hclock : clockDates calls none = 0 :: ds) (hpos : ∀ d ∈ ds, d ≠ 0)
    (calls1 : List Nat) (hpre : calls1 <+: calls) (hne : calls1 ≠ []) :
    ∃ ds', ds' <+: ds ∧ clockDates calls1 none = 0 :: ds' ∧
      (opAdjust pw0 [] c true true).bind (paperUpdates cfg run calls1 none) =
        btRun cfg run c (0 :: ds') w0 := by
  subst hcopy; exact P09.child_index_eq_calls_aux hclock hpos calls1 hpre hne

example : [0, 0, 1] <+: callsQ ∧ [0, 0, 1] ≠ [] ∧ clockDates [0, 0, 1] none = [0, 1] ∧ [1] <+: [1, 2, 3] := by
  decide

/-- the stand-alone backtest over a prefix of the dates is the state the full backtest passes through -/
theorem btRun_prefix (cfg : Cfg K) (run : RunFn K) (c : K) (d0 : Nat) (ds1 ds2 : List Nat) (w0 : World K) :
    btRun cfg run c (d0 :: (ds1 ++ ds2)) w0 = (btRun cfg run c (d0 :: ds1) w0).bind (btLoop cfg run ds2) :=
  P09.btRun_prefix cfg run c d0 ds1 ds2 w0

example : btRun cfgQ runQ 1000 [0, 1, 2, 3] w0Q = (btRun cfgQ runQ 1000 [0, 1, 2] w0Q).bind (btLoop cfgQ runQ [3]) :=
  btRun_prefix cfgQ runQ 1000 0 [1, 2] [3] w0Q

/-! ### (4) that index is what the parent sees as the child's price -/

/-- `update(d)` of a paper-traded strategy — with any capital, value, flows, children — leaves as its price,
    and records in its price series at row `d`, the price of the shadow copy (`paperPx`, the input of the
    step).  Nothing of the real child enters. -/
theorem child_price_is_paper_price (cfg : Cfg K) (d : Nat) (sd sd' : StratData K) (kids kids' : List (Node K))
    (h : updNode cfg d (.strat sd kids) = .ok (.strat sd' kids')) (hp : sd.paperTrade = true) :
    sd'.price = sd.paperPx ∧ (d < sd.rPrice.length → sd'.rPrice[d]? = some sd.paperPx) :=
  P09.child_price_aux h hp

/-- a child just given 333 by its parent and holding 5 units, paper price 107: after `update(1)` its price is 107 whatever it holds -/
example : ∃ sd' kids', updNode cfgQ 1 (.strat { stratP with paperTrade := true, paperPx := 107, capital := 333, netFlows := 333 }
      [.sec { secP with position := 5 }]) = .ok (.strat sd' kids') ∧ sd'.value = 383 ∧ sd'.price = 107 ∧
      sd'.rPrice[1]? = some 107 := by
  have h1 : (P08.updNodeF cfgQ 1 2 (.strat { stratP with paperTrade := true, paperPx := 107, capital := 333, netFlows := 333 }
      [.sec { secP with position := 5 }])).toOption.map Node.value = some 383 := by decide +kernel
  cases h : P08.updNodeF cfgQ 1 2 (.strat { stratP with paperTrade := true, paperPx := 107, capital := 333, netFlows := 333 }
      [.sec { secP with position := 5 }]) with
  | error e => rw [h] at h1; cases h1
  | ok n' =>
    rw [h] at h1
    have hu := P08.updNodeF_sound _ _ _ h
    obtain ⟨sd', ks', rfl, -⟩ := P08.updNode_strat_bankrupt hu
    obtain ⟨g1, g2⟩ := child_price_is_paper_price cfgQ 1 _ sd' _ ks' hu rfl
    exact ⟨sd', ks', hu, by simpa [Except.toOption, Node.value] using h1, g1, g2 (by decide)⟩

/-- No circularity: what the parent adds up (`value`, `notional`, bid/offer paid) and the weight it assigns
    to the child read the child's value and notional, never its price. -/
theorem parent_sees_child_price (cfg : Cfg K) (bo fi : Bool) (acc : Acc K) (sd : StratData K)
    (ks : List (Node K)) (p val notl : K) :
    accAdd bo acc (.strat { sd with price := p } ks) = accAdd bo acc (.strat sd ks) ∧
    childWeight cfg fi val notl (.strat { sd with price := p } ks) = childWeight cfg fi val notl (.strat sd ks) :=
  ⟨rfl, rfl⟩

example : (accAdd true (⟨1, 2, 3, 4⟩ : Acc Rat) (.strat { stratP with value := 50, price := 7 } [])).val = 51 := by
  decide +kernel

/-! ### (5) calendar-gated stacks are silent on row 0 (facts about those stacks; no longer a hypothesis of (3)) -/

open Bt.Stack in
/-- An algo stack whose first algo returns False without touching the state, and none of whose later algos
    is marked `run_always`, leaves the state untouched (C13: the stack stops at the first False and then
    calls exactly the later `run_always` algos). -/
theorem gated_stack_noop {σ : Type} (a : AlgoFn σ) (post : List (AlgoFn σ)) (s : σ)
    (ha : a.run s = .ret false s) (hpost : ∀ x ∈ post, x.ra.on = false) :
    stackCall (a :: post) s = .ret false s := by
  have h := C13.stack_trace_first_false [] post a s s s rfl ha
  rw [List.nil_append] at h
  rw [h, List.filter_eq_nil_iff.mpr (fun x hx => by simp [hpost x hx])]
  rfl

example : Stack.stackCall [⟨.absent, fun n => .ret false n⟩, C13.bump .absent 5 true] 7 = .ret false 7 :=
  gated_stack_noop _ _ 7 rfl (by simp [C13.bump, Stack.RA.on])
/-- without the closed gate the second algo moves the counter -/
example : Stack.stackCall [C13.bump .absent 5 true] 7 = .ret true 12 := rfl

open Bt.Stack Bt.Sched Bt.Cal in
/-- C12 (`Bt.C12.index0_false`): on the synthetic first row of the data a calendar scheduler
    (`RunDaily … RunYearly`, any flags) returns False; as an algo it changes nothing. -/
theorem calendar_gate_closed_on_synthetic_row {σ : Type} (k : PeriodKind) (f : Flags) (s0 : Stamp)
    (rest : List Stamp) (hs : StrictInc (s0 :: rest)) (e : Stack.Err) (s : σ) :
    (P09.periodGate k f (s0 :: rest) (some s0) e : AlgoFn σ).run s = .ret false s := by
  simp only [P09.periodGate, C12.index0_false k f s0 rest hs]

/-- RunMonthly on the synthetic row (27 Dec 2012) of `C12.sampleIdx` -/
example : (P09.periodGate .monthly C12.startMode C12.sampleIdx (some (C12.d 2012 12 27)) .typeError :
    Stack.AlgoFn Nat).run 7 = .ret false 7 :=
  calendar_gate_closed_on_synthetic_row .monthly C12.startMode _ _ C12.sampleIdx_strictInc .typeError 7

open Bt.Stack Bt.Sched Bt.Cal in
/-- Hence the hypothesis `hgate` of (2) holds for every strategy whose stack is headed by a calendar
    scheduler and contains no `run_always` algo: on the row whose timestamp is the first label of the index
    `Strategy.run()` returns the tree as it is.  (`stamp d` = the timestamp of row `d`; the strategy's own
    stack only — a child strategy of the shadow copy has its own shadow copy and is covered by the same
    statement one level down.) -/
theorem calendar_gated_run_noop {α : Type} (toErr : Stack.Err → Err) (k : PeriodKind) (f : Flags)
    (s0 : Stamp) (rest : List Stamp) (hs : StrictInc (s0 :: rest)) (e : Stack.Err)
    (stamp : Nat → Option Stamp) (post : Nat → List (AlgoFn (World α))) (d0 : Nat)
    (hstamp : stamp d0 = some s0) (hpost : ∀ x ∈ post d0, x.ra.on = false) (w : World α) :
    P09.stackRun toErr (fun d => P09.periodGate k f (s0 :: rest) (stamp d) e :: post d) d0 w = .ok w := by
  unfold P09.stackRun
  simp only [hstamp]
  rw [gated_stack_noop _ _ w (calendar_gate_closed_on_synthetic_row k f s0 rest hs e w) hpost]

/-- a buying algo as a stack member -/
def buyAlgo : Stack.AlgoFn (World Rat) :=
  ⟨.absent, fun w => match opAllocate cfgQ w [0] 500 true with
    | .ok w' => .ret true w'
    | .error _ => .raise .typeError w⟩

/-- `[RunMonthly, buy]` on the synthetic row of `C12.sampleIdx`: `Strategy.run()` is the identity, on every tree -/
example (w : World Rat) :
    P09.stackRun (fun _ => Err.badPath)
      (fun d => P09.periodGate .monthly C12.startMode C12.sampleIdx (C12.sampleIdx[d]?) .typeError :: [buyAlgo]) 0 w
      = .ok w :=
  calendar_gated_run_noop (fun _ => Err.badPath) .monthly C12.startMode _ _ C12.sampleIdx_strictInc .typeError
    (fun d => C12.sampleIdx[d]?) (fun _ => [buyAlgo]) 0 rfl (by simp [buyAlgo, Stack.RA.on]) w

/-! ### (6) a head that acts on its first call (`RunOnce`, no scheduler): the repaired defect -/

/-- a tree whose dummy row carries a price (10, then 20 on the first real date) -/
def w0U : World Rat := ⟨.strat stratP [.sec { secP with prices := [some 10, some 20, some 20, some 20] }], false⟩

/-- a stack without a calendar head (or headed by `RunOnce`): it acts on its first call, whatever the row -/
def runU : RunFn Rat := fun d w => if d ≤ 1 then opAllocate cfgQ w [0] 500 true else .ok w

/-- position of the first child of the root -/
def posU (w : World Rat) : Option Rat :=
  match w.root with
  | .strat _ (.sec s :: _) => some s.position
  | _ => none

/-- With a `run` that acts on row 0 the loop body on that row is not the `update(dates[0])` of `Backtest.run`:
    the loop body buys 50 units on row 0 at 10 while the stand-alone backtest cannot trade before row 1.  This is
    why the shadow copy must not be given the loop body on row 0 (and since the repair it is not: `paperDay_rows`). -/
theorem ungated_run_differs : ∃ pw0 : World Rat, 0 < cfgQ.tol ∧ P08.NoDust cfgQ pw0.root ∧
    btDay cfgQ runU 0 pw0 ≠ updRoot cfgQ 0 pw0 ∧ paperDay cfgQ runU 0 pw0 = updRoot cfgQ 0 pw0 := by
  have h0 : ((opAdjust w0U [] 1000 true true).bind fun pw =>
      (P09.btDayG updQ runU 0 pw).bind fun a => (updQ 0 pw).map fun b => (posU a, posU b)).toOption
        = some (some 50, some 0) := by decide +kernel
  have hnd : P08.NoDust cfgQ w0U.root := by
    simp only [w0U, P08.noDust_strat, P08.noDust_sec, P08.NoDustL]
    decide +kernel
  cases hp : opAdjust w0U [] 1000 true true with
  | error e => rw [hp] at h0; cases h0
  | ok pw =>
    rw [hp] at h0
    refine ⟨pw, by decide +kernel, (P09.opAdjust_noDust hp).2 hnd, fun heq => ?_, P09.paperDay_zero cfgQ runU pw⟩
    cases ha : P09.btDayG updQ runU 0 pw with
    | error e => simp [ha, Except.toOption, Except.bind] at h0
    | ok a =>
      cases hb : updQ 0 pw with
      | error e => simp [ha, hb, Except.toOption, Except.bind, Except.map] at h0
      | ok b =>
        rw [P09.btDayF_sound (cfg := cfgQ) (f := 2) ha, P08.updRootF_sound hb] at heq
        cases heq
        simp only [ha, hb, Except.toOption, Except.bind, Except.map, Option.some.injEq, Prod.mk.injEq] at h0
        exact absurd (h0.1.symm.trans h0.2) (by decide +kernel)

/-- `runU` is not gated: on row 0 it would trade -/
example (w : World Rat) : runU 0 w = opAllocate cfgQ w [0] 500 true := rfl

/-- **The defect that was repaired** (`C09/index-differs:counting-scheduler-child`).  Stepping the copy with the loop
    body on every clock date, row 0 included - what `StrategyBase.update` did before the repair - leaves the copy of
    `runU` at 150 after the dates `[0,1,2,3]`, while the stand-alone backtest of the same definition stands at 100. -/
theorem unrepaired_stepping_differs :
    ((opAdjust w0U [] 1000 true true).bind (btLoop cfgQ runU [0, 1, 2, 3])).map World.price ≠
      (btRun cfgQ runU 1000 [0, 1, 2, 3] w0U).map World.price := by
  have h1 : ((opAdjust w0U [] 1000 true true).bind (P09.btLoopG updQ runU [0, 1, 2, 3])).toOption.map
      World.price = some 150 := by decide +kernel
  have h2 : (P09.btRunF cfgQ 2 runU 1000 [0, 1, 2, 3] w0U).toOption.map World.price = some 100 := by
    decide +kernel
  cases hp : opAdjust w0U [] 1000 true true with
  | error e => rw [hp] at h1; cases h1
  | ok pw =>
    rw [hp] at h1
    cases ha : P09.btLoopG updQ runU [0, 1, 2, 3] pw with
    | error e => simp [ha, Except.toOption, Except.bind] at h1
    | ok a =>
      cases hb : P09.btRunF cfgQ 2 runU 1000 [0, 1, 2, 3] w0U with
      | error e => rw [hb] at h2; cases h2
      | ok b =>
        have ha' : btLoop cfgQ runU [0, 1, 2, 3] pw = .ok a := by
          rw [P09.btLoop_eq_G]; exact P09.btLoopG_sound (P09.updRootF_Sound cfgQ 2) _ _ _ ha
        rw [P09.btRunF_sound hb, P08.bind_ok, ha']
        simp only [ha, hb, Except.toOption, Except.bind, Option.map_some, Option.some.injEq] at h1 h2
        intro heq
        simp only [Except.map, Except.ok.injEq] at heq
        rw [h1, h2] at heq
        exact absurd heq (by decide +kernel)

/-- **… and the same instance under the repaired stepping**: after the same calls the shadow copy of `runU` IS the
    stand-alone backtest of `runU` (main theorem, no hypothesis on `runU`), and both stand at 100. -/
theorem ungated_index_equal :
    (opAdjust w0U [] 1000 true true).bind (paperUpdates cfgQ runU callsQ none) = btRun cfgQ runU 1000 [0, 1, 2, 3] w0U ∧
    (btRun cfgQ runU 1000 [0, 1, 2, 3] w0U).map World.price = .ok 100 := by
  refine ⟨paper_eq_standalone cfgQ runU 1000 callsQ [1, 2, 3] w0U w0U rfl (by decide) (by decide), ?_⟩
  have h2 : (P09.btRunF cfgQ 2 runU 1000 [0, 1, 2, 3] w0U).toOption.map World.price = some 100 := by
    decide +kernel
  cases hb : P09.btRunF cfgQ 2 runU 1000 [0, 1, 2, 3] w0U with
  | error e => rw [hb] at h2; cases h2
  | ok b =>
    rw [P09.btRunF_sound hb]
    simp only [hb, Except.toOption, Option.map_some, Option.some.injEq] at h2
    simp only [Except.map, h2]

/-- same calls, same dates, same capital as in the positive instance of (3) -/
example : clockDates callsQ none = 0 :: [1, 2, 3] ∧ (∀ d ∈ [1, 2, 3], d ≠ 0) := by decide

end Bt.C09
