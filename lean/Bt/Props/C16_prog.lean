import Bt.Proofs.Program
import Bt.Proofs.ProgramEx
import Bt.Props.C16_flags
import Bt.Props.C16_terminal
/-! C16 (bankruptcy flags) for whole programs — the flag theorems of `Bt.Props.C16_flags` /
    `Bt.Props.C16_terminal` with `run := treeRun cfg tr []` (`Bt.Prog`, the validated model of complete
    backtests) and **no `RunPublic` hypothesis**: every program tree only issues public calls
    (`treeRun_public16`; helper lemmas in `Bt.Proofs.Program`, namespace `Bt.PProg`).

    The two notions of "public" in the library: `P16.RunPublic cfg run` is
    `∀ d w w', run d w = .ok w' → P08.Run cfg w w'` (no hypothesis on the clocks, no restriction on the dates of
    explicit updates); `P04.RunPublic cfg run` asks for a `P04.RunC cfg (· = d)` (explicit `root.update`s at the
    date of the call only) but only on worlds whose clocks stand at `d`.  Neither implies the other in general;
    a program satisfies both, because it is a `RunC cfg C` on every world whose clocks lie in `C`, for every `C`
    (`PProg.treeRun_runC`) — `C := (· = d)` gives C04's notion, `C := fun _ => True` gives C16's. -/
set_option linter.unusedSectionVars false
namespace Bt.C16
open Bt Bt.Prog Bt.PProg

variable {K : Type} [Field K] [LinearOrder K] [IsStrictOrderedRing K] [HasFloor K]

/-! ### every program only issues public calls -/

/-- one strategy's stack, a tree of strategies: public in the sense of C16 (unconditionally) … -/
theorem progRun_public16 (cfg : Cfg K) (p : Prog K) (path : List Nat) : P16.RunPublic cfg (progRun cfg p path) :=
  PProg.progRun_public16 p path
theorem treeRun_public16 (cfg : Cfg K) (tr : ProgTree K) (path : List Nat) :
    P16.RunPublic cfg (treeRun cfg tr path) :=
  PProg.treeRun_public16 tr path

/-- … because, on a world whose clocks lie in `C` (any `C`), they are a sequence of public calls whose explicit
    `root.update`s are at dates in `C`; with `C := (· = d)` this is C04's `RunPublic` -/
theorem treeRun_runC (cfg : Cfg K) (C : Nat → Prop) (tr : ProgTree K) (path : List Nat) (d : Nat) (w w' : World K)
    (hw : P04.WOK C w) (h : treeRun cfg tr path d w = .ok w') : P04.RunC cfg C w w' :=
  PProg.treeRun_runC tr path d w w' hw h

/-- the relation between the two notions on the states in which the engine calls `run`: C04's gives C16's
    conclusion there -/
theorem run_public_at_clock (cfg : Cfg K) (run : RunFn K) (h : P04.RunPublic cfg run) (d : Nat) (w w' : World K)
    (hw : P04.AtClock d w) (hr : run d w = .ok w') : P08.Run cfg w w' :=
  run_of_runPublic04 h hw hr

/-- the nested program on row 1 (after `adjust(1000)`, `update(0)`, `update(1)`): its stacks run, publicly -/
example : P16.RunPublic cfgE (treeRun cfgE treeParE []) ∧ P04.RunPublic cfgE (treeRun cfgE treeParE []) ∧
    ∃ w1 w', (Prog.backtest cfgE treeParE 1000 [0] wParE).bind (updRoot cfgE 1) = .ok w1 ∧
      treeRun cfgE treeParE [] 1 w1 = .ok w' ∧ P08.Run cfgE w1 w' ∧ w'.root.value = 1000 := by
  refine ⟨treeRun_public16 cfgE treeParE [], PProg.treeRun_public treeParE [], ?_⟩
  have h1 : (((Prog.backtest cfgE treeParE 1000 [0] wParE).bind (updRoot cfgE 1)).bind fun w1 =>
      (treeRun cfgE treeParE [] 1 w1).map fun w' => (w1, w')).toOption.map (fun p => p.2.root.value) =
      some 1000 := by decide +kernel
  obtain ⟨⟨w1, w'⟩, hp, hv⟩ := P16.exists_of_toOption_map h1
  obtain ⟨w1', hw1, hp⟩ := P08.bind_eq_ok hp
  obtain ⟨w2, hw2, hp⟩ := P08.map_eq_ok hp
  cases hp
  exact ⟨w1, w', hw1, hw2, treeRun_public16 cfgE treeParE [] 1 w1 w' hw2, hv⟩

/-! ### (1) sub-strategy flags, `fixedIncome`, monotonicity -/

/-- After a complete backtest of any program tree every sub-strategy flag is what it was (a sub-strategy is never
    flagged, whatever its value), every `fixedIncome` and the shape of the tree likewise; a fixed-income root is
    never flagged; a flagged root stays flagged. -/
theorem prog_sub_flags (cfg : Cfg K) (tr : ProgTree K) (capital : K) (dates : List Nat) (w w' : World K)
    (h : Prog.backtest cfg tr capital dates w = .ok w') :
    w'.root.subFlags = w.root.subFlags ∧ w'.root.fis = w.root.fis ∧ w'.root.shape = w.root.shape ∧
    (w.rootFI = true → w'.bankrupt = w.bankrupt) ∧ (w.bankrupt = true → w'.bankrupt = true) :=
  btRun_sub_flags cfg (treeRun cfg tr []) (treeRun_public16 cfg tr []) capital dates w w' h

/-- … and the same for the loop alone (from any intermediate state) -/
theorem prog_loop_sub_flags (cfg : Cfg K) (tr : ProgTree K) (ds : List Nat) (w w' : World K)
    (h : btLoop cfg (treeRun cfg tr []) ds w = .ok w') :
    w'.root.subFlags = w.root.subFlags ∧ w'.root.fis = w.root.fis ∧ w'.root.shape = w.root.shape ∧
    (w.rootFI = true → w'.bankrupt = w.bankrupt) ∧ (w.bankrupt = true → w'.bankrupt = true) :=
  btLoop_sub_flags cfg (treeRun cfg tr []) (treeRun_public16 cfg tr []) ds w w' h

/-- the nested program (root over a sub-strategy with its own stack, and `z`): the sub-strategy trades on rows 1
    and 3 and is not flagged -/
example : ∃ w', Prog.backtest cfgE treeParE 1000 [0, 1, 2, 3] wParE = .ok w' ∧ wParE.root.subFlags = [false] ∧
    w'.root.subFlags = [false] ∧ w'.root.fis = [false, false, false, false, false] ∧
    w'.root.shape = [some 2, some 2, none, none, none] ∧ w'.bankrupt = false := by
  have h1 : (Prog.backtest cfgE treeParE 1000 [0, 1, 2, 3] wParE).toOption.map
      (fun w => (w.root.subFlags, w.root.fis, w.root.shape, w.bankrupt)) =
      some ([false], [false, false, false, false, false], [some 2, some 2, none, none, none], false) := by
    decide +kernel
  obtain ⟨w', hw', hb⟩ := P16.exists_of_toOption_map h1
  simp only [Prod.mk.injEq] at hb
  exact ⟨w', hw', by decide +kernel, hb.1, hb.2.1, hb.2.2.1, hb.2.2.2⟩

/-! ### (2) flagged iff some executed `root.update` computed a triggering total -/

/-- The root is flagged after a complete backtest of a program iff it was flagged before or one of the
    `root.update` executions of the backtest (`P16.Trace`: the explicit ones of `Backtest.run`, the closing one of
    every `Rebalance`, and the `if root.stale: root.update(root.now)` of every getter read by the program's
    `close` / `rebalance` calls) computed a triggering total: negative, not `is_zero`, root not fixed-income. -/
theorem prog_flag_iff (cfg : Cfg K) (tr : ProgTree K) (capital : K) (dates : List Nat) (w w' : World K)
    (h : Prog.backtest cfg tr capital dates w = .ok w') :
    ∃ us, P16.Trace cfg w us w' ∧
      (w'.bankrupt = true ↔ w.bankrupt = true ∨ ∃ u ∈ us, u.trigger cfg = true) :=
  btRun_flag_iff cfg (treeRun cfg tr []) (treeRun_public16 cfg tr []) capital dates w w' h

/-- contrapositive: a program whose totals stay non-negative is never flagged -/
theorem prog_nonneg_never_flags (cfg : Cfg K) (tr : ProgTree K) (capital : K) (dates : List Nat) (w w' : World K)
    (h : Prog.backtest cfg tr capital dates w = .ok w') :
    ∃ us, P16.Trace cfg w us w' ∧ ((∀ u ∈ us, 0 ≤ u.total) → w'.bankrupt = w.bankrupt) :=
  btRun_nonneg_never_flags cfg (treeRun cfg tr []) (treeRun_public16 cfg tr []) capital dates w w' h

/-- `treeLevE`: 300 % of the portfolio in `x` on row 1 (cash −2000 against 300 units at 10); on row 2 `x` is at
    2: the first `update(2)` of the loop computes −1400 and flags the root -/
example : ∃ w1 w2, Prog.backtest cfgE treeLevE 1000 [0, 1] wLevE = .ok w1 ∧ w1.bankrupt = false ∧
    P16.rootTotal cfgE 2 w1 = .ok (-1400) ∧ P16.trigger cfgE w1.rootFI (-1400 : Rat) = true ∧
    Prog.backtest cfgE treeLevE 1000 [0, 1, 2] wLevE = .ok w2 ∧ w2.bankrupt = true ∧ w2.root.value = -1400 := by
  have h1 : (Prog.backtest cfgE treeLevE 1000 [0, 1] wLevE).toOption.map
      (fun w => (w.bankrupt, (P16.rootTotalE cfgE 2 3 w).toOption, P16.trigger cfgE w.rootFI (-1400 : Rat))) =
      some (false, some (-1400), true) := by decide +kernel
  have h2 : (Prog.backtest cfgE treeLevE 1000 [0, 1, 2] wLevE).toOption.map
      (fun w => (w.bankrupt, w.root.value)) = some (true, -1400) := by decide +kernel
  obtain ⟨w1, hw1, hb1⟩ := P16.exists_of_toOption_map h1
  obtain ⟨w2, hw2, hb2⟩ := P16.exists_of_toOption_map h2
  simp only [Prod.mk.injEq] at hb1 hb2
  cases ht : P16.rootTotalE cfgE 2 3 w1 with
  | error e => rw [ht] at hb1; cases hb1.2.1
  | ok v =>
    rw [ht] at hb1
    have hv : v = -1400 := by simpa [Except.toOption] using hb1.2.1
    subst hv
    exact ⟨w1, w2, hw1, hb1.1, P16.rootTotalE_sound ht, hb1.2.2, hw2, hb2.1, hb2.2⟩

/-! ### (3) once flagged, the program is irrelevant -/

/-- From a flagged root the rest of the loop of `Backtest.run` is the same for any two program trees, and is the
    loop with `root.update` only (`P16.updLoop`): no stack is run, no gate consulted. -/
theorem prog_loop_bankrupt_irrelevant (cfg : Cfg K) (tr tr' : ProgTree K) (ds : List Nat) (w : World K)
    (hb : w.bankrupt = true) :
    btLoop cfg (treeRun cfg tr []) ds w = btLoop cfg (treeRun cfg tr' []) ds w ∧
    btLoop cfg (treeRun cfg tr []) ds w = P16.updLoop cfg ds w :=
  bankrupt_run_irrelevant cfg (treeRun cfg tr []) (treeRun cfg tr' []) ds w hb

/-- **Once flagged, the rest of `Prog.backtest` does not depend on the program at all.**  If the backtest over the
    dates `d0 :: ds1` ends flagged in `wm`, the backtest over `d0 :: (ds1 ++ ds2)` is `root.update` over `ds2` from
    `wm` — which is also how the loop of any other program tree `tr'` continues from `wm`. -/
theorem prog_bankrupt_irrelevant (cfg : Cfg K) (tr tr' : ProgTree K) (capital : K) (d0 : Nat) (ds1 ds2 : List Nat)
    (w0 wm : World K) (h : Prog.backtest cfg tr capital (d0 :: ds1) w0 = .ok wm) (hb : wm.bankrupt = true) :
    Prog.backtest cfg tr capital (d0 :: (ds1 ++ ds2)) w0 = P16.updLoop cfg ds2 wm ∧
    Prog.backtest cfg tr capital (d0 :: (ds1 ++ ds2)) w0 = btLoop cfg (treeRun cfg tr' []) ds2 wm := by
  have e := backtest_bankrupt_rest tr capital d0 ds1 ds2 w0 wm h hb
  exact ⟨e, by rw [e, P16.btLoop_bankrupt _ ds2 hb]⟩

/-- `treeLevE` is flagged after rows `[0, 1, 2]`; row 3 (where its gate is open again) is one `root.update`, and
    `treeBadE` — whose sub-program would raise `badPath` the moment it ran — continues in exactly the same way -/
example : ∃ wm w', Prog.backtest cfgE treeLevE 1000 (0 :: [1, 2]) wLevE = .ok wm ∧ wm.bankrupt = true ∧
    Prog.backtest cfgE treeLevE 1000 (0 :: ([1, 2] ++ [3])) wLevE = .ok w' ∧
    btLoop cfgE (treeRun cfgE treeBadE []) [3] wm = .ok w' ∧ P16.updLoop cfgE [3] wm = .ok w' ∧
    w'.root.value = -1400 ∧ treeRun cfgE treeBadE [] 3 wLevE = .error .badPath := by
  have h1 : (Prog.backtest cfgE treeLevE 1000 [0, 1, 2] wLevE).toOption.map (·.bankrupt) = some true := by
    decide +kernel
  have h2 : (Prog.backtest cfgE treeLevE 1000 [0, 1, 2, 3] wLevE).toOption.map (·.root.value) = some (-1400) := by
    decide +kernel
  obtain ⟨wm, hwm, hb⟩ := P16.exists_of_toOption_map h1
  obtain ⟨w', hw', hv⟩ := P16.exists_of_toOption_map h2
  obtain ⟨e1, e2⟩ := prog_bankrupt_irrelevant cfgE treeLevE treeBadE 1000 0 [1, 2] [3] wLevE wm hwm hb
  exact ⟨wm, w', hwm, hb, hw', e2.symm.trans hw', e1.symm.trans hw', hv, raisedE_sound (by decide +kernel)⟩

end Bt.C16
