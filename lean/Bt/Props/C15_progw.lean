import Bt.Proofs.ProgramW
import Bt.Props.C15
/-! C15 (weighting) inside whole programs.  The extended whole-program model (`Bt/Algos/ProgramX.lean`) executes stacks
    `[RunPeriod, selection algos …, WeighEqually | WeighSpecified, post …, (SetCash,) Rebalance]` where `post` is any sequence of
    `ScaleWeights(s)` (`.scale`), `LimitWeights(l)` (`.limitW`, with `ffn.limit_weights`) and `LimitDeltas(limit)` (`.limitD`); the
    `whole-run-x` protocol compares it with complete real backtests.  Here:
      (a) what `Rebalance` is handed: exactly the post steps applied in stack order to the weigher's output, on the world the
          stack started on or on its refresh (`progRunX_hands_post_weights`, `progRunX_ok_factors`, `post_world`);
      (b) with `LimitWeights l` last every weight handed over is `≤ l`, the names are kept (or all dropped) and the total is
          preserved for positive weights that sum to one (`limitWeights_last`, end to end for `WeighEqually`:
          `equally_limitWeights`) — corollaries of C15's `limitWeights_cap` / `limitWeights_cap_sum`;
      (c) with `ScaleWeights s` last the handed weights are `s ×` the previous ones, name by name and in total (`scaleWeights_last`);
      (d) a day on which the gate is closed or a selector returns False leaves the world unchanged (`progRunX_idle`);
      (e) with `LimitDeltas` last every iterated name with a non-negative limit ends within the limit of the child's current
          weight, read on the refreshed tree (`limitDeltas_last`); the key-ordered fold of the model has the entries of C15's
          `limitDeltas` (`limitDeltasOrd_eq_limitDeltas`).
    Helper lemmas: `Bt.Proofs.ProgramW` (namespace `Bt.PProgW`). -/
set_option linter.unusedSectionVars false
namespace Bt.C15W
open Bt Bt.P08 Bt.P04 Bt.Prog Bt.PProg Bt.PProgX Bt.PProgW Bt.Select Bt.Weigh

variable {K : Type} [Field K] [LinearOrder K] [IsStrictOrderedRing K] [HasFloor K] [Select.HasNatFloor K]

/-! ### (a) what `Rebalance` is handed -/

/-- **unfolding**: gate open, every selector answered `sel`, the weigher produced `ws0`: the day's run is the post steps on
    `(w, ws0)` followed by `Rebalance` on the resulting world with the resulting weights and the stack's `temp['cash']` -/
theorem progRunX_hands_post_weights (cfg : Cfg K) (p : ProgX K) (path : List Nat) (d : Nat) (w : World K)
    (sd : StratData K) (kids : List (Node K)) (sel : Option (List Nat)) (ws0 : List (Nat × K))
    (hg : p.gate.getD d false = true) (hn : w.root.get? path = some (.strat sd kids))
    (hs : selSteps (tableOf p.ucols kids d) d p.sels none = .ok (some sel))
    (hw : weigherX p d sel = .ok (some ws0)) :
    progRunX cfg p path d w =
      (postSteps cfg path p.post (w, ws0)).bind fun s => algoRebalance cfg s.1 path s.2 p.cash none :=
  progRunX_unfoldX hg hn hs hw

/-- … so a successful day factors through the weights handed over; without a `CloseDead` among the post steps the world
    `Rebalance` starts on is the day's world or its refresh (the refreshing getter `LimitDeltas` reads the children's weights
    through) -/
theorem progRunX_ok_factors (cfg : Cfg K) (p : ProgX K) (path : List Nat) (d : Nat) (w w' : World K)
    (sd : StratData K) (kids : List (Node K)) (sel : Option (List Nat)) (ws0 : List (Nat × K))
    (hg : p.gate.getD d false = true) (hn : w.root.get? path = some (.strat sd kids))
    (hs : selSteps (tableOf p.ucols kids d) d p.sels none = .ok (some sel))
    (hw : weigherX p d sel = .ok (some ws0)) (hnc : ∀ st ∈ p.post, WStep.isClose st = false)
    (h : progRunX cfg p path d w = .ok w') :
    ∃ w1 ws, postSteps cfg path p.post (w, ws0) = .ok (w1, ws) ∧ (w1 = w ∨ refresh cfg w = .ok w1) ∧
      algoRebalance cfg w1 path ws p.cash none = .ok w' := by
  rw [progRunX_unfoldX hg hn hs hw] at h
  obtain ⟨⟨w1, ws⟩, h1, h2⟩ := bind_eq_ok h
  exact ⟨w1, ws, h1, postSteps_world _ hnc h1, h2⟩

/-- the post steps in stack order: nothing for `[]`, first step then the rest -/
theorem post_order (cfg : Cfg K) (path : List Nat) (st : WStep K) (rest : List (WStep K)) (s : World K × List (Nat × K)) :
    postSteps cfg path [] s = .ok s ∧
    postSteps cfg path (st :: rest) s = (postStep cfg path st s).bind (postSteps cfg path rest) :=
  ⟨postSteps_nil path s, postSteps_cons path st rest s⟩

/-- without `LimitDeltas` among them the post steps do not touch the world at all -/
theorem post_world (cfg : Cfg K) (path : List Nat) (sts : List (WStep K)) (w w1 : World K) (ws0 ws : List (Nat × K))
    (hp : ∀ st ∈ sts, WStep.isLimitD st = false) (h : postSteps cfg path sts (w, ws0) = .ok (w1, ws)) : w1 = w :=
  postSteps_world_pure sts hp h

/-! ### (b) `LimitWeights` last -/

/-- **capped weights reach `Rebalance`**: whatever precedes it, when `LimitWeights l` is the last post step every weight
    handed over is `≤ l`, the names are those that entered the step (or none at all); if the weights entering the step are
    positive, sum to one and the cap is feasible (`1/n ≤ l`), names are kept, weights stay positive and the total is still one -/
theorem limitWeights_last (cfg : Cfg K) (path : List Nat) (pre : List (WStep K)) (l : K) (w w1 : World K)
    (ws0 ws : List (Nat × K)) (h : postSteps cfg path (pre ++ [.limitW l]) (w, ws0) = .ok (w1, ws)) :
    ∃ wsm, postSteps cfg path pre (w, ws0) = .ok (w1, wsm) ∧ limitWeights l wsm = .done ws ∧
      (∀ q ∈ ws, q.2 ≤ l) ∧ (ws = [] ∨ dictKeys ws = dictKeys wsm) ∧
      (wsm ≠ [] → (∀ q ∈ wsm, 0 < q.2) → sumA (dictVals wsm) = 1 → 1 / (wsm.length : K) ≤ l →
        dictKeys ws = dictKeys wsm ∧ (∀ q ∈ ws, 0 < q.2) ∧ sumA (dictVals ws) = 1) := by
  obtain ⟨⟨wm, wsm⟩, hpre, hlast⟩ := postSteps_snoc_ok h
  obtain ⟨hw, hdone⟩ := postStep_limitW_ok hlast
  subst hw
  obtain ⟨hcap, hkeys⟩ := C15.limitWeights_cap l wsm ws hdone
  refine ⟨wsm, hpre, hdone, hcap, hkeys, ?_⟩
  intro hne hpos hsum hfeas
  obtain ⟨res, hres, hk, _, hp, hs⟩ := (C15.limitWeights_cap_sum l wsm hne hpos hsum).2 hfeas
  rw [hdone] at hres
  cases hres
  exact ⟨hk, hp, hs⟩

/-- **`WeighEqually` then `LimitWeights l`** on a non-empty selection with a feasible cap: the names handed to `Rebalance` are
    the selection, every weight is `≤ l`, the total is one, and the world is untouched -/
theorem equally_limitWeights (cfg : Cfg K) (path : List Nat) (sel : List Nat) (hne : sel ≠ []) (l : K)
    (hfeas : 1 / (sel.length : K) ≤ l) (w w1 : World K) (ws : List (Nat × K))
    (h : postSteps cfg path [.limitW l] (w, Prog.weights .equally sel) = .ok (w1, ws)) :
    w1 = w ∧ dictKeys ws = sel ∧ (∀ q ∈ ws, q.2 ≤ l) ∧ sumA (dictVals ws) = 1 := by
  have hn : (0 : K) < (sel.length : K) := by exact_mod_cast List.length_pos_of_ne_nil hne
  have hw0 : Prog.weights (.equally : Wgh K) sel = sel.map fun i => (i, (1 : K) / (sel.length : K)) := by
    cases sel with
    | nil => exact absurd rfl hne
    | cons a t => rfl
  rw [hw0] at h
  obtain ⟨wsm, hpre, _, hcap, _, htot⟩ := limitWeights_last cfg path [] l w w1 _ ws h
  rw [postSteps_nil] at hpre
  cases hpre
  have hlen : (sel.map fun i => (i, (1 : K) / (sel.length : K))).length = sel.length := List.length_map _
  have hvals : dictVals (sel.map fun i => (i, (1 : K) / (sel.length : K))) = sel.map fun _ => (1 : K) / (sel.length : K) := by
    simp [dictVals, List.map_map, Function.comp_def]
  have hkeys0 : dictKeys (sel.map fun i => (i, (1 : K) / (sel.length : K))) = sel := by
    simp [dictKeys, List.map_map, Function.comp_def]
  obtain ⟨hk, _, hs⟩ := htot (by simpa using hne)
    (by intro q hq; rw [List.mem_map] at hq; obtain ⟨i, _, rfl⟩ := hq; exact div_pos one_pos hn)
    (by rw [hvals, sumA_map_const]; field_simp)
    (by rw [hlen]; exact hfeas)
  exact ⟨postSteps_world_pure [.limitW l] (by simp [WStep.isLimitD]) h, hk.trans hkeys0, hcap, hs⟩

/-! ### (c) `ScaleWeights` last -/

/-- **scaled weights reach `Rebalance`**: with `ScaleWeights s` last the weights handed over are `s ×` those that entered the
    step — same names in the same order, name by name, and in total -/
theorem scaleWeights_last (cfg : Cfg K) (path : List Nat) (pre : List (WStep K)) (s : K) (w w1 : World K)
    (ws0 ws : List (Nat × K)) (h : postSteps cfg path (pre ++ [.scale s]) (w, ws0) = .ok (w1, ws)) :
    ∃ wsm, postSteps cfg path pre (w, ws0) = .ok (w1, wsm) ∧ ws = scaleWeights s wsm ∧
      dictKeys ws = dictKeys wsm ∧ (∀ k, dictGet ws k = (dictGet wsm k).map fun x => s * x) ∧
      sumA (dictVals ws) = s * sumA (dictVals wsm) := by
  obtain ⟨⟨wm, wsm⟩, hpre, hlast⟩ := postSteps_snoc_ok h
  rw [postStep_scale] at hlast
  cases hlast
  obtain ⟨h1, _, h3, h4⟩ := C15.scale_linear s wsm
  exact ⟨wsm, hpre, rfl, h1, h3, h4⟩

/-- the stack `[…, weigher, ScaleWeights s, Rebalance]`: `Rebalance` is handed weights that sum to `s ×` the weigher's total,
    on the untouched world -/
theorem scaleWeights_only (cfg : Cfg K) (path : List Nat) (s : K) (w : World K) (ws0 : List (Nat × K)) :
    postSteps cfg path [.scale s] (w, ws0) = .ok (w, scaleWeights s ws0) ∧
    sumA (dictVals (scaleWeights s ws0)) = s * sumA (dictVals ws0) :=
  ⟨by rw [postSteps_single, postStep_scale], (C15.scale_linear s ws0).2.2.2⟩

/-! ### (d) idle days -/

/-- **a day on which the gate is closed, or on which some selector returns False, leaves the world unchanged** -/
theorem progRunX_idle (cfg : Cfg K) (p : ProgX K) (path : List Nat) (d : Nat) (w : World K)
    (h : p.gate.getD d false = false ∨
      ∃ sd kids, w.root.get? path = some (.strat sd kids) ∧
        selSteps (tableOf p.ucols kids d) d p.sels none = .ok none) :
    progRunX cfg p path d w = .ok w := by
  rcases h with h | ⟨sd, kids, hn, hs⟩
  · exact progRunX_gate_closed p path d w h
  · exact progRunX_sel_false hn hs

/-! ### (e) `LimitDeltas` last -/

/-- the model's key-ordered `LimitDeltas` has the entries of C15's `limitDeltas` (so `C15.limitDeltas_bound`,
    `limitDeltas_untouched`, `limitDeltas_clip` speak about it) whenever the iteration covers the names of the weights and of
    the children, limits being non-negative; only the position of names new to the dict depends on the order -/
theorem limitDeltasOrd_eq_limitDeltas (order : List Nat) (lim : Nat → Option K) (cur tw : Dict Nat K)
    (hcov : ∀ k, k ∈ ldKeys cur tw → k ∈ order) (hl : ∀ k l, lim k = some l → 0 ≤ l) (k : Nat) :
    dictGet (limitDeltasOrd order lim cur tw) k = dictGet (limitDeltas lim cur tw) k :=
  limitDeltasOrd_get order lim cur tw hcov hl k

/-- ... and it does depend on it: two held names that are not targeted (current weights 1/2 and 1/4, limit 1/10, empty target vector)
    enter `temp['weights']` in the order of the iteration - the mechanism behind the hash-seed dependence of `LimitDeltas` repaired
    in 44c2109 (the iteration was over a `set` of strings; `Rebalance` trades in the order of the dict) -, with the same entries -/
example : limitDeltasOrd [0, 1] (fun _ => some (1/10 : Rat)) [(0, 1/2), (1, 1/4)] [] = [(0, 2/5), (1, 3/20)] ∧
    limitDeltasOrd [1, 0] (fun _ => some (1/10 : Rat)) [(0, 1/2), (1, 1/4)] [] = [(1, 3/20), (0, 2/5)] ∧
    (∀ k, dictGet (limitDeltasOrd [0, 1] (fun _ => some (1/10 : Rat)) [(0, 1/2), (1, 1/4)] []) k =
      dictGet (limitDeltasOrd [1, 0] (fun _ => some (1/10 : Rat)) [(0, 1/2), (1, 1/4)] []) k) := by
  refine ⟨by decide +kernel, by decide +kernel, fun k => ?_⟩
  rw [limitDeltasOrd_eq_limitDeltas [0, 1] _ _ _ (by decide) (fun _ l h => by cases h; norm_num) k,
    limitDeltasOrd_eq_limitDeltas [1, 0] _ _ _ (by decide) (fun _ l h => by cases h; norm_num) k]

/-- **per-period change bounded on the way to `Rebalance`**: with `LimitDeltas` last on a strategy that has children, the tree
    is first brought up to date (`refresh`), and every iterated name `k` with a non-negative limit `l` is handed over with a
    weight (absent = 0) within `l` of the child's current weight on the refreshed tree (absent = 0) -/
theorem limitDeltas_last (cfg : Cfg K) (path : List Nat) (pre : List (WStep K)) (order : List Nat) (glob : Option K)
    (per : List (Nat × K)) (w w1 : World K) (ws0 ws : List (Nat × K))
    (h : postSteps cfg path (pre ++ [.limitD order glob per]) (w, ws0) = .ok (w1, ws))
    (hkids : ∀ wm wsm, postSteps cfg path pre (w, ws0) = .ok (wm, wsm) →
      ∃ sd0 kids0, wm.root.get? path = some (.strat sd0 kids0) ∧ kids0 ≠ []) :
    ∃ wm wsm sd kids, postSteps cfg path pre (w, ws0) = .ok (wm, wsm) ∧ refresh cfg wm = .ok w1 ∧
      w1.root.get? path = some (.strat sd kids) ∧
      ws = limitDeltasOrd order (ldLim glob per) (curWeights kids) wsm ∧
      ∀ k l, k ∈ order → ldLim glob per k = some l → 0 ≤ l →
        |dictGetD ws k 0 - dictGetD (curWeights kids) k 0| ≤ l := by
  obtain ⟨⟨wm, wsm⟩, hpre, hlast⟩ := postSteps_snoc_ok h
  obtain ⟨sd0, kids0, hn, hne⟩ := hkids wm wsm hpre
  obtain ⟨hr, sd, kids, hk, hws⟩ := postStep_limitD_ok hn hne hlast
  refine ⟨wm, wsm, sd, kids, hpre, hr, hk, hws, ?_⟩
  intro k l hko hlim hl
  have hs := foldl_mem_settled (ldLim glob per) (curWeights kids) order wsm k hko
    (fun l' h' => by rw [hlim] at h'; cases h'; exact hl)
  rw [hws]
  unfold limitDeltasOrd
  unfold Settled at hs
  rw [hlim] at hs
  exact (ldNew_none_iff _ _ _).mp hs

/-! ### non-vacuity: concrete programs (`Bt.Proofs.ProgramW`) -/

/-- 70/20/10 capped at 50% is 50 / 33⅓ / 16⅔; halved it is 25 / 16⅔ / 8⅓ -/
theorem wsW_limit : limitWeights (1/2 : Rat) wsW = .done [(0, 1/2), (1, 1/3), (2, 1/6)] := by decide +kernel

theorem progWL_post (w : World Rat) :
    postSteps cfgE [] progWL.post (w, wsW) = .ok (w, [(0, 1/4), (1, 1/6), (2, 1/12)]) := by
  show postSteps cfgE [] [.limitW (1/2), .scale (1/2)] (w, wsW) = _
  rw [postSteps_cons]
  have e : postStep cfgE [] (.limitW (1/2)) (w, wsW) = .ok (w, [(0, 1/2), (1, 1/3), (2, 1/6)]) := by
    simp only [postStep, wsW_limit]; rfl
  rw [e, bind_ok', postSteps_single, postStep_scale]
  congr 2
  decide +kernel

/-- (a), (c): the hypotheses of the unfolding hold for `progWL` on row 1 of data set A, and the weights handed to `Rebalance`
    are the capped and halved ones; a whole backtest over that row ends with exactly these weights in the children -/
example : ∃ sd kids sel, progWL.gate.getD 1 false = true ∧ wXA.root.get? [] = some (.strat sd kids) ∧
    selSteps (tableOf progWL.ucols kids 1) 1 progWL.sels none = .ok (some sel) ∧
    weigherX progWL 1 sel = .ok (some wsW) ∧
    progRunX cfgE progWL [] 1 wXA = algoRebalance cfgE wXA [] [(0, 1/4), (1, 1/6), (2, 1/12)] none none ∧
    (btRun cfgE (treeRunG gtreeWL []) 1000 [0, 1] wXA).toOption.map rootWeights =
      some [(0, 1/4), (1, 1/6), (2, 1/12)] := by
  have hs : selSteps (tableOf progWL.ucols [.sec xE, .sec yE, .sec zE] 1) 1 progWL.sels none =
      .ok (some (some [0, 1, 2])) := by decide +kernel
  refine ⟨stratE "root" false, [.sec xE, .sec yE, .sec zE], some [0, 1, 2], rfl, rfl, hs, rfl, ?_, by decide +kernel⟩
  rw [progRunX_hands_post_weights cfgE progWL [] 1 wXA _ _ _ wsW rfl rfl hs rfl, progWL_post, bind_ok']
  rfl

/-- (b): `limitWeights_last` applies to `progWL`'s first post step: every capped weight is at most 1/2, total one -/
example (w : World Rat) : ∃ ws, postSteps cfgE [] ([] ++ [.limitW (1/2 : Rat)]) (w, wsW) = .ok (w, ws) ∧
    (∀ q ∈ ws, q.2 ≤ 1/2) ∧ sumA (dictVals ws) = 1 := by
  have e : postSteps cfgE [] ([] ++ [.limitW (1/2 : Rat)]) (w, wsW) = .ok (w, [(0, 1/2), (1, 1/3), (2, 1/6)]) := by
    rw [List.nil_append, postSteps_single]; simp only [postStep, wsW_limit]; rfl
  obtain ⟨wsm, hpre, _, hcap, _, htot⟩ := limitWeights_last cfgE [] [] (1/2) w w wsW _ e
  rw [postSteps_nil] at hpre
  cases hpre
  exact ⟨_, e, hcap, (htot (by decide) (by decide +kernel) (by decide +kernel) (by decide +kernel)).2.2⟩

/-- (b): `WeighEqually` over three names, capped at 40%: handed over as they are (1/3 each ≤ 2/5) -/
example (w : World Rat) : ∃ ws, postSteps cfgE [] [.limitW (2/5 : Rat)] (w, Prog.weights .equally [0, 1, 2]) = .ok (w, ws) ∧
    dictKeys ws = [0, 1, 2] ∧ (∀ q ∈ ws, q.2 ≤ 2/5) ∧ sumA (dictVals ws) = 1 := by
  have e0 : limitWeights (2/5 : Rat) (Prog.weights .equally [0, 1, 2]) = .done [(0, 1/3), (1, 1/3), (2, 1/3)] := by
    decide +kernel
  have e : postSteps cfgE [] [.limitW (2/5 : Rat)] (w, Prog.weights .equally [0, 1, 2]) =
      .ok (w, [(0, 1/3), (1, 1/3), (2, 1/3)]) := by
    rw [postSteps_single]; simp only [postStep, e0]; rfl
  obtain ⟨_, hk, hcap, hs⟩ := equally_limitWeights cfgE [] [0, 1, 2] (by decide) (2/5) (by decide +kernel) w w _ e
  exact ⟨_, e, hk, hcap, hs⟩

/-- (d): `progWL` on the synthetic row (gate closed), and a momentum stack whose selector has no window yet -/
example (w : World Rat) : progRunX cfgE progWL [] 0 w = .ok w :=
  progRunX_idle cfgE progWL [] 0 w (Or.inl rfl)

example : progRunX cfgE { progXE with gate := [true, true, true, true] } [] 0 wXA = .ok wXA :=
  progRunX_idle cfgE _ [] 0 wXA (Or.inr ⟨stratE "root" false, [.sec xE, .sec yE, .sec zE], rfl, by decide +kernel⟩)

/-- (e): `progWD` (`LimitDeltas(0.1)`, `SetCash(0.25)`) from an empty portfolio: the first day moves every name by the limit
    (times the 75% that is not set aside), later days keep moving `x` towards 70% in steps bounded by the limit -/
example : (btRun cfgE (treeRunG gtreeWD []) 1000 [0, 1] wXA).toOption.map rootWeights =
      some [(0, 3/40), (1, 3/40), (2, 3/40)] ∧
    (btRun cfgE (treeRunG gtreeWD []) 1000 [0, 1, 2, 3] wXA).toOption.map (fun w => (rootWeights w).map (·.2) ) =
      some [46211883 / 252270440, 3/20, 3/40] := by
  constructor <;> decide +kernel

/-- (e): the hypotheses of `limitDeltas_last` hold on the fresh tree of data set A (three children): the weights handed over
    are the targets clipped to one limit away from the current (zero) weights -/
example : ∃ ws, postSteps cfgE [] ([] ++ [.limitD [2, 0, 1] (some (1/10 : Rat)) []]) (wXA, wsW) = .ok (wXA, ws) ∧
    ∀ k ∈ [2, 0, 1], |dictGetD ws k 0 - 0| ≤ (1/10 : Rat) := by
  have hr : refresh cfgE wXA = .ok wXA := refresh_of_fresh rfl
  have e : postSteps cfgE [] ([] ++ [.limitD [2, 0, 1] (some (1/10 : Rat)) []]) (wXA, wsW) =
      .ok (wXA, [(0, 1/10), (1, 1/10), (2, 1/10)]) := by
    rw [List.nil_append, postSteps_single]
    have hn : wXA.root.get? [] = some (.strat (stratE "root" false) [.sec xE, .sec yE, .sec zE]) := rfl
    simp only [postStep, hn, hr]
    show Except.ok (wXA, limitDeltasOrd [2, 0, 1] (ldLim (some (1/10 : Rat)) []) (curWeights [.sec xE, .sec yE, .sec zE]) wsW) = _
    congr 2
    decide +kernel
  refine ⟨_, e, ?_⟩
  obtain ⟨wm, wsm, sd, kids, hpre, hrm, hk, _, hb⟩ := limitDeltas_last cfgE [] [] [2, 0, 1] (some (1/10)) [] wXA wXA wsW _ e
    (fun wm wsm hp => by
      rw [postSteps_nil] at hp; cases hp
      exact ⟨_, _, rfl, by simp⟩)
  have hk' : (Node.strat sd kids : Node Rat) = .strat (stratE "root" false) [.sec xE, .sec yE, .sec zE] := by
    have : wXA.root.get? [] = some (.strat (stratE "root" false) [.sec xE, .sec yE, .sec zE]) := rfl
    rw [this] at hk; exact (Option.some.inj hk).symm
  injection hk' with _ hkids
  subst hkids
  intro k hko
  have := hb k (1/10) hko rfl (by decide +kernel)
  have hz : dictGetD (curWeights [Node.sec xE, .sec yE, .sec zE]) k 0 = (0 : Rat) := by
    simp only [List.mem_cons, List.not_mem_nil, or_false] at hko
    rcases hko with rfl | rfl | rfl <;> decide +kernel
  rwa [hz] at this

end Bt.C15W
