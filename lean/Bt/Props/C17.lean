import Bt.Proofs.FixedIncome
/-! C17 — fixed-income accounting (property theorems only; helper lemmas live in
    `Bt.Proofs.FixedIncome`). -/
set_option linter.unusedSectionVars false
set_option linter.unusedVariables false
namespace Bt.C17
open Bt Bt.Alloc Bt.FI

variable {K : Type} [Field K] [LinearOrder K] [IsStrictOrderedRing K] [HasFloor K]

/-! ### (1) notional value by kind of security -/

/-- After a successful `update`: an ordinary security's notional is its market value (on the early
    return nothing at all changes); a fixed-income or coupon-paying security's notional is its position
    (par) — also on the early return; a hedge security's notional is zero and so is its whole notional
    series. -/
theorem notional_by_kind (cfg : Cfg K) (d : Nat) (s s' : SecData K) (h : secUpdate cfg d s = .ok s') :
    (s.kind = .plain → (secEarly d s = false → s'.notl = s'.value) ∧ (secEarly d s = true → s' = s)) ∧
    (s.kind = .fi ∨ s.kind = .coupon → s'.notl = s'.position) ∧
    (s.kind = .hedge ∨ s.kind = .couponHedge → s'.notl = 0 ∧ ∀ x ∈ s'.rNotl, x = 0) := by
  obtain ⟨s1, hb, hp, hf, hh, hc, hch⟩ := secUpdate_inv cfg d s s' h
  refine ⟨?_, ?_, ?_⟩
  · intro hk
    rw [hp hk]
    rcases secBaseUpdate_inv cfg d s s1 hb with ⟨he, rfl⟩ | ⟨he, v, _, rfl⟩
    · exact ⟨fun h' => (by rw [he] at h'; cases h'), fun _ => rfl⟩
    · refine ⟨fun _ => ?_, fun h' => by rw [he] at h'; cases h'⟩
      rw [(secBaseBody_notl cfg d v s).1, (secBaseBody_notl cfg d v s).2]
  · rintro (hk | hk)
    · rw [hf hk]; rfl
    · obtain ⟨cpn, hc', _, _, rfl⟩ := secCouponTail_inv cfg d _ _ (hc hk)
      rfl
  · rintro (hk | hk)
    · rw [hh hk]
      refine ⟨rfl, fun x hx => ?_⟩
      simp only [secHedgeTail, List.mem_map] at hx
      obtain ⟨_, _, rfl⟩ := hx; rfl
    · obtain ⟨s2, _, rfl⟩ := hch hk
      refine ⟨rfl, fun x hx => ?_⟩
      simp only [secHedgeTail, List.mem_map] at hx
      obtain ⟨_, _, rfl⟩ := hx; rfl

-- position 5 at price 3 on date 1: plain → notional 15 = value; fi / coupon → 5 = position;
-- hedge / coupon-hedge → 0 with a zero-filled series
example :
    secView (secUpdate cfgQ 1 (mkS .plain 5 [some 2, some 3, some 4] [] none none))
      = .ok ([5, 15, 15, 0, 0, 0], [7, 15, 7]) ∧
    secView (secUpdate cfgQ 1 (mkS .fi 5 [some 2, some 3, some 4] [] none none))
      = .ok ([5, 15, 5, 0, 0, 0], [7, 5, 7]) ∧
    secView (secUpdate cfgQ 1 (mkS .coupon 5 [some 2, some 3, some 4] [some 1, some 2, some 3] none none))
      = .ok ([5, 15, 5, 10, 0, 10], [7, 5, 7]) ∧
    secView (secUpdate cfgQ 1 (mkS .hedge 5 [some 2, some 3, some 4] [] none none))
      = .ok ([5, 15, 0, 0, 0, 0], [0, 0, 0]) ∧
    secView (secUpdate cfgQ 1 (mkS .couponHedge 5 [some 2, some 3, some 4] [some 1, some 2, some 3] none none))
      = .ok ([5, 15, 0, 10, 0, 10], [0, 0, 0]) ∧
    secEarly 1 (mkS .plain 5 [some 2, some 3, some 4] [] none none) = false := by
  decide +kernel

/-- The date's row of the notional series of a fixed-income / coupon-paying security that went through
    the base update holds the position too. -/
theorem notional_row_fi (cfg : Cfg K) (d : Nat) (s s' : SecData K) (h : secUpdate cfg d s = .ok s')
    (hk : s.kind = .fi ∨ s.kind = .coupon) (hd : d < s'.rNotl.length) : s'.rNotl[d]? = some s'.position := by
  obtain ⟨s1, hb, _, hf, _, hc, _⟩ := secUpdate_inv cfg d s s' h
  rcases hk with hk | hk
  · rw [hf hk] at hd ⊢
    simp only [secFiTail, List.length_set] at hd
    simp [secFiTail, hd]
  · obtain ⟨cpn, hc', _, _, rfl⟩ := secCouponTail_inv cfg d _ _ (hc hk)
    simp only [secFiTail, List.length_set] at hd
    simp [secFiTail, hd]

example : (secUpdate cfgQ 1 (mkS .fi 5 [some 2, some 3, some 4] [] none none)).map
      (fun s => (s.rNotl[1]?, s.position, decide (1 < s.rNotl.length))) = .ok (some 5, 5, true) := by
  decide +kernel

/-! ### (2) coupon accrual -/

/-- Each update of a coupon-paying security accrues `position × coupon_d`, less the holding cost
    (`position × cost_long_d` when long and a long-cost column exists, `−position × cost_short_d` when
    short and a short-cost column exists, otherwise nothing); the difference is parked in `capital`,
    and both amounts are recorded in the date's rows. The position is the one the update was entered
    with. A missing coupon with a flat position accrues 0. -/
theorem coupon_accrual (cfg : Cfg K) (d : Nat) (s s' : SecData K)
    (hk : s.kind = .coupon ∨ s.kind = .couponHedge) (h : secUpdate cfg d s = .ok s') :
    (∀ c, cell s.coupons d = some c → s'.coupon = s'.position * c) ∧
    (cell s.coupons d = none → s'.coupon = 0 ∧ isZero cfg.tol s'.position = true) ∧
    (0 < s'.position → ∀ col, s.costLong = some col →
        ∃ c, cell col d = some c ∧ s'.holdingCost = s'.position * c) ∧
    (s'.position < 0 → ∀ col, s.costShort = some col →
        ∃ c, cell col d = some c ∧ s'.holdingCost = -s'.position * c) ∧
    ((0 < s'.position → s.costLong = none) → (s'.position < 0 → s.costShort = none) →
        s'.holdingCost = 0) ∧
    s'.capital = s'.coupon - s'.holdingCost ∧
    (d < s.rCoupon.length → s'.rCoupon[d]? = some s'.coupon) ∧
    (d < s.rHolding.length → s'.rHolding[d]? = some s'.holdingCost) ∧
    s'.position = s.position := by
  obtain ⟨⟨c1, c2⟩, ⟨h1, h2, h3⟩, hcap, hpos, hrc, hrh⟩ := secUpdate_coupon_inv cfg d s s' hk h
  rw [hpos]
  refine ⟨c1, c2, h1, h2, h3, hcap, ?_, ?_, rfl⟩
  · intro hd; rw [hrc]; simp [hd]
  · intro hd; rw [hrh]; simp [hd]

-- long 5 with a long-cost column: coupon 5·2 = 10, cost 5·(1/2), parked 15/2
-- short 4 with a short-cost column: coupon −4·2 = −8, cost 4·(1/4) = 1, parked −9
-- long 5 with only a short-cost column: no cost
example :
    secView (secUpdate cfgQ 1 (mkS .coupon 5 [some 2, some 3, some 4] [some 1, some 2, some 3]
      (some [some 1, some (1/2), some 1]) none)) = .ok ([5, 15, 5, 10, 5/2, 15/2], [7, 5, 7]) ∧
    secView (secUpdate cfgQ 1 (mkS .coupon (-4) [some 2, some 3, some 4] [some 1, some 2, some 3]
      (some [some 1, some (1/2), some 1]) (some [some 1, some (1/4), some 1])))
        = .ok ([-4, -12, -4, -8, 1, -9], [7, -4, 7]) ∧
    secView (secUpdate cfgQ 1 (mkS .couponHedge 5 [some 2, some 3, some 4] [some 1, some 2, some 3]
      none (some [some 1, some (1/4), some 1]))) = .ok ([5, 15, 0, 10, 0, 10], [0, 0, 0]) ∧
    secView (secUpdate cfgQ 1 (mkS .coupon 0 [some 2, some 3, some 4] [some 1, none, some 3] none none))
      = .ok ([0, 0, 0, 0, 0, 0], [7, 0, 7]) := by
  decide +kernel

/-- A missing (NaN) coupon with an open position raises — provided the base update itself went through
    (a missing price with an open position raises first). -/
theorem nan_coupon_open_raises (cfg : Cfg K) (d : Nat) (s s1 : SecData K)
    (hk : s.kind = .coupon ∨ s.kind = .couponHedge) (hb : secBaseUpdate cfg d s = .ok s1)
    (hc : cell s.coupons d = none) (hz : isZero cfg.tol s.position = false) :
    secUpdate cfg d s = .error Err.nanCouponOpenPosition := by
  obtain ⟨_, f2, _, _, _, _, _, _, _, f10, _⟩ := secBaseUpdate_frame cfg d s s1 hb
  have ht : secCouponTail cfg d (secFiTail d s1) = .error Err.nanCouponOpenPosition := by
    apply secCouponTail_nan_open
    · show cell s1.coupons d = none; rw [f2]; exact hc
    · show isZero cfg.tol s1.position = false; rw [f10]; exact hz
  unfold secUpdate
  rw [hb]
  rcases hk with hk | hk <;> (simp only [Except.bind, hk, ht]; try rfl)

example :
    (secUpdate cfgQ 1 (mkS .coupon 5 [some 2, some 3, some 4] [some 1, none, some 3] none none)).toOption.isNone
      = true ∧
    (secBaseUpdate cfgQ 1 (mkS .coupon 5 [some 2, some 3, some 4] [some 1, none, some 3] none none)).toOption.isSome
      = true ∧
    cell (mkS .coupon 5 [some 2, some 3, some 4] [some 1, none, some 3] none none).coupons 1 = none ∧
    isZero cfgQ.tol (mkS .coupon 5 [some 2, some 3, some 4] [some 1, none, some 3] none none).position = false := by
  decide +kernel

/-! ### (3) the parked coupon is paid into the parent's cash on the next date, once -/

/-- The children loop of `StrategyBase.update`, for every list of children: on a new date every
    security's parked `capital` goes into the `coupons` accumulator and is reset to 0 *before* the
    security's own update (`childStep` = sweep, then update if needed); on the same date nothing is
    swept (`sweptSec false s = s`). -/
theorem coupon_sweep_kids (cfg : Cfg K) (d : Nat) (newpt bo : Bool) (kids kids' : List (Node K))
    (acc acc' : Acc K) (h : updKids cfg d newpt bo kids acc = .ok (kids', acc')) :
    acc'.coupons = acc.coupons + (if newpt then kidsParked kids else 0) ∧
    kids'.length = kids.length ∧
    (∀ (i : Nat) (k : Node K), kids[i]? = some k →
      ∃ k', kids'[i]? = some k' ∧ childStep cfg d newpt k = .ok k') ∧
    (∀ s : SecData K, sweptSec true s = { s with capital := 0 } ∧ sweptSec false s = s) := by
  obtain ⟨hl, hc, _, _, _, hi⟩ := updKids_spec cfg d newpt bo kids kids' acc acc' h
  exact ⟨hc, hl, hi, fun s => ⟨rfl, rfl⟩⟩

example : (updKids cfgQ 1 true false fiKids ⟨100, 0, 0, 0⟩).map (fun r => (r.2.coupons, r.1.map kidView))
      = .ok (13, [[10, 5, 1, 5, 10], [0, 0, 1, 3, 0], [0, -2, 1/4, -2, 0]]) ∧
    (updKids cfgQ 1 false false fiKids ⟨100, 0, 0, 0⟩).map (fun r => (r.2.coupons, r.1.map kidView))
      = .ok (0, [[10, 5, 1, 5, 10], [2, 0, 1, 3, 0], [1, -2, 1/4, -2, 0]]) ∧ kidsParked fiKids = 13 := by
  decide +kernel

/-- `update` of a strategy on a new date adds to its cash exactly the amounts parked on its security
    children (what the previous date's updates left there); on the same date its cash is unchanged. -/
theorem coupon_paid_next_date (cfg : Cfg K) (d : Nat) (sd sd' : StratData K) (kids kids' : List (Node K))
    (h : updNode cfg d (.strat sd kids) = .ok (.strat sd' kids')) :
    (sd.now ≠ some d → sd'.capital = sd.capital + kidsParked kids) ∧
    (sd.now = some d → sd'.capital = sd.capital) := by
  obtain ⟨_, _, _, _, hcap, _⟩ := updNode_strat_spec cfg d sd sd' kids kids' h
  refine ⟨fun hn => ?_, fun hn => ?_⟩
  · rw [hcap, if_pos hn]
  · rw [hcap, if_neg (not_not.2 hn), add_zero]

-- date 0 → 1: cash 100 + (10 + 2 + 1); a second update on date 1 leaves 113
example : nodeView (updNode cfgQ 1 fiTree)
      = .ok ([113, 137, 5, 3400/7], [[10, 5, 1, 5, 10], [0, 0, 0, 3, 0], [0, -2, 1/4, -2, 0]]) ∧
    nodeView ((updNode cfgQ 1 fiTree).bind (updNode cfgQ 1))
      = .ok ([113, 137, 5, 3400/7], [[10, 5, 1, 5, 10], [0, 0, 0, 3, 0], [0, -2, 1/4, -2, 0]]) := by
  decide +kernel

/-- "Once": after the new-date update a security child is (up to its weight) the result of updating
    the security *with its parked amount already removed*; so its `capital` is 0 if it needed no update
    or pays no coupon, and the freshly accrued `coupon − holding cost` of date `d` if it does — never
    the old amount plus the new one. -/
theorem coupon_swept_once (cfg : Cfg K) (d : Nat) (sd sd' : StratData K) (kids kids' : List (Node K))
    (h : updNode cfg d (.strat sd kids) = .ok (.strat sd' kids')) (hnew : sd.now ≠ some d)
    (i : Nat) (s : SecData K) (hi : kids[i]? = some (.sec s)) :
    ∃ s1 w, kids'[i]? = some (.sec { s1 with weight := w }) ∧
      (s.needupdate = true → secUpdate cfg d { s with capital := 0 } = .ok s1) ∧
      (s.needupdate = false → s1 = { s with capital := 0 }) ∧
      (s.needupdate = false ∨ s.kind = .plain ∨ s.kind = .fi ∨ s.kind = .hedge → s1.capital = 0) ∧
      (s.needupdate = true → s.kind = .coupon ∨ s.kind = .couponHedge →
        s1.capital = s1.coupon - s1.holdingCost ∧
        (∀ c, cell s.coupons d = some c → s1.coupon = s.position * c)) := by
  obtain ⟨s1, w, hk, hup, hno⟩ := updNode_sec_child cfg d sd sd' kids kids' h i s hi
  have hd : decide (sd.now ≠ some d) = true := by simpa using hnew
  rw [hd] at hup hno
  refine ⟨s1, w, hk, hup, fun hn => (hno hn).1, ?_, ?_⟩
  · rintro (hn | hkind)
    · rw [(hno hn).1]; rfl
    · cases hnu : s.needupdate
      · rw [(hno hnu).1]; rfl
      · exact secUpdate_capital_noncoupon cfg d _ s1 (hup hnu) hkind
  · intro hnu hkind
    obtain ⟨⟨c1, _⟩, _, hcap, hpos, _⟩ := secUpdate_coupon_inv cfg d { s with capital := 0 } s1 hkind (hup hnu)
    refine ⟨hcap, fun c hc => ?_⟩
    rw [c1 c hc]

example : (updNode cfgQ 1 fiTree).toOption.isSome = true ∧ (mkStrat true (some 0) 100 110 7 100).now ≠ some 1 ∧
    fiKids[0]? = some (.sec { mkS .coupon 5 pxs cps none none with capital := 10 }) ∧
    kidView (.sec { mkS .coupon 5 pxs cps none none with capital := 10 }) = [10, 5, 1, 5, 0] ∧
    -- parked 10 before; after the sweep the date-1 update parks the fresh 5·2 = 10, not 20
    secView (secUpdate cfgQ 1 { mkS .coupon 5 pxs cps none none with capital := 0 })
      = .ok ([5, 15, 5, 10, 0, 10], [7, 5, 7]) := by
  refine ⟨by decide +kernel, by decide, rfl, by decide +kernel, by decide +kernel⟩

/-- On the same date nothing is swept: a security that needs no update is left exactly as it was,
    parked amount included. -/
theorem coupon_not_swept_same_date (cfg : Cfg K) (d : Nat) (sd sd' : StratData K)
    (kids kids' : List (Node K)) (h : updNode cfg d (.strat sd kids) = .ok (.strat sd' kids'))
    (hsame : sd.now = some d) (i : Nat) (s : SecData K) (hi : kids[i]? = some (.sec s))
    (hnu : s.needupdate = false) : kids'[i]? = some (.sec s) := by
  obtain ⟨s1, w, hk, _, hno⟩ := updNode_sec_child cfg d sd sd' kids kids' h i s hi
  have hd : decide (sd.now ≠ some d) = false := by simpa using hsame
  rw [hd] at hno
  obtain ⟨rfl, rfl⟩ := hno hnu
  exact hk

example : nodeView (updNode cfgQ 0 fiTree)
      = .ok ([100, 108, 5, 500/7], [[5, 5, 1, 5, 5], [2, 0, 0, 3, 0], [1, -2, 1/4, -2, 0]]) := by
  decide +kernel

/-! ### (4) strategy notional and fixed-income weights -/

/-- After `update` the strategy's notional is the sum of `|notional|` of the (updated) children the
    loop visited — always on a new date; on the same date either that, or the stored figure was within
    `TOL` of it (and the value too) and nothing was written. -/
theorem strat_notional_sum (cfg : Cfg K) (d : Nat) (sd sd' : StratData K) (kids kids' : List (Node K))
    (h : updNode cfg d (.strat sd kids) = .ok (.strat sd' kids')) :
    (sd.now ≠ some d → sd'.notl = sumVisited kids kids') ∧
    (sd'.notl = sumVisited kids kids' ∨
      (sd'.notl = sd.notl ∧ isZero cfg.tol (sd.notl - sumVisited kids kids') = true)) := by
  obtain ⟨_, _, _, _, _, _, _, _, hn⟩ := updNode_strat_spec cfg d sd sd' kids kids' h
  refine ⟨fun hnew => ?_, ?_⟩
  · rcases hn with hn | ⟨hsame, _⟩
    · exact hn
    · exact absurd hsame hnew
  · rcases hn with hn | ⟨_, h1, h2⟩
    · exact Or.inl hn
    · exact Or.inr ⟨h1, h2⟩

example : (updNode cfgQ 1 fiTree).map (fun n => match n with
      | .strat sd' kids' => decide (sd'.notl = sumVisited fiKids kids' ∧ sd'.notl = 5)
      | .sec _ => false) = .ok true := by
  decide +kernel

/-- In a fixed-income strategy every child the weights loop visits (sub-strategies, and securities
    still flagged `needupdate` after their update) gets weight `child notional / N`, `N` being the
    sum of the visited children's `|notional|`; 0 when `N` is negligible. -/
theorem fi_weights (cfg : Cfg K) (d : Nat) (sd sd' : StratData K) (kids kids' : List (Node K))
    (h : updNode cfg d (.strat sd kids) = .ok (.strat sd' kids')) (hfi : sd.fixedIncome = true)
    (i : Nat) (k' : Node K) (hi : kids'[i]? = some k') (hv : k'.skipped = false) :
    k'.weight = if isZero cfg.tol (sumVisited kids kids') then 0
      else k'.notl / sumVisited kids kids' := by
  obtain ⟨kids1, hk', _, _, _, _, hsum, _⟩ := updNode_strat_spec cfg d sd sd' kids kids' h
  rw [hsum]
  rw [hk', kidsWeights_getElem?] at hi
  cases hk1 : kids1[i]? with
  | none => rw [hk1] at hi; cases hi
  | some k1 =>
    rw [hk1, Option.map_some] at hi
    cases hi
    rw [weighted_skipped] at hv
    rw [weighted_notl]
    unfold weighted
    rw [hv]
    simp only [Bool.false_eq_true, if_false, setWeight_weight, childWeight, hfi, if_true]
    cases isZero cfg.tol (sumVisited kids kids1) <;> simp

example : (updNode cfgQ 1 fiTree).map (fun n => match n with
      | .strat _ kids' => (kids'.map (fun k => (k.skipped, k.weight, k.notl)), sumVisited fiKids kids')
      | .sec _ => ([], 0)) = .ok ([(false, 1, 5), (false, 0, 0), (true, 1/4, -2)], 5) := by
  decide +kernel

/-! ### (7) hedges do not count -/

/-- A hedge security contributes nothing to its parent's notional, whatever its position: its own
    notional is 0 after every update, so the parent's sum is the sum over the visited children that are
    not hedge securities. -/
theorem hedge_excluded (cfg : Cfg K) (d : Nat) :
    (∀ s s' : SecData K, secUpdate cfg d s = .ok s' → s.kind = .hedge ∨ s.kind = .couponHedge →
      absA s'.notl = 0 ∧ ∀ (bo : Bool) (acc : Acc K), (accAdd bo acc (.sec s')).notl = acc.notl) ∧
    (∀ (sd sd' : StratData K) (kids kids' : List (Node K)),
      updNode cfg d (.strat sd kids) = .ok (.strat sd' kids') →
      sumVisited kids kids' = sumVisitedNH kids kids') := by
  refine ⟨fun s s' h hk => ?_, fun sd sd' kids kids' h => ?_⟩
  · have h0 := secUpdate_hedge_notl cfg d s s' h hk
    refine ⟨by rw [h0, absA_zero], fun bo acc => ?_⟩
    rw [accAdd_notl]; show acc.notl + absA s'.notl = _; rw [h0, absA_zero, add_zero]
  · obtain ⟨_, _, _, _, _, _, _, hnh, _⟩ := updNode_strat_spec cfg d sd sd' kids kids' h
    exact hnh

example : (updNode cfgQ 1 fiTree).map (fun n => match n with
      | .strat _ kids' => (sumVisited fiKids kids', sumVisitedNH fiKids kids', kids'.map (fun k => k.notl))
      | .sec _ => (0, 0, [])) = .ok (5, 5, [5, 0, -2]) := by
  decide +kernel

/-! ### (5) the index of a fixed-income strategy moves additively -/

/-- The write branch of `StrategyBase.update` for a fixed-income strategy: with
    `pnl = value − (last value + net flows)` the new index is `last price + pnl / last notional × PAR`;
    `pnl / new notional × PAR` is added instead when the last notional is negligible and the new one is
    not; the index stays when both are negligible and so is the P&L; otherwise the update raises. -/
theorem fi_index_additive (cfg : Cfg K) (d : Nat) (newpt : Bool) (sd : StratData K) (val notl bo : K)
    (hfi : sd.fixedIncome = true) (hch : stratChanged cfg newpt sd val notl = true) :
    (isZero cfg.tol sd.lastNotl = false →
      stratWrite cfg d newpt sd val notl bo = .ok (stratSetPrice d (stratSetTotals d sd val notl bo)
        (sd.lastPrice + (val - (sd.lastValue + sd.netFlows)) / sd.lastNotl * cfg.par))) ∧
    (isZero cfg.tol sd.lastNotl = true → isZero cfg.tol notl = false →
      stratWrite cfg d newpt sd val notl bo = .ok (stratSetPrice d (stratSetTotals d sd val notl bo)
        (sd.lastPrice + (val - (sd.lastValue + sd.netFlows)) / notl * cfg.par))) ∧
    (isZero cfg.tol sd.lastNotl = true → isZero cfg.tol notl = true →
      isZero cfg.tol (val - (sd.lastValue + sd.netFlows)) = true →
      stratWrite cfg d newpt sd val notl bo =
        .ok (stratSetPrice d (stratSetTotals d sd val notl bo) sd.lastPrice)) ∧
    (isZero cfg.tol sd.lastNotl = true → isZero cfg.tol notl = true →
      isZero cfg.tol (val - (sd.lastValue + sd.netFlows)) = false →
      stratWrite cfg d newpt sd val notl bo = .error Err.zeroBaseReturn) ∧
    (∀ p, (stratSetPrice d (stratSetTotals d sd val notl bo) p).price = p ∧
      (stratSetPrice d (stratSetTotals d sd val notl bo) p).value = val ∧
      (stratSetPrice d (stratSetTotals d sd val notl bo) p).notl = notl ∧
      (d < sd.rPrice.length → (stratSetPrice d (stratSetTotals d sd val notl bo) p).rPrice[d]? = some p)) := by
  rw [stratWrite_fi_eq cfg d newpt sd val notl bo hfi hch, fiReturn_totals]
  refine ⟨fun h1 => ?_, fun h1 h2 => ?_, fun h1 h2 h3 => ?_, fun h1 h2 h3 => ?_, fun p => ?_⟩
  · simp only [h1]; rfl
  · simp only [h1, h2]; rfl
  · simp only [h1, h2, h3]
    show Except.ok (stratSetPrice d _ (sd.lastPrice + 0)) = _
    rw [add_zero]
  · simp only [h1, h2, h3]; rfl
  · obtain ⟨_, _, f3, f4, _⟩ := stratSetTotals_frame d sd val notl bo
    refine ⟨rfl, f4, f3, fun hd => ?_⟩
    have : (stratSetTotals d sd val notl bo).rPrice = sd.rPrice := by
      unfold stratSetTotals; dsimp only; split <;> rfl
    simp [stratSetPrice, this, hd]

-- last price 100, last value 110, last notional 7, new value 137: 100 + 27/7·100
-- last notional 0, new notional 5: 100 + 27/5·100; both 0 and value unchanged: 100; both 0, P&L 27: raises
example :
    (stratWrite cfgQ 1 true (mkStrat true (some 1) 113 110 7 100) 137 5 0).map (fun s => [s.price, s.value, s.notl])
      = .ok [3400/7, 137, 5] ∧
    (stratWrite cfgQ 1 true (mkStrat true (some 1) 113 110 0 100) 137 5 0).map (fun s => [s.price, s.value, s.notl])
      = .ok [640, 137, 5] ∧
    (stratWrite cfgQ 1 true (mkStrat true (some 1) 113 110 0 100) 110 0 0).map (fun s => [s.price, s.value, s.notl])
      = .ok [100, 110, 0] ∧
    (stratWrite cfgQ 1 true (mkStrat true (some 1) 113 110 0 100) 137 0 0).map (fun s => [s.price, s.value, s.notl])
      = .error Err.zeroBaseReturn ∧
    stratChanged cfgQ true (mkStrat true (some 1) 113 110 7 100) 137 5 = true := by
  decide +kernel

/-- Hence, at the first update of a new date (flows restart at 0, the "last" figures are the previous
    date's closing ones): `price_d = price_{d−1} + PAR × (value_d − value_{d−1}) / notional_{d−1}`. -/
theorem fi_index_new_date (cfg : Cfg K) (d n : Nat) (sd sd' : StratData K) (kids kids' : List (Node K))
    (h : updNode cfg d (.strat sd kids) = .ok (.strat sd' kids')) (hfi : sd.fixedIncome = true)
    (hpt : sd.paperTrade = false) (hn : sd.now = some n) (hnd : n ≠ d)
    (hz : isZero cfg.tol sd.notl = false) :
    sd'.price = sd.price + (sd'.value - sd.value) / sd.notl * cfg.par := by
  obtain ⟨kids1, acc, sd3, _, hw, hnode⟩ := updNode_strat_inv cfg d sd kids _ h
  cases hnode
  obtain ⟨g1, g2, g3, g4⟩ := stratDateChange_new d n sd hn hnd
  have hnp : (stratDateChange d sd).2 = true := by
    rw [stratDateChange_snd, hn]; simpa using hnd
  have hfi' := (stratDateChange_frame d sd).2.1
  have hpt' := stratDateChange_paperTrade d sd
  rw [hnp] at hw
  have hch : ∀ (x : StratData K) (v nl : K), stratChanged cfg true x v nl = true := fun _ _ _ => rfl
  have key := (fi_index_additive cfg d true
    { (stratDateChange d sd).1 with capital := (stratDateChange d sd).1.capital + acc.coupons }
    (acc.val + acc.coupons) acc.notl acc.bo (by rw [← hfi, ← hfi']) (hch _ _ _)).1
    (by show isZero cfg.tol (stratDateChange d sd).1.lastNotl = false; rw [g3]; exact hz)
  have e := Except.ok.inj (key.symm.trans hw)
  subst e
  rw [stratRows_value, stratRows_price _ _ (by
    show (stratSetTotals d _ _ _ _).paperTrade = false
    rw [stratSetTotals_paperTrade]; show (stratDateChange d sd).1.paperTrade = false
    rw [hpt', hpt])]
  show (stratDateChange d sd).1.lastPrice + (acc.val + acc.coupons - ((stratDateChange d sd).1.lastValue +
      (stratDateChange d sd).1.netFlows)) / (stratDateChange d sd).1.lastNotl * cfg.par
    = sd.price + ((stratSetTotals d _ _ _ _).value - sd.value) / sd.notl * cfg.par
  rw [g1, g2, g3, g4, (stratSetTotals_frame d _ _ _ _).2.2.2.1, add_zero]

example : nodeView (updNode cfgQ 1 fiTree)
      = .ok ([113, 137, 5, 100 + (137 - 110) / 7 * 100], [[10, 5, 1, 5, 10], [0, 0, 0, 3, 0], [0, -2, 1/4, -2, 0]]) ∧
    isZero cfgQ.tol (7 : Rat) = false := by
  decide +kernel

/-! ### (6) rebalancing a fixed-income strategy targets a fraction of notional -/

/-- `rebalance(weight, child, base)` on a fixed-income strategy whose tree is up to date: the traded
    amount is `weight × base − child weight × strategy notional` (target notional less current
    notional); a fixed-income child `transact`s it (units of par), any other child `allocate`s it
    (money). -/
theorem fi_rebalance (cfg : Cfg K) (w : World K) (path : List Nat) (weight : K) (child : Nat) (b : K)
    (update : Bool) (sd : StratData K) (ks : List (Node K)) (c : Node K)
    (hw : isZero cfg.tol weight = false) (hst : w.stale = false)
    (hp : w.root.get? path = some (.strat sd ks)) (hc : w.root.get? (path ++ [child]) = some c)
    (hfi : sd.fixedIncome = true) :
    opRebalance cfg w path weight child (some b) update =
      if c.fixedIncome then
        opTransact cfg w (path ++ [child]) (weight * b - c.weight * sd.notl) update none
      else opAllocate cfg w (path ++ [child]) (weight * b - c.weight * sd.notl) update := by
  have hr : refresh cfg w = .ok w := by unfold refresh; simp [hst]; rfl
  unfold opRebalance
  have hpure : (pure w : Except Err (World K)) = .ok w := rfl
  simp only [hw, Bool.false_eq_true, if_false, Option.isNone_some, hpure, Except.bind, hr, hp, hc, hfi,
    if_true]

example :
    worldView (opRebalance cfgQ rebWorld [] (1/2) 0 (some 20) true) = .ok ([10, 2], 95) ∧
    worldView (opTransact cfgQ rebWorld [0] (1/2 * 20 - 5/7 * 7) true none) = .ok ([10, 2], 95) ∧
    worldView (opRebalance cfgQ rebWorld [] (1/2) 1 (some 20) true) = .ok ([5, 10], 92) ∧
    worldView (opAllocate cfgQ rebWorld [1] (1/2 * 20 - 2/7 * 7) true) = .ok ([5, 10], 92) := by
  decide +kernel

/-- For a fixed-income security child the rebalance moves the position by exactly that amount (nothing
    happens when the amount is negligible), whatever the trading costs; so from a balanced state
    (`child weight × strategy notional = child position`, i.e. weight = notional / N and notional =
    position) the new position — the security's notional at its next update — is `weight × base`. -/
theorem fi_rebalance_reaches (cfg : Cfg K) (w w' : World K) (path : List Nat) (weight : K) (child : Nat)
    (b : K) (update : Bool) (sd : StratData K) (ks : List (Node K)) (s : SecData K)
    (hw : isZero cfg.tol weight = false) (hst : w.stale = false)
    (hp : w.root.get? path = some (.strat sd ks))
    (hc : w.root.get? (path ++ [child]) = some (.sec s))
    (hfi : sd.fixedIncome = true) (hsfi : s.fixedIncome = true)
    (h : opRebalance cfg w path weight child (some b) update = .ok w') :
    ∃ s', w'.root.get? (path ++ [child]) = some (.sec s') ∧
      (isZero cfg.tol (weight * b - s.weight * sd.notl) = false →
        s'.position = s.position + (weight * b - s.weight * sd.notl)) ∧
      (isZero cfg.tol (weight * b - s.weight * sd.notl) = true → s'.position = s.position) ∧
      (isZero cfg.tol (weight * b - s.weight * sd.notl) = false → s.weight * sd.notl = s.position →
        s'.position = weight * b) := by
  rw [fi_rebalance cfg w path weight child b update sd ks (.sec s) hw hst hp hc hfi] at h
  simp only [Node.fixedIncome, hsfi, if_true, Node.weight] at h
  obtain ⟨s', a, ht, hg⟩ := opTransact_sec cfg w w' path child _ update sd ks s hp hc h
  obtain ⟨p1, p2⟩ := secTransact_position cfg sd.now sd.comm s _ (s', a) ht
  refine ⟨s', hg, p1, p2, fun hz hb => ?_⟩
  rw [p1 hz, hb]; ring

example : worldView (opRebalance cfgQ rebWorld [] (1/2) 0 (some 20) true) = .ok ([1/2 * 20, 2], 95) ∧
    isZero cfgQ.tol (1/2 : Rat) = false ∧ isZero cfgQ.tol (1/2 * 20 - 5/7 * 7 : Rat) = false ∧
    (5/7 * 7 : Rat) = 5 := by
  decide +kernel

/-! ### every depth -/

/-- The strategy-level clauses above are about `update` of one strategy with arbitrary children; they
    hold for every strategy of a tree of any shape and depth, because `update` of the tree runs
    `update` on each strategy below it: whatever strategy sits at `path` before, the one at `path`
    afterwards has swept its children's parked coupons (new date), carries the sum of its visited
    children's `|notional|` not counting hedges, and (fixed income) has given them weights that are
    fractions of that notional. -/
theorem fi_accounting_every_depth (cfg : Cfg K) (d : Nat) (path : List Nat) (n n' : Node K)
    (sd : StratData K) (kids : List (Node K)) (h : updNode cfg d n = .ok n')
    (hg : n.get? path = some (.strat sd kids)) :
    ∃ sd' kids', n'.get? path = some (.strat sd' kids') ∧
      (sd.now ≠ some d → sd'.capital = sd.capital + kidsParked kids ∧ sd'.notl = sumVisited kids kids') ∧
      (sd.now = some d → sd'.capital = sd.capital) ∧
      sumVisited kids kids' = sumVisitedNH kids kids' ∧
      (sd.fixedIncome = true → ∀ (i : Nat) (k' : Node K), kids'[i]? = some k' → k'.skipped = false →
        k'.weight = if isZero cfg.tol (sumVisited kids kids') then 0
          else k'.notl / sumVisited kids kids') := by
  obtain ⟨sd1, kids1, w, hu, hg'⟩ := updNode_at_path cfg d path n n' sd kids h hg
  refine ⟨_, kids1, hg', fun hnew => ⟨?_, ?_⟩, fun hsame => ?_, ?_, fun hfi i k' hi hv => ?_⟩
  · exact (coupon_paid_next_date cfg d sd sd1 kids kids1 hu).1 hnew
  · exact (strat_notional_sum cfg d sd sd1 kids kids1 hu).1 hnew
  · exact (coupon_paid_next_date cfg d sd sd1 kids kids1 hu).2 hsame
  · exact (hedge_excluded cfg d).2 sd sd1 kids kids1 hu
  · exact fi_weights cfg d sd sd1 kids kids1 hu hfi i k' hi hv

example : nodeView ((updNode cfgQ 1 deepTree).map (fun n => (n.get? [0]).getD n))
      = .ok ([113, 137, 5, 3400/7], [[10, 5, 1, 5, 10], [0, 0, 0, 3, 0], [0, -2, 1/4, -2, 0]]) ∧
    nodeView (.ok ((deepTree.get? [0]).getD deepTree))
      = .ok ([100, 110, 7, 100], [[10, 5, 1, 5, 0], [2, 3, 1, 3, 0], [1, -2, 1/4, -2, 0]]) := by
  decide +kernel

end Bt.C17
