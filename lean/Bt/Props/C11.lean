import Bt.Engine.Backtest
import Mathlib.Algebra.Order.Field.Basic
import Mathlib.Data.Rat.Floor
/-! C11 — backtests are isolated, repeatable and never mutate their inputs (property theorems only).

    What a theorem can carry here: in the model a `Backtest` holds a *value* (the deep copy `Backtest.__init__`
    makes of the template), `Backtest.run` is a function of that value and of the backtest's own constructor
    arguments, and the `has_run` flag makes a second `run()` the identity.  The theorems below state, for every
    session (any number of backtests, any interleaving of constructions and runs, any algo function), that the
    template is never changed, that every backtest ends up as either its freshly constructed self or the result
    of running that fresh self alone, that runs commute, and that re-running is the identity.  Object aliasing,
    interpreter hashing and global random state are not expressible in the model: that the real implementation
    *is* this pure function under every explored schedule is what the correspondence run checks (twin runs in all
    orders, interleavings, fresh interpreters with different hash seeds, deep comparison of template and frames). -/
set_option linter.unusedSectionVars false
set_option linter.unusedSimpArgs false
namespace Bt.C11
open Bt

variable {K : Type} [Field K] [LinearOrder K] [IsStrictOrderedRing K] [HasFloor K]

/-- "asking a finished backtest to run again does not re-run it": `run` after `run` is the identity. -/
theorem run_idem (cfg : Cfg K) (run : RunFn K) (b : BtObj K) : (b.run cfg run).run cfg run = b.run cfg run := by
  unfold BtObj.run
  by_cases h : b.hasRun
  · simp [h]
  · simp only [h, Bool.false_eq_true, if_false]
    cases btRun cfg run b.capital b.dates b.w <;> simp

/-- a finished backtest is not touched by `run`, whatever the algo function has become meanwhile -/
theorem run_finished_noop (cfg : Cfg K) (run : RunFn K) (b : BtObj K) (h : b.hasRun = true) : b.run cfg run = b := by
  simp [BtObj.run, h]

/-- the flag is set by every call, also when the run raised -/
theorem run_sets_flag (cfg : Cfg K) (run : RunFn K) (b : BtObj K) : (b.run cfg run).hasRun = true := by
  unfold BtObj.run
  by_cases h : b.hasRun
  · simp [h]
  · simp only [h, Bool.false_eq_true, if_false]
    cases btRun cfg run b.capital b.dates b.w <;> simp

/-- the constructor arguments of a backtest are never changed by running it -/
theorem run_keeps_args (cfg : Cfg K) (run : RunFn K) (b : BtObj K) :
    (b.run cfg run).capital = b.capital ∧ (b.run cfg run).dates = b.dates := by
  unfold BtObj.run
  by_cases h : b.hasRun
  · simp [h]
  · simp only [h, Bool.false_eq_true, if_false]
    cases btRun cfg run b.capital b.dates b.w <;> simp

/-- "never modifies the strategy template": no sequence of constructions and runs changes the template -/
theorem template_untouched (cfg : Cfg K) (run : RunFn K) (s : Session K) (ops : List (SessOp K)) :
    (s.steps cfg run ops).template = s.template := by
  unfold Session.steps
  induction ops generalizing s with
  | nil => rfl
  | cons op ops ih =>
    rw [List.foldl_cons, ih]
    cases op with
    | construct c ds => rfl
    | run i =>
      simp only [Session.step]
      cases s.bts[i]? <;> rfl

/-- every backtest of the session is its freshly constructed self or that self run alone -/
def Solo (cfg : Cfg K) (run : RunFn K) (T : World K) (b : BtObj K) : Prop :=
  ∃ c ds, b = ({ hasRun := false, w := T, capital := c, dates := ds } : BtObj K) ∨
          b = ({ hasRun := false, w := T, capital := c, dates := ds } : BtObj K).run cfg run

theorem solo_run (cfg : Cfg K) (run : RunFn K) (T : World K) (b : BtObj K) (h : Solo cfg run T b) :
    Solo cfg run T (b.run cfg run) := by
  obtain ⟨c, ds, h | h⟩ := h
  · exact ⟨c, ds, .inr (by rw [h])⟩
  · exact ⟨c, ds, .inr (by rw [h, run_idem])⟩

/-- "backtests built from the same template are independent of one another and of the order in which they are run":
    after ANY interleaving of constructions and runs, every backtest is exactly what it would be in a session of
    its own — fresh, or run once on the template's value with its own capital and dates. -/
theorem session_isolated (cfg : Cfg K) (run : RunFn K) (s : Session K) (ops : List (SessOp K))
    (h0 : ∀ b ∈ s.bts, Solo cfg run s.template b) :
    ∀ b ∈ (s.steps cfg run ops).bts, Solo cfg run s.template b := by
  unfold Session.steps
  induction ops generalizing s with
  | nil => exact h0
  | cons op ops ih =>
    rw [List.foldl_cons]
    have hT : (Session.step cfg run s op).template = s.template := by
      cases op with
      | construct c ds => rfl
      | run i => simp only [Session.step]; cases s.bts[i]? <;> rfl
    rw [← hT]
    apply ih
    rw [hT]
    cases op with
    | construct c ds =>
      intro b hb
      simp only [Session.step, List.mem_append, List.mem_singleton] at hb
      rcases hb with hb | hb
      · exact h0 b hb
      · exact ⟨c, ds, .inl (by rw [hb]; rfl)⟩
    | run i =>
      intro b hb
      simp only [Session.step] at hb
      cases hi : s.bts[i]? with
      | none => rw [hi] at hb; exact h0 b hb
      | some bi =>
        rw [hi] at hb
        simp only at hb
        rcases List.mem_or_eq_of_mem_set hb with hb | hb
        · exact h0 b hb
        · rw [hb]
          exact solo_run cfg run _ _ (h0 bi (List.mem_of_getElem? hi))

/-- from an empty session: the statement above without a hypothesis -/
theorem session_isolated_from_empty (cfg : Cfg K) (run : RunFn K) (T : World K) (ops : List (SessOp K)) :
    ∀ b ∈ ((⟨T, []⟩ : Session K).steps cfg run ops).bts, Solo cfg run T b :=
  session_isolated cfg run ⟨T, []⟩ ops (by simp)

/-- running two different backtests commutes: the order of `run()` calls is irrelevant -/
theorem runs_commute (cfg : Cfg K) (run : RunFn K) (s : Session K) (i j : Nat) (hij : i ≠ j) :
    (s.step cfg run (.run i)).step cfg run (.run j) = (s.step cfg run (.run j)).step cfg run (.run i) := by
  simp only [Session.step]
  cases hi : s.bts[i]? with
  | none =>
    cases hj : s.bts[j]? with
    | none => simp [hi]
    | some bj =>
      have : (s.bts.set j (bj.run cfg run))[i]? = none := by
        rw [List.getElem?_set_ne (Ne.symm hij)]; exact hi
      simp [hi, hj, this]
  | some bi =>
    cases hj : s.bts[j]? with
    | none =>
      have : (s.bts.set i (bi.run cfg run))[j]? = none := by
        rw [List.getElem?_set_ne hij]; exact hj
      simp [hi, hj, this]
    | some bj =>
      have h1 : (s.bts.set i (bi.run cfg run))[j]? = some bj := by
        rw [List.getElem?_set_ne hij]; exact hj
      have h2 : (s.bts.set j (bj.run cfg run))[i]? = some bi := by
        rw [List.getElem?_set_ne (Ne.symm hij)]; exact hi
      simp only [h1, h2]
      rw [List.set_comm _ _ hij]

/-- running the same backtest twice in a session is running it once -/
theorem run_twice (cfg : Cfg K) (run : RunFn K) (s : Session K) (i : Nat) :
    (s.step cfg run (.run i)).step cfg run (.run i) = s.step cfg run (.run i) := by
  simp only [Session.step]
  cases hi : s.bts[i]? with
  | none => simp [hi]
  | some bi =>
    have hlt : i < s.bts.length := by
      by_contra hc
      rw [List.getElem?_eq_none (Nat.le_of_not_lt hc)] at hi
      cases hi
    have : (s.bts.set i (bi.run cfg run))[i]? = some (bi.run cfg run) := by
      rw [List.getElem?_set_self hlt]
    simp only [this, run_idem, List.set_set]

/-- constructing a new backtest and running an existing one commute: construction neither reads nor writes the
    other backtests, and a run does not change what a later construction copies -/
theorem construct_run_commute (cfg : Cfg K) (run : RunFn K) (s : Session K) (c : K) (ds : List Nat) (i : Nat)
    (hi : i < s.bts.length) :
    (s.step cfg run (.construct c ds)).step cfg run (.run i) = (s.step cfg run (.run i)).step cfg run (.construct c ds) := by
  have h1 : s.bts[i]? = some s.bts[i] := List.getElem?_eq_getElem hi
  simp only [Session.step, Session.fresh, h1]
  have h2 : (s.bts ++ [({ hasRun := false, w := s.template, capital := c, dates := ds } : BtObj K)])[i]? = some s.bts[i] := by
    rw [List.getElem?_append_left hi]; exact h1
  simp only [h2]
  rw [List.set_append_left _ _ hi]

/-! concrete session: two backtests from one template, run in both orders -/
section Examples
def cfgQ : Cfg Rat := { tol := 1/1000, par := 100, atol := 1/100000000, half := 1/2, one := 1, iterCap := 10000 }
def rootQ : StratData Rat :=
  { name := "s", fixedIncome := false, bidofferSet := false, paperTrade := false, paperPx := 0, comm := fun _ _ => 0,
    now := none, capital := 0, price := 100, value := 0, notl := 0, weight := 0, netFlows := 0, lastValue := 0,
    lastNotl := 0, lastPrice := 100, lastFee := 0, bidofferPaid := 0, bankrupt := false,
    rPrice := [0, 0, 0], rValue := [0, 0, 0], rNotl := [0, 0, 0], rCash := [0, 0, 0], rFees := [0, 0, 0], rFlows := [0, 0, 0],
    rBidofferPaid := [0, 0, 0] }
def secQ : SecData Rat :=
  { name := "a", kind := .plain, fixedIncome := false, integer := false, bidofferSet := false, mult := 1,
    now := none, price := none, value := 0, notl := 0, weight := 0, position := 0, lastPos := 0,
    outlayAcc := 0, bidoffer := some 0, bidofferPaid := 0, capital := 0, coupon := 0, holdingCost := 0,
    needupdate := true, prices := [none, some 10, some 12], bidoffers := [], coupons := [], costLong := none, costShort := none,
    rValue := [0, 0, 0], rPosition := [0, 0, 0], rNotl := [0, 0, 0], rOutlay := [0, 0, 0], rBidofferPaid := [0, 0, 0],
    rCoupon := [0, 0, 0], rHolding := [0, 0, 0] }
def templateQ : World Rat := ⟨.strat rootQ [.sec secQ], false⟩
/-- an algo function that buys 5 units of the only security on row 1 -/
def runQ : RunFn Rat := fun d w => if d = 1 then opTransact cfgQ w [0] 5 true none else pure w

def opsA : List (SessOp Rat) := [.construct 1000 [0, 1, 2], .construct 500 [0, 1], .run 0, .run 1, .run 0]
def opsB : List (SessOp Rat) := [.construct 1000 [0, 1, 2], .run 0, .construct 500 [0, 1], .run 1]

/-- the run really trades and marks: after the session the first backtest is worth 1000 + 5 x (12 - 10) -/
example : (((⟨templateQ, []⟩ : Session Rat).steps cfgQ runQ opsA).bts.map fun b => (b.hasRun, b.w.root.value)) =
    [(true, 1010), (true, 500)] := by decide +kernel

/-- both interleavings give the same backtests (values, rows, flags), and the template is as before -/
example : (((⟨templateQ, []⟩ : Session Rat).steps cfgQ runQ opsA).bts.map fun b => (b.hasRun, b.w.root.value, b.failed.isSome)) =
    (((⟨templateQ, []⟩ : Session Rat).steps cfgQ runQ opsB).bts.map fun b => (b.hasRun, b.w.root.value, b.failed.isSome)) := by
  decide +kernel

example : ∀ b ∈ ((⟨templateQ, []⟩ : Session Rat).steps cfgQ runQ opsA).bts, Solo cfgQ runQ templateQ b :=
  session_isolated_from_empty cfgQ runQ templateQ opsA
end Examples

end Bt.C11
