import Bt.Proofs.RiskEx
/-! C20 — risk sums over the tree, hedges neutralise it, matured positions close and roll
    (property theorems only; helpers in `Bt.Proofs.Risk`, `Bt.Proofs.RiskHedge`, `Bt.Proofs.RiskLife`).
    `K` is any linearly ordered field; the model functions (`Bt.Risk.*`, bt/algos.py `UpdateRisk`, `HedgeRisks`,
    `ClosePositionsAfterDates`, `RollPositionsAfterDates`, `SelectActive`) are the ones the driver runs at `Float`.
    Trees, tables, numbers of measures / instruments and runs are arbitrary. -/
set_option linter.unusedSectionVars false
set_option linter.unusedSimpArgs false
set_option linter.unusedVariables false
namespace Bt.C20
open Bt Bt.Risk Bt.Risk.Ex Matrix

variable {K : Type} [Field K] [LinearOrder K] [IsStrictOrderedRing K]

/-! ### UpdateRisk -/

/-- A security's risk after `UpdateRisk`: the unit risk read at the root's date, times position, times
    multiplier; exactly `0` when `is_zero(position)`; NaN (`none`) when the table has a NaN there and the position
    is open; a security without a column has unit risk `0` (`_get_unit_risk`: "No risk data, assume zero"). -/
theorem risk_security (tol : K) (m history : Nat) (f : Frame K) (rootNow depth : Nat) (s : SecD K) (n' : Risk.Node K)
    (h : setRisk tol m history f rootNow depth (.sec s) = .ok n') :
    ∃ row, f.rowAt rootNow = .ok row ∧
      (isZero tol s.pos = false →
        riskOf m n' = (unitRiskRow f.cols row s.name).map fun u => u * s.pos * s.mult) ∧
      (isZero tol s.pos = true → riskOf m n' = some 0) ∧
      (f.cols.idxOf? s.name = none → unitRiskRow f.cols row s.name = some 0) := by
  obtain ⟨a1, u, a2, _, h2, h3, rfl⟩ := setRisk_sec_inv h
  obtain ⟨row, hrow, rfl⟩ := unitRisk_ok_row h2
  refine ⟨row, hrow, ?_, ?_, ?_⟩
  · intro hz; rw [riskOf_sec_stored h3]; simp [secRisk, hz]
  · intro hz; rw [riskOf_sec_stored h3]; simp [secRisk, hz]
  · intro hc; simp [unitRiskRow, hc]

example : (updateRisk tolQ 0 2 [(0, frame0)] 5 tree).toOption.map
      (fun t => (riskAt 0 [0] t, riskAt 0 [1, 0] t, riskAt 0 [1, 1] t, riskAt 0 [2] t)) =
    some (some (some 20), some (some 120), some (some 0), some (some 0)) := by decide +kernel

/-- The date is looked up in the table's index: a date that is not a row raises (`KeyError`) as soon as a
    security is reached (whatever attributes earlier calls left on the node). -/
theorem risk_security_missing_date (tol : K) (m history : Nat) (f : Frame K) (rootNow depth : Nat) (s : SecD K)
    (hd : f.rows.lookup rootNow = none) :
    setRisk tol m history f rootNow depth (.sec s) = .error .dateMissing := by
  rw [setRisk_sec]
  obtain ⟨a1, h1, _⟩ := prepAttrs_total m (decide (depth < history)) s.attrs
  rw [h1]
  simp [Except.bind, unitRisk, Frame.rowAt, hd, Except.map]

example : (updateRisk tolQ 0 0 [(0, frame0)] 6 tree).toOption.isNone = true ∧
    frame0.rows.lookup 6 = none := by decide +kernel

/-- Each strategy's risk is the sum over its children (of what the same pass stored on them). -/
theorem risk_children (tol : K) (m history : Nat) (f : Frame K) (rootNow depth : Nat) (d : StratD K)
    (kids : List (Risk.Node K)) (n' : Risk.Node K)
    (h : setRisk tol m history f rootNow depth (.strat d kids) = .ok n') :
    ∃ d' kids', n' = .strat d' kids' ∧ kids'.length = kids.length ∧
      riskOf m n' = osum (kids'.map (riskOf m)) := by
  obtain ⟨a1, kids', total, a2, _, h2, h3, rfl⟩ := setRisk_strat_inv h
  obtain ⟨e, l⟩ := setRiskKids_total _ _ _ _ h2
  exact ⟨_, kids', rfl, l, by rw [riskOf_strat_stored h3, e]; simp⟩

example : (updateRisk tolQ 0 2 [(0, frame0)] 5 tree).toOption.map
      (fun t => (riskAt 0 [] t, riskAt 0 [0] t, riskAt 0 [1] t, riskAt 0 [2] t)) =
    some (some (some 140), some (some 20), some (some 120), some (some 0)) := by decide +kernel

/-- Tree induction: after `UpdateRisk` a node's risk is the (NaN-propagating) sum over **all** securities below
    it, at any depth, of the security risks of `risk_security`. -/
theorem risk_sums (tol : K) (m history : Nat) (f : Frame K) (rootNow depth : Nat) (row : List (Option K))
    (hrow : f.rowAt rootNow = .ok row) (n n' : Risk.Node K)
    (h : setRisk tol m history f rootNow depth n = .ok n') :
    riskOf m n' = osum ((leaves n).map fun s => secRisk tol (unitRiskRow f.cols row s.name) s.pos s.mult) :=
  (setRisk_sum_aux hrow).1 n depth n' h

example : (leaves tree).map (·.name) = [1, 2, 3, 4] ∧
    (updateRisk tolQ 0 0 [(0, frame0)] 5 tree).toOption.map (riskAt 0 []) = some (some (some (20 + 120 + 0 + 0))) := by
  decide +kernel

/-- The same at every node of the tree (the pass is local: the sub-tree at a path of the result is the result of
    the pass on that sub-tree), and a tree without securities has risk 0 without touching the table. -/
theorem risk_sums_everywhere (tol : K) (m history : Nat) (f : Frame K) (rootNow : Nat) (row : List (Option K))
    (hrow : f.rowAt rootNow = .ok row) (t t' : Risk.Node K) (h : setRisk tol m history f rootNow 0 t = .ok t')
    (path : List Nat) (x' : Risk.Node K) (hx : nodeAt path t' = some x') :
    ∃ x, nodeAt path t = some x ∧
      riskOf m x' = osum ((leaves x).map fun s => secRisk tol (unitRiskRow f.cols row s.name) s.pos s.mult) ∧
      (leaves x = [] → riskOf m x' = some 0) := by
  obtain ⟨x, hx1, hx2⟩ := setRisk_nodeAt path t 0 t' h x' hx
  exact ⟨x, hx1, (setRisk_sum_aux hrow).1 x _ x' hx2, fun hl => setRisk_noleaves_aux.1 x _ x' hl hx2⟩

example : (updateRisk tolQ 0 0 [(0, frame0)] 5 tree).toOption.map (riskAt 0 [1]) = some (some (some 120)) ∧
    (nodeAt [1] tree).map (fun x => (leaves x).map (·.name)) = some [2, 3] := by decide +kernel

/-- History to the requested depth: a node at depth `< history` below the target has the value just stored in
    the row of the **current date** (the root's clock) of its `risks` frame; at depth `>= history` the `risks`
    attribute is not touched (not created); and for a measure the node already carried, every other row of the
    column is what it was (earlier dates are not rewritten). -/
theorem risk_history_depth (tol : K) (m history : Nat) (f : Frame K) (rootNow : Nat) (t t' : Risk.Node K)
    (h : setRisk tol m history f rootNow 0 t = .ok t') (path : List Nat) (x' : Risk.Node K)
    (hx : nodeAt path t' = some x') :
    ∃ x, nodeAt path t = some x ∧
      (path.length < history → histOf m rootNow x' = riskOf m x') ∧
      (history ≤ path.length → x'.attrs.risks = x.attrs.risks) ∧
      ((dget (x.attrs.risk.getD []) m).isSome = true → ∀ d, d ≠ rootNow → histOf m d x' = histOf m d x) := by
  obtain ⟨x, hx1, hx2⟩ := setRisk_nodeAt path t 0 t' h x' hx
  obtain ⟨_, e2, e3, e4⟩ := setRisk_hist_here hx2
  exact ⟨x, hx1, fun hl => e2 (by omega), fun hl => e3 (by omega), e4⟩

/-- security 3 is flat and was last updated on day 3: its row of day 5 (the current date) holds its risk 0 -/
example : (updateRisk tolQ 0 3 [(0, frame0)] 5 tree).toOption.map
      (fun t => (histAt 0 5 [] t, histAt 0 5 [1] t, histAt 0 5 [1, 1] t)) =
    some (some (some 140), some (some 120), some (some 0)) ∧
    (updateRisk tolQ 0 3 [(0, frame0)] 5 tree).toOption.map (fun t => (histAt 0 3 [1, 1] t, hasHist [0] t)) =
    some (some none, some true) ∧
    (updateRisk tolQ 0 1 [(0, frame0)] 5 tree).toOption.map (fun t => (hasHist [] t, hasHist [0] t, hasHist [1, 0] t)) =
    some (some true, some false, some false) := by decide +kernel

/-- **Every call succeeds and records, whatever earlier calls did.**  For any tree carrying any `risk` / `risks`
    attributes (left by earlier `UpdateRisk` calls of any measure and any depth, on this node or on an ancestor):
    if the current date is a row of the table, the call returns, and every node at depth `< history` has the value
    just stored in the row of the current date.  (Before the repair of `UpdateRisk` a call with a larger depth than
    an earlier one raised `AttributeError`, and a flat security the engine no longer updates got its row at a
    stale date.) -/
theorem update_risk_total (tol : K) (m history : Nat) (f : Frame K) (rootNow : Nat) (row : List (Option K))
    (hrow : f.rowAt rootNow = .ok row) (t : Risk.Node K) :
    ∃ t', setRisk tol m history f rootNow 0 t = .ok t' ∧
      ∀ (path : List Nat) (x' : Risk.Node K), nodeAt path t' = some x' → path.length < history →
        histOf m rootNow x' = riskOf m x' := by
  obtain ⟨t', ht⟩ := (setRisk_total_aux hrow).1 t 0
  refine ⟨t', ht, ?_⟩
  intro path x' hx hl
  obtain ⟨x, _, hx2⟩ := setRisk_nodeAt path t 0 t' ht x' hx
  exact (setRisk_hist_here hx2).2.1 (by omega)

/-- `UpdateRisk(0, history=0)` then `UpdateRisk(1, history=2)` on the same tree, and the same measure first
    without and then with history: the second call creates the frames it needs -/
example : ((updateRisk tolQ 0 0 [(0, frame0), (1, frame0)] 5 tree).bind
      fun t => updateRisk tolQ 1 2 [(0, frame0), (1, frame0)] 5 t).toOption.map
      (fun t => (histAt 1 5 [] t, histAt 1 5 [1] t, histAt 0 5 [] t)) = some (some (some 140), some (some 120), some none) ∧
    ((updateRisk tolQ 0 0 [(0, frame0)] 5 tree).bind fun t => updateRisk tolQ 0 1 [(0, frame0)] 5 t).toOption.map
      (fun t => histAt 0 5 [] t) = some (some (some 140)) := by decide +kernel

/-! ### HedgeRisks -/

/-- The Jacobian handed to numpy: row `i` = selected instrument `i`, column `j` = measure `j`, entry = the unit
    risk read off table `j` at the target's date **times the instrument's multiplier** (the existing child's, or
    the one the lazy / default child will be created with) — the sensitivity of the strategy's risk to one unit of
    notional, as `UpdateRisk` measures it. -/
theorem hedge_jacobian {n k : Nat} (env : Env K) (kids : List (Risk.Node K)) (ms : Fin k → Nat) (instr : Fin n → Nat)
    (frames : Dict (Frame K)) (now : Nat) (fr : Fin k → Frame K) (row : Fin k → List (Option K))
    (hfr : ∀ j, dget frames (ms j) = some (fr j)) (hrow : ∀ j, (fr j).rowAt now = .ok (row j)) :
    (measureRows frames now (List.ofFn ms)).map (fun rows => jacobian (kidMult env kids) rows (List.ofFn instr)) =
      .ok (List.ofFn fun i => List.ofFn fun j =>
        omul (unitRiskRow (fr j).cols (row j) (instr i)) (some (multOf env kids (instr i)))) := by
  rw [measureRows_ofFn frames now ms fr row hfr hrow]
  simp only [Except.map]
  rw [jacobian_ofFn (kidMult env kids) (fun j => (fr j).cols) row instr]
  simp only [kidMult_eq_multOf]

example : (hedgeInputs envQ10 [0, 1] framesH none (some [11, 12]) hedgeTarget).toOption =
    some ([11, 12], [some 100, some 50], [[some 30, some 10], [some 2, some 4]]) := by decide +kernel

/-- **Corollary of `hedge_zero` (stated next) for instruments of multiplier 1** (the Jacobian is then the table of unit risks).  `k` measures, `k` instruments, `H i j` the unit risk of instrument `i` in measure
    `j`, `Hinv` with `H * Hinv = 1` (numpy's result: a certificate the harness checks), the code's matrix is
    `Hinvᵀ`.  If the stored risk `r` is up to date, the instruments have multiplier 1 and no dust is involved, then
    after the hedge a fresh `UpdateRisk` of any hedged measure stores exactly 0. -/
theorem hedge_zero_unit_multipliers {k : Nat} (env : Env K) (ms instr : Fin k → Nat) (frames : Dict (Frame K)) (throwNan : Bool)
    (d : StratD K) (kids : List (Risk.Node K)) (r : Fin k → K) (rootNow : Nat)
    (fr : Fin k → Frame K) (row : Fin k → List (Option K)) (u : Fin k → Nat → K)
    (hfr : ∀ j, dget frames (ms j) = some (fr j)) (hrow : ∀ j, (fr j).rowAt rootNow = .ok (row j))
    (hu : ∀ j name, unitRiskRow (fr j).cols (row j) name = some (u j name))
    (hr : ∀ j, targetRisk (ms j) (.strat d kids) = .ok (some (r j)))
    (hfresh : ∀ j, r j = linExpoL (u j) kids)
    (hmult : ∀ i, multOf env kids (instr i) = 1)
    (Hinv : Matrix (Fin k) (Fin k) K) (hinv : (Matrix.of fun i j => u j (instr i)) * Hinv = 1)
    (t' : Risk.Node K)
    (hh : hedgeRisks env (List.ofFn ms) frames throwNan none (some (List.ofFn instr))
            (some (List.ofFn fun i => List.ofFn fun j => some (Hinv j i))) (.strat d kids) = .ok t')
    (hq : ∀ i, isZero env.tol (hedgeQ (fun i j => Hinv j i) r i) = true → hedgeQ (fun i j => Hinv j i) r i = 0)
    (hnd : NoDust env.tol t')
    (j : Fin k) (hist : Nat) (t'' : Risk.Node K) (hup : updateRisk env.tol (ms j) hist frames rootNow t' = .ok t'') :
    riskOf (ms j) t'' = some 0 := by
  rw [hedge_fresh_risk env ms instr frames throwNan d kids r hr (fun i j => Hinv j i) t' hh hq j (fr j) rootNow (row j)
    (hfr j) (hrow j) (u j) (hu j) (hfresh j) hnd hist t'' hup]
  congr 1
  have := hedge_cancels (Matrix.of fun i j => u j (instr i)) Hinv hinv r j
  simp only [Matrix.of_apply] at this
  rw [← this]
  congr 1
  apply Finset.sum_congr rfl
  intro i _
  rw [hmult i, mul_one]; rfl

/-- the computation: bond 1 (100 units, unit risks 1 and 1/2), instruments 11 and 12 with H = [[3, 1], [2, 4]] -/
example : hedgeThenUpdate envQ = some ([(1, 100), (11, -30), (12, -5)], some 0, some 0) := by decide +kernel

/-- the theorem on that input: every side condition holds (`H * Hinv = 1`, fresh risk, multipliers 1, no dust in the
    notionals) -/
example (t' t'' : Risk.Node ℚ)
    (hh : hedgeRisks envQ [0, 1] framesH true none (some [11, 12]) (some invT) hedgeTarget = .ok t')
    (hnd : NoDust tolQ t') (hup : updateRisk tolQ 0 0 framesH 5 t' = .ok t'') : riskOf 0 t'' = some 0 := by
  refine hedge_zero_unit_multipliers envQ ![0, 1] ![11, 12] framesH true
    { name := 100, now := 5, fi := true, attrs := { risk := some [(0, some 100), (1, some 50)], risks := none } }
    [.sec (mkSec 1 5 100 1)] ![100, 50] 5 ![frameA, frameB]
    ![[some 1, some 3, some 2], [some (1 / 2), some 1, some 4]] ![uA, uB]
    ?_ ?_ ?_ ?_ ?_ ?_ Hinv2 ?_ t' ?_ ?_ hnd 0 0 t'' hup
  · intro j; fin_cases j <;> rfl
  · intro j; fin_cases j <;> rfl
  · intro j name; fin_cases j
    · exact huA name
    · exact huB name
  · intro j; fin_cases j <;> rfl
  · intro j; fin_cases j <;> simp [linExpoL, leavesL, leaves, mkSec, uA, uB] <;> norm_num
  · intro i; fin_cases i <;> rfl
  · ext i j; fin_cases i <;> fin_cases j <;> simp [Matrix.mul_apply, Fin.sum_univ_two, Hinv2, uA, uB] <;> norm_num
  · simpa [invT, Hinv2, hedgeTarget] using hh
  · intro i; fin_cases i <;> simp [hedgeQ, Fin.sum_univ_two, Hinv2, isZero, absA, envQ, tolQ] <;> norm_num

/-- **hedge_zero.**  `k` measures, `k` instruments with arbitrary multipliers; `S i j = multiplier_i × unit risk`
    is the Jacobian the code builds (`hedge_jacobian`), `Sinv` its inverse (numpy's result: a certificate the
    harness checks), the code's matrix is `Sinvᵀ`.  If the stored risk is up to date and no dust is involved, a
    fresh `UpdateRisk` of any hedged measure stores exactly 0 after the hedge. -/
theorem hedge_zero {k : Nat} (env : Env K) (ms instr : Fin k → Nat) (frames : Dict (Frame K)) (throwNan : Bool)
    (d : StratD K) (kids : List (Risk.Node K)) (r : Fin k → K) (rootNow : Nat)
    (fr : Fin k → Frame K) (row : Fin k → List (Option K)) (u : Fin k → Nat → K)
    (hfr : ∀ j, dget frames (ms j) = some (fr j)) (hrow : ∀ j, (fr j).rowAt rootNow = .ok (row j))
    (hu : ∀ j name, unitRiskRow (fr j).cols (row j) name = some (u j name))
    (hr : ∀ j, targetRisk (ms j) (.strat d kids) = .ok (some (r j)))
    (hfresh : ∀ j, r j = linExpoL (u j) kids)
    (Sinv : Matrix (Fin k) (Fin k) K)
    (hinv : (Matrix.of fun i j => multOf env kids (instr i) * u j (instr i)) * Sinv = 1)
    (t' : Risk.Node K)
    (hh : hedgeRisks env (List.ofFn ms) frames throwNan none (some (List.ofFn instr))
            (some (List.ofFn fun i => List.ofFn fun j => some (Sinv j i))) (.strat d kids) = .ok t')
    (hq : ∀ i, isZero env.tol (hedgeQ (fun i j => Sinv j i) r i) = true → hedgeQ (fun i j => Sinv j i) r i = 0)
    (hnd : NoDust env.tol t')
    (j : Fin k) (hist : Nat) (t'' : Risk.Node K) (hup : updateRisk env.tol (ms j) hist frames rootNow t' = .ok t'') :
    riskOf (ms j) t'' = some 0 := by
  rw [hedge_fresh_risk env ms instr frames throwNan d kids r hr (fun i j => Sinv j i) t' hh hq j (fr j) rootNow (row j)
    (hfr j) (hrow j) (u j) (hu j) (hfresh j) hnd hist t'' hup]
  congr 1
  have := hedge_cancels (Matrix.of fun i j => multOf env kids (instr i) * u j (instr i)) Sinv hinv r j
  simp only [Matrix.of_apply] at this
  rw [← this]
  congr 1
  apply Finset.sum_congr rfl
  intro i _
  simp only [hedgeQ]
  ring

/-- the inverse of the scaled Jacobian [[30, 10], [2, 4]] (instrument 11 has multiplier 10), transposed -/
example : (match hedgeRisks envQ10 [0, 1] framesH true none (some [11, 12])
        (some [[some (4 / 100), some (-2 / 100)], [some (-10 / 100), some (30 / 100)]]) hedgeTarget with
      | .error _ => none
      | .ok t1 => (updateRisk tolQ 0 0 framesH 5 t1).toOption.bind fun t2 =>
          (updateRisk tolQ 1 0 framesH 5 t2).toOption.map fun t3 => (positions t3, riskOf 0 t3, riskOf 1 t3)) =
    some ([(1, 100), (11, -3), (12, -5)], some 0, some 0) := by decide +kernel

/-- Witness about the PRE-repair formula `hedge_risk[s][m] = unit risk` (no multiplier): for instrument 11 with
    multiplier 10 that matrix is [[3, 1], [2, 4]]; handing its inverse to the hedge (instead of the inverse of the
    Jacobian `hedge_jacobian` describes, [[30, 10], [2, 4]]) transacts −30 / −5 and leaves −810 / −270, not 0 / 0.
    This is what the code did before commit 142b7b1 and what the corpus case `C20_hedge_multiplier.json` guards. -/
theorem hedge_unscaled_inverse_witness :
    hedgeThenUpdate envQ10 = some ([(1, 100), (11, -30), (12, -5)], some (-810), some (-270)) := by decide +kernel

/-- **Pseudo-inverse** (partial only in that the four Penrose identities of the supplied `P` are hypotheses:
    numpy's `pinv` is external and its output is checked against them at run time).  `n` instruments with arbitrary
    multipliers, `k` measures, `H i j = multiplier_i × unit risk of instrument i in measure j` (the Jacobian of
    `hedge_jacobian`).  After the hedge the fresh risk vector is `ρ = r − (r P) H`; it satisfies the normal
    equations `H ρ = 0`, hence no other notionals `q'` leave a smaller sum of squares, and among all notionals that
    leave the same risk the ones transacted have the smallest sum of squares. -/
theorem hedge_pinv_partial {n k : Nat} (env : Env K) (ms : Fin k → Nat) (instr : Fin n → Nat) (frames : Dict (Frame K))
    (throwNan : Bool) (d : StratD K) (kids : List (Risk.Node K)) (r : Fin k → K) (rootNow : Nat)
    (fr : Fin k → Frame K) (row : Fin k → List (Option K)) (u : Fin k → Nat → K)
    (hfr : ∀ j, dget frames (ms j) = some (fr j)) (hrow : ∀ j, (fr j).rowAt rootNow = .ok (row j))
    (hu : ∀ j name, unitRiskRow (fr j).cols (row j) name = some (u j name))
    (hr : ∀ j, targetRisk (ms j) (.strat d kids) = .ok (some (r j)))
    (hfresh : ∀ j, r j = linExpoL (u j) kids)
    (P : Matrix (Fin k) (Fin n) K) (H : Matrix (Fin n) (Fin k) K)
    (hH : H = Matrix.of fun i j => multOf env kids (instr i) * u j (instr i))
    (p1 : H * P * H = H) (p2 : P * H * P = P) (p3 : (H * P)ᵀ = H * P) (p4 : (P * H)ᵀ = P * H)
    (t' : Risk.Node K)
    (hh : hedgeRisks env (List.ofFn ms) frames throwNan none (some (List.ofFn instr))
            (some (List.ofFn fun i => List.ofFn fun j => some (P j i))) (.strat d kids) = .ok t')
    (hq : ∀ i, isZero env.tol (hedgeQ (fun i j => P j i) r i) = true → hedgeQ (fun i j => P j i) r i = 0)
    (hnd : NoDust env.tol t') :
    (∀ (j : Fin k) (hist : Nat) (t'' : Risk.Node K), updateRisk env.tol (ms j) hist frames rootNow t' = .ok t'' →
      riskOf (ms j) t'' = some (residual H P r j)) ∧
    H *ᵥ residual H P r = 0 ∧
    (∀ q' : Fin n → K, residual H P r ⬝ᵥ residual H P r ≤ (r + q' ᵥ* H) ⬝ᵥ (r + q' ᵥ* H)) ∧
    (∀ q' : Fin n → K, q' ᵥ* H = (-(r ᵥ* P)) ᵥ* H → (-(r ᵥ* P)) ⬝ᵥ (-(r ᵥ* P)) ≤ q' ⬝ᵥ q') := by
  refine ⟨?_, residual_normal H P r p1 p4, residual_least_squares H P r p1 p4, notional_min_norm H P r p2 p3⟩
  intro j hist t'' hup
  rw [hedge_fresh_risk env ms instr frames throwNan d kids r hr (fun i j => P j i) t' hh hq j (fr j) rootNow (row j)
    (hfr j) (hrow j) (u j) (hu j) (hfresh j) hnd hist t'' hup, residual_apply, hH]
  congr 2
  apply Finset.sum_congr rfl
  intro i _
  simp only [hedgeQ, Matrix.of_apply]
  ring

/-- one measure, two instruments with unit risks 3 (multiplier 10) and 4: the Jacobian is [[30], [4]],
    pinv = [30/916, 4/916]; the risk 100 is removed completely with the smallest notionals -/
example : (match hedgeRisks envQ10 [0] [(0, { cols := [1, 11, 12], rows := [(5, [some 1, some 3, some 4])] })] true none
        (some [11, 12]) (some [[some (30 / 916)], [some (4 / 916)]])
        (.strat { name := 100, now := 5, fi := true, attrs := { risk := some [(0, some 100)], risks := none } }
          [.sec (mkSec 1 5 100 1)]) with
      | .error _ => none
      | .ok t1 => (updateRisk tolQ 0 0 [(0, { cols := [1, 11, 12], rows := [(5, [some 1, some 3, some 4])] })] 5 t1).toOption.map
          fun t2 => (positions t2, riskOf 0 t2)) =
    some ([(1, 100), (11, -750 / 229), (12, -100 / 229)], some 0) := by decide +kernel

/-! ### ClosePositionsAfterDates, SelectActive -/

/-- `SelectActive` returns exactly the selected names that are neither closed nor rolled, in order. -/
theorem select_active_excludes (perm : Perm) (sel out : List Nat) (h : selectActive perm (some sel) = .ok out) :
    (∀ x, x ∈ out ↔ x ∈ sel ∧ x ∉ perm.rolledL ∧ x ∉ perm.closedL) ∧ out.Sublist sel :=
  ⟨selectActive_spec perm sel out h, selectActive_sublist perm sel out h⟩

example : selectActive { closed := some [1], rolled := some [2, 3] } (some [4, 3, 1, 5, 2]) = .ok [4, 5] := by decide

/-- **close_after_date.**  One call: every child security that has a close date `<= now` is recorded in
    `perm['closed']` (which only grows); if it was not recorded before, it is flat afterwards (exactly `0` when
    `Closable`: no dust and, under a market-value parent, a price and value above `TOL`), and nothing that is not due
    is touched.  Over a run of the lifecycle stack (close, roll, select, `SelectActive`, trades in what it
    returned), induction over any number of later dates: the name stays recorded, `SelectActive` never returns it
    again and its position stays `0`, provided nothing rolls into it. -/
theorem close_after_date (env : Env K) (fi : Bool) (dates : Dict (Option Nat)) (roll : Dict (RollRow K))
    (htol : 0 < env.tol) (name : Nat) (st st1 : RunState K) (s : Step K) (sel : List Nat) (txs : Dict (Option K))
    (sec : SecD K) (hkid : kidSec st.kids name = some sec) (hdue : dueAt dates s.now name = true)
    (hnew : name ∉ st.perm.closedL) (hcl : Closable env.tol fi sec) (hnt : NotTarget roll name)
    (h1 : lifecycleStep env fi dates roll st s = .ok (st1, sel, txs)) :
    (name ∈ st1.perm.closedL ∧ posOf st1.kids name = 0 ∧ name ∉ sel) ∧
    ∀ (rest : List (Step K)) (st2 : RunState K) (log : List (List Nat × Dict (Option K))),
      lifecycleRun env fi dates roll st1 rest = .ok (st2, log) →
      name ∈ st2.perm.closedL ∧ posOf st2.kids name = 0 ∧ ∀ e ∈ log, name ∉ e.1 := by
  obtain ⟨c, r, hc, hr, hs, ht, hp, _⟩ := lifecycleStep_inv h1
  obtain ⟨accC, hcp, hcc, hcr⟩ := close_inv hc
  obtain ⟨ks1, accR, hrp, hat, hrr, hrc⟩ := roll_inv hr
  obtain ⟨c1, _, _, _, c5⟩ := closePass_spec htol _ _ _ _ hcp
  obtain ⟨_, _, _, r4, _, r6, _, r8⟩ := rollPass_spec htol _ _ _ _ _ _ hrp
  obtain ⟨a1, _⟩ := applyTxs_spec env s.now r.2.2 ks1 r.1 (r8 (by simp)) hat
  have hcand : closeCand dates s.now st.perm.closedL name = true := by
    unfold closeCand
    have h2 : (dget dates name).isSome = true := by
      unfold dueAt at hdue
      cases hd : dget dates name with
      | none => simp [hd] at hdue
      | some v => rfl
    simp [h2, hdue, hnew]
  have hk : isKid st.kids name = true := by rw [isKid_kidSec, hkid]; rfl
  have hin : name ∈ st1.perm.closedL := by
    rw [hp, hrc, hcc]
    exact (c1 name).2 (Or.inr ⟨hk, hcand⟩)
  have p1 : posOf c.1 name = 0 := c5 name sec hkid hcand hcl
  have p2 : posOf ks1 name = 0 := by
    rcases r4 name with h0 | h0
    · exact h0
    · rw [h0, p1]
  have p3 : posOf r.1 name = 0 := by
    rw [a1 name, p2]
    have : dget r.2.2 name = none := by
      rw [r6 name (rollHits_of_notTarget hnt _)]; rfl
    simp [txQ, this]
  have hnsel : name ∉ sel := by
    intro hm
    have := (selectActive_spec _ _ _ hs name).1 hm
    rw [← hp] at this
    exact this.2.2 hin
  have p4 : posOf st1.kids name = 0 := by
    rw [applyTrades_untouched env s.now sel name hnsel _ _ _ ht, p3]
  refine ⟨⟨hin, p4, hnsel⟩, ?_⟩
  intro rest st2 log h2
  obtain ⟨g, n1, _, n3⟩ := lifecycleRun_gone htol hnt rest st1 st2 log h2 ⟨Or.inl hin, p4⟩
  exact ⟨n1 hin, g.2, n3⟩

/-- the theorem on a concrete input: security 1 (50 units, close date 3) on day 3 -/
example (st1 : RunState ℚ) (sel : List Nat) (txs : Dict (Option ℚ))
    (h1 : lifecycleStep envQ true closeDates rollTab { kids := lifeKids, perm := perm0 }
      { now := 3, cands := [1, 2, 3, 4], trades := [(1, 5)] } = .ok (st1, sel, txs)) :
    1 ∈ st1.perm.closedL ∧ posOf st1.kids 1 = 0 ∧ 1 ∉ sel :=
  (close_after_date envQ true closeDates rollTab tolQ_pos 1 _ st1 _ sel txs (mkSec 1 1 50 1) rfl (by decide)
    (by simp [perm0, Perm.closedL]) (closable_fi _ (by decide +kernel)) (notTarget_rollTab 1 (by decide)) h1).1

/-- security 1 (close date 3) is closed on day 3 and stays out although the stack keeps selecting and trading it -/
example : (lifecycleRun envQ true closeDates rollTab { kids := lifeKids, perm := perm0 } stepsQ).toOption.map
      (fun r => (kidPositions r.1.kids, r.1.perm, r.2.map (·.1))) =
    some ([(1, 0), (2, 0), (3, 0), (4, 45), (9, 3)], { closed := some [1], rolled := some [2, 3] },
      [[1, 4], [4], [4, 9]]) := by decide +kernel

/-- Every call records every due child security and keeps what was recorded (no hypothesis on prices or dust). -/
theorem close_records (tol : K) (htol : 0 < tol) (fi : Bool) (dates : Dict (Option Nat)) (now : Nat)
    (kids kids' : List (Risk.Node K)) (perm perm' : Perm)
    (h : closePositionsAfterDates tol fi dates now kids perm = .ok (kids', perm')) :
    (∀ x, x ∈ perm'.closedL ↔ x ∈ perm.closedL ∨ (isKid kids x = true ∧ closeCand dates now perm.closedL x = true)) ∧
    perm'.rolledL = perm.rolledL ∧
    (∀ name, closeCand dates now perm.closedL name = false → posOf kids' name = posOf kids name) ∧
    (∀ name, isKid kids' name = isKid kids name) := by
  obtain ⟨acc', hcp, hcc, hcr⟩ := close_inv h
  obtain ⟨c1, c2, c3, _, _⟩ := closePass_spec htol _ _ _ _ hcp
  refine ⟨fun x => by rw [hcc]; exact c1 x, hcr, ?_, c2⟩
  intro name hn
  rw [posOf_kidSec, posOf_kidSec, c3 name hn]

example : (closePositionsAfterDates tolQ true closeDates 3 lifeKids perm0).toOption.map
      (fun r => (kidPositions r.1, r.2)) =
    some ([(1, 0), (2, 20), (3, 8), (4, 0)], { closed := some [1], rolled := none }) := by decide +kernel

/-- Lean witness (candidate known finding `C20/select-active:name-past-close-date:never-a-child`): security 9's close date
    (day 1) has passed, but it is not a child yet, so `ClosePositionsAfterDates` does not record it, `SelectActive`
    lets it through on day 4 and the stack opens a position of 3 in it. -/
theorem close_not_yet_child_witness :
    (lifecycleRun envQ true closeDates rollTab { kids := lifeKids, perm := perm0 } stepsQ).toOption.map
      (fun r => (posOf r.1.kids 9, r.1.perm.closedL.contains 9, (r.2.map (·.1)).getLast?)) =
    some (3, false, some [4, 9]) ∧ dueAt closeDates 4 9 = true := by decide +kernel

/-- Lean witness (candidate known finding `C20/close:position-left:zero-price-non-fixed-income`): under a market-value
    parent `close` tests `value != 0`; a security priced at 0 keeps its 25 units past its close date, and is
    nevertheless recorded as closed. -/
theorem close_zero_price_witness :
    (closePositionsAfterDates tolQ false [(1, some 3)] 3 [.sec (mkSec 1 3 25 1 (some 0))] perm0).toOption.map
      (fun r => (kidPositions r.1, r.2.closedL)) = some ([(1, 25)], [1]) := by decide +kernel

/-! ### RollPositionsAfterDates -/

/-- **The roll, one call.**  A child security that has a roll row, was not rolled before and whose date has come is
    recorded in `perm['rolled']` (which only grows); the pending transaction of a target is the sum of
    `factor × position` over **all** sources rolling into it now (aggregated per target, none when nothing rolls
    into it); afterwards every name that is not itself a source now holds its old position plus the transaction
    booked into it (`txQ`: the aggregated quantity, or nothing), and a `Closable` source that is not a target is
    flat. -/
theorem roll_moves (env : Env K) (htol : 0 < env.tol) (fi : Bool) (roll : Dict (RollRow K)) (hfin : FiniteFactors roll)
    (now : Nat) (kids kids' : List (Risk.Node K)) (perm perm' : Perm) (txs : Dict (Option K))
    (h : rollPositionsAfterDates env fi roll now kids perm = .ok (kids', perm', txs)) :
    (∀ x, x ∈ perm'.rolledL ↔ x ∈ perm.rolledL ∨ (isKid kids x = true ∧ rollCand roll now perm.rolledL x = true)) ∧
    perm'.closedL = perm.closedL ∧
    (∀ tgt, dget txs tgt = if rollHits roll now perm.rolledL kids tgt then
        some (some (rollCredit roll now perm.rolledL kids tgt)) else none) ∧
    (∀ name, rollCand roll now perm.rolledL name = false → posOf kids' name = posOf kids name + txQ env.tol txs name) ∧
    (∀ name sec, kidSec kids name = some sec → rollCand roll now perm.rolledL name = true → Closable env.tol fi sec →
      rollHits roll now perm.rolledL kids name = false → posOf kids' name = 0) := by
  obtain ⟨ks1, accR, hrp, hat, hrr, hrc⟩ := roll_inv h
  simp only at hrp hat hrr hrc
  obtain ⟨r1, _, r3, _, r5, r6, r7, r8⟩ := rollPass_spec htol _ _ _ _ _ _ hrp
  obtain ⟨a1, _⟩ := applyTxs_spec env now txs ks1 kids' (r8 (by simp)) hat
  refine ⟨fun x => by rw [hrr]; exact r1 x, hrc, ?_, ?_, ?_⟩
  · intro tgt
    by_cases hh : rollHits roll now perm.rolledL kids tgt = true
    · rw [r7 hfin tgt hh]; simp [hh, accumTx]
    · have hh' : rollHits roll now perm.rolledL kids tgt = false := by simpa using hh
      rw [r6 tgt hh']; simp [hh']
  · intro name hn
    rw [a1 name, posOf_kidSec ks1, r3 name hn, ← posOf_kidSec]
  · intro name sec hk hc hcl hnh
    rw [a1 name, r5 name sec hk hc hcl]
    have : dget txs name = none := by rw [r6 name hnh]; rfl
    simp [txQ, this]

/-- securities 2 (20 units, factor 2) and 3 (8 units, factor 1/2) roll into 4: one transaction of 44 -/
example : (rollPositionsAfterDates envQ true rollTab 2 lifeKids perm0).toOption.map
      (fun r => (kidPositions r.1, r.2.1, r.2.2)) =
    some ([(1, 50), (2, 0), (3, 0), (4, 44)], { closed := none, rolled := some [2, 3] }, [(4, some 44)]) ∧
    rollCredit rollTab 2 [] lifeKids 4 = 2 * 20 + 1 / 2 * 8 := by decide +kernel

/-- **roll_once.**  Once a name is in `perm['rolled']` and flat (which is what `roll_moves` leaves behind), then
    over any number of later dates of the lifecycle stack it is never a roll candidate again (so no later call
    generates a transaction from it, whatever the children look like), `SelectActive` never returns it, it stays
    recorded and its position stays `0` (provided nothing rolls into it): the position moved into the target exactly
    once. -/
theorem roll_once (env : Env K) (fi : Bool) (dates : Dict (Option Nat)) (roll : Dict (RollRow K))
    (htol : 0 < env.tol) (name : Nat) (st : RunState K) (hin : name ∈ st.perm.rolledL) (hflat : posOf st.kids name = 0)
    (hnt : NotTarget roll name) (steps : List (Step K)) (st2 : RunState K) (log : List (List Nat × Dict (Option K)))
    (h : lifecycleRun env fi dates roll st steps = .ok (st2, log)) :
    name ∈ st2.perm.rolledL ∧ posOf st2.kids name = 0 ∧ (∀ e ∈ log, name ∉ e.1) ∧
    (∀ now' : Nat, rollCand roll now' st2.perm.rolledL name = false) ∧
    (∀ (now' : Nat) (ks : List (Risk.Node K)) (sec : SecD K) (tgt : Nat), sec.name = name →
      secCredit roll now' st2.perm.rolledL sec tgt = 0) := by
  obtain ⟨g, _, n2, n3⟩ := lifecycleRun_gone htol hnt steps st st2 log h ⟨Or.inr hin, hflat⟩
  have hc : ∀ now' : Nat, rollCand roll now' st2.perm.rolledL name = false := by
    intro now'
    unfold rollCand
    split
    · simp [n2 hin]
    · rfl
  refine ⟨n2 hin, g.2, n3, hc, ?_⟩
  intro now' _ sec tgt hs
  apply secCredit_of_not_hits
  unfold secHits
  split
  · rw [hs, hc now']; rfl
  · rfl

/-- the theorem on a concrete input: after the roll of day 2 (security 2 recorded and flat), any later dates -/
example (steps : List (Step ℚ)) (st2 : RunState ℚ) (log : List (List Nat × Dict (Option ℚ)))
    (h : lifecycleRun envQ true closeDates rollTab
      { kids := [.sec (mkSec 1 1 50 1), .sec (mkSec 2 1 0 1), .sec (mkSec 3 1 0 1), .sec (mkSec 4 1 44 1)],
        perm := { closed := none, rolled := some [2, 3] } } steps = .ok (st2, log)) :
    2 ∈ st2.perm.rolledL ∧ posOf st2.kids 2 = 0 ∧ (∀ e ∈ log, 2 ∉ e.1) :=
  let r := roll_once envQ true closeDates rollTab tolQ_pos 2 _ (by decide) (by decide +kernel)
    (notTarget_rollTab 2 (by decide)) steps st2 log h
  ⟨r.1, r.2.1, r.2.2.1⟩

/-- after the roll of day 2 the stack buys 5 more of security 2 — `SelectActive` filters it — and on days 3 and 4 the
    roll generates no transaction at all: security 4 holds 44 + 1 (its own trade) and nothing more -/
example : (lifecycleRun envQ true closeDates rollTab { kids := lifeKids, perm := perm0 } stepsQ).toOption.map
      (fun r => (posOf r.1.kids 2, posOf r.1.kids 4)) = some (0, 45) ∧
    (lifecycleRun envQ true closeDates rollTab { kids := lifeKids, perm := perm0 } stepsQ).toOption.map
      (fun r => r.2.map fun e => txList e.2) = some [[(4, some 44)], [], []] := by decide +kernel

end Bt.C20
