import Bt.Proofs.C08Root
import Bt.Proofs.C08Eval
import Bt.Proofs.C08RowsRead
/-! C08 — updates idempotent, reads fresh, history append-only (property theorems only; helper
    lemmas live in `Bt.Proofs.C08*`). -/
set_option linter.unusedSectionVars false
namespace Bt.C08
open Bt

variable {K : Type} [Field K] [LinearOrder K] [IsStrictOrderedRing K] [HasFloor K]

/-- concrete instances used by the `example`s -/
def cfgQ : Cfg Rat := { tol := 1/1000, par := 100, atol := 1/100000000, half := 1/2, one := 1, iterCap := 10000 }

def secQ : SecData Rat :=
  { name := "a", kind := .coupon, fixedIncome := true, integer := false, bidofferSet := true, mult := 1,
    now := none, price := none, value := 0, notl := 0, weight := 0, position := 3, lastPos := 0,
    outlayAcc := 7, bidoffer := none, bidofferPaid := 1, capital := 0, coupon := 0, holdingCost := 0,
    needupdate := true, prices := [some 10, some 11], bidoffers := [some 1, some 1],
    coupons := [some 2, some 2], costLong := some [some (1/2), some (1/2)], costShort := none,
    rValue := [0, 0], rPosition := [0, 0], rNotl := [0, 0], rOutlay := [0, 0], rBidofferPaid := [0, 0],
    rCoupon := [0, 0], rHolding := [0, 0] }

/-- (1) `SecurityBase.update(d)` (with the subclass tail) run a second time for the same date
    returns the security unchanged: the second call takes the early return of l.1393 and the
    subclass tails rewrite the same notional / coupon / holding cost / capital and rows. -/
theorem secUpdate_idem (cfg : Cfg K) (d : Nat) (s s' : SecData K)
    (h : secUpdate cfg d s = .ok s') : secUpdate cfg d s' = .ok s' :=
  P08.secUpdate_idem h

example : ((secUpdate cfgQ 1 secQ).toOption.map fun s => (s.value, s.capital, s.rNotl)) =
    some (33, 9/2, [0, 3]) := by decide +kernel

def stratQ : StratData Rat :=
  { name := "root", fixedIncome := false, bidofferSet := true, paperTrade := false, paperPx := 100,
    comm := fun _ _ => 0, now := some 0, capital := 100, price := 100, value := 100, notl := 0, weight := 0,
    netFlows := 0, lastValue := 100, lastNotl := 0, lastPrice := 100, lastFee := 0, bidofferPaid := 0,
    bankrupt := false, rPrice := [100, 0], rValue := [100, 0], rNotl := [0, 0], rCash := [100, 0],
    rFees := [0, 0], rFlows := [0, 0], rBidofferPaid := [0, 0] }

/-- a root over a sub-strategy (holding the coupon bond `secQ`) and a flat, quiet security -/
def treeQ : Node Rat :=
  .strat stratQ
    [ .strat { stratQ with name := "sub", capital := 50, value := 50, lastValue := 50, rValue := [50, 0],
                           rCash := [50, 0] } [.sec secQ],
      .sec { secQ with name := "b", kind := .plain, position := 0, needupdate := false, outlayAcc := 0 } ]

/-- **`NoDust`** (defined in `Bt.Proofs.C08Strat`): every security of the tree satisfies
    `is_zero(position) → position = 0`, i.e. no position lies strictly between `0` and `TOL` in
    absolute value.  It is the exact hypothesis under which a same-date re-run is the identity. -/
example (cfg : Cfg K) (s : SecData K) :
    P08.NoDust cfg (.sec s) ↔ (isZero cfg.tol s.position = true → s.position = 0) :=
  P08.noDust_sec cfg s
example (cfg : Cfg K) (sd : StratData K) (k : Node K) (ks : List (Node K)) :
    P08.NoDust cfg (.strat sd (k :: ks)) ↔ P08.NoDust cfg k ∧ P08.NoDust cfg (.strat sd ks) := by
  simp [P08.noDust_strat, P08.noDustL_cons]

/-- (2) `update(d)` of any node, on any tree, run a second time for the same date changes nothing
    — for `TOL > 0` and dust-free positions. -/
theorem updNode_idem (cfg : Cfg K) (htol : 0 < cfg.tol) (d : Nat) (n n' : Node K)
    (hnd : P08.NoDust cfg n) (h : updNode cfg d n = .ok n') : updNode cfg d n' = .ok n' :=
  P08.updNode_idem_aux cfg htol d n hnd n' h

/-- (the model's `updNode` is compiled by well-founded recursion; concrete instances are evaluated
    through the fuelled clone `P08.updNodeF` and its soundness theorem) -/
example : 0 < cfgQ.tol ∧ P08.NoDust cfgQ treeQ ∧ ∃ n', updNode cfgQ 1 treeQ = .ok n' ∧ n'.value = 183 := by
  refine ⟨by decide +kernel, ?_, ?_⟩
  · simp only [treeQ, P08.noDust_strat, P08.noDust_sec, P08.NoDustL]
    decide +kernel
  · have h1 : (P08.updNodeF cfgQ 1 3 treeQ).toOption.map Node.value = some 183 := by decide +kernel
    cases h : P08.updNodeF cfgQ 1 3 treeQ with
    | error e => rw [h] at h1; cases h1
    | ok n' =>
      rw [h] at h1
      exact ⟨n', P08.updNodeF_sound _ _ _ h, by simpa [Except.toOption] using h1⟩

/-- a security holding dust: `0 < |position| < TOL`, weight 0, but worth 5 -/
def dustTree : Node Rat :=
  .strat stratQ
    [ .sec { secQ with name := "dust", kind := .plain, position := 1/2000, prices := [some 10000, some 10000],
                       outlayAcc := 0 } ]

/-- **The unrestricted statement of (2) is false in the model** (hence of the code, exact arithmetic):
    a security with `0 < |position| < TOL` and weight `0` is marked (value 5 here), counted in its
    parent's value, and switched to `needupdate = False` by the first `update`; the second `update`
    skips it, finds the parent's value 5 lower, and — the write guard firing — records the lower value. -/
theorem updNode_idem_false_with_dust :
    ∃ (n n' : Node Rat), 0 < cfgQ.tol ∧ updNode cfgQ 1 n = .ok n' ∧ updNode cfgQ 1 n' ≠ .ok n' := by
  have h1 : (P08.updNodeF cfgQ 1 2 dustTree).toOption.map Node.value = some 105 := by decide +kernel
  have h2 : ((P08.updNodeF cfgQ 1 2 dustTree).toOption.bind fun n' =>
      (P08.updNodeF cfgQ 1 2 n').toOption).map Node.value = some 100 := by decide +kernel
  cases h : P08.updNodeF cfgQ 1 2 dustTree with
  | error e => rw [h] at h1; cases h1
  | ok n' =>
    refine ⟨dustTree, n', by decide +kernel, P08.updNodeF_sound _ _ _ h, fun hh => ?_⟩
    rw [h] at h1 h2
    simp only [Except.toOption, Option.bind_some, Option.map_some, Option.some.injEq] at h1 h2
    cases h' : P08.updNodeF cfgQ 1 2 n' with
    | error e => rw [h'] at h2; cases h2
    | ok n'' =>
      rw [h'] at h2
      have := (P08.updNodeF_sound _ _ _ h').symm.trans hh
      cases this
      simp only [Option.map_some, Option.some.injEq] at h2
      rw [h1] at h2
      exact absurd h2 (by decide +kernel)

example : ∃ n', updNode cfgQ 1 dustTree = .ok n' ∧ ¬ P08.NoDust cfgQ dustTree := by
  cases h : P08.updNodeF cfgQ 1 2 dustTree with
  | error e =>
    have h1 : (P08.updNodeF cfgQ 1 2 dustTree).toOption.isSome = true := by decide +kernel
    rw [h] at h1; cases h1
  | ok n' =>
    refine ⟨n', P08.updNodeF_sound _ _ _ h, ?_⟩
    simp only [dustTree, P08.noDust_strat, P08.noDust_sec, P08.NoDustL]
    decide +kernel

/-- (3) `root.update(d)` run a second time changes nothing, including after the bankruptcy branch
    (the flag is then set, so the second call cannot liquidate again).  `NoDust` is needed on the
    result as well because liquidation moves positions (`update` itself never does). -/
theorem updRoot_idem (cfg : Cfg K) (htol : 0 < cfg.tol) (d : Nat) (w w' : World K)
    (hnd : P08.NoDust cfg w.root) (hnd' : P08.NoDust cfg w'.root)
    (h : updRoot cfg d w = .ok w') : updRoot cfg d w' = .ok w' :=
  P08.updRoot_idem_aux htol hnd hnd' h

example : 0 < cfgQ.tol ∧ P08.NoDust cfgQ (World.mk treeQ true).root ∧
    ∃ w', updRoot cfgQ 1 ⟨treeQ, true⟩ = .ok w' ∧ P08.NoDust cfgQ w'.root ∧ w'.root.value = 183 := by
  have hnd : P08.NoDust cfgQ treeQ := by
    simp only [treeQ, P08.noDust_strat, P08.noDust_sec, P08.NoDustL]
    decide +kernel
  refine ⟨by decide +kernel, hnd, ?_⟩
  have h1 : (P08.updRootF cfgQ 1 2 ⟨treeQ, true⟩).toOption.map (·.root.value) = some 183 := by
    decide +kernel
  cases h : P08.updRootF cfgQ 1 2 ⟨treeQ, true⟩ with
  | error e => rw [h] at h1; cases h1
  | ok w' =>
    rw [h] at h1
    have hu := P08.updRootF_sound h
    exact ⟨w', hu, (P08.updRootF_noDust h).2 hnd, by simpa [Except.toOption] using h1⟩

/-- (2′)/(3′) "any number of times": after one `update(d)`, `k` further ones in a row change nothing. -/
theorem updNode_idem_iter (cfg : Cfg K) (htol : 0 < cfg.tol) (d : Nat) (n n' : Node K)
    (hnd : P08.NoDust cfg n) (h : updNode cfg d n = .ok n') (k : Nat) :
    P08.updNodeN cfg d k n' = .ok n' :=
  P08.updNodeN_fixed (P08.updNode_idem_aux cfg htol d n hnd n' h) k

theorem updRoot_idem_iter (cfg : Cfg K) (htol : 0 < cfg.tol) (d : Nat) (w w' : World K)
    (hnd : P08.NoDust cfg w.root) (hnd' : P08.NoDust cfg w'.root)
    (h : updRoot cfg d w = .ok w') (k : Nat) : P08.updRootN cfg d k w' = .ok w' :=
  P08.updRootN_fixed (P08.updRoot_idem_aux htol hnd hnd' h) k

example (n : Node Rat) : P08.updNodeN cfgQ 1 2 n = (updNode cfgQ 1 n).bind fun n1 =>
    (updNode cfgQ 1 n1).bind fun n2 => .ok n2 := rfl

/-- with the bankruptcy flag set (as after a liquidation) `root.update` is `update` of the root node -/
theorem updRoot_eq_updNode_of_bankrupt (cfg : Cfg K) (d : Nat) (sd : StratData K) (kids : List (Node K))
    (st : Bool) (hb : sd.bankrupt = true) :
    updRoot cfg d ⟨.strat sd kids, st⟩ =
      (updNode cfg d (.strat sd kids)).map fun n => { root := n, stale := false } :=
  P08.updRoot_eq_updNode_of_bankrupt cfg d kids st hb

example : ({ stratQ with bankrupt := true } : StratData Rat).bankrupt = true := rfl

/-- without bankruptcy `NoDust` of the result follows from that of the input -/
theorem updNode_noDust (cfg : Cfg K) (d : Nat) (n n' : Node K) (h : updNode cfg d n = .ok n') :
    P08.NoDust cfg n' ↔ P08.NoDust cfg n :=
  P08.updNode_noDust cfg d n n' h

example : (P08.updNodeF cfgQ 1 3 treeQ).toOption.isSome = true := by decide +kernel

/-- (4a) the refresh every refreshing getter starts with is idempotent (it clears `stale`). -/
theorem refresh_idem (cfg : Cfg K) (w w' : World K) (h : refresh cfg w = .ok w') :
    refresh cfg w' = .ok w' :=
  P08.refresh_idem_aux h

example : ∃ w', refresh cfgQ ⟨treeQ, true⟩ = .ok w' ∧ w'.stale = false := by
  have h1 : (P08.updRootF cfgQ 0 2 ⟨treeQ, true⟩).toOption.isSome = true := by decide +kernel
  cases h : P08.updRootF cfgQ 0 2 ⟨treeQ, true⟩ with
  | error e => rw [h] at h1; cases h1
  | ok w' =>
    have hu := P08.updRootF_sound h
    exact ⟨w', by rw [P08.refresh_of_stale rfl (d := 0) rfl]; exact hu, P08.updRoot_stale hu⟩

/-- (4b) reading a refreshing property (`value`, `weight`, `notional_value`, `price`, `prices`, …) of
    any node is exactly `if root.stale: root.update(root.now)`: with pending changes it returns what an
    explicit `root.update(root.now)` returns … -/
theorem read_fresh (cfg : Cfg K) (w : World K) (path : List Nat) :
    opRead cfg w path .stratRefreshing = refresh cfg w := rfl

theorem read_fresh_stale (cfg : Cfg K) (w : World K) (path : List Nat) (d : Nat)
    (hs : w.stale = true) (hn : w.root.now = some d) :
    opRead cfg w path .stratRefreshing = updRoot cfg d w :=
  P08.refresh_of_stale hs hn

/-- … without pending changes the read is the identity … -/
theorem read_fresh_id (cfg : Cfg K) (w : World K) (path : List Nat) (hs : w.stale = false) :
    opRead cfg w path .stratRefreshing = .ok w :=
  P08.refresh_of_fresh hs

/-- … and after an explicit update every refreshing read is the identity. -/
theorem read_after_update (cfg : Cfg K) (d : Nat) (w w' : World K) (path : List Nat)
    (h : updRoot cfg d w = .ok w') : opRead cfg w' path .stratRefreshing = .ok w' :=
  P08.refresh_of_fresh (P08.updRoot_stale h)

example : (World.mk treeQ false).stale = false ∧ (World.mk treeQ true).root.now = some 0 := ⟨rfl, rfl⟩

/-! ### (5) history is append-only

`P08.Frozen P n n'` (Bt/Proofs/C08Rows.lean): `n` and `n'` have the same tree shape and, node by node,
every recorded row list (`rValue rPosition rNotl rOutlay rBidofferPaid rCoupon rHolding` of a security,
`rPrice rValue rNotl rCash rFees rFlows rBidofferPaid` of a strategy) has kept its length and its entry
at every index outside `P`; the only exception, as in the code, is the notional row of the two hedge
kinds, which `update` zero-fills entirely (`P08.RowOK … true`: "unchanged or 0").  `P08.allRows` lists
all those row lists of a tree, `P08.rowsAt j` their entries at index `j`, `P08.rowLens` their lengths. -/

/-- (5a) `update(d)` of any node writes recorded rows at index `d` only — anywhere in the tree. -/
theorem past_rows_frozen (cfg : Cfg K) (d : Nat) (n n' : Node K) (h : updNode cfg d n = .ok n') :
    P08.Frozen (· = d) n n' :=
  P08.updNode_frozen (P := (· = d)) rfl n n' h

/-- (5a′) spelled out: under the invariant that hedge securities' notional rows are all zero,
    every recorded entry at every index `j ≠ d` of every row list of the tree is unchanged,
    and no row list changes length. -/
theorem past_rows_frozen_entries (cfg : Cfg K) (d : Nat) (n n' : Node K) (h : updNode cfg d n = .ok n')
    (hz : P08.HedgeZero n) (j : Nat) (hj : j ≠ d) :
    P08.rowsAt j n' = P08.rowsAt j n ∧ P08.rowLens n' = P08.rowLens n :=
  ⟨(P08.updNode_frozen (P := (· = d)) rfl n n' h).rowsAt_eq hz hj,
   (P08.updNode_frozen (P := (· = d)) rfl n n' h).rowLens_eq⟩

/-- (5a″) the hedge invariant used above is maintained by `update` (and established by it for every
    hedge security it visits: `HedgeSecurity.update` zero-fills the whole notional series). -/
theorem hedgeZero_preserved (cfg : Cfg K) (d : Nat) (n n' : Node K) (h : updNode cfg d n = .ok n')
    (hz : P08.HedgeZero n) : P08.HedgeZero n' :=
  P08.updNode_hedgeZero n n' h hz

example : P08.HedgeZero treeQ ∧ ∃ n', updNode cfgQ 1 treeQ = .ok n' ∧ P08.rowsAt 1 n' ≠ P08.rowsAt 1 treeQ := by
  refine ⟨by simp [treeQ, P08.HedgeZero, P08.HedgeZeroL, P08.isHedge, secQ], ?_⟩
  have h1 : (P08.updNodeF cfgQ 1 3 treeQ).toOption.map (fun n => (P08.rowsAt 1 n).take 2) =
      some [some 183, some 183] := by decide +kernel
  cases h : P08.updNodeF cfgQ 1 3 treeQ with
  | error e => rw [h] at h1; cases h1
  | ok n' =>
    rw [h] at h1
    refine ⟨n', P08.updNodeF_sound _ _ _ h, fun hh => ?_⟩
    simp only [Except.toOption, Option.map_some, Option.some.injEq, hh] at h1
    exact absurd h1 (by decide +kernel)

/-- (5b) one security: `SecurityBase.update(d)` (any subclass). -/
theorem secUpdate_rows (cfg : Cfg K) (d : Nat) (s s' : SecData K) (h : secUpdate cfg d s = .ok s') :
    P08.SecFrozen (· = d) s s' :=
  P08.secUpdate_frozen (P := (· = d)) rfl h

example : (secUpdate cfgQ 1 secQ).toOption.isSome = true := by decide +kernel

/-- (5c) `transact` proper touches no recorded row at all (`fun _ => False`: no index may change). -/
theorem secTransactCore_rows (cfg : Cfg K) (comm : K → K → K) (s : SecData K) (q : K) (custom : Option K)
    (r : SecData K × Option (Adj K)) (h : secTransactCore cfg comm s q custom = .ok r) :
    P08.SecFrozen (fun _ => False) s r.1 :=
  P08.secTransactCore_frozen _ h

example : ((secUpdate cfgQ 1 secQ).toOption.bind fun s =>
    (secTransactCore cfgQ (fun _ _ => 0) s 2 none).toOption.map fun r => r.1.position) = some 5 := by
  decide +kernel

/-- (5d) `allocate` pushed down a tree (`update=False`): the only rows written are those of the
    securities it reaches, by their own `if needupdate or now != parent.now: update(parent.now)`,
    hence at the clock of their parent.  With `P` containing the caller's clock and the clock of every
    strategy of the subtree, nothing outside `P` changes. -/
theorem allocNode_rows (cfg : Cfg K) (P : Nat → Prop) (pnow : Option Nat) (comm : K → K → K) (amount : K)
    (n : Node K) (r : Node K × List (Adj K)) (hp : ∀ d, pnow = some d → P d) (hn : P08.NowsIn P n)
    (h : allocNode cfg pnow comm amount n = .ok r) : P08.Frozen P n r.1 :=
  P08.allocNode_frozen n pnow comm amount r hp hn h

/-- … in particular with one clock `D` everywhere, only index `D` can change. -/
theorem allocNode_rows_clock (cfg : Cfg K) (D : Nat) (comm : K → K → K) (amount : K)
    (n : Node K) (r : Node K × List (Adj K)) (hn : P08.NowsIn (· = D) n)
    (h : allocNode cfg (some D) comm amount n = .ok r) : P08.Frozen (· = D) n r.1 :=
  P08.allocNode_frozen (P := (· = D)) n (some D) comm amount r (fun d hd => by cases hd; rfl) hn h

example : P08.NowsIn (· = 0) treeQ ∧ (allocNode cfgQ (some 0) (fun _ _ => 0) 50 treeQ).toOption.isSome = true := by
  refine ⟨by simp [treeQ, P08.NowsIn, P08.NowsInL, stratQ], ?_⟩
  simp only [treeQ, allocNode.eq_2, allocKids.eq_2, allocKids.eq_1, allocNode.eq_1]
  decide +kernel

/-- (5e) `transact` pushed down a tree: same statement. -/
theorem transNode_rows (cfg : Cfg K) (P : Nat → Prop) (pnow : Option Nat) (comm : K → K → K) (q : K)
    (custom : Option K) (n : Node K) (r : Node K × List (Adj K)) (hp : ∀ d, pnow = some d → P d)
    (hn : P08.NowsIn P n) (h : transNode cfg pnow comm q custom n = .ok r) : P08.Frozen P n r.1 :=
  P08.transNode_frozen n pnow comm q custom r hp hn h

example : P08.NowsIn (· = 0) treeQ ∧
    (transNode cfgQ (some 0) (fun _ _ => 0) 2 none treeQ).toOption.isSome = true := by
  refine ⟨by simp [treeQ, P08.NowsIn, P08.NowsInL, stratQ], ?_⟩
  simp only [treeQ, transNode.eq_2, transKids.eq_2, transKids.eq_1, transNode.eq_1]
  decide +kernel

/-! ### (6) no series grows: no operation changes the length of any recorded row list -/

/-- (6) Every public operation (`P08.PublicStep`: `root.update`, `adjust`, `allocate`, `transact`,
    `flatten`, `close`, `rebalance`, and every getter's refresh) and therefore every finite sequence
    of them (`P08.Run`) keeps the shape of the tree and the length of every recorded row list: the
    series are allocated once and never extended. -/
theorem rows_length (cfg : Cfg K) (w w' : World K) (h : P08.Run cfg w w') :
    P08.rowLens w'.root = P08.rowLens w.root :=
  h.sameRows.rowLens_eq

theorem rows_length_step (cfg : Cfg K) (w w' : World K) (h : P08.PublicStep cfg w w') :
    P08.SameRows w.root w'.root ∧ P08.rowLens w'.root = P08.rowLens w.root :=
  ⟨h.sameRows, h.sameRows.rowLens_eq⟩

example : ∃ w1 w2 : World Rat, P08.Run cfgQ ⟨treeQ, false⟩ w2 ∧
    opAllocate cfgQ ⟨treeQ, false⟩ [0, 0] 50 true = .ok w1 ∧ opAdjust w1 [0] 5 true true = .ok w2 := by
  have h0 : ((opAllocate cfgQ (⟨treeQ, false⟩ : World Rat) [0, 0] 50 true).toOption.bind fun w1 =>
      (opAdjust w1 [0] 5 true true).toOption).isSome = true := by decide +kernel
  cases h1 : opAllocate cfgQ (⟨treeQ, false⟩ : World Rat) [0, 0] 50 true with
  | error e => rw [h1] at h0; cases h0
  | ok w1 =>
    rw [h1] at h0
    cases h2 : opAdjust w1 [0] 5 true true with
    | error e => simp [Except.toOption, h2] at h0
    | ok w2 =>
      exact ⟨w1, w2, .cons (.allocate _ _ _ h1) (.cons (.adjust _ _ _ _ h2) (.nil _)), rfl, h2⟩

end Bt.C08
