import Bt.Proofs.ProgramX
import Bt.Props.C04_progx
import Bt.Props.C16_progx
/-! Dated target weights (`ProgT`: `[RunPeriod, WeighTarget(frame), Rebalance]`) as node functions of the generic program trees:
    public, causal (the frame is indexed by the row; only the current row's entry is used) and the identity when the gate is closed or
    the date is absent from the frame — so the generic whole-backtest theorems apply to trees containing them.  `progRunT` is what the
    extended `whole-run` protocol executes against real backtests. -/
set_option linter.unusedSectionVars false
namespace Bt.C15T
open Bt Bt.P08 Bt.P04 Bt.Prog Bt.PProg Bt.PProgX Bt.Select

variable {K : Type} [Field K] [LinearOrder K] [IsStrictOrderedRing K] [HasFloor K] [Select.HasNatFloor K]
variable {cfg : Cfg K}

/-- every effect of a fixed-income stack goes through the public API, on any world whose clocks lie in `C` -/
theorem progRunT_runC {C : Nat → Prop} {p : ProgT K} {path : List Nat} {d : Nat} {w w' : World K}
    (hw : WOK C w) (h : progRunT cfg p path d w = .ok w') : RunC cfg C w w' := by
  unfold progRunT at h
  split at h
  · split at h
    · cases h; exact .nil _
    · exact algoRebalance_runC hw h
  · cases h; exact .nil _

theorem progRunT_runCAll (p : ProgT K) (path : List Nat) : RunCAll cfg (progRunT cfg p path) :=
  fun _ _ _ _ hw h => progRunT_runC hw h

/-- public in the sense of C04 (explicit updates at the date of the call only) and of C16 (unconditionally) -/
theorem progRunT_public (p : ProgT K) (path : List Nat) : P04.RunPublic cfg (progRunT cfg p path) :=
  (progRunT_runCAll p path).public04

theorem progRunT_public16 (p : ProgT K) (path : List Nat) : P16.RunPublic cfg (progRunT cfg p path) :=
  (progRunT_runCAll p path).public16

/-- truncating the engine data after `t` commutes with the stack at every date `d ≤ t` -/
theorem progRunT_trunc (p : ProgT K) (path : List Nat) {d t : Nat} (hd : d ≤ t) {w : World K} (hw : ClockLE t w) :
    progRunT cfg p path d (w.trunc t) = (progRunT cfg p path d w).map (World.trunc t) := by
  unfold progRunT
  cases hg : p.gate.getD d false with
  | false => rfl
  | true =>
    simp only [↓reduceIte]
    cases hn : p.rows.getD d none with
    | none => rfl
    | some nv => exact algoRebalance_trunc hw path nv none none

theorem progRunT_causalStrong (p : ProgT K) (path : List Nat) (t : Nat) : CausalStrong t (progRunT cfg p path) :=
  fun _ hd _ hw => progRunT_trunc p path hd hw

/-- no look-ahead: a fixed-income stack is causal for every `t` -/
theorem progRunT_causal (p : ProgT K) (path : List Nat) (t : Nat) : Causal t (progRunT cfg p path) :=
  (progRunT_causalStrong p path t).causal

/-- a closed gate (the calendar schedulers on the synthetic row) makes the stack the identity -/
theorem progRunT_gate_closed (p : ProgT K) (path : List Nat) (d : Nat) (w : World K)
    (h : p.gate.getD d false = false) : progRunT cfg p path d w = .ok w := by
  unfold progRunT
  rw [h]; rfl

/-- … and so does a date that is not in the notional series' index (`SetNotional` returns False: the stack stops) -/
theorem progRunT_no_row (p : ProgT K) (path : List Nat) (d : Nat) (w : World K)
    (h : p.rows.getD d none = none) : progRunT cfg p path d w = .ok w := by
  unfold progRunT
  split
  · rw [h]; rfl
  · rfl

/-- non-vacuity: a concrete fixed-income stack with its gate closed on the synthetic row -/
def tgtE : ProgT Rat := { gate := [false, true], rows := [none, some [(0, 1/2)]] }

example (cfg : Cfg Rat) (w : World Rat) : progRunT cfg tgtE [] 0 w = .ok w :=
  progRunT_gate_closed (cfg := cfg) tgtE [] 0 w (by decide)
example (cfg : Cfg Rat) (t : Nat) : Causal t (progRunT cfg tgtE []) ∧ P04.RunPublic cfg (progRunT cfg tgtE []) :=
  ⟨progRunT_causal tgtE [] t, progRunT_public tgtE []⟩

end Bt.C15T
