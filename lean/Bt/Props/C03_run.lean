import Bt.Proofs.IndexRun
import Bt.Proofs.FlagsEval
import Bt.Proofs.IndexRunEx
import Mathlib.Tactic.NormNum
/-!
C03 — the price index over whole runs (property theorems only; helper lemmas live in `Bt.Proofs.IndexRun`,
namespace `Bt.P03`).  `Bt.Props.C03` has the one-write and one-date statements; here the date-level
recurrence is lifted through *every* public operation (`flatten`, `close`, `rebalance`, refreshing reads, the
root's bankruptcy step …) to `btDay`, `btLoop` and `btRun` with arbitrary public algos.

Vocabulary (all in `Bt.P03`):
* `Rec cfg P0 V0 F V P` — what one index write of a market-value strategy establishes:
  `P · (V0 + F) = P0 · V` when the base `V0 + F` passes the `is_zero` guard; with a numerically zero base the
  write succeeds only with a numerically zero value and then `P = P0`.
* `IdxInv cfg sd` — `∃ Fw, Rec cfg sd.lastPrice sd.lastValue Fw sd.value sd.price`: the recorded price and
  value are those of the last index write, made when the flows of the date stood at `Fw`.  The index is
  rewritten only by `stratWrite` and only when value or notional moved by `TOL` or more, so `Fw` need not be the
  current `net_flows`: see `quiet_close_breaks_recurrence`.
* public calls: `P04.StepC cfg (· = d)` / `P04.RunC cfg (· = d)` are `P08.PublicStep` / `P08.Run` whose
  explicit `root.update(date)` calls, if any, are at the current date `d` (`StepC.toPublic`); an explicit
  update at another date *is* a date change and resets the base.  `P04.RunPublic cfg run`: the algos of the
  strategy issue such calls only.  `P04.AtClock d w`: every strategy of the tree that has a clock has it at `d`
  (the state in which `Backtest.run` calls `Strategy.run()`).
-/
set_option linter.unusedSectionVars false
namespace Bt.C03
open Bt Bt.P03 Bt.P03.Ex

variable {K : Type} [Field K] [LinearOrder K] [IsStrictOrderedRing K] [HasFloor K]

/-! ### (1) every public call at a fixed clock -/

/-- One public call at clock `d`, any root: `last_value` and `last_price` of the root are untouched;
    `net_flows` moves only by a root-level `adjust(a, flow=True)`, by `a` (a root-level `allocate` books `−a`
    and `+a`, every adjustment arriving from below is a non-flow); on a market-value, non-paper root the
    invariant `IdxInv` survives, and so does "row `d` of the price series holds the price". -/
theorem public_step_root_index (cfg : Cfg K) (htol : 0 < cfg.tol) (d : Nat) (w w' : World K)
    (sd : StratData K) (kids : List (Node K)) (hw : P04.AtClock d w) (h : P04.StepC cfg (· = d) w w')
    (hr : w.root = .strat sd kids) :
    ∃ sd' kids', w'.root = .strat sd' kids' ∧
      sd'.lastValue = sd.lastValue ∧ sd'.lastPrice = sd.lastPrice ∧
      sd'.fixedIncome = sd.fixedIncome ∧ sd'.paperTrade = sd.paperTrade ∧
      (sd'.netFlows = sd.netFlows ∨
        ∃ a u, opAdjust w [] a u true = .ok w' ∧ sd'.netFlows = sd.netFlows + a) ∧
      (sd.fixedIncome = false → sd.paperTrade = false → IdxInv cfg sd → IdxInv cfg sd') ∧
      (sd.paperTrade = false → sd.rPrice[d]? = some sd.price → sd'.rPrice[d]? = some sd'.price) := by
  obtain ⟨sd', kids', hr', k⟩ := StepC.idxKeep htol hw h hr
  have hnf := StepC.netFlows hw.2 h
  rw [hr, hr'] at hnf
  exact ⟨sd', kids', hr', k.lastValue, k.lastPrice, k.fixedIncome, k.paperTrade, hnf, k.inv, k.row⟩

/-- the same for a `P08.PublicStep` that is not an explicit `root.update` at another date -/
theorem public_step_root_index_of_public (cfg : Cfg K) (htol : 0 < cfg.tol) (d : Nat) (w w' : World K)
    (sd : StratData K) (kids : List (Node K)) (hw : P04.AtClock d w) (h : P08.PublicStep cfg w w')
    (hd : ∀ d', updRoot cfg d' w = .ok w' → d' = d) (hr : w.root = .strat sd kids) :
    ∃ sd' kids', w'.root = .strat sd' kids' ∧
      sd'.lastValue = sd.lastValue ∧ sd'.lastPrice = sd.lastPrice ∧
      (sd'.netFlows = sd.netFlows ∨
        ∃ a u, opAdjust w [] a u true = .ok w' ∧ sd'.netFlows = sd.netFlows + a) ∧
      (sd.fixedIncome = false → sd.paperTrade = false → IdxInv cfg sd → IdxInv cfg sd') := by
  obtain ⟨sd', kids', h1, h2, h3, _, _, h6, h7, _⟩ :=
    public_step_root_index cfg htol d w w' sd kids hw (publicStep_toStepC h hd) hr
  exact ⟨sd', kids', h1, h2, h3, h6, h7⟩

/-- on the close of row 1 of the concrete run (root + one security, funded with 1000, 500 invested) a root-level
    flow of +200 moves `net_flows` from 0 to 200 and nothing else -/
example : ∃ w1 wa : World Rat, P04.AtClock 1 w1 ∧ P04.StepC cfgR (· = 1) w1 wa ∧
    figN w1 = [100, 1000, 0, 1000, 100] ∧ figN wa = [100, 1000, 200, 1000, 100] := by
  obtain ⟨wS, w1, wa, wb, _, h1, ha, _, f1, fa, _⟩ := stepsR_eval
  have hclk : P04.AtClock 1 w1 := by
    unfold btDay at h1
    obtain ⟨x, hx, h1⟩ := P08.bind_eq_ok h1
    split at h1
    · cases h1; exact P04.updRoot_atClock hx
    · obtain ⟨y, _, h1⟩ := P08.bind_eq_ok h1
      exact P04.updRoot_atClock h1
  exact ⟨w1, wa, hclk, .adjust [] 200 true true ha, f1, fa⟩

/-- Any finite sequence of public calls at clock `d`: the same, `net_flows` having moved by the sum of the
    amounts of the root-level flow adjustments executed. -/
theorem run_root_index (cfg : Cfg K) (htol : 0 < cfg.tol) (d : Nat) (w w' : World K)
    (sd : StratData K) (kids : List (Node K)) (hw : P04.AtClock d w) (h : P04.RunC cfg (· = d) w w')
    (hr : w.root = .strat sd kids) :
    ∃ sd' kids', w'.root = .strat sd' kids' ∧
      sd'.lastValue = sd.lastValue ∧ sd'.lastPrice = sd.lastPrice ∧
      sd'.fixedIncome = sd.fixedIncome ∧ sd'.paperTrade = sd.paperTrade ∧
      (∃ L : List K, sd'.netFlows = sd.netFlows + L.sum ∧
        ∀ a ∈ L, ∃ (wa wb : World K) (u : Bool), opAdjust wa [] a u true = .ok wb) ∧
      (sd.fixedIncome = false → sd.paperTrade = false → IdxInv cfg sd → IdxInv cfg sd') ∧
      (sd.paperTrade = false → sd.rPrice[d]? = some sd.price → sd'.rPrice[d]? = some sd'.price) := by
  obtain ⟨sd', kids', hr', k⟩ := RunC.idxKeep htol hw h hr
  obtain ⟨L, hL, hL'⟩ := RunC.netFlows hw h
  rw [hr, hr'] at hL
  exact ⟨sd', kids', hr', k.lastValue, k.lastPrice, k.fixedIncome, k.paperTrade, ⟨L, hL, hL'⟩, k.inv, k.row⟩

/-- … followed by a purchase for 300 (a security trade: cash moves, `net_flows` does not) -/
example : ∃ w1 wb : World Rat, P04.RunC cfgR (· = 1) w1 wb ∧
    figN w1 = [100, 1000, 0, 1000, 100] ∧ figN wb = [100, 1000, 200, 1000, 100] := by
  obtain ⟨wS, w1, wa, wb, _, _, ha, hb, f1, _, fb⟩ := stepsR_eval
  exact ⟨w1, wb, .cons (.adjust [] 200 true true ha) (.cons (.allocate [0] 300 true hb) (.nil _)), f1, fb⟩

/-! ### (2) one date of the loop -/

/-- **The recurrence on one date**, for any public algos.  `w0` is the world at the close of an earlier date
    (`now = n ≠ d`), the root a market-value, non-paper strategy, `btDay` = the loop body of `Backtest.run`
    (`update(d); if not bankrupt: run(); update(d)`), the root not flagged bankrupt at the end of the pass.
    With `V0`, `P0` the value and price of `w0`, and `V`, `F`, `P` value, net flows and price at the close:

    * `last_value = V0`, `last_price = P0`, the rows `d` of the price / value / flows / cash series hold
      `P`, `V`, `F` and the cash;
    * either `Rec cfg P0 V0 F V P` — i.e. `P · (V0 + F) = P0 · V` unless the base is numerically zero —
    * or the closing update found the total `Vt` within `TOL` of the recorded value (and the notional likewise)
      and wrote nothing: then `Rec cfg P0 V0 Fw V P` for the flows `Fw` as they stood at the last index write of
      the date.  This alternative does occur, and `Fw` can differ from `F` by any amount
      (`quiet_close_breaks_recurrence`). -/
theorem btDay_index (cfg : Cfg K) (htol : 0 < cfg.tol) (run : RunFn K) (hrun : P04.RunPublic cfg run)
    (d n : Nat) (w0 w2 : World K) (sd0 : StratData K) (kids0 : List (Node K))
    (hr : w0.root = .strat sd0 kids0) (hfi : sd0.fixedIncome = false) (hpt : sd0.paperTrade = false)
    (hn : sd0.now = some n) (hnd : n ≠ d) (h : btDay cfg run d w0 = .ok w2) (hnb : w2.bankrupt = false) :
    ∃ w1 w' sd2 kids2, updRoot cfg d w0 = .ok w1 ∧ run d w1 = .ok w' ∧ updRoot cfg d w' = .ok w2 ∧
      w2.root = .strat sd2 kids2 ∧ sd2.now = some d ∧ sd2.fixedIncome = false ∧ sd2.paperTrade = false ∧
      sd2.lastValue = sd0.value ∧ sd2.lastPrice = sd0.price ∧
      (d < sd0.rPrice.length → sd2.rPrice[d]? = some sd2.price) ∧
      (d < sd0.rValue.length → sd2.rValue[d]? = some sd2.value) ∧
      (d < sd0.rFlows.length → sd2.rFlows[d]? = some sd2.netFlows) ∧
      (d < sd0.rCash.length → sd2.rCash[d]? = some sd2.capital) ∧
      (Rec cfg sd0.price sd0.value sd2.netFlows sd2.value sd2.price ∨
       ((∃ Fw, Rec cfg sd0.price sd0.value Fw sd2.value sd2.price) ∧
        ∃ Vt, P16.rootTotal cfg d w' = .ok Vt ∧ isZero cfg.tol (sd2.value - Vt) = true)) :=
  btDay_index_aux htol hrun hr hfi hpt hn hnd h hnb

/-- row 2 of the concrete run: the close of row 1 has value 1000, index 100; row 2 brings P&L (+50), then a flow
    of +200: value 1250, flows 200, index 625/6 — all hypotheses hold, and `625/6 · (1000 + 200) = 100 · 1250` -/
example : ∃ (w1 w2 : World Rat) (sd1 : StratData Rat) (kids1 : List (Node Rat)),
    P04.RunPublic cfgR runR ∧ w1.root = .strat sd1 kids1 ∧ sd1.fixedIncome = false ∧ sd1.paperTrade = false ∧
    sd1.now = some 1 ∧ btDay cfgR runR 2 w1 = .ok w2 ∧ w2.bankrupt = false ∧
    sd1.price = 100 ∧ sd1.value = 1000 ∧ figN w2 = [625/6, 1250, 200, 1000, 100] ∧
    Rec cfgR 100 1000 200 1250 (625/6) := by
  obtain ⟨wS, w1, w2, _, _, h2, _, _, _, f1, b1, c1, f2, b2, _⟩ := runR_eval
  obtain ⟨sd1, kids1, hr1, e1, e2, _, _, _, e6, e7, _, e9⟩ := fig_strat f1 b1 c1
  exact ⟨w1, w2, sd1, kids1, runR_public, hr1, e6, e7, e9, h2, bankrupt_of_figB b2, e1, e2, f2,
    .inl ⟨by norm_num [isZero, absA, cfgR], by norm_num⟩⟩

/-- … and the theorem applied to it: the base captured on row 2 is the close of row 1 -/
example : ∃ (w1 w2 : World Rat) (sd2 : StratData Rat) (kids2 : List (Node Rat)),
    btDay cfgR runR 2 w1 = .ok w2 ∧ w2.root = .strat sd2 kids2 ∧ sd2.lastValue = 1000 ∧ sd2.lastPrice = 100 ∧
    (Rec cfgR 100 1000 sd2.netFlows sd2.value sd2.price ∨
      ∃ Fw, Rec cfgR 100 1000 Fw sd2.value sd2.price) := by
  obtain ⟨wS, w1, w2, _, _, h2, _, _, _, f1, b1, c1, _, b2, _⟩ := runR_eval
  obtain ⟨sd1, kids1, hr1, e1, e2, _, _, _, e6, e7, _, e9⟩ := fig_strat f1 b1 c1
  obtain ⟨_, _, sd2, kids2, _, _, _, hr2, _, _, _, lv, lp, _, _, _, _, hrec⟩ :=
    btDay_index cfgR (by norm_num [cfgR]) runR runR_public 2 1 w1 w2 sd1 kids1 hr1 e6 e7 e9 (by decide) h2
      (bankrupt_of_figB b2)
  rw [e1, e2] at hrec
  refine ⟨w1, w2, sd2, kids2, h2, hr2, by rw [lv, e2], by rw [lp, e1], ?_⟩
  rcases hrec with h | ⟨h, _⟩
  · exact .inl h
  · exact .inr h

/-- **WITNESS: the alternative is real, and not small.**  A flow of +50 and a non-flow adjustment of −50 on the
    same date leave the value where it was, so the closing update writes nothing: the index stays at 100 on
    value 1000 while the base has moved to 1000 + 50 — `price · (value[t−1] + flows[t]) = price[t−1] · value[t]`
    fails (105000 ≠ 100000); the index the formula would give is 100 · 1000 / 1050 ≈ 95.24. -/
theorem quiet_close_breaks_recurrence :
    ∃ (run : RunFn Rat) (w0 w2 : World Rat) (sd0 sd2 : StratData Rat) (kids0 kids2 : List (Node Rat)),
      P04.RunPublic cfgR run ∧ w0.root = .strat sd0 kids0 ∧ sd0.fixedIncome = false ∧
      sd0.paperTrade = false ∧ sd0.now = some 0 ∧ btDay cfgR run 1 w0 = .ok w2 ∧ w2.bankrupt = false ∧
      w2.root = .strat sd2 kids2 ∧ sd2.netFlows = 50 ∧
      ¬ Rec cfgR sd0.price sd0.value sd2.netFlows sd2.value sd2.price ∧
      Rec cfgR sd0.price sd0.value 0 sd2.value sd2.price := by
  obtain ⟨wS, w1, _, h1, fS, bS, cS, f1, b1⟩ := quietR_eval
  obtain ⟨sd0, kids0, hr0, e1, e2, _, _, _, e6, e7, _, e9⟩ := fig_strat fS bS cS
  obtain ⟨sd2, kids2, hr2, g1, g2, g3, _, _, _, _, _, _⟩ := fig_strat f1 b1 rfl
  refine ⟨runQuietR, wS, w1, sd0, sd2, kids0, kids2, runQuietR_public, hr0, e6, e7, e9, h1,
    bankrupt_of_figB b1, hr2, g3, ?_, ?_⟩
  · rw [e1, e2, g1, g2, g3]
    norm_num [Rec, isZero, absA, cfgR]
  · rw [e1, e2, g1, g2]
    exact .inl ⟨by norm_num [isZero, absA, cfgR], by norm_num⟩

/-- the multiplicative reading of `Rec` -/
theorem rec_recurrence (cfg : Cfg K) (P0 V0 F V P : K) (h : Rec cfg P0 V0 F V P)
    (hb : isZero cfg.tol (V0 + F) = false) : P * (V0 + F) = P0 * V :=
  h.eq_of_base hb

example : Rec cfgR 100 1000 200 1250 (625/6) ∧ isZero cfgR.tol (1000 + 200 : Rat) = false ∧
    (625/6 : Rat) * (1000 + 200) = 100 * 1250 := by
  norm_num [Rec, isZero, absA, cfgR]

/-- … and the reason flows are neutral: a value equal to the base leaves the index where it was, whatever the
    base -/
theorem rec_flat (cfg : Cfg K) (htol : 0 < cfg.tol) (P0 V0 F P : K) (h : Rec cfg P0 V0 F (V0 + F) P) :
    P = P0 :=
  h.flat htol

example : Rec cfgR 100 1000 250 (1000 + 250) 100 := by norm_num [Rec, isZero, absA, cfgR]

/-! ### (3) the loop over dates -/

/-- **Telescoped form.**  Over any list of pairwise distinct dates later than the root's clock, the closes of
    consecutive dates are linked by `Rec` (`IndexChain`), every link using the date's closing flows unless the
    closing update of that date was skipped within `TOL` (`ClosedOrQuiet`); the rows of the price / value /
    flows series of the final world hold the closing figures of every date of the loop (`RowsHold`); and when
    every base passes the `is_zero` guard the final price is `P0 · Π_t V_t / (V_{t−1} + F_t)`. -/
theorem btLoop_index_product (cfg : Cfg K) (htol : 0 < cfg.tol) (run : RunFn K)
    (hrun : P04.RunPublic cfg run) (ds : List Nat) (n : Nat) (w0 w : World K) (sd0 : StratData K)
    (kids0 : List (Node K)) (hr : w0.root = .strat sd0 kids0) (hfi : sd0.fixedIncome = false)
    (hpt : sd0.paperTrade = false) (hn : sd0.now = some n) (hnd : (n :: ds).Nodup)
    (hlen : ∀ d ∈ ds, d < sd0.rPrice.length ∧ d < sd0.rValue.length ∧ d < sd0.rFlows.length)
    (h : btLoop cfg run ds w0 = .ok w) (hnb : w.bankrupt = false) :
    ∃ recs sd kids, w.root = .strat sd kids ∧ recs.map (·.date) = ds ∧
      IndexChain cfg sd0.price sd0.value recs sd.price sd.value ∧
      (∀ r ∈ recs, ClosedOrQuiet cfg r) ∧ (∀ r ∈ recs, RowsHold sd r) ∧
      (chainBases cfg sd0.value recs → sd.price = sd0.price * chainProd sd0.value recs) := by
  obtain ⟨recs, sd, kids, h1, _, _, h4, h5, h6, h7⟩ :=
    btLoop_index_aux htol hrun ds n w0 w sd0 kids0 hr hfi hpt hn hnd hlen h hnb
  exact ⟨recs, sd, kids, h1, h4, h5, h6, h7, fun hb => h5.product htol hb⟩

/-- the whole concrete run: the rows are `price = [100, 100, 625/6, 215/2]`, `value = [1000, 1000, 1250, 1290]`,
    `flows = [1000, 0, 200, 0]`; they form a chain from (100, 1000), all bases pass the guard, and
    `215/2 = 100 · (1000/1000 · 1250/1200 · 1290/1250)` -/
example : ∃ w : World Rat, P04.RunPublic cfgR runR ∧ btRun cfgR runR 1000 [0, 1, 2, 3] w0R = .ok w ∧
    w.bankrupt = false ∧
    figRows w = [[100, 100, 625/6, 215/2], [1000, 1000, 1250, 1290], [1000, 0, 200, 0], [1000, 500, 700, 690]] ∧
    IndexChain cfgR 100 1000 [⟨1, 1000, 0, 0, 100⟩, ⟨2, 1250, 200, 200, 625/6⟩, ⟨3, 1290, 0, 0, 215/2⟩] (215/2) 1290 ∧
    chainBases cfgR 1000 [⟨1, 1000, 0, 0, 100⟩, ⟨2, 1250, 200, 200, 625/6⟩, ⟨3, 1290, 0, 0, 215/2⟩] ∧
    (215/2 : Rat) = 100 * chainProd 1000 [⟨1, 1000, 0, 0, 100⟩, ⟨2, 1250, 200, 200, 625/6⟩, ⟨3, 1290, 0, 0, 215/2⟩] := by
  obtain ⟨w, hw, hrows, _, hb⟩ := runR_rows
  refine ⟨w, runR_public, hw, bankrupt_of_figB hb, hrows, ?_, ?_, ?_⟩
  · refine .cons _ _ (.inl ⟨?_, ?_⟩) (.cons _ _ (.inl ⟨?_, ?_⟩) (.cons _ _ (.inl ⟨?_, ?_⟩) (.nil _ _))) <;>
      norm_num [isZero, absA, cfgR]
  · norm_num [chainBases, isZero, absA, cfgR]
  · norm_num [chainProd]

/-- the recurrence read off the recorded series: a link of the chain whose rows hold -/
theorem chain_link_on_rows (cfg : Cfg K) (P0 V0 : K) (r : DayRec K) (sd : StratData K)
    (hrec : Rec cfg P0 V0 r.Fw r.V r.P) (hc : r.Fw = r.F) (hrows : RowsHold sd r)
    (hb : isZero cfg.tol (V0 + r.F) = false) :
    ∃ p v f, sd.rPrice[r.date]? = some p ∧ sd.rValue[r.date]? = some v ∧ sd.rFlows[r.date]? = some f ∧
      p * (V0 + f) = P0 * v := by
  rw [hc] at hrec
  exact ⟨r.P, r.V, r.F, hrows.1, hrows.2.1, hrows.2.2, hrec.eq_of_base hb⟩

example : ∃ (w : World Rat) (sd : StratData Rat) (kids : List (Node Rat)), w.root = .strat sd kids ∧
    RowsHold sd ⟨2, 1250, 200, 200, 625/6⟩ ∧ Rec cfgR 100 1000 200 1250 (625/6) := by
  obtain ⟨w, _, hrows, _, _⟩ := runR_rows
  obtain ⟨sd, kids, hr, r1, r2, r3, _⟩ := figRows_strat hrows
  refine ⟨w, sd, kids, hr, ⟨?_, ?_, ?_⟩, .inl ⟨by norm_num [isZero, absA, cfgR], by norm_num⟩⟩
  · rw [r1]; rfl
  · rw [r2]; rfl
  · rw [r3]; rfl

/-! ### (4) the start of a run -/

/-- **The index starts at `PAR`**, whatever the capital.  `Backtest.run` opens with `adjust(capital)` (a flow)
    and `update(dates[0])` on the synthetic row; on a root fresh from `setup` (clock unset,
    `last_price = PAR`; either index formula) whose first update finds exactly what it was given, the price on
    the synthetic row — state and row — is `PAR` and the value is the capital. -/
theorem btRun_index_start (cfg : Cfg K) (htol : 0 < cfg.tol) (c : K) (d0 : Nat) (w0 w1 w2 : World K)
    (sd0 : StratData K) (kids0 : List (Node K)) (hr : w0.root = .strat sd0 kids0)
    (hpt : sd0.paperTrade = false) (hn : sd0.now = none) (hlp : sd0.lastPrice = cfg.par)
    (h1 : opAdjust w0 [] c true true = .ok w1) (h2 : updRoot cfg d0 w1 = .ok w2)
    (hT : P16.rootTotal cfg d0 w1 = .ok (sd0.lastValue + sd0.netFlows + c)) (hnb : w2.bankrupt = false) :
    ∃ sd2 kids2, w2.root = .strat sd2 kids2 ∧ sd2.now = some d0 ∧ sd2.price = cfg.par ∧
      sd2.value = sd0.lastValue + sd0.netFlows + c ∧
      (d0 < sd0.rPrice.length → sd2.rPrice[d0]? = some cfg.par) ∧
      (d0 < sd0.rValue.length → sd2.rValue[d0]? = some sd2.value) := by
  obtain ⟨sd2, kids2, a0, a1, _, _, a4, a5, a6, a7, _⟩ := btRun_start_aux htol hr hpt hn hlp h1 h2 hT hnb
  exact ⟨sd2, kids2, a0, a1, a4, a5, a6, a7⟩

/-- the concrete root funded with 1000: all hypotheses hold (the first update totals exactly 1000), index 100 -/
example : ∃ w1 wS : World Rat, w0R.root = .strat stratR [.sec secR] ∧ stratR.paperTrade = false ∧
    stratR.now = none ∧ stratR.lastPrice = cfgR.par ∧ opAdjust w0R [] 1000 true true = .ok w1 ∧
    P16.rootTotal cfgR 0 w1 = .ok (stratR.lastValue + stratR.netFlows + 1000) ∧
    btRun cfgR runR 1000 [0] w0R = .ok wS ∧ figN wS = [100, 1000, 1000, 0, 100] := by
  obtain ⟨wS, _, _, hS, _, _, fS, _⟩ := runR_eval
  have hS' := hS
  unfold btRun at hS'
  simp only at hS'
  obtain ⟨w1, h1, _⟩ := P08.bind_eq_ok hS'
  refine ⟨w1, wS, rfl, rfl, rfl, rfl, h1, ?_, hS, fS⟩
  rw [w0R_total w1 h1]
  norm_num [stratR]

/-- **The whole of `Backtest.run`** on a fresh market-value root: the chain of (3) starts from `PAR` and from
    the initial capital as base — the capital enters the index only as the first base, never as a return. -/
theorem btRun_index (cfg : Cfg K) (htol : 0 < cfg.tol) (run : RunFn K) (hrun : P04.RunPublic cfg run)
    (c : K) (d0 : Nat) (ds : List Nat) (w0 w : World K) (sd0 : StratData K) (kids0 : List (Node K))
    (hr : w0.root = .strat sd0 kids0) (hfi : sd0.fixedIncome = false) (hpt : sd0.paperTrade = false)
    (hn : sd0.now = none) (hlp : sd0.lastPrice = cfg.par) (hnd : (d0 :: ds).Nodup)
    (hlen : ∀ d ∈ d0 :: ds, d < sd0.rPrice.length ∧ d < sd0.rValue.length ∧ d < sd0.rFlows.length)
    (hT : ∀ w1 w2, opAdjust w0 [] c true true = .ok w1 → updRoot cfg d0 w1 = .ok w2 →
      P16.rootTotal cfg d0 w1 = .ok (sd0.lastValue + sd0.netFlows + c))
    (h : btRun cfg run c (d0 :: ds) w0 = .ok w) (hnb : w.bankrupt = false) :
    ∃ recs sd kids, w.root = .strat sd kids ∧ recs.map (·.date) = ds ∧
      IndexChain cfg cfg.par (sd0.lastValue + sd0.netFlows + c) recs sd.price sd.value ∧
      (∀ r ∈ recs, ClosedOrQuiet cfg r) ∧ (∀ r ∈ recs, RowsHold sd r) ∧
      sd.rPrice[d0]? = some cfg.par ∧ sd.rValue[d0]? = some (sd0.lastValue + sd0.netFlows + c) :=
  btRun_index_aux htol hrun hr hfi hpt hn hlp hnd hlen hT h hnb

example : (∀ w1 w2, opAdjust w0R [] 1000 true true = .ok w1 → updRoot cfgR 0 w1 = .ok w2 →
      P16.rootTotal cfgR 0 w1 = .ok (stratR.lastValue + stratR.netFlows + 1000)) ∧
    [0, 1, 2, 3].Nodup ∧
    (∀ d ∈ [0, 1, 2, 3], d < stratR.rPrice.length ∧ d < stratR.rValue.length ∧ d < stratR.rFlows.length) ∧
    ∃ w : World Rat, btRun cfgR runR 1000 [0, 1, 2, 3] w0R = .ok w ∧ w.bankrupt = false := by
  refine ⟨fun w1 _ h1 _ => by rw [w0R_total w1 h1]; norm_num [stratR], by decide, by decide, ?_⟩
  obtain ⟨w, hw, _, _, hb⟩ := runR_rows
  exact ⟨w, hw, bankrupt_of_figB hb⟩

/-- … in particular on a fresh root whose children are securities without positions (`FlatSecs`) and whose
    cash is what it carries as base and flows (all zero after `setup`): the hypothesis on the first total is
    then automatic, the first base is the capital. -/
theorem btRun_index_flat (cfg : Cfg K) (htol : 0 < cfg.tol) (run : RunFn K) (hrun : P04.RunPublic cfg run)
    (c : K) (d0 : Nat) (ds : List Nat) (w0 w : World K) (sd0 : StratData K) (kids0 : List (Node K))
    (hr : w0.root = .strat sd0 kids0) (hfi : sd0.fixedIncome = false) (hpt : sd0.paperTrade = false)
    (hn : sd0.now = none) (hlp : sd0.lastPrice = cfg.par) (hflat : FlatSecs kids0)
    (hcap : sd0.capital = sd0.lastValue + sd0.netFlows) (hnd : (d0 :: ds).Nodup)
    (hlen : ∀ d ∈ d0 :: ds, d < sd0.rPrice.length ∧ d < sd0.rValue.length ∧ d < sd0.rFlows.length)
    (h : btRun cfg run c (d0 :: ds) w0 = .ok w) (hnb : w.bankrupt = false) :
    ∃ recs sd kids, w.root = .strat sd kids ∧ recs.map (·.date) = ds ∧
      IndexChain cfg cfg.par (sd0.lastValue + sd0.netFlows + c) recs sd.price sd.value ∧
      (∀ r ∈ recs, ClosedOrQuiet cfg r) ∧ (∀ r ∈ recs, RowsHold sd r) ∧
      sd.rPrice[d0]? = some cfg.par ∧ sd.rValue[d0]? = some (sd0.lastValue + sd0.netFlows + c) := by
  refine btRun_index_aux htol hrun hr hfi hpt hn hlp hnd hlen (fun w1 w2 h1 h2 => ?_) h hnb
  obtain ⟨sdA, kidsA, eA, e1⟩ := P09.opAdjust_root h1
  rw [hr] at eA
  simp only [Node.strat.injEq] at eA
  obtain ⟨rfl, rfl⟩ := eA
  obtain ⟨f1, f2, f3⟩ := flatSecs_fresh d0 kids0 hflat
  rw [rootTotal_secs e1 f1 h2, f2, f3]
  simp [StratData.adjust, hcap]

/-- applied to the concrete run: a chain from (`PAR`, 1000) over rows 1–3 whose rows hold in the final world -/
example : ∃ (w : World Rat) (recs : List (DayRec Rat)) (sd : StratData Rat) (kids : List (Node Rat)),
    btRun cfgR runR 1000 [0, 1, 2, 3] w0R = .ok w ∧ w.root = .strat sd kids ∧ recs.map (·.date) = [1, 2, 3] ∧
    IndexChain cfgR cfgR.par (0 + 0 + 1000) recs sd.price sd.value ∧ (∀ r ∈ recs, RowsHold sd r) ∧
    sd.rPrice[0]? = some cfgR.par := by
  obtain ⟨w, hw, _, _, hb⟩ := runR_rows
  obtain ⟨recs, sd, kids, h1, h2, h3, _, h5, h6, _⟩ :=
    btRun_index_flat cfgR (by norm_num [cfgR]) runR runR_public 1000 0 [1, 2, 3] w0R w stratR [.sec secR] rfl rfl
      rfl rfl rfl ⟨rfl, rfl, rfl, trivial⟩ (by norm_num [stratR]) (by decide) (by decide) hw
      (bankrupt_of_figB hb)
  exact ⟨w, recs, sd, kids, hw, h1, h2, h3, h5, h6⟩

/-- **Initial capital is flow-neutral**: the first link of the chain has base `capital + flows of the first
    date`, so if the first data date closes with exactly that value (no P&L yet) the index is still `PAR`,
    whatever the capital. -/
theorem initial_capital_is_flow_neutral (cfg : Cfg K) (htol : 0 < cfg.tol) (C : K) (r : DayRec K)
    (rs : List (DayRec K)) (P V : K) (h : IndexChain cfg cfg.par C (r :: rs) P V) (hv : r.V = C + r.Fw) :
    r.P = cfg.par := by
  cases h with
  | cons _ _ hrec _ => rw [hv] at hrec; exact hrec.flat htol

/-- capital 1000, a flow of 250 on the first date and nothing else: value 1250 on base 1000 + 250 — index 100 -/
example : IndexChain cfgR cfgR.par 1000 [⟨1, 1250, 250, 250, 100⟩] 100 1250 ∧ (1250 : Rat) = 1000 + 250 := by
  refine ⟨.cons _ _ (.inl ⟨?_, ?_⟩) (.nil _ _), by norm_num⟩ <;> norm_num [isZero, absA, cfgR]

/-! ### (5) flows never move the index: the cash-only strategy; scaling -/

/-- One date on a **cash-only** root (no children) whose recorded value is its cash, the algos issuing any
    public calls but booking nothing but flows on the root (`FlowPublic`): the index does not move — even
    through the bankruptcy step — and the closing value is the cash, or within `TOL` of it. -/
theorem cash_day_index_constant (cfg : Cfg K) (htol : 0 < cfg.tol) (run : RunFn K)
    (hrun : FlowPublic cfg run) (d n : Nat) (w0 w2 : World K) (sd0 : StratData K)
    (hr : w0.root = .strat sd0 []) (hfi : sd0.fixedIncome = false) (hpt : sd0.paperTrade = false)
    (hn : sd0.now = some n) (hnd : n ≠ d) (hex : sd0.value = sd0.capital)
    (h : btDay cfg run d w0 = .ok w2) :
    ∃ sd2, w2.root = .strat sd2 [] ∧ sd2.price = sd0.price ∧ sd2.lastPrice = sd0.price ∧
      sd2.capital = sd0.value + sd2.netFlows ∧
      (sd2.value = sd2.capital ∨ isZero cfg.tol (sd2.value - sd2.capital) = true) := by
  obtain ⟨sd2, h1, h2, h3⟩ := cash_btDay htol hrun hr hfi hpt hn hnd hex h
  exact ⟨sd2, h1, h2.price, h2.lastPrice, h2.cash, h3⟩

/-- a cash-only root holding 1000 at the close of row 0; row 1 brings a flow of +250: the theorem applies, the
    index stays at 100 (value and cash 1250) -/
example : ∃ (wS w1 : World Rat) (sd1 : StratData Rat), btDay cfgR runFlowsR 1 wS = .ok w1 ∧
    w1.root = .strat sd1 [] ∧ sd1.price = 100 ∧ figN w1 = [100, 1250, 250, 1000, 100] := by
  obtain ⟨wS, w1, _, h1, fS, bS, cS, kS, capS, f1⟩ := flowsR_day_eval
  obtain ⟨sd0, kids0, hr0, e1, e2, _, _, _, e6, e7, _, e9⟩ := fig_strat fS bS cS
  have hk := kids_nil_of_figKids hr0 kS
  subst hk
  have hcap : sd0.value = sd0.capital := by rw [e2, ← figCap_strat hr0, capS]
  obtain ⟨sd1, g1, g2, _⟩ := cash_day_index_constant cfgR (by norm_num [cfgR]) runFlowsR runFlowsR_flow 1 0 wS w1
    sd0 hr0 e6 e7 e9 (by decide) hcap h1
  exact ⟨wS, w1, sd1, h1, g1, by rw [g2, e1], f1⟩

/-- **A cash-only strategy under any sequence of flows over any dates keeps its index at `PAR`** — read off the
    recorded rows of the final world: provided on every date the recorded value equals the recorded cash (no
    closing update was skipped within `TOL`; a flow smaller than `TOL` can be, and then leaks into the next
    date's return: `subtol_flow_moves_cash_index`), the price row is `PAR` on every date. -/
theorem cash_only_index_constant (cfg : Cfg K) (htol : 0 < cfg.tol) (run : RunFn K)
    (hrun : FlowPublic cfg run) (c : K) (d0 : Nat) (ds : List Nat) (w0 w : World K) (sd0 sd : StratData K)
    (kids : List (Node K)) (hr : w0.root = .strat sd0 []) (hfi : sd0.fixedIncome = false)
    (hpt : sd0.paperTrade = false) (hn : sd0.now = none) (hlp : sd0.lastPrice = cfg.par)
    (hcap : sd0.capital = sd0.lastValue + sd0.netFlows) (hnd : (d0 :: ds).Nodup)
    (hlen : ∀ d ∈ d0 :: ds, d < sd0.rPrice.length ∧ d < sd0.rValue.length ∧ d < sd0.rCash.length)
    (h : btRun cfg run c (d0 :: ds) w0 = .ok w) (hnb : w.bankrupt = false)
    (hrw : w.root = .strat sd kids) (hrows : ∀ d ∈ d0 :: ds, sd.rValue[d]? = sd.rCash[d]?) :
    kids = [] ∧ sd.price = cfg.par ∧ ∀ d ∈ d0 :: ds, sd.rPrice[d]? = some cfg.par :=
  cash_btRun_aux htol hrun hr hfi hpt hn hlp hcap hnd hlen h hnb hrw hrows

/-- flows +250 and −400 on a cash-only root funded with 1000: value row = cash row = [1000, 1250, 850, 850],
    price row = [100, 100, 100, 100] -/
example : ∃ (w : World Rat) (sd : StratData Rat) (kids : List (Node Rat)), FlowPublic cfgR runFlowsR ∧
    btRun cfgR runFlowsR 1000 [0, 1, 2, 3] wCashR = .ok w ∧ w.bankrupt = false ∧ w.root = .strat sd kids ∧
    (∀ d ∈ [0, 1, 2, 3], sd.rValue[d]? = sd.rCash[d]?) ∧ sd.rPrice = [100, 100, 100, 100] := by
  obtain ⟨w, hw, hrows, hb⟩ := flowsR_rows
  obtain ⟨sd, kids, hr, r1, r2, _, r4⟩ := figRows_strat hrows
  refine ⟨w, sd, kids, runFlowsR_flow, hw, bankrupt_of_figB hb, hr, ?_, r1⟩
  rw [r2, r4]; decide

/-- … and the theorem applied to that run -/
example : ∃ (w : World Rat) (sd : StratData Rat) (kids : List (Node Rat)),
    btRun cfgR runFlowsR 1000 [0, 1, 2, 3] wCashR = .ok w ∧ w.root = .strat sd kids ∧ kids = [] ∧
    sd.price = cfgR.par ∧ ∀ d ∈ [0, 1, 2, 3], sd.rPrice[d]? = some cfgR.par := by
  obtain ⟨w, hw, hrows, hb⟩ := flowsR_rows
  obtain ⟨sd, kids, hr, _, r2, _, r4⟩ := figRows_strat hrows
  obtain ⟨k1, k2, k3⟩ := cash_only_index_constant cfgR (by norm_num [cfgR]) runFlowsR runFlowsR_flow 1000 0
    [1, 2, 3] wCashR w stratR sd kids rfl rfl rfl rfl rfl (by norm_num [stratR]) (by decide) (by decide) hw
    (bankrupt_of_figB hb) hr (by rw [r2, r4]; decide)
  exact ⟨w, sd, kids, hw, hr, k1, k2, k3⟩

/-- **WITNESS: a flow smaller than `TOL` does move the index of a cash-only strategy.**  `TOL = 1/1000`; a flow
    of 1/2000 on row 1 is not written (recorded value 1000, recorded cash 1000.0005 — the hypothesis of
    `cash_only_index_constant` fails on that row), so row 2 starts from base 1000 and finds 1000.0005: the
    index of row 2 is 100.00005 although nothing but a flow ever happened. -/
theorem subtol_flow_moves_cash_index :
    ∃ (w : World Rat) (sd : StratData Rat) (kids : List (Node Rat)), FlowPublic cfgR runSubR ∧
      btRun cfgR runSubR 1000 [0, 1, 2] wCashR = .ok w ∧ w.bankrupt = false ∧ w.root = .strat sd kids ∧
      sd.rValue[1]? = some 1000 ∧ sd.rCash[1]? = some (2000001/2000) ∧
      sd.rPrice[2]? = some (2000001/20000) ∧ (2000001/20000 : Rat) ≠ cfgR.par := by
  obtain ⟨w, hw, hrows, hb⟩ := subR_rows
  obtain ⟨sd, kids, hr, r1, r2, _, r4⟩ := figRows_strat hrows
  refine ⟨w, sd, kids, runSubR_flow, hw, bankrupt_of_figB hb, hr, ?_, ?_, ?_, by norm_num [cfgR]⟩
  · rw [r2]; rfl
  · rw [r4]; rfl
  · rw [r1]; rfl

/-- **Scale invariance (partial).**  Two chains of closes from the same index — e.g. the chains
    `btLoop_index_product` / `btRun_index` give for the run started with capital `c` and for the run started
    with `k · c` — the second with every closing value and every flow `k` times those of the first, all bases
    passing the `is_zero` guard in both: the index is the same at every close.

    *Missing for the full statement:* that the engine, run from `k · c` with fractional positions, commissions
    homogeneous in the quantity (`comm (k·q) p = k · comm q p`) and algos that commute with scaling, does produce
    closing values and flows `k` times as large.  This cannot hold unconditionally: every `is_zero` guard of the
    engine (the write guard of the index, the zero-base test, the weight and bankruptcy tests) compares with
    the absolute `TOL`, which does not scale — `scale_breaks_below_tol`. -/
theorem scale_invariance_run_partial (cfg : Cfg K) (htol : 0 < cfg.tol) (k : K) (hk : k ≠ 0)
    (rs rs' : List (DayRec K)) (P0 V0 P V P' V' : K) (h : IndexChain cfg P0 V0 rs P V)
    (h' : IndexChain cfg P0 (k * V0) rs' P' V') (hs : List.Forall₂ (ScaledRec k) rs rs')
    (hb : chainBases cfg V0 rs) (hb' : chainBases cfg (k * V0) rs') :
    P' = P ∧ List.Forall₂ (fun r r' => r'.P = r.P) rs rs' :=
  IndexChain.scale htol hk h h' hs hb hb'

/-- the chain of the concrete run and the same chain with capital, values and flows tripled -/
example : IndexChain cfgR 100 1000 [⟨1, 1000, 0, 0, 100⟩, ⟨2, 1250, 200, 200, 625/6⟩] (625/6) 1250 ∧
    IndexChain cfgR 100 (3 * 1000) [⟨1, 3000, 0, 0, 100⟩, ⟨2, 3750, 600, 600, 625/6⟩] (625/6) 3750 ∧
    List.Forall₂ (ScaledRec (3 : Rat)) [⟨1, 1000, 0, 0, 100⟩, ⟨2, 1250, 200, 200, 625/6⟩]
      [⟨1, 3000, 0, 0, 100⟩, ⟨2, 3750, 600, 600, 625/6⟩] := by
  refine ⟨.cons _ _ (.inl ⟨?_, ?_⟩) (.cons _ _ (.inl ⟨?_, ?_⟩) (.nil _ _)),
    .cons _ _ (.inl ⟨?_, ?_⟩) (.cons _ _ (.inl ⟨?_, ?_⟩) (.nil _ _)),
    .cons ⟨?_, ?_⟩ (.cons ⟨?_, ?_⟩ .nil)⟩ <;> norm_num [isZero, absA, cfgR]

/-- **WITNESS: the index does depend on the amount of capital once a base falls below `TOL`.**  Base 1000,
    value 1100: index 110.  The same scaled by `k = 10⁻⁷` (base 10⁻⁴ < `TOL = 10⁻³`): base and value both count
    as zero, the return is taken to be 0 and the index stays at 100.  Both are what `stratWrite` writes
    (`Rec`). -/
theorem scale_breaks_below_tol :
    Rec cfgR 100 1000 0 1100 110 ∧ Rec cfgR 100 (1/10000000 * 1000) (1/10000000 * 0) (1/10000000 * 1100) 100 ∧
    (110 : Rat) ≠ 100 := by
  refine ⟨.inl ⟨?_, ?_⟩, .inr ⟨?_, ?_, rfl⟩, by norm_num⟩ <;> norm_num [isZero, absA, cfgR]

end Bt.C03
