import Bt.Proofs.ProgramRPos
import Bt.Proofs.ProgramRCash
import Bt.Proofs.ProgramREx
/-! C18 ("replaying a transaction list through `ReplayTransactions` reproduces its positions") for the whole-program model of
    blotter-driven strategies (`Bt.Prog.progRunR`, tied to bt/algos.py by the `whole-run-r` protocol).

    A flat strategy — the root, all children securities (`Flat`) — replaying a frame whose rows are stamped anywhere and listed
    in any order, over an increasing timeline `a = tl[0] < … < tl[n] = b` (row 0 the synthetic row `Backtest` prepends):
    **after the completed run every security's position is its initial position plus the sum of the quantities of the rows
    naming it that are stamped in `(a, b]` — each row executed exactly once, rows stamped outside never**.

    Hypotheses, all stated: the run completed (`= .ok r`: no exception — e.g. every traded security had a price on its
    date) and ended with the root not flagged bankrupt (`r.bankrupt = false`; a liquidation closes positions by design, and the
    flag is sticky, so the whole run was free of it).  A quantity `q` with `is_zero(q)` (`|q| < TOL`) is skipped by
    `transact`: the sum is over the effective quantities (`qsum`), equal to the plain sum when no quantity is that small
    (`replay_positions_plain`).  `SimulateRFQTransactions`: the same statement (the price multiplier does not matter).
    Helper lemmas: `Bt.Proofs.ProgramRPos`. -/
set_option linter.unusedSectionVars false
namespace Bt.C18
open Bt Bt.Prog Bt.PProg Bt.PProgR Bt.Blotter

variable {K : Type} [Field K] [LinearOrder K] [IsStrictOrderedRing K] [HasFloor K]

/-- **one row of the frame**: `target[security].transact(quantity, price=price, update=False)` moves that security's
    position by the quantity (not at all when `is_zero(quantity)`), and no other position -/
theorem replay_row_position (cfg : Cfg K) (mult : Option K) (w w' : World K) (r : Int × BRow K) (hf : Flat w)
    (h : execRow cfg mult [] w r = .ok w') : Flat w' ∧ ∀ j, posAt w' j = posAt w j + rowQ cfg j r :=
  execRow_pos hf h

/-- **one day of the backtest** (`update; run; update`, the run being the blotter-driven stack) that ends with the root not
    flagged: every position moves by exactly the quantities of the rows of that day's window -/
theorem replay_day_positions (cfg : Cfg K) (p : ProgR K) (d : Nat) (w w' : World K) (hf : Flat w)
    (h : btDay cfg (progRunR cfg p []) d w = .ok w') (hb : w'.bankrupt = false) :
    Flat w' ∧ ∀ j, posAt w' j = posAt w j + qsum cfg j (select p.timeline d p.rows) :=
  btDay_pos p hf h hb

/-- **the windows partition the frame**: on an increasing timeline the calls of rows `1..n` execute, between them, exactly the
    rows stamped in `(tl[0], tl[n]]`, each once (`C04.window_disjoint`, `C04.window_covers`) — whatever the frame's order -/
theorem windows_partition (cfg : Cfg K) (j : Nat) (tl : List Int) (hs : tl.Pairwise (· < ·)) (n : Nat)
    (hlen : tl.length = n + 1) (a b : Int) (ha : tl[0]? = some a) (hb : tl[n]? = some b) (rows : List (Int × BRow K)) :
    daysSum cfg j tl rows (List.range' 1 n) = qsum cfg j (rows.filter fun r => decide (a < r.1 ∧ r.1 ≤ b)) :=
  daysSum_range j tl hs n hlen a b ha hb rows

/-- … and if row 0 were called as well (`start = Timestamp.min`; no tree is run there - before the repair of
    `StrategyBase.update` a shadow copy was): the rows stamped up to `tl[n]` -/
theorem windows_partition_from_zero (cfg : Cfg K) (j : Nat) (tl : List Int) (hs : tl.Pairwise (· < ·)) (n : Nat)
    (hlen : tl.length = n + 1) (a b : Int) (ha : tl[0]? = some a) (hb : tl[n]? = some b) (rows : List (Int × BRow K)) :
    daysSum cfg j tl rows (List.range' 0 (n + 1)) = qsum cfg j (rows.filter fun r => decide (r.1 ≤ b)) :=
  daysSum_range0 j tl hs n hlen a b ha hb rows

/-- **Replay reproduces the positions.**  A complete backtest (`Backtest.run`: initial capital, the synthetic row `0`, the loop
    over rows `1..n`) of a flat blotter-driven strategy over an increasing timeline of `n + 1` stamps, that completes and ends
    unflagged: the tree is still flat and every child's position is its initial position plus the effective quantities of the
    rows naming it that are stamped in `(tl[0], tl[n]]` — each such row exactly once, every other row never. -/
theorem replay_positions (cfg : Cfg K) (p : ProgR K) (hs : p.timeline.Pairwise (· < ·)) (n : Nat)
    (hlen : p.timeline.length = n + 1) (a b : Int) (ha : p.timeline[0]? = some a) (hb : p.timeline[n]? = some b)
    (capital : K) (w r : World K) (hf : Flat w)
    (h : btRun cfg (progRunR cfg p []) capital (0 :: List.range' 1 n) w = .ok r) (hnb : r.bankrupt = false) :
    Flat r ∧ ∀ j, posAt r j = posAt w j + qsum cfg j (p.rows.filter fun x => decide (a < x.1 ∧ x.1 ≤ b)) := by
  obtain ⟨hfr, hp⟩ := btRun_pos p hf h hnb
  exact ⟨hfr, fun j => by rw [hp j, daysSum_range j p.timeline hs n hlen a b ha hb p.rows]⟩

/-- with no quantity `is_zero`-small (other than an exact 0) the sum is the plain sum of the quantities -/
theorem replay_positions_plain (cfg : Cfg K) (p : ProgR K) (hs : p.timeline.Pairwise (· < ·)) (n : Nat)
    (hlen : p.timeline.length = n + 1) (a b : Int) (ha : p.timeline[0]? = some a) (hb : p.timeline[n]? = some b)
    (hq : ∀ x ∈ p.rows, isZero cfg.tol x.2.2.1 = true → x.2.2.1 = 0)
    (capital : K) (w r : World K) (hf : Flat w)
    (h : btRun cfg (progRunR cfg p []) capital (0 :: List.range' 1 n) w = .ok r) (hnb : r.bankrupt = false) :
    ∀ j, posAt r j = posAt w j + plainSum j (p.rows.filter fun x => decide (a < x.1 ∧ x.1 ≤ b)) := by
  intro j
  rw [(replay_positions cfg p hs n hlen a b ha hb capital w r hf h hnb).2 j,
    qsum_eq_plainSum j _ fun x hx => hq x (List.mem_of_mem_filter hx)]

/-- **The timeline does not matter.**  The same frame replayed over two increasing timelines with the same first and last stamp
    (the dates of the original run and every k-th of them, say - several fills of one name then fall into one window, round trips
    that net to zero included), from the same initial positions, with any capital each: if both runs complete unflagged they end
    with the same position in every security.  (What the `replay-coarse` monitor of the C18 check judges on the real code.) -/
theorem replay_positions_timeline_independent (cfg : Cfg K) (p1 p2 : ProgR K) (hrows : p1.rows = p2.rows)
    (hs1 : p1.timeline.Pairwise (· < ·)) (hs2 : p2.timeline.Pairwise (· < ·)) (n1 n2 : Nat)
    (hlen1 : p1.timeline.length = n1 + 1) (hlen2 : p2.timeline.length = n2 + 1) (a b : Int)
    (ha1 : p1.timeline[0]? = some a) (hb1 : p1.timeline[n1]? = some b)
    (ha2 : p2.timeline[0]? = some a) (hb2 : p2.timeline[n2]? = some b)
    (c1 c2 : K) (w r1 r2 : World K) (hf : Flat w)
    (h1 : btRun cfg (progRunR cfg p1 []) c1 (0 :: List.range' 1 n1) w = .ok r1) (hnb1 : r1.bankrupt = false)
    (h2 : btRun cfg (progRunR cfg p2 []) c2 (0 :: List.range' 1 n2) w = .ok r2) (hnb2 : r2.bankrupt = false) :
    ∀ j, posAt r1 j = posAt r2 j := by
  intro j
  rw [(replay_positions cfg p1 hs1 n1 hlen1 a b ha1 hb1 c1 w r1 hf h1 hnb1).2 j,
    (replay_positions cfg p2 hs2 n2 hlen2 a b ha2 hb2 c2 w r2 hf h2 hnb2).2 j, hrows]

/-- **the shadow copy of a blotter-driven sub-strategy** is updated on the synthetic row and gets the loop body
    `update; run; update` on rows `1..n` (`paperLoop`): its positions move by the rows stamped in `(tl[0], tl[n]]` - exactly as
    in the stand-alone backtest of its definition (`replay_positions`); rows stamped at or before the synthetic stamp are never
    executed by the copy either -/
theorem shadow_replay_positions (cfg : Cfg K) (p : ProgR K) (hs : p.timeline.Pairwise (· < ·)) (n : Nat)
    (hlen : p.timeline.length = n + 1) (a b : Int) (ha : p.timeline[0]? = some a) (hb : p.timeline[n]? = some b)
    (w r : World K) (hf : Flat w)
    (h : paperLoop cfg (progRunR cfg p []) (0 :: List.range' 1 n) w = .ok r) (hnb : r.bankrupt = false) :
    Flat r ∧ ∀ j, posAt r j = posAt w j + qsum cfg j (p.rows.filter fun x => decide (a < x.1 ∧ x.1 ≤ b)) := by
  obtain ⟨hfr, hp⟩ := paperLoop_pos p hf (fun d hd => by have := (List.mem_range'_1.1 hd).1; omega) h hnb
  exact ⟨hfr, fun j => by rw [hp j, daysSum_range j p.timeline hs n hlen a b ha hb p.rows]⟩

/-! ### the cash a call takes ("… reproduces its positions **and values**": the cash leg) -/

/-- **one row of the frame** takes `quantity × price × multiplier` plus the commission at `(quantity, price × multiplier)` out of
    the root's cash (nothing when `is_zero(quantity)`): at the listed price, whatever the market price of the date -/
theorem replay_row_cash (cfg : Cfg K) (mult : Option K) (w w' : World K) (r : Int × BRow K) (hf : Flat w)
    (h : execRow cfg mult [] w r = .ok w') :
    rootCap w' = rootCap w - tradeCost cfg (rootComm w) (multAt w r.2.1) r.2.2.1 (rowPrice mult r.2.2.2) :=
  (execRow_cash hf h).1

/-- **the rows of one call** (one window of the timeline, however many fills of however many names it holds): the root's cash goes
    down by the sum of the rows' costs, each row priced on its own -/
theorem replay_call_cash (cfg : Cfg K) (mult : Option K) (rows : List (Int × BRow K)) (w w' : World K) (hf : Flat w)
    (h : execRows cfg mult [] rows w = .ok w') : rootCap w' = rootCap w - costSum cfg mult w rows :=
  (execRows_cash rows hf h).1

/-- **one day of the backtest** (`update; run; update`) of a flat blotter-driven strategy that ends unflagged: the root's cash goes
    up by the carry its securities parked on the earlier date (0 on a repeated date, and always 0 for plain securities) and down by
    the cost of every row of that day's window - `quantity × listed price × multiplier + commission`, row by row, whatever the
    market prices of the date and however many fills of a name the window holds -/
theorem replay_day_cash (cfg : Cfg K) (p : ProgR K) (d : Nat) (w w' : World K) (hf : Flat w)
    (h : btDay cfg (progRunR cfg p []) d w = .ok w') (hb : w'.bankrupt = false) :
    rootCap w' = rootCap w + (if rootNow w ≠ some d then parked w else 0)
      - costSum cfg p.mult w (select p.timeline d p.rows) :=
  (btDay_cash p hf h hb).1

/-- **Replay reproduces the cash.**  A complete backtest of a flat blotter-driven strategy whose securities park no carry (plain,
    fixed-income or hedge securities: `Dry`), over an increasing timeline of `n + 1` stamps, that completes and ends unflagged: the
    root's cash is the initial cash plus the capital minus the cost of every row stamped in `(tl[0], tl[n]]` - each exactly once,
    each priced on its own at its listed price (quantity x price x multiplier + the commission at (quantity, price x multiplier)),
    with the commission function and multipliers of the start. -/
theorem replay_cash (cfg : Cfg K) (p : ProgR K) (hs : p.timeline.Pairwise (· < ·)) (n : Nat)
    (hlen : p.timeline.length = n + 1) (a b : Int) (ha : p.timeline[0]? = some a) (hb : p.timeline[n]? = some b)
    (capital : K) (w r : World K) (hd : Dry w)
    (h : btRun cfg (progRunR cfg p []) capital (0 :: List.range' 1 n) w = .ok r) (hnb : r.bankrupt = false) :
    Dry r ∧ rootCap r = rootCap w + capital -
      gsum (rowCost cfg p.mult w) (p.rows.filter fun x => decide (a < x.1 ∧ x.1 ≤ b)) := by
  obtain ⟨hdr, hc⟩ := btRun_cash_dry p hd h hnb
  exact ⟨hdr, by rw [hc, gdaysSum_range p.timeline hs n hlen a b ha hb p.rows]⟩

/-- **Positions AND cash do not depend on the timeline**: the same frame (same rows, same price multiplier) replayed over two
    increasing timelines with the same first and last stamp, from the same book with the same capital: if both runs complete
    unflagged they end with the same position in every security and the same cash - hence, marked at the same final prices, the
    same value.  A replay that nets the fills of a window (the seeded change C18_10) breaks exactly this. -/
theorem replay_books_timeline_independent (cfg : Cfg K) (p1 p2 : ProgR K) (hrows : p1.rows = p2.rows) (hmult : p1.mult = p2.mult)
    (hs1 : p1.timeline.Pairwise (· < ·)) (hs2 : p2.timeline.Pairwise (· < ·)) (n1 n2 : Nat)
    (hlen1 : p1.timeline.length = n1 + 1) (hlen2 : p2.timeline.length = n2 + 1) (a b : Int)
    (ha1 : p1.timeline[0]? = some a) (hb1 : p1.timeline[n1]? = some b)
    (ha2 : p2.timeline[0]? = some a) (hb2 : p2.timeline[n2]? = some b)
    (capital : K) (w r1 r2 : World K) (hd : Dry w)
    (h1 : btRun cfg (progRunR cfg p1 []) capital (0 :: List.range' 1 n1) w = .ok r1) (hnb1 : r1.bankrupt = false)
    (h2 : btRun cfg (progRunR cfg p2 []) capital (0 :: List.range' 1 n2) w = .ok r2) (hnb2 : r2.bankrupt = false) :
    rootCap r1 = rootCap r2 ∧ ∀ j, posAt r1 j = posAt r2 j := by
  refine ⟨?_, replay_positions_timeline_independent cfg p1 p2 hrows hs1 hs2 n1 n2 hlen1 hlen2 a b ha1 hb1 ha2 hb2
    capital capital w r1 r2 hd.flat h1 hnb1 h2 hnb2⟩
  rw [(replay_cash cfg p1 hs1 n1 hlen1 a b ha1 hb1 capital w r1 hd h1 hnb1).2,
    (replay_cash cfg p2 hs2 n2 hlen2 a b ha2 hb2 capital w r2 hd h2 hnb2).2, hrows, hmult]

theorem costSum_perm (cfg : Cfg K) (mult : Option K) (w : World K) {l1 l2 : List (Int × BRow K)} (hp : l1.Perm l2) :
    costSum cfg mult w l1 = costSum cfg mult w l2 := by
  induction hp with
  | nil => rfl
  | cons x _ ih => simp only [costSum, ih]
  | swap x y l => simp only [costSum]; ring
  | trans _ _ ih1 ih2 => exact ih1.trans ih2

theorem qsum_perm (cfg : Cfg K) (j : Nat) {l1 l2 : List (Int × BRow K)} (hp : l1.Perm l2) : qsum cfg j l1 = qsum cfg j l2 := by
  induction hp with
  | nil => rfl
  | cons x _ ih => simp only [qsum, ih]
  | swap x y l => simp only [qsum]; ring
  | trans _ _ ih1 ih2 => exact ih1.trans ih2

/-- **the order of the rows inside a call does not matter**: two calls on the same rows in different orders, both completing, leave
    the same cash and the same positions -/
theorem replay_call_order_irrelevant (cfg : Cfg K) (mult : Option K) (rows1 rows2 : List (Int × BRow K)) (hp : rows1.Perm rows2)
    (w w1 w2 : World K) (hf : Flat w) (h1 : execRows cfg mult [] rows1 w = .ok w1) (h2 : execRows cfg mult [] rows2 w = .ok w2) :
    rootCap w1 = rootCap w2 ∧ ∀ j, posAt w1 j = posAt w2 j := by
  refine ⟨?_, fun j => ?_⟩
  · rw [replay_call_cash cfg mult rows1 w w1 hf h1, replay_call_cash cfg mult rows2 w w2 hf h2, costSum_perm cfg mult w hp]
  · rw [(execRows_pos rows1 hf h1).2 j, (execRows_pos rows2 hf h2).2 j, qsum_perm cfg j hp]

/-- **a round trip inside one window is not a non-event**: buying `q` of a name at `p1` and selling it at `p2` in the same call
    nets to a zero quantity, but costs `q × (p1 − p2) × multiplier` (commission-free) - the realised P&L.  (A replay that nets the
    fills of a name to one trade at the average price - the seeded change C18_10 - divides `0 / 0` here and drops it.) -/
theorem round_trip_cost (cfg : Cfg K) (w : World K) (i : Nat) (q p1 p2 : K) (s1 s2 : Int)
    (hq : isZero cfg.tol q = false) (hq' : isZero cfg.tol (-q) = false) (hfree : rootComm w = fun _ _ => 0) :
    costSum cfg none w [(s1, (i, q, p1)), (s2, (i, -q, p2))] = q * (p1 - p2) * multAt w i ∧
    qsum cfg i [(s1, (i, q, p1)), (s2, (i, -q, p2))] = 0 := by
  constructor
  · simp only [costSum, rowCost, tradeCost, rowPrice, hq, hq', hfree, Bool.false_eq_true, ↓reduceIte]
    ring
  · simp only [qsum, rowQ, hq, hq', and_self, ↓reduceIte]
    ring

/-- a run over any list of dates: the sum over the days (no hypothesis on the timeline) -/
theorem replay_loop_positions (cfg : Cfg K) (p : ProgR K) (ds : List Nat) (w r : World K) (hf : Flat w)
    (h : btLoop cfg (progRunR cfg p []) ds w = .ok r) (hnb : r.bankrupt = false) :
    Flat r ∧ ∀ j, posAt r j = posAt w j + daysSum cfg j p.timeline p.rows ds :=
  btLoop_pos p ds hf h hnb

/-- a run that ends unflagged was never flagged on the way (the flag is sticky), whatever the algos -/
theorem unflagged_throughout (cfg : Cfg K) (run : RunFn K) (ds : List Nat) (w r : World K)
    (h : btLoop cfg run ds w = .ok r) (hnb : r.bankrupt = false) : w.bankrupt = false :=
  btLoop_not_bankrupt ds h hnb

/-! ### a concrete, non-trivial program meets the hypotheses -/

theorem wRA_flat : Flat wRA := ⟨_, _, rfl, by simp [Node.isSec]⟩

theorem tlE_increasing : tlE.Pairwise (· < ·) := by decide

/-- blotter A (five rows in no particular order: stamped between two dates, on dates, before the first date, before the
    synthetic row) on data set A, timeline 0 < 10 < 20 < 30: the backtest completes unflagged; `x` ends at 5 − 1 = 4 (the 3
    stamped −5 never executed), `y` at 2 + 1 = 3 — by the theorem, and by evaluating the model -/
example : ∃ r, btRun cfgE (progRunR cfgE progRA []) 1000 (0 :: List.range' 1 3) wRA = .ok r ∧ r.bankrupt = false ∧
    posAt r 0 = 4 ∧ posAt r 1 = 3 ∧
    (∀ j, posAt r j = posAt wRA j + plainSum j (progRA.rows.filter fun x => decide (0 < x.1 ∧ x.1 ≤ 30))) := by
  have hA : (btRun cfgE (progRunR cfgE progRA []) 1000 (0 :: List.range' 1 3) wRA).toOption.map
      (fun r => (r.bankrupt, posAt r 0, posAt r 1)) = some (false, 4, 3) := by decide +kernel
  obtain ⟨r, hr, ha⟩ := P16.exists_of_toOption_map hA
  simp only [Prod.mk.injEq] at ha
  refine ⟨r, hr, ha.1, ha.2.1, ha.2.2, ?_⟩
  exact replay_positions_plain cfgE progRA tlE_increasing 3 rfl 0 30 rfl rfl (by decide +kernel) 1000 wRA r wRA_flat hr ha.1

/-- the same frame on the coarse timeline 0 < 30 (one window holding all the executed rows: two fills of `x`, one of `y`):
    completes unflagged and ends, by the theorem, with the positions of the run over 0 < 10 < 20 < 30 -/
example : ∃ r1 r2, btRun cfgE (progRunR cfgE progRA []) 1000 (0 :: List.range' 1 3) wRA = .ok r1 ∧
    btRun cfgE (progRunR cfgE { progRA with timeline := [0, 30] } []) 1000 (0 :: List.range' 1 1) wRA = .ok r2 ∧
    (∀ j, posAt r1 j = posAt r2 j) ∧ posAt r2 0 = 4 ∧ posAt r2 1 = 3 := by
  have hA : (btRun cfgE (progRunR cfgE progRA []) 1000 (0 :: List.range' 1 3) wRA).toOption.map
      (fun r => r.bankrupt) = some false := by decide +kernel
  have hB : (btRun cfgE (progRunR cfgE { progRA with timeline := [0, 30] } []) 1000 (0 :: List.range' 1 1) wRA).toOption.map
      (fun r => (r.bankrupt, posAt r 0, posAt r 1)) = some (false, 4, 3) := by decide +kernel
  obtain ⟨r1, hr1, ha1⟩ := P16.exists_of_toOption_map hA
  obtain ⟨r2, hr2, ha2⟩ := P16.exists_of_toOption_map hB
  simp only [Prod.mk.injEq] at ha2
  exact ⟨r1, r2, hr1, hr2,
    replay_positions_timeline_independent cfgE progRA { progRA with timeline := [0, 30] } rfl tlE_increasing (by decide) 3 1 rfl rfl
      0 30 rfl rfl rfl rfl 1000 1000 wRA r1 r2 wRA_flat hr1 ha1 hr2 ha2.1, ha2.2.1, ha2.2.2⟩

/-- what the theorem predicts, computed from the frame alone -/
example : posAt wRA 0 + plainSum 0 (progRA.rows.filter fun x => decide (0 < x.1 ∧ x.1 ≤ 30)) = (4 : Rat) ∧
    posAt wRA 1 + plainSum 1 (progRA.rows.filter fun x => decide (0 < x.1 ∧ x.1 ≤ 30)) = (3 : Rat) := by
  constructor <;> decide +kernel

/-- the RFQ variant (every request filled at `price * 1.001`): the same positions -/
example : ∃ r, btRun cfgE (progRunR cfgE progRQ []) 1000 (0 :: List.range' 1 3) wRA = .ok r ∧ r.bankrupt = false ∧
    (∀ j, posAt r j = posAt wRA j + plainSum j (progRQ.rows.filter fun x => decide (0 < x.1 ∧ x.1 ≤ 30))) := by
  have hA : (btRun cfgE (progRunR cfgE progRQ []) 1000 (0 :: List.range' 1 3) wRA).toOption.map
      (fun r => r.bankrupt) = some false := by decide +kernel
  obtain ⟨r, hr, ha⟩ := P16.exists_of_toOption_map hA
  exact ⟨r, hr, ha,
    replay_positions_plain cfgE progRQ tlE_increasing 3 rfl 0 30 rfl rfl (by decide +kernel) 1000 wRA r wRA_flat hr ha⟩

/-- the loop body on row 0 as well (rows 0..3; what a shadow copy was given before the repair of `StrategyBase.update`) would
    also execute the row stamped −5 - on row 0, where `x` has no price: the model raises there … -/
example : (btLoop cfgE (progRunR cfgE progRA []) (List.range' 0 4) wRA).toOption.isSome = false := by decide +kernel

/-- … while the shadow copy as it is stepped now (funded by `setup`, updated on row 0, the loop body on rows 1..3)
    completes, and by the theorem ends with the positions of the stand-alone backtest: `x` 4, `y` 3 -/
example : ∃ w1 r, opAdjust wRA [] 1000 true true = .ok w1 ∧
    paperLoop cfgE (progRunR cfgE progRA []) (0 :: List.range' 1 3) w1 = .ok r ∧
    (∀ j, posAt r j = posAt wRA j + qsum cfgE j (progRA.rows.filter fun x => decide (0 < x.1 ∧ x.1 ≤ 30))) ∧
    posAt r 0 = 4 ∧ posAt r 1 = 3 := by
  have hA : ((opAdjust wRA [] 1000 true true).bind
      (paperLoop cfgE (progRunR cfgE progRA []) (0 :: List.range' 1 3))).toOption.map
      (fun r => (r.bankrupt, posAt r 0, posAt r 1)) = some (false, 4, 3) := by decide +kernel
  obtain ⟨r, hr, ha⟩ := P16.exists_of_toOption_map hA
  simp only [Prod.mk.injEq] at ha
  obtain ⟨w1, h1, hp⟩ := P08.bind_eq_ok hr
  obtain ⟨hf1, hp1⟩ := opAdjust_root_pos wRA_flat h1
  refine ⟨w1, r, h1, hp, fun j => ?_, ha.2.1, ha.2.2⟩
  rw [(shadow_replay_positions cfgE progRA tlE_increasing 3 rfl 0 30 rfl rfl w1 r hf1 hp ha.1).2 j, hp1 j]

/-- on data set A, after the update of row 1: the two rows of the window `(0, 10]` (2 `y` at 20, 1 `y` at 19) take 59 out of the
    cash, in either order - what `costSum` says; a round trip in `x` (5 at 11, back at 12) pays 5 -/
example : ((updRoot cfgE 1 wRA).toOption.bind fun w1 =>
      (execRows cfgE none [] [(10, (1, 2, 20)), (5, (1, 1, 19))] w1).toOption.map fun w2 => (Flat w1, rootCap w1 - rootCap w2,
        costSum cfgE none w1 [(10, (1, 2, 20)), (5, (1, 1, 19))])).map (fun t => (t.2.1, t.2.2)) = some (59, 59) ∧
    ((updRoot cfgE 1 wRA).toOption.bind fun w1 =>
      (execRows cfgE none [] [(5, (1, 1, 19)), (10, (1, 2, 20))] w1).toOption.map fun w2 => rootCap w1 - rootCap w2) = some 59 ∧
    ((updRoot cfgE 2 wRA).toOption.bind fun w1 =>
      (execRows cfgE none [] [(15, (0, 5, 11)), (16, (0, -5, 12))] w1).toOption.map fun w2 =>
        (rootCap w1 - rootCap w2, posAt w2 0 - posAt w1 0)) = some (-5, 0) := by
  refine ⟨by decide +kernel, by decide +kernel, by decide +kernel⟩

/-- day 1 of the backtest of blotter A on data set A, funded with 1000 and updated on row 0 (window `(0, 10]`: 2 `y` at 20 and
    1 `y` at 19): the cash goes down by 59, nothing is parked -/
example : (((opAdjust wRA [] 1000 true true).bind (updRoot cfgE 0)).toOption.bind fun w0 =>
      (btDay cfgE (progRunR cfgE progRA []) 1 w0).toOption.map fun w' =>
        (w'.bankrupt, rootCap w0 - rootCap w', costSum cfgE progRA.mult w0 (select progRA.timeline 1 progRA.rows), parked w0)) =
    some (false, 59, 59, 0) := by decide +kernel

theorem wRA_dry : Dry wRA := ⟨_, _, rfl, by
  intro k hk
  simp only [List.mem_cons, List.not_mem_nil, or_false] at hk
  rcases hk with rfl | rfl
  · exact ⟨_, rfl, by decide, by decide, by decide⟩
  · exact ⟨_, rfl, by decide, by decide, by decide⟩⟩

/-- blotter A on data set A over 0 < 10 < 20 < 30 and over the coarse timeline 0 < 30: both complete unflagged, and by the theorem
    end with the same cash and positions; the cash is 1000 − (5·11 + 2·20 − 1·12 + 1·19) = 898, as `replay_cash` computes from the
    frame alone -/
example : ∃ r1 r2, btRun cfgE (progRunR cfgE progRA []) 1000 (0 :: List.range' 1 3) wRA = .ok r1 ∧
    btRun cfgE (progRunR cfgE { progRA with timeline := [0, 30] } []) 1000 (0 :: List.range' 1 1) wRA = .ok r2 ∧
    rootCap r1 = rootCap r2 ∧ rootCap r1 = 898 ∧
    rootCap wRA + 1000 - gsum (rowCost cfgE progRA.mult wRA) (progRA.rows.filter fun x => decide (0 < x.1 ∧ x.1 ≤ 30)) = 898 := by
  have hA : (btRun cfgE (progRunR cfgE progRA []) 1000 (0 :: List.range' 1 3) wRA).toOption.map
      (fun r => (r.bankrupt, rootCap r)) = some (false, 898) := by decide +kernel
  have hB : (btRun cfgE (progRunR cfgE { progRA with timeline := [0, 30] } []) 1000 (0 :: List.range' 1 1) wRA).toOption.map
      (fun r => r.bankrupt) = some false := by decide +kernel
  obtain ⟨r1, hr1, ha1⟩ := P16.exists_of_toOption_map hA
  obtain ⟨r2, hr2, ha2⟩ := P16.exists_of_toOption_map hB
  simp only [Prod.mk.injEq] at ha1
  refine ⟨r1, r2, hr1, hr2, ?_, ha1.2, by decide +kernel⟩
  exact (replay_books_timeline_independent cfgE progRA { progRA with timeline := [0, 30] } rfl rfl tlE_increasing (by decide) 3 1
    rfl rfl 0 30 rfl rfl rfl rfl 1000 wRA r1 r2 wRA_dry hr1 ha1.1 hr2 ha2).1

end Bt.C18
