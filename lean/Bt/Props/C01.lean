import Bt.Engine.Ops
import Mathlib.Algebra.Order.Field.Basic
import Mathlib.Tactic.Ring
import Mathlib.Tactic.Linarith
/-! C01 — balance-sheet identity (property theorems only; helper lemmas live in `Bt.Proofs.*`). -/
namespace Bt.C01
open Bt

variable {K : Type} [Field K] [LinearOrder K] [IsStrictOrderedRing K] [HasFloor K]

/-- The value `SecurityBase.update` marks: `position × price × multiplier`; with a missing price only a
    flat position is accepted (value 0), anything else raises. -/
theorem secMarkValue_spec (cfg : Cfg K) (s : SecData K) (v : K) (h : secMarkValue cfg s = .ok v) :
    (∃ p, s.price = some p ∧ v = s.position * p * s.mult) ∨
    (s.price = none ∧ v = 0 ∧ isZero cfg.tol s.position = true) := by
  unfold secMarkValue at h
  cases hp : s.price with
  | none =>
    simp only [hp] at h
    by_cases hz : isZero cfg.tol s.position = true
    · simp only [hz, ↓reduceIte] at h
      right; exact ⟨rfl, by cases h; rfl, hz⟩
    · simp only [hz] at h; cases h
  | some p =>
    simp only [hp] at h
    left; exact ⟨p, rfl, by cases h; rfl⟩

theorem secMarkValue_nan_open_raises (cfg : Cfg K) (s : SecData K)
    (hp : s.price = none) (hz : isZero cfg.tol s.position = false) :
    secMarkValue cfg s = .error Err.nanPriceOpenPosition := by
  unfold secMarkValue; simp [hp, hz]; rfl

end Bt.C01
