import Bt.Engine.Ops
import Bt.Proofs.SecUpdate
import Bt.Proofs.C01Defs
import Bt.Proofs.Balanced
import Bt.Proofs.BalancedAll
import Bt.Proofs.QuietOps
import Bt.Proofs.Rows
import Bt.Proofs.Reach
import Bt.Proofs.Marks
import Bt.Proofs.IntWorld
import Bt.Proofs.ExampleFacts
import Mathlib.Algebra.Order.Ring.Cast
import Mathlib.Algebra.Order.Group.Unbundled.Int
import Bt.Proofs.Examples
import Mathlib.Algebra.Order.Field.Basic
import Mathlib.Tactic.Ring
import Mathlib.Tactic.Linarith
/-! C01 — balance-sheet identity (property theorems only; helper lemmas live in `Bt.Proofs.*`). -/
namespace Bt.C01
open Bt
set_option linter.unusedSectionVars false

variable {K : Type} [Field K] [LinearOrder K] [IsStrictOrderedRing K] [HasFloor K]

/-- The value `SecurityBase.update` marks: `position × price × multiplier`; with a missing price only a
    flat position is accepted (value 0), anything else raises. -/
theorem secMarkValue_spec (cfg : Cfg K) (s : SecData K) (v : K) (h : secMarkValue cfg s = .ok v) :
    (∃ p, s.price = some p ∧ v = s.position * p * s.mult) ∨
    (s.price = none ∧ v = 0 ∧ isZero cfg.tol s.position = true) := by
  unfold secMarkValue at h
  cases hp : s.price with
  | none =>
    simp only [hp] at h
    by_cases hz : isZero cfg.tol s.position = true
    · simp only [hz, ↓reduceIte] at h
      right; exact ⟨rfl, by cases h; rfl, hz⟩
    · simp only [hz] at h; cases h
  | some p =>
    simp only [hp] at h
    left; exact ⟨p, rfl, by cases h; rfl⟩

theorem secMarkValue_nan_open_raises (cfg : Cfg K) (s : SecData K)
    (hp : s.price = none) (hz : isZero cfg.tol s.position = false) :
    secMarkValue cfg s = .error Err.nanPriceOpenPosition := by
  unfold secMarkValue; simp [hp, hz]; rfl

/-- (1) `SecurityBase.update` (any of the five classes), when it is not the early return, marks the
    security: `value = position × price × multiplier`; with a missing price the position is flat
    (within `TOL`) and the value is 0.  Notional: plain = value, fixed-income/coupon = position,
    hedge classes = 0. -/
theorem secUpdate_marks (cfg : Cfg K) (d : Nat) (s s' : SecData K)
    (h : secUpdate cfg d s = .ok s') (he : secEarly d s = false) :
    (∀ p, s'.price = some p → s'.value = s'.position * p * s'.mult) ∧
    (s'.price = none → s'.value = 0 ∧ isZero cfg.tol s'.position = true) ∧
    (s'.kind = .plain → s'.notl = s'.value) ∧
    ((s'.kind = .fi ∨ s'.kind = .coupon) → s'.notl = s'.position) ∧
    ((s'.kind = .hedge ∨ s'.kind = .couponHedge) → s'.notl = 0) := by
  have hf := secUpdate_frame h
  obtain ⟨s1, h1, ht⟩ := secUpdate_base h
  have fr := secBaseUpdate_fresh he h1
  have hm := secMarkValue_spec cfg _ _ fr.marks
  simp only [secRecordPos_price, secRecordPos_position, secDateChange_position, secRecordPos_mult,
    secDateChange_mult] at hm
  rw [← fr.price, ← ht.price, ← ht.value, ← hf.position, ← hf.mult] at hm
  refine ⟨?_, ?_, ?_, ?_, ?_⟩
  · intro p hp
    rcases hm with ⟨q, hq, hv⟩ | ⟨hn, _, _⟩
    · rw [hp] at hq; cases hq; exact hv
    · rw [hp] at hn; cases hn
  · intro hp
    rcases hm with ⟨q, hq, _⟩ | ⟨_, hv, hz⟩
    · rw [hp] at hq; cases hq
    · exact ⟨hv, hz⟩
  · intro hk
    rw [hf.kind] at hk
    have hb := secUpdate_notl_plain h hk
    have fr' := secBaseUpdate_fresh he hb
    exact fr'.notl
  · rw [hf.kind]; exact (secUpdate_notl_kind h).1
  · rw [hf.kind]; exact (secUpdate_notl_kind h).2

/-- the hypotheses hold for a security with 3 units at price 5, multiplier 2 (value 30) -/
example : ∃ s', secUpdate Ex.cfg 0 (Ex.sec "a" .plain 3) = .ok s' ∧ secEarly 0 (Ex.sec "a" .plain 3) = false ∧
    s'.value = 30 ∧ s'.price = some 5 :=
  ⟨_, rfl, by decide, by decide +kernel, by decide +kernel⟩

/-- (2) The totals the children loop of `StrategyBase.update` hands back: the initial accumulator plus, over
    the children that were visited (a security whose `needupdate` is false is skipped), the updated
    children's values, absolute notionals and (when bid/offer is on) bid/offer paid; the cash parked on the
    security children is collected when the date is new.  `visSum` pairs input and output children. -/
theorem updKids_acc (cfg : Cfg K) (d : Nat) (newpt bo : Bool) (kids kids' : List (Node K)) (acc acc' : Acc K)
    (h : updKids cfg d newpt bo kids acc = .ok (kids', acc')) :
    kids'.length = kids.length ∧
    acc'.val = acc.val + visSum Node.value kids kids' ∧
    acc'.notl = acc.notl + visSum (fun k => |k.notl|) kids kids' ∧
    acc'.bo = (if bo then acc.bo + visSum Node.bidofferPaid kids kids' else acc.bo) ∧
    acc'.coupons = acc.coupons + (if newpt then parkedCash kids else 0) :=
  updKids_acc_aux kids acc kids' acc' h

/-- three children (one skipped, one sub-strategy): value 10 + 30 + 0 + 14, notional 30 + 1 -/
example : ∃ r, updKids Ex.cfg 0 true false Ex.kids ⟨10, 0, 0, 0⟩ = .ok r ∧
    (r.2.val == 54 && r.2.notl == 31) = true :=
  Ex.check_ok (by decide +kernel)

/-- (3) `StrategyBase.update(d)` on a strategy: with `V = cash + Σ visited children's values` and
    `N = Σ visited children's |notional|` (`visSum` pairs the children before/after; a security whose
    `needupdate` was false is not visited), the stored value is `V` — exactly whenever the date is new, and
    otherwise either exactly or within `TOL` (the code skips the write when neither total moved by `TOL`);
    likewise the notional and `N`; every child that is not skipped afterwards has weight
    `childWeight` (value / V, notional / N for a fixed-income strategy, 0 when `isZero`); the cash is the old
    cash plus the swept coupons; and the same holds at every sub-strategy below (`Balanced`). -/
theorem updNode_balanced (cfg : Cfg K) (d : Nat) (sd sd' : StratData K) (kids kids' : List (Node K))
    (h : updNode cfg d (.strat sd kids) = .ok (.strat sd' kids')) :
    (sd'.value = stratV sd' kids kids' ∨ |sd'.value - stratV sd' kids kids'| < cfg.tol) ∧
    (sd.now ≠ some d → sd'.value = stratV sd' kids kids') ∧
    (sd'.notl = stratN kids kids' ∨ |sd'.notl - stratN kids kids'| < cfg.tol) ∧
    (sd.now ≠ some d → sd'.notl = stratN kids kids') ∧
    (∀ k' ∈ kids', k'.skipped = false →
      k'.weight = childWeight cfg sd'.fixedIncome (stratV sd' kids kids') (stratN kids kids') k') ∧
    Balanced cfg d (.strat sd kids) (.strat sd' kids') := by
  have hb := updNode_balanced_aux h
  have hl : LocalBal cfg d sd kids sd' kids' := by
    unfold Balanced at hb; simp only [TreeRel] at hb; exact hb.1
  refine ⟨?_, ?_, ?_, ?_, hl.weights, hb⟩
  · rcases hl.value with h1 | ⟨_, h1⟩
    · exact Or.inl h1
    · exact Or.inr h1
  · intro hne
    rcases hl.value with h1 | ⟨h0, _⟩
    · exact h1
    · exact absurd h0 hne
  · rcases hl.notl with h1 | ⟨_, h1⟩
    · exact Or.inl h1
    · exact Or.inr h1
  · intro hne
    rcases hl.notl with h1 | ⟨h0, _⟩
    · exact h1
    · exact absurd h0 hne

/-- every node, every depth: `update` makes the tree `Balanced` -/
theorem updNode_balanced_tree (cfg : Cfg K) (d : Nat) (n n' : Node K) (h : updNode cfg d n = .ok n') :
    Balanced cfg d n n' :=
  updNode_balanced_aux h

/-- a two-level tree with a skipped security: root value 54 = 10 + 30 + 14, sub-strategy 14 = 4 + 10 -/
example : ∃ n', updNode Ex.cfg 0 Ex.tree = .ok n' ∧ (n'.value == 54) = true :=
  Ex.check_ok (by decide +kernel)

/-- The reading of (3) "every *visited* child's weight is `childWeight`" is FALSE of the model (and of the code):
    a visited security that `update` turns quiet (`needupdate := false` because |weight| < TOL and
    |position| < TOL) is skipped by the weight loop and keeps its old weight.  Witness (tol = 1/2): buy one
    unit (weight 1/11), sell it, update: value 0, `childWeight` 0, weight still 1/11 — so the children's
    weights plus the cash fraction sum to 12/11, not 1. -/
theorem visited_child_weight_counterexample :
    ∃ w sd' s', Ex.dustRun = .ok w ∧ refresh Ex.cfg w = .ok { root := .strat sd' [.sec s'], stale := false } ∧
      w.stale = true ∧ s'.value = 0 ∧ s'.weight = 1/11 ∧ sd'.value = 110 ∧ sd'.capital = 110 ∧
      s'.weight + sd'.capital / sd'.value ≠ 1 := by
  have h : Ex.check (Ex.dustRun.bind fun w => (refresh Ex.cfg w).map fun w' => (w, w')) (fun p =>
      p.1.stale && !p.2.stale && (match p.2.root with
        | .strat sd' [.sec s'] => s'.value == 0 && s'.weight == 1/11 && sd'.value == 110 && sd'.capital == 110
        | _ => false)) = true := by decide +kernel
  obtain ⟨⟨w, w'⟩, hr, hp⟩ := Ex.check_ok h
  obtain ⟨w1, hw1, hr⟩ := Except.bind_eq_ok hr
  obtain ⟨w2, hw2, hr⟩ := Except.map_eq_ok hr
  cases hr
  obtain ⟨r, st⟩ := w'
  simp only [Bool.and_eq_true, Bool.not_eq_true'] at hp
  obtain ⟨⟨hs1, hs2⟩, hm⟩ := hp
  subst hs2
  clear h hr
  split at hm
  · simp only [Bool.and_eq_true, beq_iff_eq] at hm
    obtain ⟨⟨⟨h1, h2⟩, h3⟩, h4⟩ := hm
    refine ⟨w, _, _, hw1, hw2, hs1, h1, h2, h3, h4, ?_⟩
    rw [h2, h3, h4]; norm_num
  · cases hm

/-! ### (4) the invariant `Quiet`

`Quiet n`: every security of `n` with `needupdate = false` has `position = 0`, `value = 0`, `notl = 0`.
`NoDust cfg n`: every security's position is either exactly zero or at least `TOL` in size. -/

/-- no dust with whole-unit positions and `TOL ≤ 1` -/
theorem noDust_of_integer (cfg : Cfg K) (htol : cfg.tol ≤ 1) (s : SecData K) (z : ℤ) (hz : s.position = z) :
    SecNoDust cfg s := by
  intro h
  rw [isZero_iff, hz] at h
  have h1 : |(z : K)| < 1 := lt_of_lt_of_le h htol
  rw [← Int.cast_abs, ← Int.cast_one, Int.cast_lt, Int.abs_lt_one_iff] at h1
  rw [hz, h1]; simp

example : SecNoDust Ex.cfg (Ex.sec "a" .plain 3) :=
  noDust_of_integer Ex.cfg (by decide +kernel) _ 3 (by decide +kernel)

/-- `update` preserves `Quiet` (and the positions, hence `NoDust`) -/
theorem quiet_updNode (cfg : Cfg K) (d : Nat) (n n' : Node K) (h : updNode cfg d n = .ok n')
    (hq : Quiet n) (hn : NoDust cfg n) : Quiet n' ∧ NoDust cfg n' :=
  updNode_quiet h hq hn

/-- the example tree is quiet and dust-free (security `b` is skipped: flat, no value), and stays so -/
example : ∃ n', updNode Ex.cfg 0 Ex.tree = .ok n' ∧ Quiet n' ∧ NoDust Ex.cfg n' :=
  let ⟨n', h⟩ := Ex.tree_upd0
  ⟨n', h, quiet_updNode Ex.cfg 0 _ _ h Ex.tree_quiet Ex.tree_noDust⟩

theorem quiet_secTransactCore (cfg : Cfg K) (comm : K → K → K) (s s' : SecData K) (q : K) (custom : Option K)
    (a : Option (Adj K)) (h : secTransactCore cfg comm s q custom = .ok (s', a)) (hq : SecQuiet s) :
    SecQuiet s' :=
  secTransactCore_quiet h hq

example : ∃ r, secTransactCore Ex.cfg (fun _ _ => 0) { Ex.sec "a" .plain 3 with price := some 5 } 2 none = .ok r ∧
    (r.1.position == 5 && r.1.needupdate) = true :=
  Ex.check_ok (by decide +kernel)

theorem quiet_allocNode (cfg : Cfg K) (pn : Option Nat) (comm : K → K → K) (amount : K) (n : Node K)
    (r : Node K × List (Adj K)) (h : allocNode cfg pn comm amount n = .ok r)
    (hq : Quiet n) (hn : NoDust cfg n) : Quiet r.1 :=
  allocNode_quiet h hq hn

/-- allocate 20 into the updated example tree (pushed down by the weights) -/
example : ∃ r, ((updNode Ex.cfg 0 Ex.tree).bind fun n => allocNode Ex.cfg (some 0) (fun _ _ => 0) 20 n) = .ok r ∧
    (r.1.value == 54) = true :=
  Ex.check_ok (by decide +kernel)

example : ∃ n' r, updNode Ex.cfg 0 Ex.tree = .ok n' ∧ allocNode Ex.cfg (some 0) (fun _ _ => 0) 20 n' = .ok r ∧
    Quiet r.1 := by
  obtain ⟨r, h, _⟩ := Ex.check_ok
    (x := (updNode Ex.cfg 0 Ex.tree).bind fun n => allocNode Ex.cfg (some 0) (fun _ _ => 0) 20 n)
    (p := fun _ => true) (by decide +kernel)
  obtain ⟨n', h1, h2⟩ := Except.bind_eq_ok h
  have hq := quiet_updNode Ex.cfg 0 _ _ h1 Ex.tree_quiet Ex.tree_noDust
  exact ⟨n', r, h1, h2, quiet_allocNode _ _ _ _ _ _ h2 hq.1 hq.2⟩

theorem quiet_transNode (cfg : Cfg K) (pn : Option Nat) (comm : K → K → K) (q : K) (custom : Option K)
    (n : Node K) (r : Node K × List (Adj K)) (h : transNode cfg pn comm q custom n = .ok r)
    (hq : Quiet n) (hn : NoDust cfg n) : Quiet r.1 :=
  transNode_quiet h hq hn

/-- transact 2 units into security `a` (refreshed at the parent's date 0 first) -/
example : ∃ r, transNode Ex.cfg (some 0) (fun _ _ => 0) 2 none (.sec (Ex.sec "a" .plain 3)) = .ok r ∧
    (match r.1 with | .sec s => s.position == 5 && s.value == 30 | _ => false) = true :=
  Ex.check_ok (by decide +kernel)

theorem quiet_flattenStrat (cfg : Cfg K) (sd : StratData K) (kids : List (Node K))
    (r : StratData K × List (Node K)) (h : flattenStrat cfg sd kids = .ok r)
    (hq : Quiet (.strat sd kids)) (hn : NoDust cfg (.strat sd kids)) : Quiet (.strat r.1 r.2) :=
  flattenStrat_quiet h hq hn

/-- liquidate the children of the updated example tree: 54 of cash -/
example : ∃ r, ((updNode Ex.cfg 0 Ex.tree).bind fun n =>
      match n with
      | .strat sd kids => flattenStrat Ex.cfg sd kids
      | .sec _ => .error Err.badPath) = .ok r ∧ (r.1.capital == 54) = true :=
  Ex.check_ok (by decide +kernel)

theorem quiet_kidsWeights (cfg : Cfg K) (fi : Bool) (val notl : K) (kids : List (Node K))
    (h : AllSecsKids SecQuiet kids) : AllSecsKids SecQuiet (kidsWeights cfg fi val notl kids) :=
  kidsWeights_quiet cfg fi val notl kids h

example : AllSecsKids SecQuiet (kidsWeights Ex.cfg false 54 31 Ex.kids) :=
  quiet_kidsWeights _ _ _ _ _ (by have := Ex.tree_quiet; simpa [Quiet, Ex.tree] using this)

/-- an operation applied at a path preserves `Quiet` if it does so at the addressed node -/
theorem quiet_modAt (cfg : Cfg K) (f : Option (StratData K) → Node K → Except Err (OpRes K))
    (hf : ∀ par n r, Quiet n → NoDust cfg n → f par n = .ok r → Quiet r.1)
    (path : List Nat) (par : Option (StratData K)) (n : Node K) (r : OpRes K)
    (hq : Quiet n) (hn : NoDust cfg n) (h : modAt f path par n = .ok r) : Quiet r.1 := by
  have ha := AllSecs.and.1 n hq hn
  refine modAt_allSecs (A := SecQD cfg) (B := SecQuiet) (fun _ h => h.1) ?_ path par n r ha h
  intro par n r ha h
  exact hf par n r ((AllSecs.mono (fun _ h => h.1)).1 n ha) ((AllSecs.mono (fun _ h => h.2)).1 n ha) h

/-- updating the sub-strategy at path [2] in place -/
example : ∃ r, modAt (fun _ n => (updNode Ex.cfg 0 n).map fun n' => (n', [], true)) [2] none Ex.tree = .ok r ∧
    Quiet r.1 :=
  let ⟨r, h, _⟩ := Ex.check_ok
    (x := modAt (fun _ n => (updNode Ex.cfg 0 n).map fun n' => ((n', [], true) : OpRes Rat)) [2] none Ex.tree)
    (p := fun _ => true) (by decide +kernel)
  ⟨r, h, quiet_modAt Ex.cfg _ (fun _ n r hq hn h => by
      obtain ⟨n', hn', rfl⟩ := Except.map_eq_ok h
      exact (quiet_updNode Ex.cfg 0 n n' hn' hq hn).1) [2] none _ r Ex.tree_quiet Ex.tree_noDust h⟩

/-- Under `Quiet` the sums of (3) range over ALL children: after `update`, at every strategy of the tree,
    value = cash + Σ children's values (exactly, or within `TOL` when the write was skipped), notional =
    Σ |children's notionals|, and every child that is not skipped has weight `childWeight` of those totals
    (`BalancedAll`); at the updated node itself the equality is exact when the date is new. -/
theorem updNode_balanced_all (cfg : Cfg K) (d : Nat) (n n' : Node K) (h : updNode cfg d n = .ok n')
    (hq : Quiet n) (hn : NoDust cfg n) :
    BalancedAll cfg n' ∧
    (∀ sd kids sd' kids', n = .strat sd kids → n' = .strat sd' kids' → sd.now ≠ some d →
      sd'.value = sd'.capital + sumOf Node.value kids' ∧ sd'.notl = sumOf (fun k => |k.notl|) kids') := by
  refine ⟨updNode_balancedAll_aux h hq hn, ?_⟩
  rintro sd kids sd' kids' rfl rfl hne
  have hr := updNode_updRel h
  have ha := AllSecs.and.1 _ hq hn
  simp only [UpdRel, TreeRel, AllSecs_strat] at hr ha
  obtain ⟨hV, hN⟩ := hr.1.all hr.2 ha
  rcases hr.1.both with ⟨h1, h2⟩ | ⟨h0, _⟩
  · exact ⟨by rw [h1, hV]; rfl, by rw [h2, hN]; rfl⟩
  · exact absurd h0 hne

example : ∃ n', updNode Ex.cfg 0 Ex.tree = .ok n' ∧ (n'.value == 54 && n'.notl == 31) = true :=
  Ex.check_ok (by decide +kernel)

example : ∃ n', updNode Ex.cfg 0 Ex.tree = .ok n' ∧ BalancedAll Ex.cfg n' :=
  let ⟨n', h⟩ := Ex.tree_upd0
  ⟨n', h, (updNode_balanced_all Ex.cfg 0 _ _ h Ex.tree_quiet Ex.tree_noDust).1⟩

/-! ### (5) weights sum to one -/

/-- Market-value strategy after `update`, value just written (`value = cash + Σ children`, e.g. any new
    date) and not `isZero`: the weights of the children that are not skipped, plus the cash fraction, sum
    to one.  (Skipped securities keep whatever weight — below `TOL` in size — they had when they went
    quiet, see `visited_child_weight_counterexample`; if those are zero the sum over all children is one:
    `weights_sum_one_all`.) -/
theorem weights_sum_one (cfg : Cfg K) (d : Nat) (sd sd' : StratData K) (kids kids' : List (Node K))
    (h : updNode cfg d (.strat sd kids) = .ok (.strat sd' kids'))
    (hq : Quiet (.strat sd kids)) (hn : NoDust cfg (.strat sd kids)) (htol : 0 < cfg.tol)
    (hmv : sd'.fixedIncome = false) (hw : sd'.value = sd'.capital + sumOf Node.value kids')
    (hnz : isZero cfg.tol sd'.value = false) :
    sumOf (fun k => if k.skipped then 0 else k.weight) kids' + sd'.capital / sd'.value = 1 := by
  have hb := updNode_balancedAll_aux h hq hn
  have hq' := (updNode_quiet h hq hn).1
  simp only [BalancedAll, TreeAll] at hb
  simp only [Quiet, AllSecs_strat] at hq'
  exact weights_sum_one_aux hb.1 hq' hmv hw hnz htol

/-- on a new date the value is always written -/
theorem weights_sum_one_newdate (cfg : Cfg K) (d : Nat) (sd sd' : StratData K) (kids kids' : List (Node K))
    (h : updNode cfg d (.strat sd kids) = .ok (.strat sd' kids'))
    (hq : Quiet (.strat sd kids)) (hn : NoDust cfg (.strat sd kids)) (htol : 0 < cfg.tol)
    (hmv : sd'.fixedIncome = false) (hnew : sd.now ≠ some d) (hnz : isZero cfg.tol sd'.value = false) :
    sumOf (fun k => if k.skipped then 0 else k.weight) kids' + sd'.capital / sd'.value = 1 :=
  weights_sum_one cfg d sd sd' kids kids' h hq hn htol hmv
    ((updNode_balanced_all cfg d _ _ h hq hn).2 sd kids sd' kids' rfl rfl hnew).1 hnz

/-- all children, when the skipped ones carry weight zero -/
theorem weights_sum_one_all (cfg : Cfg K) (d : Nat) (sd sd' : StratData K) (kids kids' : List (Node K))
    (h : updNode cfg d (.strat sd kids) = .ok (.strat sd' kids'))
    (hq : Quiet (.strat sd kids)) (hn : NoDust cfg (.strat sd kids)) (htol : 0 < cfg.tol)
    (hmv : sd'.fixedIncome = false) (hw : sd'.value = sd'.capital + sumOf Node.value kids')
    (hnz : isZero cfg.tol sd'.value = false) (hz : ∀ k ∈ kids', k.skipped = true → k.weight = 0) :
    sumOf Node.weight kids' + sd'.capital / sd'.value = 1 := by
  rw [← weights_sum_one cfg d sd sd' kids kids' h hq hn htol hmv hw hnz]
  congr 1
  apply sumOf_congr
  intro k hk
  cases hs : k.skipped
  · simp
  · simp [hz k hk hs]

/-- the theorem applied to the example tree at its first date -/
example : ∃ sd' kids', updNode Ex.cfg 0 Ex.tree = .ok (.strat sd' kids') ∧
    sumOf (fun k => if k.skipped then 0 else k.weight) kids' + sd'.capital / sd'.value = 1 := by
  obtain ⟨n', h, hp⟩ := Ex.check_ok (x := updNode Ex.cfg 0 Ex.tree)
    (p := fun n' => match n' with
      | .strat sd' _ => !sd'.fixedIncome && !(isZero Ex.cfg.tol sd'.value)
      | _ => false) (by decide +kernel)
  match n', h, hp with
  | .strat sd' kids', h, hp =>
    simp only [Bool.and_eq_true, Bool.not_eq_true'] at hp
    exact ⟨sd', kids', h, weights_sum_one_newdate Ex.cfg 0 (Ex.strat "root" false 10) sd' Ex.kids kids' h
      Ex.tree_quiet Ex.tree_noDust Ex.cfg_tol_pos hp.1 (by decide) hp.2⟩
  | .sec _, _, hp => cases hp

/-- … and are zero otherwise: when the computed total is `isZero` every child that is not skipped gets weight 0
    (market-value: total value; fixed income: total notional) -/
theorem weights_zero_of_isZero (cfg : Cfg K) (d : Nat) (sd sd' : StratData K) (kids kids' : List (Node K))
    (h : updNode cfg d (.strat sd kids) = .ok (.strat sd' kids'))
    (hz : isZero cfg.tol (if sd'.fixedIncome then stratN kids kids' else stratV sd' kids kids') = true) :
    ∀ k' ∈ kids', k'.skipped = false → k'.weight = 0 := by
  intro k' hk hs
  rw [(updNode_localBal h).weights k' hk hs]
  unfold childWeight
  cases hfi : sd'.fixedIncome <;> simp only [hfi, Bool.false_eq_true, ↓reduceIte] at hz ⊢ <;> simp [hz]

/-- a strategy with no cash and a flat security: total 0, weight 0 -/
example : ∃ n', updNode Ex.cfg 0 (.strat (Ex.strat "z" false 0) [.sec (Ex.sec "a" .plain 0)]) = .ok n' ∧
    (match n' with | .strat sd' [.sec s'] => sd'.value == 0 && s'.weight == 0 | _ => false) = true :=
  Ex.check_ok (by decide +kernel)

/-- example tree: weights 30/54 + 0 + 14/54 and cash 10/54 -/
example : ∃ n', updNode Ex.cfg 0 Ex.tree = .ok n' ∧
    (match n' with
     | .strat sd' kids' => sumOf Node.weight kids' + sd'.capital / sd'.value == 1 && sd'.value == 54
     | _ => false) = true :=
  Ex.check_ok (by decide +kernel)

/-! ### (6) the recorded rows hold the end-of-date state

`RowsInv n`: at every node, the rows at the node's own date hold its marked state (value, notional; for a
security also the position as of its last update) — the invariant every operation maintains, needed here
because `update` does not rewrite rows when it is the early return / when no total moved by `TOL`.
`RowsLen d n`: every row list is longer than `d`. -/

/-- After `update(d)`: at every strategy of the tree `rValue[d] = value`, `rCash[d] = capital`,
    `rNotl[d] = notl` and `now = d`; at every security the loop visited `rPosition[d] = position`,
    `rValue[d] = value`, `rNotl[d] = notl` (`RowsFresh`); and the invariant is kept. -/
theorem rows_eq_state (cfg : Cfg K) (d : Nat) (n n' : Node K) (h : updNode cfg d n = .ok n')
    (hi : RowsInv n) (hl : RowsLen d n) : RowsFresh d n n' ∧ RowsInv n' ∧ RowsLen d n' := by
  obtain ⟨a, b, c⟩ := updNode_rows h hi hl
  exact ⟨c, a, b⟩

/-- the top of the tree, spelled out -/
theorem rows_eq_state_top (cfg : Cfg K) (d : Nat) (sd sd' : StratData K) (kids kids' : List (Node K))
    (h : updNode cfg d (.strat sd kids) = .ok (.strat sd' kids'))
    (hi : RowsInv (.strat sd kids)) (hl : RowsLen d (.strat sd kids)) :
    sd'.rValue[d]? = some sd'.value ∧ sd'.rCash[d]? = some sd'.capital ∧ sd'.rNotl[d]? = some sd'.notl := by
  have := (updNode_rows h hi hl).2.2
  simp only [RowsFresh, TreeRel] at this
  exact this.1.2

/-- the example tree (fresh: `now = none` everywhere, two rows) satisfies the hypotheses at d = 0, 1 -/
example : RowsInv Ex.tree ∧ RowsLen 1 Ex.tree := ⟨Ex.tree_rowsInv, Ex.tree_rowsLen⟩

example : ∃ n', updNode Ex.cfg 1 Ex.tree = .ok n' ∧ RowsFresh 1 Ex.tree n' :=
  let ⟨n', h, _⟩ := Ex.check_ok (x := updNode Ex.cfg 1 Ex.tree) (p := fun _ => true) (by decide +kernel)
  ⟨n', h, (rows_eq_state Ex.cfg 1 _ _ h Ex.tree_rowsInv Ex.tree_rowsLen).1⟩

example : ∃ n', updNode Ex.cfg 1 Ex.tree = .ok n' ∧
    (match n' with
     | .strat sd' _ => sd'.rValue[1]? == some 62 && sd'.value == 62 && sd'.rCash[1]? == some 10
     | _ => false) = true :=
  Ex.check_ok (by decide +kernel)

/-! ### (7) the root: `updRoot`, `refresh`, and every reachable world -/

/-- `root.update(d)` is `update(d)` of some tree `n0` — the root itself or, in the bankruptcy step
    (`BankruptTree`: children updated, total negative, flag set, whole tree flattened), the liquidated
    tree — so everything proved for `updNode` holds of its result: the balance sheet relative to `n0`
    (`Balanced`), over all children when `n0` is quiet and dust-free (`BalancedAll`, and `Quiet` is kept),
    and the rows (`RowsFresh`). -/
theorem updRoot_balanced (cfg : Cfg K) (d : Nat) (w w' : World K) (h : updRoot cfg d w = .ok w') :
    w'.stale = false ∧
    ∃ n0, (n0 = w.root ∨ BankruptTree cfg d w n0) ∧ updNode cfg d n0 = .ok w'.root ∧
      Balanced cfg d n0 w'.root ∧
      (Quiet n0 → NoDust cfg n0 → BalancedAll cfg w'.root ∧ Quiet w'.root ∧ NoDust cfg w'.root) ∧
      (RowsInv n0 → RowsLen d n0 → RowsFresh d n0 w'.root ∧ RowsInv w'.root ∧ RowsLen d w'.root) := by
  obtain ⟨hs, n0, hn, h0⟩ := updRoot_inv h
  refine ⟨hs, n0, h0, hn, updNode_balanced_aux hn, ?_, ?_⟩
  · intro hq hnd
    exact ⟨updNode_balancedAll_aux hn hq hnd, updNode_quiet hn hq hnd⟩
  · intro hi hl
    exact rows_eq_state cfg d n0 w'.root hn hi hl

/-- ordinary date -/
example : ∃ w', updRoot Ex.cfg 0 { root := Ex.tree, stale := true } = .ok w' ∧ (w'.root.value == 54) = true :=
  Ex.check_ok (by decide +kernel)

/-- the bankruptcy step: cash −100 against 30 of securities; after liquidation value = cash = −70 -/
example : ∃ w', updRoot Ex.cfg 0 Ex.brokeWorld = .ok w' ∧
    (match w'.root with
     | .strat sd' [.sec s'] => sd'.bankrupt && sd'.value == -70 && sd'.capital == -70 && s'.position == 0
     | _ => false) = true :=
  Ex.check_ok (by decide +kernel)

/-- when the bankruptcy step cannot fire (strategy already flagged, or fixed income) the tree is the root -/
theorem updRoot_balanced_all (cfg : Cfg K) (d : Nat) (w w' : World K) (h : updRoot cfg d w = .ok w')
    (hq : Quiet w.root) (hn : NoDust cfg w.root)
    (hF : ∀ n0, BankruptTree cfg d w n0 → Quiet n0 ∧ NoDust cfg n0) :
    BalancedAll cfg w'.root ∧ Quiet w'.root ∧ NoDust cfg w'.root := by
  obtain ⟨_, n0, h0, _, _, hall, _⟩ := updRoot_balanced cfg d w w' h
  rcases h0 with rfl | hb
  · exact hall hq hn
  · exact hall (hF n0 hb).1 (hF n0 hb).2

theorem no_bankruptTree_of_flag (cfg : Cfg K) (d : Nat) (w : World K) (sd : StratData K) (kids : List (Node K))
    (hr : w.root = .strat sd kids) (hb : sd.bankrupt = true ∨ sd.fixedIncome = true) (n0 : Node K) :
    ¬ BankruptTree cfg d w n0 := by
  rintro ⟨sd1, kids1, _, _, _, hroot, _, _, h1, h2, _⟩
  rw [hr] at hroot
  injection hroot with e1 e2
  subst e1
  rcases hb with hb | hb
  · rw [hb] at h1; cases h1
  · rw [hb] at h2; cases h2

/-- a root already flagged: the step cannot fire, the all-children balance sheet holds after `root.update` -/
example : ∃ w', updRoot Ex.cfg 0 Ex.flaggedWorld = .ok w' ∧ BalancedAll Ex.cfg w'.root :=
  let ⟨w', h, _⟩ := Ex.check_ok (x := updRoot Ex.cfg 0 Ex.flaggedWorld) (p := fun _ => true) (by decide +kernel)
  ⟨w', h, (updRoot_balanced_all Ex.cfg 0 _ _ h Ex.flagged_quiet Ex.flagged_noDust
    (fun n0 hb => absurd hb (no_bankruptTree_of_flag Ex.cfg 0 _ _ _ rfl (Or.inl rfl) n0))).1⟩

/-- weights at the root (no bankruptcy step: already flagged) -/
theorem updRoot_weights_sum_one (cfg : Cfg K) (d : Nat) (w w' : World K) (sd sd' : StratData K)
    (kids kids' : List (Node K)) (h : updRoot cfg d w = .ok w')
    (hr : w.root = .strat sd kids) (hr' : w'.root = .strat sd' kids') (hb : sd.bankrupt = true)
    (hq : Quiet w.root) (hn : NoDust cfg w.root) (htol : 0 < cfg.tol)
    (hmv : sd'.fixedIncome = false) (hnew : sd.now ≠ some d) (hnz : isZero cfg.tol sd'.value = false) :
    sumOf (fun k => if k.skipped then 0 else k.weight) kids' + sd'.capital / sd'.value = 1 := by
  obtain ⟨_, n0, h0, hu, _⟩ := updRoot_balanced cfg d w w' h
  rcases h0 with rfl | hbt
  · rw [hr, hr'] at hu
    rw [hr] at hq hn
    exact weights_sum_one_newdate cfg d sd sd' kids kids' hu hq hn htol hmv hnew hnz
  · exact absurd hbt (no_bankruptTree_of_flag cfg d w sd kids hr (Or.inl hb) n0)

example : ∃ sd' kids' w', updRoot Ex.cfg 0 Ex.flaggedWorld = .ok w' ∧ w'.root = .strat sd' kids' ∧
    sumOf (fun k => if k.skipped then 0 else k.weight) kids' + sd'.capital / sd'.value = 1 := by
  obtain ⟨w', h, hp⟩ := Ex.check_ok (x := updRoot Ex.cfg 0 Ex.flaggedWorld)
    (p := fun w' => match w'.root with
      | .strat sd' _ => !sd'.fixedIncome && !(isZero Ex.cfg.tol sd'.value)
      | _ => false) (by decide +kernel)
  obtain ⟨r, st⟩ := w'
  match r, h, hp with
  | .strat sd' kids', h, hp =>
    simp only [Bool.and_eq_true, Bool.not_eq_true'] at hp
    exact ⟨sd', kids', _, h, rfl, updRoot_weights_sum_one Ex.cfg 0 _ _ _ sd' _ kids' h rfl rfl rfl
      Ex.flagged_quiet Ex.flagged_noDust Ex.cfg_tol_pos hp.1 (by decide) hp.2⟩
  | .sec _, _, hp => cases hp

/-- `refresh`: nothing when the root is not stale, else `root.update(root.now)` -/
theorem refresh_balanced (cfg : Cfg K) (w w' : World K) (h : refresh cfg w = .ok w') (hs : w.stale = true) :
    ∃ d, w.root.now = some d ∧ updRoot cfg d w = .ok w' := by
  rcases refresh_inv h with ⟨h0, _⟩ | ⟨_, d, hd, hu⟩
  · rw [hs] at h0; cases h0
  · exact ⟨d, hd, hu⟩

/-- update, mark stale (as any operation with `update=True` does), refresh -/
example : ∃ w', ((updRoot Ex.cfg 0 { root := Ex.tree, stale := true }).bind fun w =>
    refresh Ex.cfg { w with stale := true }) = .ok w' ∧ (w'.root.value == 54 && !w'.stale) = true :=
  Ex.check_ok (by decide +kernel)

/-- `Quiet` is an invariant of every operation when the configuration is dust-free (`DustFree cfg`:
    `∀ x, isZero cfg.tol x = true → x = 0`).  For the individual primitives the weaker, realistic hypothesis
    `NoDust` (on the positions of the input tree only — e.g. whole units and `TOL ≤ 1`, `noDust_of_integer`)
    suffices, see `quiet_updNode`, `quiet_allocNode`, …; across a whole operation the positions change in
    between, hence the global form here. -/
theorem quiet_stepOp (cfg : Cfg K) (hdf : DustFree cfg) (op : Op K) (w w' : World K)
    (hq : Quiet w.root) (h : stepOp cfg op w = .ok w') : Quiet w'.root :=
  hdf.secInv.keep_stepOp hq h

/-- Every world reachable from a quiet one by any list of operations is quiet, and updating it (any date) or
    refreshing it (when stale) yields a tree that is balanced at every strategy, over all children. -/
theorem reachable_balanced (cfg : Cfg K) (hdf : DustFree cfg) (ops : List (Op K)) (w0 w : World K)
    (hq : Quiet w0.root) (hrun : runOps cfg ops w0 = .ok w) :
    Quiet w.root ∧
    (∀ d w', updRoot cfg d w = .ok w' → BalancedAll cfg w'.root ∧ Quiet w'.root) ∧
    (∀ w', w.stale = true → refresh cfg w = .ok w' → BalancedAll cfg w'.root ∧ Quiet w'.root) := by
  have hqw : Quiet w.root := hdf.secInv.keep_runOps ops w0 w hq hrun
  have hupd : ∀ d w', updRoot cfg d w = .ok w' → BalancedAll cfg w'.root ∧ Quiet w'.root := by
    intro d w' h
    obtain ⟨_, n0, h0, _, _, hall, _⟩ := updRoot_balanced cfg d w w' h
    have hq0 : Quiet n0 := hdf.secInv.keep_updRoot_tree hqw h0
    obtain ⟨a, b, _⟩ := hall hq0 (hdf.noDust.1 n0)
    exact ⟨a, b⟩
  refine ⟨hqw, hupd, ?_⟩
  intro w' hs h
  obtain ⟨d, _, hu⟩ := refresh_balanced cfg w w' h hs
  exact hupd d w' hu

/-- The realistic instance of the no-dust hypothesis: `TOL ≤ 1`, `floor`/`ceil` return whole numbers, every
    strategy is market-value and every security trades whole units (`integer = true`, whole position) and is
    quiet (`AllNodes MVStrat IntSec`).  Then any list of operations without a raw `transact` (i.e. `adjust`,
    `allocate`, `flatten`, `close`, `rebalance`, `update` — what the algos use on market-value trees) keeps that
    invariant, and updating / refreshing the final world yields a tree balanced at every strategy over all
    children. -/
theorem reachable_balanced_integer (cfg : Cfg K) (htol : cfg.tol ≤ 1)
    (hfloor : ∀ x : K, IsInt (floorA x)) (hceil : ∀ x : K, IsInt (ceilA x))
    (ops : List (Op K)) (hops : ∀ op ∈ ops, OpOK (IsInt (K := K)) op) (w0 w : World K)
    (h0 : AllNodes MVStrat IntSec w0.root) (hrun : runOps cfg ops w0 = .ok w) :
    AllNodes MVStrat IntSec w.root ∧ Quiet w.root ∧ NoDust cfg w.root ∧
    (∀ d w', updRoot cfg d w = .ok w' → BalancedAll cfg w'.root ∧ AllNodes MVStrat IntSec w'.root) ∧
    (∀ w', w.stale = true → refresh cfg w = .ok w' → BalancedAll cfg w'.root ∧ AllNodes MVStrat IntSec w'.root) := by
  have hT := treeInv_int (cfg := cfg) htol hfloor hceil
  have hR : (∀ q : K, IsInt q) ∨ (∀ sd : StratData K, MVStrat sd → sd.fixedIncome = false) := Or.inr (fun _ h => h)
  have hw : AllNodes MVStrat IntSec w.root := hT.keep_runOps hR ops w0 w hops h0 hrun
  have hupd : ∀ d w', updRoot cfg d w = .ok w' → BalancedAll cfg w'.root ∧ AllNodes MVStrat IntSec w'.root := by
    intro d w' h
    obtain ⟨_, n0, hx, _, _, hall, _⟩ := updRoot_balanced cfg d w w' h
    have hn0 := hT.keep_updRoot_tree hw hx
    obtain ⟨hq0, hd0⟩ := IntSec.quiet_noDust (cfg := cfg) htol hn0
    exact ⟨(hall hq0 hd0).1, hT.keep_updRoot hw h⟩
  obtain ⟨hq, hd⟩ := IntSec.quiet_noDust (cfg := cfg) htol hw
  refine ⟨hw, hq, hd, hupd, ?_⟩
  intro w' hs h
  obtain ⟨d, _, hu⟩ := refresh_balanced cfg w w' h hs
  exact hupd d w' hu

/-- over ℚ: `TOL = 1/2`, `floor`/`ceil` are whole; the example tree made all-plain, and a run of operations -/
example : Ex.cfg.tol ≤ 1 ∧ (∀ x : Rat, IsInt (floorA x)) ∧ (∀ x : Rat, IsInt (ceilA x)) ∧
    AllNodes (MVStrat (K := Rat)) IntSec Ex.treeInt :=
  ⟨Ex.cfg_tol_le_one, Ex.floor_isInt, Ex.ceil_isInt, Ex.treeInt_allNodes⟩

example : ∃ w, runOps Ex.cfg Ex.ops { root := Ex.treeInt, stale := true } = .ok w ∧
    (w.root.value == 54) = true :=
  Ex.check_ok (by decide +kernel)

/-- the theorem applied: the final world of the run is quiet, dust-free, whole-unit -/
example : ∃ w, runOps Ex.cfg Ex.ops { root := Ex.treeInt, stale := true } = .ok w ∧
    AllNodes MVStrat IntSec w.root ∧ Quiet w.root ∧ NoDust Ex.cfg w.root :=
  let ⟨w, h, _⟩ := Ex.check_ok (x := runOps Ex.cfg Ex.ops { root := Ex.treeInt, stale := true })
    (p := fun _ => true) (by decide +kernel)
  let t := reachable_balanced_integer Ex.cfg Ex.cfg_tol_le_one Ex.floor_isInt Ex.ceil_isInt Ex.ops Ex.ops_ok _ w
    Ex.treeInt_allNodes h
  ⟨w, h, t.1, t.2.1, t.2.2.1⟩

/-- `DustFree` holds for `TOL = 0` -/
example : DustFree Ex.cfg0 := Ex.cfg0_dustFree

/-- a run: update, buy into `a`, rebalance `a` to 50%, close `a`, flatten, update the next date -/
example : ∃ w, runOps Ex.cfg0 Ex.ops { root := Ex.tree, stale := true } = .ok w ∧ (w.root.value == 54) = true :=
  Ex.check_ok (by decide +kernel)

example : ∃ w, runOps Ex.cfg0 Ex.ops { root := Ex.tree, stale := true } = .ok w ∧ Quiet w.root :=
  let ⟨w, h, _⟩ := Ex.check_ok (x := runOps Ex.cfg0 Ex.ops { root := Ex.tree, stale := true }) (p := fun _ => true)
    (by decide +kernel)
  ⟨w, h, (reachable_balanced Ex.cfg0 Ex.cfg0_dustFree Ex.ops _ w Ex.tree_quiet h).1⟩

/-- The rows part of the statement is FALSE at the root in a `TOL`-sized corner of the bankruptcy step: the
    update is redone on the liquidated tree *on the same date*, so it is no longer a new date and the write of
    value / row is skipped when the liquidated total is within `TOL` of the value stored on the previous date.
    Witness (tol = 1/2): value −2/5 on date 0 (no bankruptcy: `isZero`), total −3/5 on date 1 → bankrupt,
    liquidated, re-updated: cash −3/5 but stored value still −2/5 and `rValue[1] = 0`.  (`Balanced` holds —
    the difference 1/5 is below `TOL` — but not with equality although the date is new, and `rows_eq_state`'s
    invariant `RowsInv` is broken at the root.) -/
theorem updRoot_bankrupt_rows_counterexample :
    ∃ w w' sd' s', updRoot Ex.cfg 0 Ex.tinyWorld = .ok w ∧ updRoot Ex.cfg 1 w = .ok w' ∧
      w'.root = .strat sd' [.sec s'] ∧ sd'.bankrupt = true ∧ sd'.now = some 1 ∧ s'.position = 0 ∧
      sd'.capital = -3/5 ∧ sd'.value = -2/5 ∧ sd'.rValue[1]? = some 0 := by
  have h : Ex.check ((updRoot Ex.cfg 0 Ex.tinyWorld).bind fun w => (updRoot Ex.cfg 1 w).map fun w' => (w, w'))
      (fun p => match p.2.root with
        | .strat sd' [.sec s'] => sd'.bankrupt && sd'.now == some 1 && s'.position == 0 && sd'.capital == -3/5 &&
            sd'.value == -2/5 && sd'.rValue[1]? == some 0
        | _ => false) = true := by decide +kernel
  obtain ⟨⟨w, w'⟩, hr, hp⟩ := Ex.check_ok h
  obtain ⟨w1, hw1, hr⟩ := Except.bind_eq_ok hr
  obtain ⟨w2, hw2, hr⟩ := Except.map_eq_ok hr
  cases hr
  clear h
  obtain ⟨r, st⟩ := w'
  simp only at hp
  split at hp
  · simp only [Bool.and_eq_true, beq_iff_eq] at hp
    obtain ⟨⟨⟨⟨⟨h1, h2⟩, h3⟩, h4⟩, h5⟩, h6⟩ := hp
    exact ⟨w, _, _, _, hw1, hw2, rfl, h1, h2, h3, h4, h5, h6⟩
  · cases hp

/-! ### every security's value is position × price × multiplier

`SecMarked s`: `value = lastPos × price × mult` (0 when the price is missing) — kept by every operation
(`secInv_marked`), since `transact` moves the position but neither the value nor `lastPos`. -/

/-- ANY `update` of a marked security (early return or not) leaves it marked at its current position -/
theorem secUpdate_marks_any (cfg : Cfg K) (d : Nat) (s s' : SecData K) (h : secUpdate cfg d s = .ok s')
    (hm : SecMarked s) :
    (∀ p, s'.price = some p → s'.value = s'.position * p * s'.mult) ∧ (s'.price = none → s'.value = 0) :=
  (secUpdate_marked h hm).2.1

example : SecMarked (Ex.sec "a" .plain 3) := SecMarked.of_noPrice rfl (by decide +kernel)

/-- after `update` of a quiet, dust-free, marked tree EVERY security (visited or skipped) has
    `value = position × price × multiplier` -/
theorem updNode_marks_all (cfg : Cfg K) (d : Nat) (n n' : Node K) (h : updNode cfg d n = .ok n')
    (hm : AllSecs SecMarked n) (hq : Quiet n) (hn : NoDust cfg n) :
    AllSecs SecMarkedPos n' ∧ AllSecs SecMarked n' :=
  ⟨updNode_markedPos h hm hq hn, (secInv_marked cfg).keep_updNode.1 n n' hm h⟩

/-- `SecMarked` holds at every security of every reachable world -/
theorem reachable_marked (cfg : Cfg K) (ops : List (Op K)) (w0 w : World K)
    (hm : AllSecs SecMarked w0.root) (hrun : runOps cfg ops w0 = .ok w) : AllSecs SecMarked w.root :=
  (secInv_marked cfg).keep_runOps ops w0 w hm hrun

example : ∃ w, runOps Ex.cfg Ex.ops { root := Ex.tree, stale := true } = .ok w ∧ AllSecs SecMarked w.root :=
  let ⟨w, h, _⟩ := Ex.check_ok (x := runOps Ex.cfg Ex.ops { root := Ex.tree, stale := true }) (p := fun _ => true)
    (by decide +kernel)
  ⟨w, h, reachable_marked Ex.cfg Ex.ops _ w Ex.tree_marked h⟩

/-- the example tree is marked (all values 0 with `lastPos = 0`); after the update every value is the mark -/
example : ∃ n', updNode Ex.cfg 0 Ex.tree = .ok n' ∧ AllSecs SecMarkedPos n' :=
  let ⟨n', h⟩ := Ex.tree_upd0
  ⟨n', h, (updNode_marks_all Ex.cfg 0 _ _ h Ex.tree_marked Ex.tree_quiet Ex.tree_noDust).1⟩

end Bt.C01
