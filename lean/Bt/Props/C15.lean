import Bt.Proofs.Weigh
import Mathlib.Analysis.Real.Sqrt
import Mathlib.Tactic.NormNum
/-! C15 — weighting algos produce the documented weights (property theorems only; helpers in `Bt.Proofs.Weigh`).
    `K` is any linearly ordered field; the model functions are the ones the driver runs at `Float`. -/
set_option linter.unusedSectionVars false
set_option linter.unusedSimpArgs false
namespace Bt.C15
open Bt Bt.Weigh

variable {K : Type} [Field K] [LinearOrder K] [IsStrictOrderedRing K]
variable {κ : Type} [DecidableEq κ]

/-! ### WeighEqually -/

/-- Equal weights: for a non-empty selection of distinct names the result has exactly the selected names,
    each with weight `1/n`, and the weights sum to one; the empty selection gives `{}`. -/
theorem equal_sum_one (sel : List κ) (hnd : sel.Nodup) :
    (sel = [] → (weighEqually sel : Dict κ K) = []) ∧
    (sel ≠ [] →
      dictKeys (weighEqually sel : Dict κ K) = sel ∧
      (∀ p ∈ (weighEqually sel : Dict κ K), p.2 = 1 / (sel.length : K)) ∧
      sumA (dictVals (weighEqually sel : Dict κ K)) = 1) := by
  constructor
  · intro h; subst h; rfl
  · intro hne
    have hw : (weighEqually sel : Dict κ K) = sel.map fun x => (x, 1 / (sel.length : K)) := by
      cases sel with
      | nil => exact absurd rfl hne
      | cons a t =>
        show dictOfPairs _ = _
        apply dictOfPairs_nodup
        simpa [List.map_map, Function.comp_def] using hnd
    have hpos : (0 : K) < (sel.length : K) := by
      have : 0 < sel.length := List.length_pos_of_ne_nil hne
      exact_mod_cast this
    rw [hw]
    refine ⟨by simp [dictKeys, List.map_map, Function.comp_def], ?_, ?_⟩
    · intro p hp
      simp only [List.mem_map] at hp
      obtain ⟨x, _, rfl⟩ := hp
      rfl
    · simp only [dictVals, List.map_map, Function.comp_def]
      rw [sumA_map_const]
      field_simp

example : sumA (dictVals (weighEqually ["a", "b", "c", "d"] : Dict String Rat)) = 1 ∧
    (weighEqually ["a", "b", "c", "d"] : Dict String Rat) = [("a", 1/4), ("b", 1/4), ("c", 1/4), ("d", 1/4)] := by decide +kernel

/-! ### WeighSpecified -/

/-- The specified weights come out on every call, and the algo's own dict is not what `temp` holds:
    whatever later happens to `temp['weights']`, the next call hands out the specified weights again. -/
theorem specified_copy (a : WeighSpecified κ K) :
    a.call.2 = a.weights ∧ a.call.1 = a ∧ a.call.1.call.2 = a.weights := ⟨rfl, rfl, rfl⟩

example : (WeighSpecified.call ⟨[("a", (3 : Rat) / 5), ("b", 2 / 5)]⟩).2 = [("a", 3 / 5), ("b", 2 / 5)] := rfl

/-! ### ScaleWeights -/

/-- Linear rescale: same names in the same order, every weight multiplied by the scale, total multiplied too. -/
theorem scale_linear (s : K) (ws : Dict κ K) :
    dictKeys (scaleWeights s ws) = dictKeys ws ∧
    dictVals (scaleWeights s ws) = (dictVals ws).map (fun w => s * w) ∧
    (∀ k, dictGet (scaleWeights s ws) k = (dictGet ws k).map (fun w => s * w)) ∧
    sumA (dictVals (scaleWeights s ws)) = s * sumA (dictVals ws) := by
  refine ⟨by simp [scaleWeights, dictKeys, List.map_map, Function.comp_def],
          by simp [scaleWeights, dictVals, List.map_map, Function.comp_def], ?_, ?_⟩
  · intro k
    induction ws with
    | nil => rfl
    | cons p t ih =>
      obtain ⟨k', v⟩ := p
      by_cases h : k' = k
      · simp [scaleWeights, dictGet_cons, h]
      · simpa [scaleWeights, dictGet_cons, h] using ih
  · have : dictVals (scaleWeights s ws) = (dictVals ws).map (fun w => s * w) := by
      simp [scaleWeights, dictVals, List.map_map, Function.comp_def]
    rw [this, sumA_map_mul_left]

example : scaleWeights (-2 : Rat) [("a", 1/4), ("b", 3/4)] = [("a", -1/2), ("b", -3/2)] := by decide +kernel

/-! ### WeighTarget -/

/-- Dated targets: when the frame has a (first) row dated `now`, the weights are that row with the missing
    cells dropped; when no row carries the date the algo returns False (`none`) and sets nothing. -/
theorem target_row (f : Table κ K) (now : Int) :
    ((∀ r ∈ f.rows, r.1 ≠ now) → weighTarget f now = none) ∧
    (∀ pre row post, f.rows = pre ++ (now, row) :: post → (∀ r ∈ pre, r.1 ≠ now) →
      weighTarget f now = some (dropnaDict f.cols row)) := by
  constructor
  · intro h
    have : f.rows.find? (fun r => r.1 == now) = none := by
      rw [List.find?_eq_none]; intro r hr; simpa using h r hr
    simp [weighTarget, frameRow, this]
  · intro pre row post hrows hpre
    have : f.rows.find? (fun r => r.1 == now) = some (now, row) := by
      rw [hrows, List.find?_append]
      have : pre.find? (fun r => r.1 == now) = none := by
        rw [List.find?_eq_none]; intro r hr; simpa using hpre r hr
      simp [this]
    simp [weighTarget, frameRow, this]

/-- what "missing dropped" means: a name gets weight `v` iff its cell in the row is `v` (not NaN). -/
theorem target_row_cells (cols : List κ) (row : List (Option K)) (k : κ) (v : K) :
    (k, v) ∈ dropnaDict cols row ↔ (k, some v) ∈ cols.zip row := by
  unfold dropnaDict
  simp only [List.mem_filterMap]
  constructor
  · rintro ⟨⟨k', o⟩, hmem, hv⟩
    cases o with
    | none => simp at hv
    | some v' => simp at hv; obtain ⟨rfl, rfl⟩ := hv; exact hmem
  · intro h; exact ⟨(k, some v), h, by simp⟩

example : weighTarget (⟨["a", "b", "c"], [(10, [some (1 : Rat), none, some 2]), (12, [some 3, some 4, none])]⟩ : Table String Rat) 12
    = some [("a", 3), ("b", 4)] ∧
    weighTarget (⟨["a", "b", "c"], [(10, [some (1 : Rat), none, some 2])]⟩ : Table String Rat) 11 = none := by decide

/-! ### LimitDeltas -/

/-- Per-period change bounded: after `LimitDeltas`, for EVERY name (held, targeted, both or neither) that has a
    non-negative limit, the new target (absent = 0) differs from the current weight (absent = 0) by at most the limit.
    `lim` is `fun _ => some l` for a global limit and the lookup in the limit dict otherwise. -/
theorem limitDeltas_bound (lim : κ → Option K) (cur tw : Dict κ K) (k : κ) (l : K)
    (hlim : lim k = some l) (hl : 0 ≤ l) :
    |dictGetD (limitDeltas lim cur tw) k 0 - dictGetD cur k 0| ≤ l := by
  have h := limitDeltas_settled lim cur tw k (fun l' h' => by rw [hlim] at h'; cases h'; exact hl)
  unfold Settled at h
  rw [hlim] at h
  exact (ldNew_none_iff _ _ _).mp h

/-- Names without a limit (limit dict) and names whose move is already within the limit keep exactly the entry
    they had (including staying absent). -/
theorem limitDeltas_untouched (lim : κ → Option K) (cur tw : Dict κ K) (k : κ)
    (h : lim k = none ∨ ∃ l, lim k = some l ∧ |dictGetD tw k 0 - dictGetD cur k 0| ≤ l) :
    dictGet (limitDeltas lim cur tw) k = dictGet tw k := by
  have hs : Settled lim cur tw k := by
    unfold Settled
    rcases h with h | ⟨l, h, hb⟩
    · rw [h]; rfl
    · rw [h]; exact (ldNew_none_iff _ _ _).mpr hb
  exact (foldl_settled lim cur _ tw k hs).1

/-- A move larger than the limit is replaced by a move of exactly the limit towards the target. -/
theorem limitDeltas_clip (lim : κ → Option K) (cur tw : Dict κ K) (k : κ) (l : K)
    (hlim : lim k = some l) (hl : 0 ≤ l) (hbig : l < |dictGetD tw k 0 - dictGetD cur k 0|) :
    dictGet (limitDeltas lim cur tw) k =
      some (if dictGetD cur k 0 < dictGetD tw k 0 then dictGetD cur k 0 + l else dictGetD cur k 0 - l) := by
  have hk : k ∈ ldKeys cur tw := by
    by_contra hc
    rw [mem_ldKeys, not_or] at hc
    have e1 : dictGetD tw k 0 = 0 := by unfold dictGetD; rw [(dictGet_none_iff tw k).mpr hc.1]; rfl
    have e2 : dictGetD cur k 0 = 0 := by unfold dictGetD; rw [(dictGet_none_iff cur k).mpr hc.2]; rfl
    rw [e1, e2] at hbig; simp at hbig; exact absurd hbig (not_lt.mpr hl)
  have h := foldl_mem_get lim cur (ldKeys cur tw) tw k hk (fun l' h' => by rw [hlim] at h'; cases h'; exact hl)
  unfold limitDeltas
  rw [h, hlim]
  have : ldNew (some l) (dictGetD tw k 0) (dictGetD cur k 0)
      = some (dictGetD cur k 0 + l * signA (dictGetD tw k 0 - dictGetD cur k 0)) := by
    unfold ldNew; simp [absA_eq_abs, hbig]
  rw [this]
  simp only
  congr 1
  unfold signA
  by_cases hlt : dictGetD cur k 0 < dictGetD tw k 0
  · have h1 : ¬ dictGetD tw k 0 - dictGetD cur k 0 < 0 := by linarith
    have h2 : 0 < dictGetD tw k 0 - dictGetD cur k 0 := by linarith
    simp [hlt, h1, h2]
  · have hne : dictGetD tw k 0 - dictGetD cur k 0 ≠ 0 := by
      intro e; rw [e, abs_zero] at hbig; exact absurd hbig (not_lt.mpr hl)
    have h1 : dictGetD tw k 0 - dictGetD cur k 0 < 0 := by
      rcases lt_trichotomy (dictGetD tw k 0 - dictGetD cur k 0) 0 with h | h | h
      · exact h
      · exact absurd h hne
      · exact absurd (by linarith) hlt
    simp [hlt, h1]; ring

-- held 100% "a" with new target 0 and a held name "c" that left the target: both move by exactly the limit
example : limitDeltas (fun _ => some (1/10 : Rat)) [("a", 1/2), ("c", 1/2)] [("a", 0), ("b", 1)]
    = [("a", 2/5), ("b", 1/10), ("c", 2/5)] := by decide +kernel

/-! ### LimitWeights (with `ffn.limit_weights`) -/

/-- Infeasible cap (`limit < 1/n`): nothing is left in `temp['weights']`. -/
theorem limitWeights_infeasible_empty (limit : K) (ws : Dict κ K) (hne : ws ≠ [])
    (h : limit < 1 / (ws.length : K)) : limitWeights limit ws = .done [] := by
  cases ws with
  | nil => exact absurd rfl hne
  | cons p t => simp only [limitWeights, h, if_true]

/-- Whatever the input (any signs, any total): whenever weights come out of `LimitWeights`, every one of them is at
    most the cap, and the names are the input's names (or none at all in the infeasible case). -/
theorem limitWeights_cap (limit : K) (ws res : Dict κ K) (h : limitWeights limit ws = .done res) :
    (∀ p ∈ res, p.2 ≤ limit) ∧ (res = [] ∨ dictKeys res = dictKeys ws) := by
  cases ws with
  | nil => simp only [limitWeights] at h; injection h with h; subst h; simp
  | cons p t =>
    simp only [limitWeights] at h
    split at h
    · injection h with h; subst h; simp
    · obtain ⟨h1, h2⟩ := aux_done_cap limit _ _ res h
      exact ⟨h1, Or.inr h2⟩

/-- The recursion of `ffn.limit_weights` never needs more than `n + 1` levels, for any weights. -/
theorem lw_fuel_suffices (limit : K) (ws : Dict κ K) : ffnLimitWeights limit ws ≠ .raised .fuel :=
  lw_fuel_suffices' limit ws

/-- Capped weights: for positive weights that sum to one and a feasible cap (`1/n ≤ limit`), `LimitWeights`
    terminates with weights for the same names, each at most the cap (and still positive), total still one;
    with an infeasible cap the result is `{}`.
    (Positivity is needed: with zero weights below the cap the code divides by zero, see the witness below.) -/
theorem limitWeights_cap_sum (limit : K) (ws : Dict κ K) (hne : ws ≠ [])
    (hpos : ∀ p ∈ ws, 0 < p.2) (hsum : sumA (dictVals ws) = 1) :
    (limit < 1 / (ws.length : K) → limitWeights limit ws = .done []) ∧
    (1 / (ws.length : K) ≤ limit →
      ∃ res, limitWeights limit ws = .done res ∧ dictKeys res = dictKeys ws ∧
        (∀ p ∈ res, p.2 ≤ limit) ∧ (∀ p ∈ res, 0 < p.2) ∧ sumA (dictVals res) = 1) := by
  refine ⟨limitWeights_infeasible_empty limit ws hne, ?_⟩
  intro hfeas
  have hn : (0 : K) < (ws.length : K) := by
    have : 0 < ws.length := List.length_pos_of_ne_nil hne
    exact_mod_cast this
  have hI : LWInv limit ws := ⟨hpos, hsum, by rwa [div_le_iff₀ hn, mul_comm] at hfeas⟩
  obtain ⟨res, hres, hIr⟩ := ffn_inv limit ws hI
  have hlw : limitWeights limit ws = ffnLimitWeights limit ws := by
    cases ws with
    | nil => exact absurd rfl hne
    | cons p t => simp only [limitWeights, not_lt.mpr hfeas, if_false]
  obtain ⟨hcap, hkeys⟩ := aux_done_cap limit _ ws res hres
  exact ⟨res, by rw [hlw, hres], hkeys, hcap, hIr.pos, hIr.sum⟩

example : limitWeights (1/2 : Rat) [("a", 7/10), ("b", 1/5), ("c", 1/10)]
    = .done [("a", 1/2), ("b", 1/3), ("c", 1/6)] := by decide +kernel

/-- WITNESS (genuine defect of the code, reproduced by the model): weights `{a:1, b:0, c:0}` with the feasible cap
    0.5 come back as `{a:0.5, b:NaN, c:NaN}` — the excess cannot be spread proportionally over zero weights
    (0/0); the total is not preserved. -/
example : limitWeights (1/2 : Rat) [("a", 1), ("b", 0), ("c", 0)]
    = .nan [("a", some (1/2)), ("b", none), ("c", none)] := by decide +kernel

/-- WITNESS: weights already under the cap are destroyed as well: `{a:0.5, b:0.5, c:0}` with cap 0.5. -/
example : limitWeights (1/2 : Rat) [("a", 1/2), ("b", 1/2), ("c", 0)]
    = .nan [("a", some (1/2)), ("b", some (1/2)), ("c", none)] := by decide +kernel

/-- WITNESS: below-cap weights of mixed sign cancelling to zero make the code raise ValueError. -/
example : limitWeights (1/2 : Rat) [("a", 1), ("b", 3/10), ("c", -3/10)] = .raised .sumNotOne := by decide +kernel

/-! ### WeighRandomly (with `ffn.random_weights`; the uniform draws and the shuffle are universally quantified) -/

/-- Random weights: for distinct selected names, ANY uniform draws in [0,1] and ANY shuffle: if the request is
    feasible (`low ≤ high`, `n·low ≤ total ≤ n·high`) every selected name gets a weight inside the bounds and the
    weights sum to the requested total; if it is infeasible (`ffn` raises ValueError) the result is `{}`. -/
theorem randomly_spec (sel : List κ) (hnd : sel.Nodup) (low high total : K) (us : List K) (perm : List Nat)
    (hlen : sel.length ≤ us.length) (hu : ∀ u ∈ us, 0 ≤ u ∧ u ≤ 1) (hperm : perm.Perm (List.range sel.length)) :
    (rwFeasible sel.length low high total = false → weighRandomly sel low high total us perm = []) ∧
    (rwFeasible sel.length low high total = true →
      dictKeys (weighRandomly sel low high total us perm) = sel ∧
      (∀ p ∈ weighRandomly sel low high total us perm, low ≤ p.2 ∧ p.2 ≤ high) ∧
      sumA (dictVals (weighRandomly sel low high total us perm)) = total) := by
  constructor
  · intro h; simp [weighRandomly, randomWeights, h]
  · intro h
    have hf := h
    simp only [rwFeasible, Bool.and_eq_true, Bool.not_eq_true', decide_eq_false_iff_not, not_lt] at hf
    obtain ⟨⟨hlh, h2⟩, h3⟩ := hf
    have hI : RwInv low high sel.length (-total) := by
      unfold RwInv; rw [neg_neg]; exact ⟨h3, h2⟩
    obtain ⟨l1, l2, l3⟩ := rwLoop_spec low high hlh sel.length (-total) us hI hlen hu
    set w := rwLoop low high sel.length (-total) us with hw
    have hpw : (perm.filterMap fun i => w[i]?).Perm w := by
      have h1 := List.Perm.filterMap (fun i => w[i]?) hperm
      rw [← l1] at h1
      rwa [filterMap_range_getElem?] at h1
    set out := perm.filterMap fun i => w[i]? with hout
    have hol : out.length = sel.length := by rw [hpw.length_eq, l1]
    have hz : weighRandomly sel low high total us perm = sel.zip out := by
      have e : weighRandomly sel low high total us perm = dictOfPairs (sel.zip out) := by
        simp only [weighRandomly, randomWeights, h, if_true]; rfl
      rw [e]
      apply dictOfPairs_nodup
      rw [List.map_fst_zip (by omega)]
      exact hnd
    rw [hz]
    refine ⟨by unfold dictKeys; rw [List.map_fst_zip (by omega)], ?_, ?_⟩
    · intro p hp
      have : p.2 ∈ out := (List.of_mem_zip hp).2
      exact l2 _ (hpw.mem_iff.mp this)
    · unfold dictVals
      rw [List.map_snd_zip (by omega), sumA_perm hpw]
      linarith

example : weighRandomly ["a", "b", "c"] (0 : Rat) 1 1 [1/2, 1/2, 1/2] [2, 0, 1] = [("a", 1/4), ("b", 1/2), ("c", 1/4)] ∧
    randomlySpec (0 : Rat) ["a", "b", "c"] 0 1 1 [("a", 1/4), ("b", 1/2), ("c", 1/4)] = true ∧
    weighRandomly ["a", "b", "c"] (0 : Rat) (1/4) 1 [1/2, 1/2, 1/2] [2, 0, 1] = [] := by decide +kernel

/-! ### WeighInvVol (`ffn.calc_inv_vol_weights`) -/

/-- Inverse-volatility weights from the column volatilities `sig` (`none` = NaN; zero volatility is excluded by the
    code): if at least one volatility is positive, then the weights that come out are positive, they sum to one,
    every name with a positive volatility `s` gets a weight `x` with `x·s = c` for one constant `c > 0`
    (equal risk: weight × volatility is the same for all), and exactly the names with missing / non-positive
    volatility get no weight. -/
theorem invvol_spec [HasSqrt K] (sig : List (Option K)) (hex : ∃ s, some s ∈ sig ∧ 0 < s) :
    (invVolWeights sig).length = sig.length ∧
    (∀ x ∈ (invVolWeights sig).filterMap id, 0 < x) ∧
    sumSome (invVolWeights sig) = 1 ∧
    ∃ c : K, 0 < c ∧ ∀ o ow, (o, ow) ∈ sig.zip (invVolWeights sig) →
      (∀ x, ow = some x → ∃ s, o = some s ∧ 0 < s ∧ x * s = c) ∧
      (ow = none → o = none ∨ ∃ s, o = some s ∧ s ≤ 0) := by
  have hS := sumSome_invVols_pos sig hex
  refine ⟨by simp [invVolWeights, invVols], ?_, ?_, 1 / sumSome (invVols sig), by positivity, ?_⟩
  · intro x hx
    unfold invVolWeights at hx
    rw [show (fun o : Option K => o.map fun v => v / sumSome (invVols sig)) = Option.map (fun v => v / sumSome (invVols sig)) from rfl,
      filterMap_id_map_optmap] at hx
    simp only [List.mem_map] at hx
    obtain ⟨v, hv, rfl⟩ := hx
    exact div_pos (invVols_somes_pos sig v hv) hS
  · unfold sumSome invVolWeights
    rw [show (fun o : Option K => o.map fun v => v / sumSome (invVols sig)) = Option.map (fun v => v / sumSome (invVols sig)) from rfl,
      filterMap_id_map_optmap, sumA_map_div]
    exact div_self (ne_of_gt hS)
  · intro o ow hmem
    rw [invVolWeights_eq, zip_map_self] at hmem
    simp only [List.mem_map, Prod.mk.injEq] at hmem
    obtain ⟨a, _, rfl, rfl⟩ := hmem
    cases a with
    | none => exact ⟨by intro x hx; simp [ivCell] at hx, fun _ => Or.inl rfl⟩
    | some s =>
      by_cases hs : 0 < s
      · refine ⟨?_, by intro h; simp [ivCell, hs] at h⟩
        intro x hx
        simp [ivCell, hs] at hx
        refine ⟨s, rfl, hs, ?_⟩
        rw [← hx]; field_simp
      · refine ⟨by intro x hx; simp [ivCell, hs] at hx, fun _ => Or.inr ⟨s, rfl, not_lt.mp hs⟩⟩

/-- What `WeighInvVol` does around the formula: `{}` for an empty selection, `{x: 1}` for a single name, and for
    two or more names the inverse-volatility weights of the sample standard deviations of
    `to_returns().dropna()` over the window `[now-lag-lookback, now-lag]` of data up to `now`, NaN weights dropped;
    the weights left are positive and (when some volatility is positive) sum to one. -/
theorem invvol_algo [HasSqrt K] (t : Table κ K) (now lag lookback : Int) (sel : List κ) :
    (sel = [] → weighInvVol t now lag lookback sel = []) ∧
    (∀ x, sel = [x] → weighInvVol t now lag lookback sel = [(x, 1)]) ∧
    (2 ≤ sel.length →
      let sig := (colsOf sel.length (returnsArg t now lag lookback sel)).map stdA
      weighInvVol t now lag lookback sel = dropnaDict sel (invVolWeights sig) ∧
      ((∃ s, some s ∈ sig ∧ 0 < s) →
        (∀ p ∈ weighInvVol t now lag lookback sel, 0 < p.2) ∧
        sumA (dictVals (weighInvVol t now lag lookback sel)) = 1)) := by
  refine ⟨by intro h; subst h; rfl, by intro x h; subst h; rfl, ?_⟩
  intro h2
  obtain ⟨a, b, r, rfl⟩ : ∃ a b r, sel = a :: b :: r := by
    match sel, h2 with
    | a :: b :: r, _ => exact ⟨a, b, r, rfl⟩
  intro sig
  have hw : weighInvVol t now lag lookback (a :: b :: r) = dropnaDict (a :: b :: r) (invVolWeights sig) := rfl
  refine ⟨hw, ?_⟩
  intro hex
  obtain ⟨hlen, hpos, hsum, _⟩ := invvol_spec sig hex
  have hl : (a :: b :: r).length = (invVolWeights sig).length := by
    rw [hlen]; simp [sig, colsOf]
  have hv := dictVals_dropnaDict (a :: b :: r) (invVolWeights sig) hl
  rw [hw]
  refine ⟨?_, by rw [hv]; exact hsum⟩
  intro p hp
  apply hpos
  rw [← hv]
  exact List.mem_map_of_mem hp

example : invVolWeights [some (1/10 : Rat), none, some (1/5), some 0] = [some (2/3), none, some (1/3), none] := by decide +kernel

/-! ### the trailing window and the externally optimised weights (WeighERC, WeighMeanVar) — PARTIAL by design:
    the optimisers are `ffn`/`scipy`; what bt does around them is proved here, the relation their output must
    satisfy is the executable predicate `ercSpec` / `meanVarSpec` evaluated on every actual output by the driver
    (runtime verification, not a theorem about the solver). -/

/-- Window-exact: the rows bt uses are exactly the universe rows dated in `[now-lag-lookback, now-lag]` and not
    after `now`. -/
theorem window_exact (t : Table κ K) (now lag lookback : Int) (r : Int × List (Option K)) :
    r ∈ windowRows t now lag lookback ↔
      r ∈ t.rows ∧ now - lag - lookback ≤ r.1 ∧ r.1 ≤ now - lag ∧ r.1 ≤ now := by
  simp [windowRows, inWindow, List.mem_filter, and_assoc]

/-- Prefix-determined (no look-ahead): two universes with the same columns that agree on the rows dated up to
    `now` give the same window, the same matrix `to_returns().dropna()` handed to the optimiser, and the same
    inverse-volatility weights — whatever they contain after `now`. -/
theorem window_prefix_determined [HasSqrt K] (t1 t2 : Table κ K) (now lag lookback : Int) (sel : List κ)
    (hc : t1.cols = t2.cols)
    (hr : t1.rows.filter (fun r => decide (r.1 ≤ now)) = t2.rows.filter (fun r => decide (r.1 ≤ now))) :
    windowRows t1 now lag lookback = windowRows t2 now lag lookback ∧
    returnsArg t1 now lag lookback sel = returnsArg t2 now lag lookback sel ∧
    weighInvVol t1 now lag lookback sel = weighInvVol t2 now lag lookback sel := by
  have hw : windowRows t1 now lag lookback = windowRows t2 now lag lookback := by
    have key : ∀ t : Table κ K, windowRows t now lag lookback
        = (t.rows.filter (fun r => decide (r.1 ≤ now))).filter (fun r => inWindow now lag lookback r.1) := by
      intro t
      unfold windowRows
      rw [List.filter_filter]
      apply List.filter_congr
      intro r _
      unfold inWindow
      by_cases h : r.1 ≤ now <;> simp [h]
    rw [key t1, key t2, hr]
  have hp : windowPrices t1 now lag lookback sel = windowPrices t2 now lag lookback sel := by
    unfold windowPrices; rw [hw, hc]
  have hra : returnsArg t1 now lag lookback sel = returnsArg t2 now lag lookback sel := by
    unfold returnsArg; rw [hp]
  refine ⟨hw, hra, ?_⟩
  unfold weighInvVol
  rw [hra]

/-- bt's part of WeighERC / WeighMeanVar: no optimiser call for 0 or 1 names (`{}` / `{x: 1}`), otherwise the
    optimiser's vector with its NaN entries dropped: a name has weight `v` iff the optimiser returned `v` for it. -/
theorem kernel_wrapper (sel : List κ) (out : List (Option K)) :
    (sel = [] → weighKernel sel out = []) ∧
    (∀ x, sel = [x] → weighKernel sel out = [(x, 1)]) ∧
    (2 ≤ sel.length → weighKernel sel out = dropnaDict sel out ∧
      ∀ k v, (k, v) ∈ weighKernel sel out ↔ (k, some v) ∈ sel.zip out) := by
  refine ⟨by intro h; subst h; rfl, by intro x h; subst h; rfl, ?_⟩
  intro h2
  obtain ⟨a, b, r, rfl⟩ : ∃ a b r, sel = a :: b :: r := by
    match sel, h2 with
    | a :: b :: r, _ => exact ⟨a, b, r, rfl⟩
  have hw : weighKernel (a :: b :: r) out = dropnaDict (a :: b :: r) out := rfl
  refine ⟨hw, ?_⟩
  intro k v
  rw [hw]
  exact target_row_cells _ _ _ _

-- rows dated after `now` (day 3) and a lagged window: only days 1..2 are used
example : windowRows (⟨["a"], [(0, [some 1]), (1, [some 2]), (2, [some 4]), (3, [some 8]), (4, [some 9])]⟩ : Table String Rat) 3 1 1
    = [(1, [some 2]), (2, [some 4])] ∧
    returnsArg (⟨["a", "b"], [(1, [some 2, some 1]), (2, [some 4, none]), (3, [some 8, some 3]), (4, [some 9, some 3])]⟩ : Table String Rat) 4 0 9 ["b", "a"]
    = [[0, 1/8]] := by decide +kernel

-- the ERC predicate accepts inverse-variance-balanced weights for a diagonal covariance and rejects equal weights
example : ercSpec (1/1000 : Rat) [[1, 0], [0, 4]] [1/2, 1/2] [2/3, 1/3] = true ∧
    ercSpec (1/1000 : Rat) [[1, 0], [0, 4]] [1/2, 1/2] [1/2, 1/2] = false := by decide +kernel

/-! ### TargetVol -/

/-- Volatility targeting (first call of an algo built with a number `tv ≥ 0`, `covar_method='standard'`): when the
    ex-ante volatility `v = √(wᵀ C w · af)` of the incoming weights over the window is defined and positive, every
    weight becomes `w·tv/v`, and the ex-ante volatility of the new weights (same window, same covariance) equals the
    target.  `hs` is the only assumption on the square root: for `x ≥ 0`, `√x ≥ 0` and `√x·√x = x`. -/
theorem targetVol_spec [HasSqrt K] (hs : SqrtSpec K) (tv af : K) (htv : 0 ≤ tv)
    (t : Table κ K) (now lag lookback : Int) (ws : Dict κ K) (hne : ws ≠ []) (hnd : (dictKeys ws).Nodup)
    (v : K) (hv : tvVol af t now lag lookback ws = some v) (hpos : 0 < v) :
    (∃ p', targetVol (.scalar tv) .standard af t now lag lookback ws
        = .ok (p', ws.map fun q => (q.1, some (q.2 * tv / v)))) ∧
    tvVol af t now lag lookback (ws.map fun q => (q.1, q.2 * tv / v)) = some tv := by
  constructor
  · refine ⟨.perKey (tvFreeze (.scalar tv) (dictKeys ws)), ?_⟩
    cases ws with
    | nil => exact absurd rfl hne
    | cons p0 rest =>
      simp only [targetVol]
      congr 2
      apply List.map_congr_left
      intro q hq
      have hk : q.1 ∈ dictKeys (p0 :: rest) := List.mem_map_of_mem hq
      have hfr : tvFreeze (.scalar tv) (dictKeys (p0 :: rest)) = (dictKeys (p0 :: rest)).map fun k => (k, tv) := by
        unfold tvFreeze
        apply dictOfPairs_nodup
        simpa [List.map_map, Function.comp_def] using hnd
      simp only [tvScaleCell, hfr, dictGet_map_const _ tv q.1 hk, hv, hpos, if_true]
  · unfold tvVol at hv ⊢
    have hkeys : dictKeys (ws.map fun q => (q.1, q.2 * tv / v)) = dictKeys ws := by
      simp [dictKeys, List.map_map, Function.comp_def]
    rw [hkeys]
    set C := windowCov t now lag lookback (dictKeys ws) with hC
    have hvals : (dictVals (ws.map fun q => (q.1, q.2 * tv / v))).map some
        = ((dictVals ws).map some).map (Option.map fun x => (tv / v) * x) := by
      simp only [dictVals, List.map_map]
      apply List.map_congr_left
      intro q _
      simp only [Function.comp_def, Option.map_some]
      congr 1
      field_simp
    rw [hvals]
    unfold exAnteVol at hv ⊢
    rw [quadForm_scale]
    cases hq : quadForm ((dictVals ws).map some) C with
    | none => rw [hq] at hv; simp at hv
    | some q =>
      rw [hq] at hv
      simp only [Option.bind_some, volOf] at hv
      by_cases hneg : q * af < 0
      · simp [hneg] at hv
      · simp only [hneg, if_false, Option.some.injEq] at hv
        have hx : 0 ≤ q * af := not_lt.mp hneg
        obtain ⟨_, hsq⟩ := hs (q * af) hx
        rw [hv] at hsq
        have hx' : tv / v * (tv / v) * q * af = (tv / v * v) * (tv / v * v) := by
          have : tv / v * (tv / v) * q * af = tv / v * (tv / v) * (q * af) := by ring
          rw [this, ← hsq]; ring
        have hcv : tv / v * v = tv := by field_simp
        simp only [Option.map_some, Option.bind_some, volOf]
        have hnn : ¬ (tv / v * (tv / v) * q * af < 0) := by
          rw [hx', hcv]; exact not_lt.mpr (mul_self_nonneg tv)
        simp only [hnn, if_false, Option.some.injEq]
        apply sqrt_unique hs _ _ (not_lt.mp hnn) htv
        rw [hx', hcv]

/-- WITNESS of a genuine defect, as a theorem about the model (which follows the code): the number passed as
    `target_volatility` is replaced, at the first non-empty call, by a dict over THAT call's names and never
    refreshed; at a later call a name that was not in the first call is not in the dict and its weight is left
    unscaled, whatever the volatility is — so the new weights are not the volatility-targeted ones. -/
theorem targetVol_defect_later_name_unscaled [HasSqrt K] (tv af : K) (t : Table κ K)
    (now1 now2 lag lookback : Int) (ws1 ws2 : Dict κ K) (hne : ws1 ≠ []) (k : κ) (w : K)
    (hk1 : k ∉ dictKeys ws1) (hk2 : (k, w) ∈ ws2) :
    ∃ d out1, targetVol (.scalar tv) .standard af t now1 lag lookback ws1 = .ok (.perKey d, out1) ∧
      ∃ p2 out2, targetVol (.perKey d) .standard af t now2 lag lookback ws2 = .ok (p2, out2) ∧ (k, some w) ∈ out2 := by
  cases ws1 with
  | nil => exact absurd rfl hne
  | cons p0 rest =>
    refine ⟨tvFreeze (.scalar tv) (dictKeys (p0 :: rest)), _, rfl, ?_⟩
    have hnone : dictGet (tvFreeze (.scalar tv) (dictKeys (p0 :: rest))) k = none := by
      rw [dictGet_none_iff]
      unfold tvFreeze dictOfPairs
      -- keys of a dict built from pairs are among the pairs' keys
      have key : ∀ (ps : List (κ × K)) (acc : Dict κ K), k ∉ dictKeys acc → k ∉ ps.map Prod.fst →
          k ∉ dictKeys (ps.foldl (fun d p => dictSet d p.1 p.2) acc) := by
        intro ps
        induction ps with
        | nil => intro acc h _; exact h
        | cons p tl ih =>
          intro acc h1 h2
          simp only [List.map_cons, List.mem_cons, not_or] at h2
          refine ih (dictSet acc p.1 p.2) ?_ h2.2
          by_cases hm : p.1 ∈ dictKeys acc
          · rw [dictKeys_dictSet_mem _ _ _ hm]; exact h1
          · rw [dictSet_new _ _ _ hm]
            simp only [dictKeys, List.map_append, List.map_cons, List.map_nil, List.mem_append, List.mem_singleton, not_or]
            exact ⟨h1, h2.1⟩
      apply key _ _ (by simp [dictKeys])
      simpa [List.map_map, Function.comp_def] using hk1
    generalize tvFreeze (.scalar tv) (dictKeys (p0 :: rest)) = d at hnone ⊢
    cases ws2 with
    | nil => simp at hk2
    | cons q0 rest2 =>
      refine ⟨_, _, rfl, ?_⟩
      simp only [List.mem_map]
      refine ⟨(k, w), hk2, ?_⟩
      have : tvFreeze (.perKey d) (dictKeys (q0 :: rest2)) = d := rfl
      simp only [this, tvScaleCell, hnone]

/-! ### PTE_Rebalance -/

/-- The trigger: with positions, a target row for `now` and `covar_method='standard'`, the algo returns True exactly
    when the tracking-error volatility of (current − target) weights is defined and exceeds the cap; False when it is
    NaN.  No positions at all → True (first allocation). -/
theorem pte_iff [HasSqrt K] (cap af : K) (t : Table κ K) (now lag lookback : Int)
    (pos : Dict κ K) (value : K) (tw : Table κ K) (row : List (Option K)) (hrow : frameRow tw now = some row) :
    pteRebalance cap af .standard t now lag lookback none value tw = .ok true ∧
    ∃ b, pteRebalance cap af .standard t now lag lookback (some pos) value tw = .ok b ∧
      (b = true ↔ ∃ v, pteVol af t now lag lookback (curWeights t now value pos) (tw.cols.zip row) = some v ∧ cap < v) := by
  refine ⟨rfl, ?_⟩
  simp only [pteRebalance, hrow]
  cases h : pteVol af t now lag lookback (curWeights t now value pos) (tw.cols.zip row) with
  | none => exact ⟨false, rfl, by simp⟩
  | some v => exact ⟨decide (cap < v), rfl, by simp⟩

/-- The same trigger without the square root: for a cap `≥ 0`, True iff the quadratic form `dᵀ C d` of the
    weight differences is defined (no NaN) and `dᵀ C d · af > cap²`. -/
theorem pte_iff_sq [HasSqrt K] (hs : SqrtSpec K) (cap af : K) (hcap : 0 ≤ cap) (t : Table κ K) (now lag lookback : Int)
    (pos : Dict κ K) (value : K) (tw : Table κ K) (row : List (Option K)) (hrow : frameRow tw now = some row) :
    pteRebalance cap af .standard t now lag lookback (some pos) value tw = .ok true ↔
      ∃ q, quadForm ((pteCols (curWeights t now value pos) (tw.cols.zip row)).map
                (pteDiff (curWeights t now value pos) (tw.cols.zip row)))
              (windowCov t now lag lookback (pteCols (curWeights t now value pos) (tw.cols.zip row))) = some q ∧
           cap * cap < q * af := by
  simp only [pteRebalance, hrow, pteVol, exAnteVol]
  cases hq : quadForm ((pteCols (curWeights t now value pos) (tw.cols.zip row)).map
                (pteDiff (curWeights t now value pos) (tw.cols.zip row)))
              (windowCov t now lag lookback (pteCols (curWeights t now value pos) (tw.cols.zip row))) with
  | none => simp
  | some q =>
    simp only [Option.bind_some, volOf]
    by_cases hneg : q * af < 0
    · simp only [hneg, if_true]
      constructor
      · intro h; cases h
      · rintro ⟨q', hq', hlt⟩
        cases hq'
        have := mul_self_nonneg cap
        linarith
    · simp only [hneg, if_false]
      have hx : 0 ≤ q * af := not_lt.mp hneg
      constructor
      · intro h
        have : cap < sqrtA (q * af) := by simpa using h
        exact ⟨q, rfl, (sqrt_lt_iff hs _ _ hx hcap).mp this⟩
      · rintro ⟨q', hq', hlt⟩
        cases hq'
        have := (sqrt_lt_iff hs _ _ hx hcap).mpr hlt
        simp [this]

/-! ### the square-root assumption is satisfiable: the reals -/

noncomputable instance realSqrt : HasSqrt ℝ := ⟨Real.sqrt⟩

theorem sqrtSpec_real : SqrtSpec ℝ := fun x hx => ⟨Real.sqrt_nonneg x, Real.mul_self_sqrt hx⟩

theorem sqrtA_four : sqrtA (4 : ℝ) = 2 := by
  show Real.sqrt 4 = 2
  rw [show (4 : ℝ) = 2 * 2 by norm_num]
  exact Real.sqrt_mul_self (by norm_num)

-- hypotheses of `targetVol_spec` hold on a concrete history (prices 1,2,1; af = 32/9): ex-ante vol is 2 > 0
example : tvVol (32/9 : ℝ) (⟨[0], [(0, [some 1]), (1, [some 2]), (2, [some 1]), (3, [some 7])]⟩ : Table Nat ℝ) 2 0 5 [(0, 1)] = some 2 ∧
    (0 : ℝ) < 2 := by
  refine ⟨?_, by norm_num⟩
  simp [tvVol, exAnteVol, windowCov, windowPrices, windowRows, inWindow, pickCols, toReturns, toReturnsFrom, retCell,
    colsOpt, covMatrix, covPair, pairRows, meanA, quadForm, dotOpt, volOf, dictVals, dictKeys, sumA, List.range, List.range.loop]
  norm_num
  exact sqrtA_four

-- `pte_iff`: holding 100% of asset 0 against a target of 0% gives tracking-error vol 2: above a cap of 1, not above 3
example : pteRebalance (1 : ℝ) (32/9) .standard (⟨[0], [(0, [some 1]), (1, [some 2]), (2, [some 1])]⟩ : Table Nat ℝ) 2 0 5
      (some [(0, 1)]) 1 ⟨[0], [(2, [some 0])]⟩ = .ok true ∧
    pteRebalance (3 : ℝ) (32/9) .standard (⟨[0], [(0, [some 1]), (1, [some 2]), (2, [some 1])]⟩ : Table Nat ℝ) 2 0 5
      (some [(0, 1)]) 1 ⟨[0], [(2, [some 0])]⟩ = .ok false := by
  constructor <;>
  · simp [pteRebalance, frameRow, pteVol, pteCols, pteDiff, curWeights, dictGet_cons, exAnteVol, windowCov, windowPrices, windowRows,
      inWindow, pickCols, toReturns, toReturnsFrom, retCell, colsOpt, covMatrix, covPair, pairRows, meanA, quadForm, dotOpt, volOf,
      dictVals, dictKeys, sumA, List.range, List.range.loop]
    norm_num [sqrtA_four]

end Bt.C15
