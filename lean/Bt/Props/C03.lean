import Bt.Proofs.Ledger
import Bt.Proofs.LedgerEx
import Mathlib.Tactic.NormNum
/-! C03 — price index (property theorems only; helper lemmas live in `Bt.Proofs.Ledger`). -/
namespace Bt.C03
open Bt
set_option linter.unusedSectionVars false

variable {K : Type} [Field K] [LinearOrder K] [IsStrictOrderedRing K] [HasFloor K]

/-- Market-value strategy: whenever the index is written and the base `last_value + net_flows` is not
    (numerically) zero, `price · (last_value + net_flows) = last_price · value`. -/
theorem index_recurrence (cfg : Cfg K) (htol : 0 < cfg.tol) (d : Nat) (newpt : Bool) (sd sd' : StratData K)
    (val notl bo : K) (hfi : sd.fixedIncome = false)
    (hch : stratChanged cfg newpt sd val notl = true)
    (hb : isZero cfg.tol (sd.lastValue + sd.netFlows) = false)
    (h : stratWrite cfg d newpt sd val notl bo = .ok sd') :
    sd'.price * (sd.lastValue + sd.netFlows) = sd.lastPrice * val := by
  have hne := ne_zero_of_isZero_false htol hb
  rcases stratWrite_mv_price hfi hch h with ⟨_, hp⟩ | ⟨hz, _, _⟩
  · rw [hp]; field_simp; ring
  · rw [hb] at hz; cases hz

example : ∃ sd', stratChanged LEx.cfg true LEx.strat 1050 300 = true ∧
    isZero LEx.cfg.tol (LEx.strat.lastValue + LEx.strat.netFlows) = false ∧
    stratWrite LEx.cfg 2 true LEx.strat 1050 300 0 = .ok sd' := by
  norm_num [stratWrite, stratChanged, stratSetTotals, mvReturn, stratSetPrice, isZero, absA, LEx.cfg, LEx.strat,
    Except.map, pure, Except.pure]

/-- Zero base, non-zero value: the update raises (`ZeroDivisionError` in the code). -/
theorem zero_base_raises (cfg : Cfg K) (d : Nat) (newpt : Bool) (sd : StratData K) (val notl bo : K)
    (hfi : sd.fixedIncome = false) (hch : stratChanged cfg newpt sd val notl = true)
    (hb : isZero cfg.tol (sd.lastValue + sd.netFlows) = true) (hv : isZero cfg.tol val = false) :
    stratWrite cfg d newpt sd val notl bo = .error Err.zeroBaseReturn := by
  cases hw : stratWrite cfg d newpt sd val notl bo with
  | error e =>
    unfold stratWrite at hw
    obtain ⟨e1, _, _, e4, e5, _, e7⟩ := stratSetTotals_last d sd val notl bo
    simp only [hch, ↓reduceIte, e7, hfi, Bool.false_eq_true, mvReturn, e1, e4, e5, hb, hv, Bool.not_true] at hw
    simp only [Except.map, throw, throwThe, MonadExceptOf.throw] at hw
    cases hw; rfl
  | ok sd' =>
    rcases stratWrite_mv_price hfi hch hw with ⟨hz, _⟩ | ⟨_, hz, _⟩
    · rw [hb] at hz; cases hz
    · rw [hv] at hz; cases hz

example : stratChanged LEx.cfg true { LEx.strat with lastValue := 0, netFlows := 0 } 1050 300 = true ∧
    isZero LEx.cfg.tol (0 + 0 : Rat) = true ∧ isZero LEx.cfg.tol (1050 : Rat) = false := by
  norm_num [stratChanged, isZero, absA, LEx.cfg]

/-- Zero base and zero value: the return is 0 and the index stays at `last_price`. -/
theorem zero_base_zero_value (cfg : Cfg K) (d : Nat) (newpt : Bool) (sd sd' : StratData K) (val notl bo : K)
    (hfi : sd.fixedIncome = false) (hch : stratChanged cfg newpt sd val notl = true)
    (hb : isZero cfg.tol (sd.lastValue + sd.netFlows) = true)
    (h : stratWrite cfg d newpt sd val notl bo = .ok sd') :
    isZero cfg.tol val = true ∧ sd'.price = sd.lastPrice := by
  rcases stratWrite_mv_price hfi hch h with ⟨hz, _⟩ | ⟨_, hv, hp⟩
  · rw [hb] at hz; cases hz
  · exact ⟨hv, by rw [hp]; ring⟩

example : ∃ sd', stratChanged LEx.cfg true { LEx.strat with lastValue := 0, netFlows := 0 } 0 0 = true ∧
    stratWrite LEx.cfg 2 true { LEx.strat with lastValue := 0, netFlows := 0 } 0 0 0 = .ok sd' := by
  norm_num [stratWrite, stratChanged, stratSetTotals, mvReturn, stratSetPrice, isZero, absA, LEx.cfg, LEx.strat,
    Except.map, pure, Except.pure]

/-- Fixed-income strategy: the index is additive, `price = last_price + par · pnl / notional` with
    `pnl = value − (last_value + net_flows)`; the notional is `last_notl`, or the current one when
    `last_notl` is zero; with both zero a zero P&L leaves the index unchanged. -/
theorem fi_index_additive (cfg : Cfg K) (d : Nat) (newpt : Bool) (sd sd' : StratData K) (val notl bo : K)
    (hfi : sd.fixedIncome = true) (hch : stratChanged cfg newpt sd val notl = true)
    (h : stratWrite cfg d newpt sd val notl bo = .ok sd') :
    (isZero cfg.tol sd.lastNotl = false →
       sd'.price = sd.lastPrice + cfg.par * (val - (sd.lastValue + sd.netFlows)) / sd.lastNotl) ∧
    (isZero cfg.tol sd.lastNotl = true → isZero cfg.tol notl = false →
       sd'.price = sd.lastPrice + cfg.par * (val - (sd.lastValue + sd.netFlows)) / notl) ∧
    (isZero cfg.tol sd.lastNotl = true → isZero cfg.tol notl = true →
       isZero cfg.tol (val - (sd.lastValue + sd.netFlows)) = true ∧ sd'.price = sd.lastPrice) := by
  rcases stratWrite_fi_price hfi hch h with ⟨h1, hp⟩ | ⟨h1, h2, hp⟩ | ⟨h1, h2, h3, hp⟩
  · refine ⟨fun _ => by rw [hp]; ring, fun h' => ?_, fun h' => ?_⟩ <;> (rw [h1] at h'; cases h')
  · refine ⟨fun h' => ?_, fun _ _ => by rw [hp]; ring, fun _ h' => ?_⟩
    · rw [h1] at h'; cases h'
    · rw [h2] at h'; cases h'
  · refine ⟨fun h' => ?_, fun _ h' => ?_, fun _ _ => ⟨h3, by rw [hp]; ring⟩⟩
    · rw [h1] at h'; cases h'
    · rw [h2] at h'; cases h'

example : ∃ sd', stratChanged LEx.cfg true { LEx.strat with fixedIncome := true } 1050 300 = true ∧
    stratWrite LEx.cfg 2 true { LEx.strat with fixedIncome := true } 1050 300 0 = .ok sd' := by
  norm_num [stratWrite, stratChanged, stratSetTotals, fiReturn, stratSetPrice, isZero, absA, LEx.cfg, LEx.strat,
    Except.map, pure, Except.pure]

/-- Fixed income, both notionals zero, non-zero P&L: raises. -/
theorem fi_zero_base_raises (cfg : Cfg K) (d : Nat) (newpt : Bool) (sd : StratData K) (val notl bo : K)
    (hfi : sd.fixedIncome = true) (hch : stratChanged cfg newpt sd val notl = true)
    (h1 : isZero cfg.tol sd.lastNotl = true) (h2 : isZero cfg.tol notl = true)
    (h3 : isZero cfg.tol (val - (sd.lastValue + sd.netFlows)) = false) :
    stratWrite cfg d newpt sd val notl bo = .error Err.zeroBaseReturn := by
  cases hw : stratWrite cfg d newpt sd val notl bo with
  | error e =>
    unfold stratWrite at hw
    obtain ⟨e1, _, e3, e4, e5, e6, e7⟩ := stratSetTotals_last d sd val notl bo
    simp only [hch, ↓reduceIte, e7, hfi, fiReturn, e1, e3, e4, e5, e6, h1, h2, h3, Bool.not_true,
      Bool.false_eq_true] at hw
    simp only [Except.map, throw, throwThe, MonadExceptOf.throw] at hw
    cases hw; rfl
  | ok sd' =>
    rcases stratWrite_fi_price hfi hch hw with ⟨hz, _⟩ | ⟨_, hz, _⟩ | ⟨_, _, hz, _⟩
    · rw [h1] at hz; cases hz
    · rw [h2] at hz; cases hz
    · rw [h3] at hz; cases hz

example : stratChanged LEx.cfg true { LEx.strat with fixedIncome := true, lastNotl := 0 } 1050 0 = true ∧
    isZero LEx.cfg.tol (0 : Rat) = true ∧ isZero LEx.cfg.tol (1050 - (900 + 50) : Rat) = false := by
  norm_num [stratChanged, isZero, absA, LEx.cfg]

/-- A flow `a` booked by `adjust(a, flow := true)` enters the base of the return together with the value:
    the index recomputed afterwards (value `V + a`) satisfies
    `price' · (last_value + net_flows + a) = last_price · (V + a)`; in particular when nothing else happened
    on the date (`V = last_value + net_flows`) the index stays at `last_price`. -/
theorem flow_neutral (cfg : Cfg K) (htol : 0 < cfg.tol) (d : Nat) (newpt : Bool) (sd sd' : StratData K)
    (V a notl bo : K) (hfi : sd.fixedIncome = false)
    (hch : stratChanged cfg newpt (sd.adjust { amount := a, fee := 0, flow := true }) (V + a) notl = true)
    (hb : isZero cfg.tol (sd.lastValue + sd.netFlows + a) = false)
    (h : stratWrite cfg d newpt (sd.adjust { amount := a, fee := 0, flow := true }) (V + a) notl bo = .ok sd') :
    sd'.price * (sd.lastValue + sd.netFlows + a) = sd.lastPrice * (V + a) ∧
    (V = sd.lastValue + sd.netFlows → sd'.price = sd.lastPrice) := by
  have hb' : isZero cfg.tol ((sd.adjust { amount := a, fee := 0, flow := true }).lastValue +
      (sd.adjust { amount := a, fee := 0, flow := true }).netFlows) = false := by
    simpa [StratData.adjust, add_assoc] using hb
  have hrec := index_recurrence cfg htol d newpt (sd.adjust { amount := a, fee := 0, flow := true }) sd' (V + a) notl bo
    hfi hch hb' h
  have hrec' : sd'.price * (sd.lastValue + sd.netFlows + a) = sd.lastPrice * (V + a) := by
    simpa [StratData.adjust, add_assoc] using hrec
  refine ⟨hrec', fun hV => ?_⟩
  have hne := ne_zero_of_isZero_false htol hb
  rw [hV] at hrec'
  exact mul_right_cancel₀ hne hrec'

example : ∃ sd', stratChanged LEx.cfg false (LEx.strat.adjust { amount := 100, fee := 0, flow := true }) (1000 + 100) 300 = true ∧
    isZero LEx.cfg.tol (LEx.strat.lastValue + LEx.strat.netFlows + 100) = false ∧
    stratWrite LEx.cfg 1 false (LEx.strat.adjust { amount := 100, fee := 0, flow := true }) (1000 + 100) 300 0 = .ok sd' := by
  norm_num [stratWrite, stratChanged, stratSetTotals, mvReturn, stratSetPrice, isZero, absA, LEx.cfg, LEx.strat,
    StratData.adjust, Except.map, pure, Except.pure]

/-- The same adjustment booked with `flow := false` (a fee, a cost, a non-flow adjustment) enters the value but
    not the base: `price' · (last_value + net_flows) = last_price · (V + a)` — so relative to an index `p₀`
    that was consistent with value `V` the index moves whenever `a ≠ 0` (and `last_price ≠ 0`). -/
theorem nonflow_moves (cfg : Cfg K) (htol : 0 < cfg.tol) (d : Nat) (newpt : Bool) (sd sd' : StratData K)
    (V a notl bo : K) (hfi : sd.fixedIncome = false)
    (hch : stratChanged cfg newpt (sd.adjust { amount := a, fee := 0, flow := false }) (V + a) notl = true)
    (hb : isZero cfg.tol (sd.lastValue + sd.netFlows) = false)
    (h : stratWrite cfg d newpt (sd.adjust { amount := a, fee := 0, flow := false }) (V + a) notl bo = .ok sd') :
    sd'.price * (sd.lastValue + sd.netFlows) = sd.lastPrice * (V + a) ∧
    (∀ p0, p0 * (sd.lastValue + sd.netFlows) = sd.lastPrice * V → a ≠ 0 → sd.lastPrice ≠ 0 → sd'.price ≠ p0) := by
  have hrec := index_recurrence cfg htol d newpt (sd.adjust { amount := a, fee := 0, flow := false }) sd' (V + a) notl bo
    hfi hch hb h
  have hrec' : sd'.price * (sd.lastValue + sd.netFlows) = sd.lastPrice * (V + a) := hrec
  refine ⟨hrec', fun p0 hp0 ha hlp hEq => ?_⟩
  rw [hEq, hp0] at hrec'
  have : sd.lastPrice * a = 0 := by
    have h2 : sd.lastPrice * (V + a) = sd.lastPrice * V + sd.lastPrice * a := by ring
    rw [h2] at hrec'
    exact (add_eq_left.mp hrec'.symm)
  rcases mul_eq_zero.mp this with h0 | h0
  · exact hlp h0
  · exact ha h0

example : ∃ sd', stratChanged LEx.cfg false (LEx.strat.adjust { amount := -10, fee := 0, flow := false }) (1000 + -10) 300 = true ∧
    stratWrite LEx.cfg 1 false (LEx.strat.adjust { amount := -10, fee := 0, flow := false }) (1000 + -10) 300 0 = .ok sd' := by
  norm_num [stratWrite, stratChanged, stratSetTotals, mvReturn, stratSetPrice, isZero, absA, LEx.cfg, LEx.strat,
    StratData.adjust, Except.map, pure, Except.pure]

/-- Exact condition under which a flow leaves the index where it was: with `p₀` the index consistent with
    value `V` on base `B = last_value + net_flows` and `p₁` the index after the flow `a`
    (value `V + a`, base `B + a`), `p₁ = p₀` iff `a = 0` or `V = B`.  So a flow booked *after* P&L of the
    same date (V ≠ B) does move the index — see `flow_after_pnl_moves_index`. -/
theorem flow_neutral_iff (B V a LP p0 p1 : K) (hB : B ≠ 0) (hBa : B + a ≠ 0) (hLP : LP ≠ 0)
    (h0 : p0 * B = LP * V) (h1 : p1 * (B + a) = LP * (V + a)) :
    p1 = p0 ↔ (a = 0 ∨ V = B) := by
  have key : (p1 - p0) * (B * (B + a)) = LP * a * (B - V) := by
    have e1 : (p1 - p0) * (B * (B + a)) = p1 * (B + a) * B - p0 * B * (B + a) := by ring
    rw [e1, h0, h1]; ring
  constructor
  · intro h
    rw [h, sub_self, zero_mul] at key
    rcases mul_eq_zero.mp key.symm with h2 | h2
    · rcases mul_eq_zero.mp h2 with h3 | h3
      · exact absurd h3 hLP
      · exact Or.inl h3
    · exact Or.inr (sub_eq_zero.mp h2).symm
  · intro h
    have hz : LP * a * (B - V) = 0 := by
      rcases h with h | h
      · rw [h]; ring
      · rw [h]; ring
    rw [hz] at key
    rcases mul_eq_zero.mp key with h2 | h2
    · exact sub_eq_zero.mp h2
    · exact absurd h2 (mul_ne_zero hB hBa)

example : (110 : Rat) * 100 = 100 * 110 ∧ (105 : Rat) * (100 + 100) = 100 * (110 + 100) := by norm_num

/-- WITNESS (the informal "a flow never moves the index" is false of the code once something else has
    happened on the date): last value 100, index 100; the date's P&L takes the value to 110 and the index to
    110; a flow of +100 booked afterwards on the same date (value 210, base 200) rewrites the index to 105. -/
theorem flow_after_pnl_moves_index :
    let sd0 : StratData Rat :=
      { LEx.strat with lastValue := 100, netFlows := 0, lastPrice := 100, value := 100, price := 100, capital := 100 }
    ∃ sd1 sd2, stratWrite LEx.cfg 1 false sd0 110 0 0 = .ok sd1 ∧ sd1.price = 110 ∧
      stratWrite LEx.cfg 1 false (sd1.adjust { amount := 100, fee := 0, flow := true }) (110 + 100) 0 0 = .ok sd2 ∧
      sd2.price = 105 := by
  norm_num [stratWrite, stratChanged, stratSetTotals, mvReturn, stratSetPrice, isZero, absA, LEx.cfg, LEx.strat,
    StratData.adjust, Except.map, pure, Except.pure]

/-- The index starts at `par`: a strategy whose `last_price` is `par` and whose first write (`newpt`) sees
    exactly the capital it was given (`value = last_value + net_flows`) gets `price = par` — the write
    cannot raise, whatever the amount (even zero), for both index formulas. -/
theorem index_start (cfg : Cfg K) (htol : 0 < cfg.tol) (d : Nat) (sd : StratData K) (val notl bo : K)
    (hlp : sd.lastPrice = cfg.par) (hval : val = sd.lastValue + sd.netFlows) :
    ∃ sd', stratWrite cfg d true sd val notl bo = .ok sd' ∧ sd'.price = cfg.par := by
  have hch : stratChanged cfg true sd val notl = true := by simp [stratChanged]
  have hz0 : isZero cfg.tol (0 : K) = true := by rw [isZero_iff_L]; simpa using htol
  obtain ⟨e1, e2, e3, e4, e5, e6, e7⟩ := stratSetTotals_last d sd val notl bo
  have hex : ∃ sd', stratWrite cfg d true sd val notl bo = .ok sd' := by
    unfold stratWrite
    simp only [hch, ↓reduceIte, e7]
    cases hfi : sd.fixedIncome
    · simp only [Bool.false_eq_true, ↓reduceIte, mvReturn, e1, e4, e5]
      by_cases hb : isZero cfg.tol (sd.lastValue + sd.netFlows) = true
      · have hv : isZero cfg.tol val = true := by rw [hval]; exact hb
        simp [hb, hv, Except.map, pure, Except.pure]
      · simp [hb, Except.map, pure, Except.pure]
    · simp only [↓reduceIte, fiReturn, e1, e3, e4, e5, e6]
      have hp : val - (sd.lastValue + sd.netFlows) = 0 := by rw [hval]; ring
      rw [hp]
      by_cases h1 : isZero cfg.tol sd.lastNotl = true
      · by_cases h2 : isZero cfg.tol notl = true
        · simp [h1, h2, hz0, Except.map, pure, Except.pure]
        · simp [h1, h2, Except.map, pure, Except.pure]
      · simp [h1, Except.map, pure, Except.pure]
  obtain ⟨sd', hw⟩ := hex
  refine ⟨sd', hw, ?_⟩
  cases hfi : sd.fixedIncome
  · rcases stratWrite_mv_price hfi hch hw with ⟨hb, hp⟩ | ⟨_, _, hp⟩
    · have hne := ne_zero_of_isZero_false htol hb
      rw [hp, hval, div_self hne, hlp]; ring
    · rw [hp, hlp]; ring
  · have hp0 : val - (sd.lastValue + sd.netFlows) = 0 := by rw [hval]; ring
    rcases stratWrite_fi_price hfi hch hw with ⟨_, hp⟩ | ⟨_, _, hp⟩ | ⟨_, _, _, hp⟩
    · rw [hp, hp0, hlp]; simp
    · rw [hp, hp0, hlp]; simp
    · rw [hp, hlp]; simp

example : (0 : Rat) < LEx.cfg.tol ∧ LEx.strat.lastPrice = LEx.cfg.par ∧
    (950 : Rat) = LEx.strat.lastValue + LEx.strat.netFlows := by
  norm_num [LEx.cfg, LEx.strat]

/-- … which is 100 for the module's `PAR = 100`. -/
theorem index_start_100 (cfg : Cfg K) (htol : 0 < cfg.tol) (hpar : cfg.par = 100) (d : Nat) (sd : StratData K)
    (val notl bo : K) (hlp : sd.lastPrice = cfg.par) (hval : val = sd.lastValue + sd.netFlows) :
    ∃ sd', stratWrite cfg d true sd val notl bo = .ok sd' ∧ sd'.price = 100 := by
  obtain ⟨sd', h1, h2⟩ := index_start cfg htol d sd val notl bo hlp hval
  exact ⟨sd', h1, by rw [h2, hpar]⟩

example : (0 : Rat) < LEx.cfg.tol ∧ LEx.cfg.par = 100 ∧ LEx.strat.lastPrice = LEx.cfg.par ∧
    (950 : Rat) = LEx.strat.lastValue + LEx.strat.netFlows := by
  norm_num [LEx.cfg, LEx.strat]

/-- The multiplicative return is homogeneous of degree 0: scaling value, `last_value` and `net_flows` by the
    same `k ≠ 0` writes the same index, provided both writes happen and both bases pass the `is_zero` guard
    (the guard is absolute, not relative, so this has to be assumed). -/
theorem scale_invariant_write (cfg : Cfg K) (htol : 0 < cfg.tol) (d : Nat) (newpt newpt' : Bool) (k : K) (hk : k ≠ 0)
    (sd sdk sd' sdk' : StratData K) (val notl bo notl' bo' : K)
    (hfi : sd.fixedIncome = false) (hfik : sdk.fixedIncome = false)
    (hlv : sdk.lastValue = k * sd.lastValue) (hnf : sdk.netFlows = k * sd.netFlows)
    (hlp : sdk.lastPrice = sd.lastPrice)
    (hch : stratChanged cfg newpt sd val notl = true)
    (hchk : stratChanged cfg newpt' sdk (k * val) notl' = true)
    (hb : isZero cfg.tol (sd.lastValue + sd.netFlows) = false)
    (hbk : isZero cfg.tol (sdk.lastValue + sdk.netFlows) = false)
    (h : stratWrite cfg d newpt sd val notl bo = .ok sd')
    (hk' : stratWrite cfg d newpt' sdk (k * val) notl' bo' = .ok sdk') :
    sdk'.price = sd'.price := by
  have hne := ne_zero_of_isZero_false htol hb
  rcases stratWrite_mv_price hfi hch h with ⟨_, hp⟩ | ⟨hz, _, _⟩
  · rcases stratWrite_mv_price hfik hchk hk' with ⟨_, hpk⟩ | ⟨hz, _, _⟩
    · rw [hp, hpk, hlv, hnf, hlp]
      have : k * val / (k * sd.lastValue + k * sd.netFlows) = val / (sd.lastValue + sd.netFlows) := by
        rw [← mul_add, mul_div_mul_left _ _ hk]
      rw [this]
    · rw [hbk] at hz; cases hz
  · rw [hb] at hz; cases hz

example : ∃ sd' sdk', 
    stratWrite LEx.cfg 2 true LEx.strat 1050 300 0 = .ok sd' ∧
    stratWrite LEx.cfg 2 true { LEx.strat with lastValue := 3 * 900, netFlows := 3 * 50 } (3 * 1050) 900 0 = .ok sdk' ∧
    isZero LEx.cfg.tol (LEx.strat.lastValue + LEx.strat.netFlows) = false ∧
    isZero LEx.cfg.tol (3 * 900 + 3 * 50 : Rat) = false := by
  norm_num [stratWrite, stratChanged, stratSetTotals, mvReturn, stratSetPrice, isZero, absA, LEx.cfg, LEx.strat,
    Except.map, pure, Except.pure]

/-- The recurrence across `update(d)` of a market-value strategy (any children, any depth below):
    * on a new date the base is captured from the closing state of the previous date
      (`last_value = value[t−1]`, `last_price = price[t−1]`, `net_flows = 0`), otherwise it is kept;
    * after the update, with a base that is not numerically zero, either
      `price · (last_value + net_flows) = last_price · value` (the index was recomputed — always the case on a
      new date), or the date is unchanged and neither value nor price was touched. -/
theorem update_index_recurrence (cfg : Cfg K) (htol : 0 < cfg.tol) (d : Nat) (sd : StratData K)
    (kids : List (Node K)) (n' : Node K) (hfi : sd.fixedIncome = false) (hpt : sd.paperTrade = false)
    (h : updNode cfg d (.strat sd kids) = .ok n') :
    ∃ sd' kids', n' = .strat sd' kids' ∧
      (∀ n, sd.now = some n → n ≠ d →
        sd'.lastValue = sd.value ∧ sd'.lastPrice = sd.price ∧ sd'.netFlows = 0) ∧
      (sd.now = some d ∨ sd.now = none →
        sd'.lastValue = sd.lastValue ∧ sd'.lastPrice = sd.lastPrice ∧ sd'.netFlows = sd.netFlows) ∧
      (isZero cfg.tol (sd'.lastValue + sd'.netFlows) = false →
        sd'.price * (sd'.lastValue + sd'.netFlows) = sd'.lastPrice * sd'.value ∨
        (sd.now = some d ∧ sd'.price = sd.price ∧ sd'.value = sd.value)) := by
  obtain ⟨kids1, acc, sd3, _, hw, rfl⟩ := updNode_strat_ok h
  obtain ⟨b1, b2, _, b4, b5, b6⟩ := stratWrite_base hw
  obtain ⟨r1, r2, _, r4, _, _⟩ := stratRows_base d sd3
  obtain ⟨ar1, ar2, ar3⟩ := stratDateChange_cases d sd
  have hpt1 : (stratDateChange d sd).1.paperTrade = sd.paperTrade ∧
      (stratDateChange d sd).1.fixedIncome = sd.fixedIncome ∧
      (stratDateChange d sd).1.value = sd.value ∧ (stratDateChange d sd).1.price = sd.price := by
    unfold stratDateChange
    cases sd.now with
    | none => exact ⟨rfl, rfl, rfl, rfl⟩
    | some n => dsimp only; split <;> exact ⟨rfl, rfl, rfl, rfl⟩
  have hpt3 : sd3.paperTrade = false := by rw [b6]; simp only; rw [hpt1.1, hpt]
  have hfi2 : ({ (stratDateChange d sd).1 with capital := (stratDateChange d sd).1.capital + acc.coupons } :
      StratData K).fixedIncome = false := by simp only; rw [hpt1.2.1, hfi]
  refine ⟨_, _, rfl, ?_, ?_, ?_⟩
  · intro n hn hnd
    rw [r1, r2, r4, b1, b2, b4]; simp only
    rw [ar1 n hn hnd]; exact ⟨rfl, rfl, rfl⟩
  · rintro (hn | hn)
    · rw [r1, r2, r4, b1, b2, b4]; simp only
      rw [ar2 hn]; exact ⟨rfl, rfl, rfl⟩
    · rw [r1, r2, r4, b1, b2, b4]; simp only
      rw [ar3 hn]; exact ⟨rfl, rfl, rfl⟩
  · intro hb
    rw [r1, r4, b1, b4] at hb
    rw [r1, r2, r4, b1, b2, b4, stratRows_price d sd3 hpt3, stratRows_value_L]
    by_cases hch : stratChanged cfg (stratDateChange d sd).2
        { (stratDateChange d sd).1 with capital := (stratDateChange d sd).1.capital + acc.coupons }
        (acc.val + acc.coupons) acc.notl = true
    · left
      rw [stratWrite_value hch hw]
      exact index_recurrence cfg htol d _ _ sd3 _ _ _ hfi2 hch hb hw
    · right
      have hch' : stratChanged cfg (stratDateChange d sd).2
          { (stratDateChange d sd).1 with capital := (stratDateChange d sd).1.capital + acc.coupons }
          (acc.val + acc.coupons) acc.notl = false := by simpa using hch
      have hnp : (stratDateChange d sd).2 = false := by
        unfold stratChanged at hch'
        simp only [Bool.or_eq_false_iff] at hch'
        exact hch'.1.1
      have hnow : sd.now = some d := by
        by_contra hne
        rw [stratDateChange_newpt_L d sd hne] at hnp; cases hnp
      rcases stratWrite_ok hw with ⟨_, rfl⟩ | ⟨hc, _⟩
      · exact ⟨hnow, hpt1.2.2.2, hpt1.2.2.1⟩
      · rw [hch'] at hc; cases hc

example : ∃ n', updNode LEx.cfg 2 (.strat LEx.strat [.sec LEx.sec]) = .ok n' := by
  norm_num [updNode, updKids, stratDateChange, sweepSec, secUpdate, secBaseUpdate, secEarly, secDateChange,
    secRecordPos, secMarkValue, secSetValue, secQuiet, secFlushOutlay, secRowBidoffer, accAdd, cell, eqA,
    stratWrite, stratChanged, stratSetTotals, mvReturn, stratSetPrice, stratRows, kidsWeights,
    isZero, absA, LEx.cfg, LEx.sec, LEx.strat, Except.bind, Except.map, bind, pure, Except.pure]

/-- The recurrence over a whole date, whatever the number and order of adjusts, allocations and trades inside
    it: `root0` is the root at the close of the earlier date (index `price[t−1] = sd.price`, value
    `value[t−1] = sd.value`), followed by the opening `update(d)`, any list of operations, and the closing
    `update(d)`.  The closing state has `last_value = value[t−1]`, `last_price = price[t−1]`, and — the base
    `value[t−1] + net_flows[t]` not being numerically zero —
    `price[t] · (value[t−1] + net_flows[t]) = price[t−1] · value[t]`,
    unless the closing update found value and notional unchanged (within `TOL`) since the opening update and
    wrote nothing, in which case price and value are still those of the opening update. -/
theorem index_recurrence_day (cfg : Cfg K) (htol : 0 < cfg.tol) (d n : Nat) (sd : StratData K)
    (kids : List (Node K)) (root1 root3 : Node K) (stale : Bool) (ops : List (DayOp K)) (w2 : World K)
    (hfi : sd.fixedIncome = false) (hpt : sd.paperTrade = false) (hn : sd.now = some n) (hnd : n ≠ d)
    (hopen : updNode cfg d (.strat sd kids) = .ok root1)
    (hops : runDayOps cfg { root := root1, stale := stale } ops = .ok w2)
    (hclose : updNode cfg d w2.root = .ok root3) :
    ∃ sd1 kids1 sd3 kids3, root1 = .strat sd1 kids1 ∧ root3 = .strat sd3 kids3 ∧
      sd3.lastValue = sd.value ∧ sd3.lastPrice = sd.price ∧
      (isZero cfg.tol (sd.value + sd3.netFlows) = false →
        sd3.price * (sd.value + sd3.netFlows) = sd.price * sd3.value ∨
        (sd3.price = sd1.price ∧ sd3.value = sd1.value)) := by
  obtain ⟨sd1, kids1, rfl, o1, _, _⟩ := update_index_recurrence cfg htol d sd kids root1 hfi hpt hopen
  obtain ⟨ov, op, _⟩ := o1 n hn hnd
  obtain ⟨snow, sfi, spt⟩ := updNode_strat_static hopen
  obtain ⟨sd2, kids2, hr2, i1, i2, _, i4, i5, i6, i7, i8, _⟩ :=
    runDayOps_root_idx cfg ops { root := .strat sd1 kids1, stale := stale } w2 sd1 kids1 rfl hops
  rw [hr2] at hclose
  have hfi2 : sd2.fixedIncome = false := by rw [i4, sfi, hfi]
  have hpt2 : sd2.paperTrade = false := by rw [i5, spt, hpt]
  have hnow2 : sd2.now = some d := by rw [i6, snow]
  obtain ⟨sd3, kids3, rfl, _, c2, c3⟩ := update_index_recurrence cfg htol d sd2 kids2 root3 hfi2 hpt2 hclose
  obtain ⟨cv, cp, _⟩ := c2 (Or.inl hnow2)
  have hlv : sd3.lastValue = sd.value := by rw [cv, i1, ov]
  have hlp : sd3.lastPrice = sd.price := by rw [cp, i2, op]
  refine ⟨sd1, kids1, sd3, kids3, rfl, rfl, hlv, hlp, ?_⟩
  intro hb
  rw [← hlv] at hb
  rcases c3 hb with hrec | ⟨_, hp, hv⟩
  · left; rw [← hlv, ← hlp]; exact hrec
  · right; exact ⟨by rw [hp, i8], by rw [hv, i7]⟩

example : ∃ root1 w2 root3, updNode LEx.cfg 2 (.strat LEx.strat [.sec LEx.sec]) = .ok root1 ∧
    runDayOps LEx.cfg { root := root1, stale := false } [.adjust [] 25 false true, .transact [0] 2 false none] = .ok w2 ∧
    updNode LEx.cfg 2 w2.root = .ok root3 := by
  norm_num [updNode, updKids, stratDateChange, sweepSec, accAdd, cell, stratWrite, stratChanged, stratSetTotals,
    mvReturn, stratSetPrice, stratRows, kidsWeights, childWeight, Node.skipped, Node.setWeight,
    Node.value, Node.notl, Node.bidofferPaid,
    runDayOps, DayOp.run, opAdjust, opTransact, World.modify, modAt, secTransact,
    secRefresh, secUpdate, secBaseUpdate, secEarly, secDateChange, secRecordPos, secMarkValue, secSetValue, secQuiet,
    secFlushOutlay, secRowBidoffer, eqA, secTransactCore, secOutlay, isZero,
    absA, StratData.adjust,
    LEx.cfg, LEx.sec, LEx.strat, LEx.comm, Except.bind, Except.map, bind, pure, Except.pure]

/-- The same for the root's own `update` (`updRoot`, which adds the bankruptcy step): unless the value has
    gone negative on a not yet bankrupt root (C16's territory), the root update *is* `updNode`, so
    `update_index_recurrence` / `index_recurrence_day` apply to it verbatim. -/
theorem root_update_recurrence (cfg : Cfg K) (htol : 0 < cfg.tol) (d : Nat) (w w' : World K) (sd : StratData K)
    (kids : List (Node K)) (hr : w.root = .strat sd kids) (hfi : sd.fixedIncome = false)
    (hpt : sd.paperTrade = false) (h : updRoot cfg d w = .ok w') :
    (updNode cfg d w.root = .ok w'.root ∧
      ∃ sd' kids', w'.root = .strat sd' kids' ∧
        (∀ n, sd.now = some n → n ≠ d →
          sd'.lastValue = sd.value ∧ sd'.lastPrice = sd.price ∧ sd'.netFlows = 0) ∧
        (isZero cfg.tol (sd'.lastValue + sd'.netFlows) = false →
          sd'.price * (sd'.lastValue + sd'.netFlows) = sd'.lastPrice * sd'.value ∨
          (sd.now = some d ∧ sd'.price = sd.price ∧ sd'.value = sd.value))) ∨
    (sd.bankrupt = false ∧ ∃ kids1 acc,
      updKids cfg d (stratDateChange d sd).2 (stratDateChange d sd).1.bidofferSet kids
        ⟨(stratDateChange d sd).1.capital, 0, 0, 0⟩ = .ok (kids1, acc) ∧ acc.val + acc.coupons < 0) := by
  rcases updRoot_cases hr h with ⟨hu, _⟩ | ⟨hb, _, hneg⟩
  · left
    refine ⟨hu, ?_⟩
    rw [hr] at hu
    obtain ⟨sd', kids', he, c1, _, c3⟩ := update_index_recurrence cfg htol d sd kids w'.root hfi hpt hu
    exact ⟨sd', kids', he, c1, c3⟩
  · right; exact ⟨hb, hneg⟩

example : ∃ w', updRoot LEx.cfg 2 { root := .strat LEx.strat [.sec LEx.sec], stale := true } = .ok w' := by
  norm_num [updRoot, updKids, stratDateChange, sweepSec, secUpdate, secBaseUpdate, secEarly, secDateChange,
    secRecordPos, secMarkValue, secSetValue, secQuiet, secFlushOutlay, secRowBidoffer, accAdd, cell, eqA,
    stratWrite, stratChanged, stratSetTotals, mvReturn, stratSetPrice, stratRows, kidsWeights,
    Node.value, Node.notl, Node.bidofferPaid,
    isZero, absA, LEx.cfg, LEx.sec, LEx.strat, Except.bind, Except.map, bind, pure, Except.pure]

end Bt.C03
