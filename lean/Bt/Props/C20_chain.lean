import Bt.Proofs.RiskEx
/-! C20, roll chains — a security that matures in the same call as the securities that roll into it.
    `RollPositionsAfterDates` reads every matured position *before* any roll trade of the call is booked (the trades are
    collected per target and executed after the loop), so in a chain A → X → Y maturing together, X's own position moves
    on to Y and X ends up holding exactly what its sources rolled in, whatever the order of the children. -/
set_option linter.unusedSectionVars false
set_option linter.unusedSimpArgs false
set_option linter.unusedVariables false
namespace Bt.C20
open Bt Bt.Risk Bt.Risk.Ex

variable {K : Type} [Field K] [LinearOrder K] [IsStrictOrderedRing K]

/-- **Chains: every matured position moves once, as it stood before the call.**  A `Closable` source holds, after the
    call, exactly the transaction booked into it (`txQ`): nothing when no other source rolls into it, and otherwise the
    aggregated `factor × position` of its sources *as they stood before the call* (`rollCredit` is computed on `kids`,
    the children before the call) - never its own former position, and never a quantity that was rolled in and then
    converted a second time. -/
theorem roll_chain (env : Env K) (htol : 0 < env.tol) (fi : Bool) (roll : Dict (RollRow K)) (hfin : FiniteFactors roll)
    (now : Nat) (kids kids' : List (Risk.Node K)) (perm perm' : Perm) (txs : Dict (Option K))
    (h : rollPositionsAfterDates env fi roll now kids perm = .ok (kids', perm', txs))
    (name : Nat) (sec : SecD K) (hk : kidSec kids name = some sec) (hc : rollCand roll now perm.rolledL name = true)
    (hcl : Closable env.tol fi sec) :
    posOf kids' name = txQ env.tol txs name ∧
    (rollHits roll now perm.rolledL kids name = true →
      dget txs name = some (some (rollCredit roll now perm.rolledL kids name))) ∧
    (rollHits roll now perm.rolledL kids name = false → posOf kids' name = 0) := by
  obtain ⟨ks1, accR, hrp, hat, hrr, hrc⟩ := roll_inv h
  simp only at hrp hat hrr hrc
  obtain ⟨r1, _, r3, _, r5, r6, r7, r8⟩ := rollPass_spec htol _ _ _ _ _ _ hrp
  obtain ⟨a1, _⟩ := applyTxs_spec env now txs ks1 kids' (r8 (by simp)) hat
  have hpos : posOf kids' name = txQ env.tol txs name := by
    rw [a1 name, r5 name sec hk hc hcl]; simp
  refine ⟨hpos, ?_, ?_⟩
  · intro hh
    rw [r7 hfin name hh]; simp [accumTx]
  · intro hnh
    rw [hpos]
    have : dget txs name = none := by rw [r6 name hnh]; rfl
    simp [txQ, this]

/-- a chain maturing in one call, the feeder listed *before* the intermediate name: 2 (20 units, x2) rolls into 3, and 3 (8 units,
    x1/2) rolls into 4.  Afterwards 2 is flat, 3 holds the 40 rolled in (its own 8 have moved on), 4 holds 4 - not 24, which is
    what booking each trade inside the loop would give ((8 + 40) / 2). -/
def chainTab : Dict (RollRow ℚ) :=
  [(2, { date := some 2, target := 3, factor := some 2 }), (3, { date := some 2, target := 4, factor := some (1 / 2) })]

example : (rollPositionsAfterDates envQ true chainTab 2 lifeKids perm0).toOption.map
      (fun r => (kidPositions r.1, r.2.1, r.2.2)) =
    some ([(1, 50), (2, 0), (3, 40), (4, 4)], { closed := none, rolled := some [2, 3] }, [(3, some 40), (4, some 4)]) ∧
    rollCand chainTab 2 [] 3 = true ∧ rollHits chainTab 2 [] lifeKids 3 = true ∧
    rollCredit chainTab 2 [] lifeKids 3 = 2 * 20 := by decide +kernel

end Bt.C20
