import Bt.Props.C08
import Bt.Proofs.Reads
/-! C08, reads — **when a getter read IS an explicit update, and the one state in which it is not.**

    C08 proves `read_fresh`: the refreshing getters of a strategy are `if root.stale: root.update(root.now)`.
    The getters of a SECURITY do something else first: `if self._needupdate or self.now != self.parent.now:
    self.update(self.root.now)` — the security catches itself up alone — and only the series getters
    (`values`, `positions`, `outlays`, …) then refresh a stale root (`opRead … .secSeries`).  This file
    (property theorems only; helpers in `Bt.Proofs.Reads`)

    * exhibits, on the model over `ℚ` and on a world reached through the public operations, the known finding
      `C08/read-is-not-an-update:just-closed-security-series-getter` (`corpus/C08_closed_security_getter.json`):
      `read_series_of_just_closed_security_differs`;
    * proves the positive statement next to it: in every other state of the security read — not flagged and on its
      parent's date — the series read is exactly the explicit refresh (`read_series_eq_refresh`), the strategy
      getters are so unconditionally (`read_strategy_eq_refresh`), the plain getters touch nothing
      (`read_plain_noop`), and on a tree with nothing pending no getter touches anything (`read_fresh_noop`);
    * explains why the second finding, `C08/update-not-idempotent:low-bits-after-carry-sweep`
      (`corpus/C08_carry_association.json`), cannot be seen in exact arithmetic (`value_sum_assoc`) and shows it
      on IEEE doubles with the numbers of the witness — the bare sums (`float_sum_order_witness`) and the model
      itself evaluated at `Float` (`update_not_idempotent_on_doubles`). -/
set_option linter.unusedSectionVars false
namespace Bt.C08
open Bt Bt.P08R

variable {K : Type} [Field K] [LinearOrder K] [IsStrictOrderedRing K] [HasFloor K]

/-! ### (1) the finding on the model: reading a series of a security that was just closed -/

/-- a fixed-income security class `kind`, flat and freshly set up, two dates of prices and bid/offer spreads -/
def mkSecQ (nm : String) (kind : SecKind) (px bo : List (Option Rat)) : SecData Rat :=
  { name := nm, kind := kind, fixedIncome := true, integer := false, bidofferSet := true, mult := 1,
    now := none, price := none, value := 0, notl := 0, weight := 0, position := 0, lastPos := 0,
    outlayAcc := 0, bidoffer := none, bidofferPaid := 0, capital := 0, coupon := 0, holdingCost := 0,
    needupdate := true, prices := px, bidoffers := bo, coupons := [], costLong := none, costShort := none,
    rValue := [0, 0], rPosition := [0, 0], rNotl := [0, 0], rOutlay := [0, 0], rBidofferPaid := [0, 0],
    rCoupon := [0, 0], rHolding := [0, 0] }

/-- a freshly set-up fixed-income root with bid/offer accounting on -/
def rootQ : StratData Rat :=
  { name := "root", fixedIncome := true, bidofferSet := true, paperTrade := false, paperPx := 100,
    comm := fun _ _ => 0, now := none, capital := 0, price := 100, value := 0, notl := 0, weight := 0,
    netFlows := 0, lastValue := 0, lastNotl := 0, lastPrice := 100, lastFee := 0, bidofferPaid := 0,
    bankrupt := false, rPrice := [100, 100], rValue := [0, 0], rNotl := [0, 0], rCash := [0, 0],
    rFees := [0, 0], rFlows := [0, 0], rBidofferPaid := [0, 0] }

/-- root ─ e (hedge class: notional 0, hence weight 0 while held; spread 2), b (fixed-income class; spread 1) -/
def setupWorld : World Rat :=
  ⟨.strat rootQ [ .sec (mkSecQ "e" .hedge [some 10, some 12] [some 2, some 2]),
                  .sec (mkSecQ "b" .fi [some 100, some 101] [some 1, some 1]) ], false⟩

/-- the run that leads to the state of the finding, through the public operations only:
    date 0 — fund the root, buy 10 `b` and 5 `e`; date 1 — buy 2 more `b` (spread paid 1), refresh, then
    `root.close("e")` with `update=True`: `e` is sold (spread paid 5) and the tree is left stale. -/
def closedRun : Except Err (World Rat) := do
  let w ← opAdjust setupWorld [] 1000 true true
  let w ← updRoot cfgQ 0 w
  let w ← opTransact cfgQ w [1] 10 true none
  let w ← opTransact cfgQ w [0] 5 true none
  let w ← updRoot cfgQ 0 w
  let w ← updRoot cfgQ 1 w
  let w ← opTransact cfgQ w [1] 2 true none
  let w ← refresh cfgQ w
  opClose cfgQ w [] 0 true

/-- the world `closedRun` ends in -/
def closedWorld : World Rat :=
  match closedRun with
  | .ok w => w
  | .error _ => setupWorld

/-- position, `_needupdate`, weight, bid/offer paid and clock of the security at a path -/
def secState (w : World Rat) (path : List Nat) : Option (Rat × Bool × Rat × Rat × Option Nat) :=
  match w.root.get? path with
  | some (.sec s) => some (s.position, s.needupdate, s.weight, s.bidofferPaid, s.now)
  | _ => none

/-- the root's bid/offer paid of the current date and its recorded series -/
def rootBidoffer (w : World Rat) : Rat × List Rat :=
  match w.root with
  | .strat sd _ => (sd.bidofferPaid, sd.rBidofferPaid)
  | .sec _ => (0, [])

theorem closedRun_ok : closedRun = .ok closedWorld := by
  have h0 : closedRun.toOption.isSome = true := by decide +kernel
  unfold closedWorld
  cases h : closedRun with
  | error e => rw [h] at h0; cases h0
  | ok w => rfl

/-- **The known finding `C08/read-is-not-an-update:just-closed-security-series-getter`, on the model.**
    `closedWorld` is reached by public operations; its tree is stale (`close(…, update=True)`), the closed
    security `e` is flat, still flagged, of weight 0, and has booked the closing trade's spread 5 on the current
    date 1.  Reading a series getter of `e` (`e.positions`, `e.values`, `e.outlays`, …) and the explicit
    `root.update(root.now)` (equivalently the refresh, or a read through the root) both succeed and leave
    DIFFERENT worlds: after the explicit update the root's bid/offer paid of the date is 6 = 1 (`b`) + 5 (`e`),
    after the read it is 1 — smaller by exactly the closed security's spread — in the scalar and in the recorded
    row alike.  (The read first runs `e.update` alone, `e` being flat with weight 0 goes idle, and the root
    update that follows skips it.) -/
theorem read_series_of_just_closed_security_differs :
    closedRun = .ok closedWorld ∧ closedWorld.stale = true ∧ closedWorld.root.now = some 1 ∧
    secState closedWorld [0] = some (0, true, 0, 5, some 1) ∧
    ∃ wR wU : World Rat,
      opRead cfgQ closedWorld [0] .secSeries = .ok wR ∧
      updRoot cfgQ 1 closedWorld = .ok wU ∧ refresh cfgQ closedWorld = .ok wU ∧
      opRead cfgQ closedWorld [] .stratRefreshing = .ok wU ∧
      wR ≠ wU ∧ opRead cfgQ closedWorld [0] .secSeries ≠ refresh cfgQ closedWorld ∧
      rootBidoffer wR = (1, [10, 1]) ∧ rootBidoffer wU = (6, [10, 6]) ∧
      (rootBidoffer wU).1 - (rootBidoffer wR).1 = 5 := by
  have hst : closedWorld.stale = true := by decide +kernel
  have hnow : closedWorld.root.now = some 1 := by decide +kernel
  have hR : (opRead cfgQ closedWorld [0] .secSeries).toOption.map rootBidoffer = some (1, [10, 1]) := by
    decide +kernel
  have hU : (updRoot cfgQ 1 closedWorld).toOption.map rootBidoffer = some (6, [10, 6]) := by
    decide +kernel
  refine ⟨closedRun_ok, hst, hnow, by decide +kernel, ?_⟩
  cases hr : opRead cfgQ closedWorld [0] .secSeries with
  | error e => rw [hr] at hR; cases hR
  | ok wR =>
    cases hu : updRoot cfgQ 1 closedWorld with
    | error e => rw [hu] at hU; cases hU
    | ok wU =>
      rw [hr] at hR; rw [hu] at hU
      simp only [Except.toOption, Option.map_some, Option.some.injEq] at hR hU
      have hf : refresh cfgQ closedWorld = .ok wU := by rw [P08.refresh_of_stale hst hnow]; exact hu
      have hne : wR ≠ wU := by
        intro h; rw [h, hU] at hR; exact absurd hR (by decide +kernel)
      refine ⟨wR, wU, rfl, rfl, hf, hf, hne, ?_, hR, hU, ?_⟩
      · rw [hf]; intro h; exact hne (Except.ok.inj h)
      · rw [hR, hU]; decide +kernel

/-! ### (2) the positive theorems: the read is an explicit update in every other state -/

/-- **`read_series_eq_refresh`.**  For every world, every path to a security `s` (under the strategy `p`):
    if `s` is not flagged and stands on its parent's date — the test `self._needupdate or self.now !=
    self.parent.now` of its getters fails, so the security does not update itself alone — then reading any series
    getter of `s` is exactly `if root.stale: root.update(root.now)`: with pending changes it leaves what the
    explicit update leaves. -/
theorem read_series_eq_refresh (cfg : Cfg K) (w : World K) (path : List Nat) (p : StratData K) (s : SecData K)
    (hpath : getP? none w.root path = some (some p, .sec s))
    (hflag : s.needupdate = false) (hdate : s.now = p.now) :
    opRead cfg w path .secSeries = refresh cfg w := by
  rw [opRead_secSeries, localRead_settled hpath hflag hdate]; rfl

/-- … in particular with pending changes on date `d` it is `root.update(d)` -/
theorem read_series_eq_update (cfg : Cfg K) (w : World K) (path : List Nat) (p : StratData K) (s : SecData K) (d : Nat)
    (hpath : getP? none w.root path = some (some p, .sec s))
    (hflag : s.needupdate = false) (hdate : s.now = p.now) (hs : w.stale = true) (hn : w.root.now = some d) :
    opRead cfg w path .secSeries = updRoot cfg d w := by
  rw [read_series_eq_refresh cfg w path p s hpath hflag hdate, P08.refresh_of_stale hs hn]

/-- `getP?` (`Bt.Proofs.Reads`) is path lookup that also returns the parent strategy's data -/
example (w : World K) (path : List Nat) (p : StratData K) (s : SecData K)
    (h : getP? none w.root path = some (some p, .sec s)) : w.root.get? path = some (.sec s) :=
  getP?_get? path none w.root _ h

/-- a stale world in which the closed security has been caught up by a whole-tree update: after the explicit
    update of `closedWorld`, one more `b` is bought (`update=True`).  (There the read and the explicit update agree —
    the statement of the theorem — on 3/2, the spread of `b` alone: the idle `e` is skipped by the explicit update
    as well, which is the idle-security shortcut named as the cause in the finding.) -/
def settledRun : Except Err (World Rat) := do
  let w ← updRoot cfgQ 1 closedWorld
  opTransact cfgQ w [1] 1 true none

def settledWorld : World Rat :=
  match settledRun with
  | .ok w => w
  | .error _ => setupWorld

/-- `closedWorld` after the explicit update: nothing pending -/
def updatedWorld : World Rat :=
  match updRoot cfgQ 1 closedWorld with
  | .ok w => w
  | .error _ => setupWorld

example : settledRun = .ok settledWorld ∧ settledWorld.stale = true ∧
    secState settledWorld [0] = some (0, false, 0, 5, some 1) ∧
    opRead cfgQ settledWorld [0] .secSeries = refresh cfgQ settledWorld ∧
    opRead cfgQ settledWorld [0] .secSeries = updRoot cfgQ 1 settledWorld ∧
    ((opRead cfgQ settledWorld [0] .secSeries).toOption.map rootBidoffer) = some (3/2, [10, 3/2]) := by
  have h0 : settledRun.toOption.isSome = true := by decide +kernel
  have hrun : settledRun = .ok settledWorld := by
    unfold settledWorld
    cases h : settledRun with
    | error e => rw [h] at h0; cases h0
    | ok w => rfl
  obtain ⟨p, s, hg, hf, hd⟩ := secSettled_spec (w := settledWorld) (path := [0]) (by decide +kernel)
  exact ⟨hrun, by decide +kernel, by decide +kernel, read_series_eq_refresh cfgQ _ _ p s hg hf hd,
    read_series_eq_update cfgQ _ _ p s 1 hg hf hd (by decide +kernel) (by decide +kernel), by decide +kernel⟩

/-- on `closedWorld` itself the hypothesis fails (the security is flagged), and so does the conclusion -/
example : secSettled closedWorld [0] = false := by decide +kernel

/-- **`read_strategy_eq_refresh`.**  The refreshing getters of a strategy (`value`, `weight`, `price`, `prices`,
    `values`, …), read on any node of any world, are exactly the explicit refresh — unconditionally. -/
theorem read_strategy_eq_refresh (cfg : Cfg K) (w : World K) (path : List Nat) :
    opRead cfg w path .stratRefreshing = refresh cfg w := rfl

example : ∃ wU, opRead cfgQ closedWorld [] .stratRefreshing = .ok wU ∧ updRoot cfgQ 1 closedWorld = .ok wU ∧
    (rootBidoffer wU).1 = 6 := by
  obtain ⟨_, _, _, _, wR, wU, _, hu, _, hp, _, _, _, hU, _⟩ := read_series_of_just_closed_security_differs
  exact ⟨wU, hp, hu, by rw [hU]⟩

/-- **`read_plain_noop`.**  The getters without a stale check (`capital`, `cash`, `position`) leave the world as
    it is — pending changes stay pending. -/
theorem read_plain_noop (cfg : Cfg K) (w : World K) (path : List Nat) :
    opRead cfg w path .plain = .ok w := rfl

example : opRead cfgQ closedWorld [0] .plain = .ok closedWorld ∧ closedWorld.stale = true :=
  ⟨read_plain_noop _ _ _, by decide +kernel⟩

/-- **`read_fresh_noop`.**  On a tree with nothing pending (`stale = false`), every getter whose security needs no
    local refresh leaves the world unchanged (`ReadSettled`, `Bt.Proofs.Reads`: no condition for the strategy-level
    and plain getters; for the getters of a security, that security is not flagged and stands on its parent's date;
    for `positions` / `outlays` of a strategy, every security below it is). -/
theorem read_fresh_noop (cfg : Cfg K) (w : World K) (path : List Nat) (g : Getter)
    (hs : w.stale = false) (hq : ReadSettled w path g) : opRead cfg w path g = .ok w :=
  opRead_settled hs hq

/-- `ReadSettled`, getter by getter -/
example (w : World K) (path : List Nat) :
    (ReadSettled w path .plain ↔ True) ∧ (ReadSettled w path .stratRefreshing ↔ True) ∧
    (ReadSettled w path .secSeries ↔
      ∃ p s, getP? none w.root path = some (some p, .sec s) ∧ s.needupdate = false ∧ s.now = p.now) ∧
    (ReadSettled w path .secLocal ↔ ReadSettled w path .secSeries) ∧
    (ReadSettled w path .stratMembers ↔
      ∃ d par n, w.root.now = some d ∧ getP? none w.root path = some (par, n) ∧ Settled (par.bind (·.now)) n) :=
  ⟨Iff.rfl, Iff.rfl, Iff.rfl, Iff.rfl, Iff.rfl⟩

/-- after the explicit update of `closedWorld` every getter of the closed security — and every strategy-level
    getter — is the identity -/
example : updRoot cfgQ 1 closedWorld = .ok updatedWorld ∧ updatedWorld.stale = false ∧
    ∀ g : Getter, opRead cfgQ updatedWorld [0] g = .ok updatedWorld := by
  have h0 : (updRoot cfgQ 1 closedWorld).toOption.isSome = true := by decide +kernel
  have hrun : updRoot cfgQ 1 closedWorld = .ok updatedWorld := by
    unfold updatedWorld
    cases h : updRoot cfgQ 1 closedWorld with
    | error e => rw [h] at h0; cases h0
    | ok w => rfl
  have hs : updatedWorld.stale = false := P08.updRoot_stale hrun
  obtain ⟨p, s, hg, hf, hd⟩ := secSettled_spec (w := updatedWorld) (path := [0]) (by decide +kernel)
  have hnow : updatedWorld.root.now = some 1 := by decide +kernel
  refine ⟨hrun, hs, fun g => read_fresh_noop cfgQ _ _ g hs ?_⟩
  cases g with
  | plain => trivial
  | stratRefreshing => trivial
  | secLocal => exact ⟨p, s, hg, hf, hd⟩
  | secSeries => exact ⟨p, s, hg, hf, hd⟩
  | stratMembers =>
    refine ⟨1, some p, .sec s, hnow, hg, ?_⟩
    rw [Settled]; exact ⟨hf, hd⟩

/-! ### (3) why the second finding is invisible in exact arithmetic -/

/-- **`value_sum_assoc`.**  The two summation orders `StrategyBase.update` uses for a strategy's value: on the
    FIRST update of a date the carry swept from the coupon-paying securities is added after cash and children have
    been summed, `(cash + Σ children) + carry` (`val = capital; val += c.value …; val += coupons`); a REPEATED
    update of the same date finds the carry already in the cash and sums `(cash + carry) + Σ children`.  Over a
    field the two are equal.

    This is why the model's `updNode_idem` / `updRoot_idem` (which follow the order of the code and hold in every
    linearly ordered field under `NoDust`) and the real engine part ways exactly here: IEEE addition is not
    associative, so on doubles the second update recomputes a value that differs in the last bits, and the write
    gate `not is_zero(value - val)` (absolute `TOL = 1e-16`) lets it through — the known finding
    `C08/update-not-idempotent:low-bits-after-carry-sweep`, witness `corpus/C08_carry_association.json`
    (6.5e-13 on -163.74; see `float_sum_order_witness`).  The bit-for-bit correspondence is unaffected: the model
    evaluated at `Float` follows the same order as the code and reproduces both values. -/
theorem value_sum_assoc (cash children carry : K) :
    (cash + children) + carry = (cash + carry) + children :=
  add_right_comm cash children carry

/-- … with the children summed one by one, as the loop does (`acc.val` starts from the cash) -/
theorem value_sum_assoc_fold (cash carry : K) (children : List K) :
    children.foldl (· + ·) cash + carry = children.foldl (· + ·) (cash + carry) := by
  induction children generalizing cash with
  | nil => rfl
  | cons c cs ih => simp only [List.foldl_cons]; rw [ih, add_right_comm]

example : ((-13550 : Rat) + 13376) + 10 = (-13550 + 10) + 13376 := value_sum_assoc _ _ _

/-- **`float_sum_order_witness`.**  The same two orders on IEEE doubles (Lean's `Float`, evaluated by the kernel),
    with the numbers of `corpus/C08_carry_association.json` on date #1 — the sub-strategy's cash after buying 49
    bonds, their value, and the swept carry `49 × coupon`: the first update records
    `(cash + children) + carry`, the second `(cash + carry) + children`, and they differ (by 6.5e-13, far above
    the absolute write gate 1e-16), while `value_sum_assoc` makes them equal in any field. -/
theorem float_sum_order_witness :
    let cash : Float := -13550.33241250834
    let children : Float := 13376.11373664553
    let carry : Float := 10.477402010262008
    ((cash + children) + carry != (cash + carry) + children) = true ∧
    (1e-16 < Float.abs (((cash + children) + carry) - ((cash + carry) + children))) := by
  decide +kernel

/-! The model itself is written against the notation classes only, so it also runs at `Float`; there, following the
    order of the code, it reproduces the finding. -/

def cfgF : Cfg Float := { tol := 1e-16, par := 100, atol := 1e-8, half := 0.5, one := 1, iterCap := 10000 }

/-- the coupon-paying security `b` of `corpus/C08_carry_association.json` (dates #0, #1) -/
def bondF : SecData Float :=
  { name := "b", kind := .coupon, fixedIncome := true, integer := false, bidofferSet := true, mult := 1,
    now := none, price := none, value := 0, notl := 0, weight := 0, position := 0, lastPos := 0,
    outlayAcc := 0, bidoffer := none, bidofferPaid := 0, capital := 0, coupon := 0, holdingCost := 0,
    needupdate := true, prices := [some 276.4848725703296, some 272.9819129927659],
    bidoffers := [some 0.10504720661995981, some 0.10504720661995981],
    coupons := [some 0.21382453082167363, some 0.21382453082167363], costLong := none, costShort := none,
    rValue := [0, 0], rPosition := [0, 0], rNotl := [0, 0], rOutlay := [0, 0], rBidofferPaid := [0, 0],
    rCoupon := [0, 0], rHolding := [0, 0] }

/-- the fixed-income strategy `s01` holding it (taken as the root here) -/
def subF : StratData Float :=
  { name := "s01", fixedIncome := true, bidofferSet := true, paperTrade := false, paperPx := 100,
    comm := fun _ _ => 0, now := none, capital := 0, price := 100, value := 0, notl := 0, weight := 0,
    netFlows := 0, lastValue := 0, lastNotl := 0, lastPrice := 100, lastFee := 0, bidofferPaid := 0,
    bankrupt := false, rPrice := [100, 100], rValue := [0, 0], rNotl := [0, 0], rCash := [0, 0],
    rFees := [0, 0], rFlows := [0, 0], rBidofferPaid := [0, 0] }

/-- date #0: update, buy 49 bonds (`update=False`), update — the coupon of the date is parked on the security -/
def carryStart : Except Err (World Float) := do
  let w ← updRoot cfgF 0 ⟨.strat subF [.sec bondF], false⟩
  let w ← opTransact cfgF w [0] 49 false none
  updRoot cfgF 0 w

/-- **`update_not_idempotent_on_doubles`.**  The known finding
    `C08/update-not-idempotent:low-bits-after-carry-sweep` on the model evaluated at IEEE doubles (kernel
    reduction of `Float`): after the run of the witness, `update(date #1)` sweeps the carry and records the value
    -163.7412738525484; a second `update(date #1)` records -163.74127385254906 — the recorded value moves, by more
    than `TOL`, although the position (49) is no dust.  Over any linearly ordered field the same model satisfies
    `updRoot_idem` (by `value_sum_assoc`, among others). -/
theorem update_not_idempotent_on_doubles :
    ∃ w w1 w2 : World Float, carryStart = .ok w ∧ updRoot cfgF 1 w = .ok w1 ∧ updRoot cfgF 1 w1 = .ok w2 ∧
      (w1.root.value == -163.7412738525484) = true ∧ (w2.root.value == -163.74127385254906) = true ∧
      (w1.root.value != w2.root.value) = true ∧ cfgF.tol < Float.abs (w1.root.value - w2.root.value) := by
  have h : (carryStart.bind fun w => (updRoot cfgF 1 w).bind fun w1 => (updRoot cfgF 1 w1).map fun w2 =>
      (w1.root.value == -163.7412738525484 && w2.root.value == -163.74127385254906 &&
        w1.root.value != w2.root.value && decide (cfgF.tol < Float.abs (w1.root.value - w2.root.value)))).toOption =
      some true := by decide +kernel
  cases h0 : carryStart with
  | error e => rw [h0] at h; cases h
  | ok w =>
    rw [h0] at h
    cases h1 : updRoot cfgF 1 w with
    | error e => simp [Except.bind, h1, Except.toOption] at h
    | ok w1 =>
      cases h2 : updRoot cfgF 1 w1 with
      | error e => simp [Except.bind, Except.map, h1, h2, Except.toOption] at h
      | ok w2 =>
        simp only [Except.bind, Except.map, h1, h2, Except.toOption, Option.some.injEq,
          Bool.and_eq_true, decide_eq_true_eq] at h
        exact ⟨w, w1, w2, rfl, h1, h2, h.1.1.1, h.1.1.2, h.1.2, h.2⟩

end Bt.C08
