import Bt.Proofs.ProgramX
import Bt.Props.C04_progx
import Bt.Props.C16_progx
/-! Fixed-income programs (`ProgFI`: `[RunPeriod, WeighSpecified, SetNotional(series), Rebalance]` of a FixedIncomeStrategy) as node
    functions of the generic program trees: they are public, causal (the notional series is indexed by the row and is not engine
    data: truncating the engine's data columns does not touch it), and the identity when the gate is closed — so every generic
    whole-backtest theorem (`gtree_backtest_causal`, `gtree_flag_iff`, `simG_paper_eq_standalone_nested`, …) applies to trees that
    contain fixed-income programs.  The model `progRunFI` is what the `whole-run-fi` protocol executes against real
    FixedIncomeStrategy backtests. -/
set_option linter.unusedSectionVars false
namespace Bt.C17
open Bt Bt.P08 Bt.P04 Bt.Prog Bt.PProg Bt.PProgX Bt.Select

variable {K : Type} [Field K] [LinearOrder K] [IsStrictOrderedRing K] [HasFloor K] [Select.HasNatFloor K]
variable {cfg : Cfg K}

/-- every effect of a fixed-income stack goes through the public API, on any world whose clocks lie in `C` -/
theorem progRunFI_runC {C : Nat → Prop} {p : ProgFI K} {path : List Nat} {d : Nat} {w w' : World K}
    (hw : WOK C w) (h : progRunFI cfg p path d w = .ok w') : RunC cfg C w w' := by
  unfold progRunFI at h
  split at h
  · split at h
    · cases h; exact .nil _
    · exact algoRebalance_runC hw h
  · cases h; exact .nil _

theorem progRunFI_runCAll (p : ProgFI K) (path : List Nat) : RunCAll cfg (progRunFI cfg p path) :=
  fun _ _ _ _ hw h => progRunFI_runC hw h

/-- public in the sense of C04 (explicit updates at the date of the call only) and of C16 (unconditionally) -/
theorem progRunFI_public (p : ProgFI K) (path : List Nat) : P04.RunPublic cfg (progRunFI cfg p path) :=
  (progRunFI_runCAll p path).public04

theorem progRunFI_public16 (p : ProgFI K) (path : List Nat) : P16.RunPublic cfg (progRunFI cfg p path) :=
  (progRunFI_runCAll p path).public16

/-- truncating the engine data after `t` commutes with the stack at every date `d ≤ t` -/
theorem progRunFI_trunc (p : ProgFI K) (path : List Nat) {d t : Nat} (hd : d ≤ t) {w : World K} (hw : ClockLE t w) :
    progRunFI cfg p path d (w.trunc t) = (progRunFI cfg p path d w).map (World.trunc t) := by
  unfold progRunFI
  cases hg : p.gate.getD d false with
  | false => rfl
  | true =>
    simp only [↓reduceIte]
    cases hn : p.notional.getD d none with
    | none => rfl
    | some nv => exact algoRebalance_trunc hw path _ none (some nv)

theorem progRunFI_causalStrong (p : ProgFI K) (path : List Nat) (t : Nat) : CausalStrong t (progRunFI cfg p path) :=
  fun _ hd _ hw => progRunFI_trunc p path hd hw

/-- no look-ahead: a fixed-income stack is causal for every `t` -/
theorem progRunFI_causal (p : ProgFI K) (path : List Nat) (t : Nat) : Causal t (progRunFI cfg p path) :=
  (progRunFI_causalStrong p path t).causal

/-- a closed gate (the calendar schedulers on the synthetic row) makes the stack the identity -/
theorem progRunFI_gate_closed (p : ProgFI K) (path : List Nat) (d : Nat) (w : World K)
    (h : p.gate.getD d false = false) : progRunFI cfg p path d w = .ok w := by
  unfold progRunFI
  rw [h]; rfl

/-- … and so does a date that is not in the notional series' index (`SetNotional` returns False: the stack stops) -/
theorem progRunFI_no_notional (p : ProgFI K) (path : List Nat) (d : Nat) (w : World K)
    (h : p.notional.getD d none = none) : progRunFI cfg p path d w = .ok w := by
  unfold progRunFI
  split
  · rw [h]; rfl
  · rfl

/-- non-vacuity: a concrete fixed-income stack with its gate closed on the synthetic row -/
def fiE : ProgFI Rat := { gate := [false, true], ws := [(0, 1/2)], notional := [none, some 1000] }

example (cfg : Cfg Rat) (w : World Rat) : progRunFI cfg fiE [] 0 w = .ok w :=
  progRunFI_gate_closed (cfg := cfg) fiE [] 0 w (by decide)
example (cfg : Cfg Rat) (t : Nat) : Causal t (progRunFI cfg fiE []) ∧ P04.RunPublic cfg (progRunFI cfg fiE []) :=
  ⟨progRunFI_causal fiE [] t, progRunFI_public fiE []⟩

end Bt.C17
