import Bt.Proofs.Select
import Mathlib.Algebra.Order.Field.Basic
import Mathlib.Data.Rat.Floor
import Mathlib.Tactic.NormNum
/-!
C14 — selection algos select exactly the documented, tradable set (property theorems only; helper
lemmas live in `Bt.Proofs.Select`).

Each selector of `Bt.Algos.Select` (the model of bt/algos.py that the `select` correspondence ties to
the real code) gets a specification theorem for all tables, dates, parameters and prior selections.
The theorems of the first sections need nothing about the number type but `<` and `0`, so they hold
for IEEE doubles as well; the ranking theorems need a linear order.

Genuine departures of the code from the property are kept as `witness_*` theorems at the end.
-/
namespace Bt.C14
open Bt.Select
set_option linter.unusedSectionVars false

section Flagged
variable {ι α : Type} [DecidableEq ι] [LT α] [DecidableLT α] [OfNat α 0]

/-! ### SelectAll / SelectThese -/

/-- SelectAll: with `include_no_data` all columns (nothing is filtered — see `witness_…`), otherwise exactly
    the columns whose cell on the current row is present and (`include_negative` or) positive. -/
theorem selectAll_spec {t : Table ι α} {now : Nat} {nd neg : Bool} {out : List ι}
    (h : selectAll t now nd neg = .ok out) :
    (nd = true ∧ out = t.cols) ∨
    (nd = false ∧ ∃ row, t.rows[now]? = some row ∧ out = t.cols.filter (tradableAt t.cols row neg)) := by
  rcases filterNow_ok h with h1 | ⟨h1, row, hr, _, ho⟩
  · exact Or.inl h1
  · exact Or.inr ⟨h1, row, hr, ho⟩

example : selectAll (⟨[1, 2, 3, 4], [[some 5, none, some 0, some (-2)], [none, none, none, none]]⟩ : Table Nat Int)
    0 false false = .ok [1] := by decide

/-- default flags: membership in SelectAll's result is "column with a present, positive current price" -/
theorem selectAll_mem {t : Table ι α} {now : Nat} {row : List (Option α)} {out : List ι}
    (hr : t.rows[now]? = some row) (h : selectAll t now false false = .ok out) (k : ι) :
    k ∈ out ↔ k ∈ t.cols ∧ ∃ p, lookup t.cols row k = some (some p) ∧ 0 < p := by
  rcases selectAll_spec h with ⟨h1, _⟩ | ⟨_, row', hr', ho⟩
  · cases h1
  · rw [hr] at hr'; cases hr'
    subst ho
    simp [List.mem_filter, tradableAt_iff]

example : (2 : Nat) ∈ [2] ↔ 2 ∈ [1, 2] ∧ ∃ p : Int, lookup [1, 2] [none, some 7] 2 = some (some p) ∧ 0 < p :=
  selectAll_mem (t := ⟨[1, 2], [[none, some 7]]⟩) (now := 0) rfl (by decide) 2

/-- SelectAll never raises on an existing date -/
theorem selectAll_total {t : Table ι α} {now : Nat} {row : List (Option α)} (nd neg : Bool)
    (hr : t.rows[now]? = some row) : ∃ out, selectAll t now nd neg = .ok out :=
  filterNow_total nd neg t.cols hr (fun _ hk => hk)

example : ∃ out, selectAll (⟨[1], [[some 3]]⟩ : Table Nat Int) 0 false true = .ok out := selectAll_total _ _ rfl

/-- SelectThese: the given tickers, in the given order, filtered like SelectAll; a ticker that is not a
    column raises KeyError unless `include_no_data` -/
theorem selectThese_spec {t : Table ι α} {now : Nat} {tickers : List ι} {nd neg : Bool} {out : List ι}
    (h : selectThese t now tickers nd neg = .ok out) :
    (nd = true ∧ out = tickers) ∨
    (nd = false ∧ ∃ row, t.rows[now]? = some row ∧ (∀ k ∈ tickers, k ∈ t.cols) ∧
      out = tickers.filter (tradableAt t.cols row neg)) :=
  filterNow_ok h

example : selectThese (⟨[1, 2, 3], [[some 5, some (-1), some 2]]⟩ : Table Nat Int) 0 [3, 2, 1, 3] false false
    = .ok [3, 1, 3] := by decide

theorem selectThese_unknown_raises {t : Table ι α} {now : Nat} {row : List (Option α)} {tickers : List ι} {neg : Bool}
    (hr : t.rows[now]? = some row) (k : ι) (hk : k ∈ tickers) (hn : k ∉ t.cols) :
    selectThese t now tickers false neg = .error .keyError := by
  unfold selectThese filterNow
  rw [rowAt_eq, hr]
  have : allKnown t.cols tickers = false := by
    rw [Bool.eq_false_iff]; intro h; exact hn ((allKnown_iff _ _).1 h k hk)
  simp [tradFilter, this]

example : selectThese (⟨[1], [[some 5]]⟩ : Table Nat Int) 0 [1, 9] false false = .error .keyError :=
  selectThese_unknown_raises rfl 9 (by decide) (by decide)

/-! ### SelectHasData -/

/-- SelectHasData: the prior selection (or all columns) restricted to the tickers with at least `minCount`
    present cells in the rows `lo … now`, then the current-row filters unless `include_no_data`. -/
theorem hasData_spec {t : Table ι α} {now lo minCount : Nat} {nd neg : Bool} {prior : Option (List ι)} {out : List ι}
    (h : selectHasData t now lo minCount nd neg prior = .ok out) :
    (∀ k ∈ prior.getD t.cols, k ∈ t.cols) ∧
    ((nd = true ∧ out = (prior.getD t.cols).filter
        (fun k => decide (minCount ≤ countIn t.cols (t.window now lo (now + 1)) k))) ∨
     (nd = false ∧ ∃ row, t.rows[now]? = some row ∧ out = ((prior.getD t.cols).filter
        (fun k => decide (minCount ≤ countIn t.cols (t.window now lo (now + 1)) k))).filter
        (tradableAt t.cols row neg))) := by
  unfold selectHasData at h
  by_cases hk : allKnown t.cols (prior.getD t.cols) = true
  · simp only [hk, ↓reduceIte] at h
    refine ⟨(allKnown_iff _ _).1 hk, ?_⟩
    cases nd with
    | true => left; simp at h; exact ⟨rfl, h.symm⟩
    | false =>
      right
      simp only [Bool.false_eq_true, ↓reduceIte] at h
      cases hr : t.rowAt now with
      | none => simp [hr] at h
      | some row =>
        simp only [hr] at h
        refine ⟨rfl, row, by rw [← rowAt_eq]; exact hr, ?_⟩
        cases h1 : boolIndex (prior.getD t.cols) ((prior.getD t.cols).filter
            (fun k => decide (minCount ≤ countIn t.cols (t.window now lo (now + 1)) k))) (tradableAt t.cols row true) with
        | error e => simp [h1] at h
        | ok c1 =>
          simp only [h1] at h
          have e1 := boolIndex_ok h1
          cases neg with
          | true => simp only [↓reduceIte, Except.ok.injEq] at h; rw [← h, e1]
          | false =>
            simp only [Bool.false_eq_true, ↓reduceIte] at h
            rw [boolIndex_ok h, e1, filter_tradable_twice]
  · simp [hk] at h

example : selectHasData (⟨[1, 2, 3], [[some 1, none, some 1], [some 1, none, some 1], [some 1, some 1, some 0]]⟩ : Table Nat Int)
    2 1 2 false false none = .ok [1] := by decide

/-- SelectHasData raises only KeyError (unknown ticker, missing date) or — pandas' label alignment of the two
    boolean filters — IndexError, the latter only when the prior selection names a ticker twice -/
theorem hasData_errors {t : Table ι α} {now lo minCount : Nat} {nd neg : Bool} {prior : Option (List ι)} {e : SelErr}
    (h : selectHasData t now lo minCount nd neg prior = .error e) :
    e = .keyError ∨ (e = .indexError ∧ ¬ (prior.getD t.cols).Nodup) := by
  unfold selectHasData at h
  by_cases hk : allKnown t.cols (prior.getD t.cols) = true
  · simp only [hk, ↓reduceIte] at h
    cases nd with
    | true => simp at h
    | false =>
      simp only [Bool.false_eq_true, ↓reduceIte] at h
      cases hr : t.rowAt now with
      | none => simp [hr] at h; exact Or.inl h.symm
      | some row =>
        simp only [hr] at h
        cases h1 : boolIndex (prior.getD t.cols) ((prior.getD t.cols).filter
            (fun k => decide (minCount ≤ countIn t.cols (t.window now lo (now + 1)) k))) (tradableAt t.cols row true) with
        | error e1 =>
          simp only [h1, Except.error.injEq] at h
          subst h
          exact Or.inr (boolIndex_error h1 (fun k hk => (List.mem_filter.1 hk).1))
        | ok c1 =>
          simp only [h1] at h
          cases neg with
          | true => simp at h
          | false =>
            simp only [Bool.false_eq_true, ↓reduceIte] at h
            refine Or.inr (boolIndex_error h (fun k hk => ?_))
            rw [boolIndex_ok h1] at hk
            exact (List.mem_filter.1 (List.mem_filter.1 hk).1).1
  · simp [hk] at h; exact Or.inl h.symm

example : selectHasData (⟨[1, 2], [[some 1, none], [some 1, none], [none, some 1]]⟩ : Table Nat Int) 2 0 2 false false (some [1, 2, 1])
    = .error .indexError := by decide
example : selectHasData (⟨[1, 2], [[some 1, none]]⟩ : Table Nat Int) 0 0 1 false false (some [1, 2]) = .ok [1] := by decide

/-- membership form: in the prior selection, enough data in the window, tradable now (or `include_no_data`) -/
theorem hasData_mem {t : Table ι α} {now lo minCount : Nat} {nd neg : Bool} {prior : Option (List ι)} {out : List ι}
    {row : List (Option α)} (hr : t.rows[now]? = some row)
    (h : selectHasData t now lo minCount nd neg prior = .ok out) (k : ι) :
    k ∈ out ↔ k ∈ prior.getD t.cols ∧ minCount ≤ countIn t.cols (t.window now lo (now + 1)) k ∧
      (nd = true ∨ tradableAt t.cols row neg k = true) := by
  rcases (hasData_spec h).2 with ⟨h1, ho⟩ | ⟨h1, row', hr', ho⟩
  · subst ho h1; simp [List.mem_filter]
  · rw [hr] at hr'; cases hr'
    subst ho h1
    simp only [List.mem_filter, decide_eq_true_eq, Bool.false_eq_true, false_or]
    constructor
    · rintro ⟨⟨a, b⟩, c⟩; exact ⟨a, b, c⟩
    · rintro ⟨a, b, c⟩; exact ⟨⟨a, b⟩, c⟩

example : (1 : Nat) ∈ [1] ↔ 1 ∈ (none : Option (List Nat)).getD [1] ∧
    1 ≤ countIn [1] ((⟨[1], [[some (2 : Int)]]⟩ : Table Nat Int).window 0 0 1) 1 ∧
    (false = true ∨ tradableAt [1] [some (2 : Int)] false 1 = true) :=
  hasData_mem (t := ⟨[1], [[some 2]]⟩) (now := 0) (lo := 0) (minCount := 1) rfl (by decide) 1

/-! ### SelectWhere -/

theorem mem_sigTrue (scols : List ι) (srow : List (Option Bool)) (k : ι) :
    k ∈ sigTrue scols srow ↔ (k, some true) ∈ scols.zip srow := by
  unfold sigTrue
  simp only [List.mem_map, List.mem_filter, beq_iff_eq]
  constructor
  · rintro ⟨⟨k', b⟩, ⟨hm, hb⟩, rfl⟩
    simp only at hb; subst hb; exact hm
  · intro h; exact ⟨(k, some true), ⟨h, rfl⟩, rfl⟩

example : (2 : Nat) ∈ sigTrue [1, 2, 3] [some false, some true, none] := by decide

/-- SelectWhere: no signal row for the date → temp untouched; otherwise the columns whose signal is True,
    in the signal's column order, through the current-row filter -/
theorem selectWhere_spec {t : Table ι α} {now : Nat} {scols : List ι} {srow : Option (List (Option Bool))}
    {nd neg : Bool} {prior res : Option (List ι)}
    (h : selectWhere t now scols srow nd neg prior = .ok res) :
    (srow = none ∧ res = prior) ∨
    (∃ r out, srow = some r ∧ res = some out ∧ filterNow t now nd neg (sigTrue scols r) = .ok out) := by
  unfold selectWhere at h
  cases srow with
  | none => left; simp at h; exact ⟨rfl, h.symm⟩
  | some r =>
    right
    simp only at h
    cases hf : filterNow t now nd neg (sigTrue scols r) with
    | error e => simp [hf] at h
    | ok l => simp only [hf, Except.ok.injEq] at h; exact ⟨r, l, rfl, h.symm, hf⟩

example : selectWhere (⟨[1, 2, 3], [[some 5, some 0, some 2]]⟩ : Table Nat Int) 0 [3, 2, 1] (some [some true, some true, some false])
    false false (some [9]) = .ok (some [3]) := by decide
example : selectWhere (⟨[1], [[some 5]]⟩ : Table Nat Int) 0 [1] none false false (some [9]) = .ok (some [9]) := by decide

/-! ### SelectRandomly (a relation on the drawn list) -/

/-- SelectRandomly: the draw comes from the filtered prior selection (or columns): without `n` it is that
    list; with `n` it has `min(n, len)` entries, none more often than in the list — hence a subset of it. -/
theorem selectRandomly_spec {t : Table ι α} {now : Nat} {n : Option Int} {nd neg : Bool} {prior : Option (List ι)}
    {isIdx : Bool} {out : List ι} (h : selectRandomlyOk t now n nd neg prior isIdx out = .ok true) :
    ∃ pool, randomPool t now nd neg prior = .ok pool ∧ out ⊆ pool ∧
      (n = none → out = pool) ∧
      (∀ m, n = some m → 0 ≤ m ∧ out.length = min m.toNat pool.length ∧ ∀ x ∈ out, out.count x ≤ pool.count x) := by
  unfold selectRandomlyOk at h
  cases hp : randomPool t now nd neg prior with
  | error e => simp [hp] at h
  | ok pool =>
    simp only [hp] at h
    refine ⟨pool, rfl, ?_⟩
    cases n with
    | none =>
      simp only [Except.ok.injEq, decide_eq_true_eq] at h
      subst h
      exact ⟨fun _ hx => hx, (fun _ => rfl), (fun m hm => by cases hm)⟩
    | some m =>
      simp only at h
      by_cases hi : (nd && isIdx) = true
      · simp [hi] at h
      · simp only [hi, Bool.false_eq_true, ↓reduceIte] at h
        unfold sampleSize at h
        by_cases hm : m < 0
        · simp [hm] at h
        · simp only [hm, ↓reduceIte, Except.ok.injEq] at h
          have hs := (isSampleOf_iff _ _ _).1 h
          refine ⟨isSampleOf_subset h, (fun hn => by cases hn), ?_⟩
          intro m' hm'
          cases hm'
          exact ⟨by omega, hs.1, hs.2⟩

example : selectRandomlyOk (⟨[1, 2, 3, 4], [[some 5, some 0, some 2, some 3]]⟩ : Table Nat Int) 0 (some 2) false false none false [4, 1]
    = .ok true := by decide

/-! ### ResolveOnTheRun -/

/-- ResolveOnTheRun: aliases (entries that are columns of the on-the-run frame) are replaced by the name on
    the current row of that frame and filtered on the universe's current row; the other entries follow
    unchanged.  With `include_no_data` the names are passed on as they are (even a missing one). -/
theorem resolve_spec {t : Table ι α} {now : Nat} {ocols : List ι} {orow : Option (List (Option ι))}
    {nd neg : Bool} {prior : Option (List ι)} {out : List (Option ι)}
    (h : resolveOnTheRun t now ocols orow nd neg prior = .ok out) :
    ∃ sel r, prior = some sel ∧ orow = some r ∧
      ((nd = true ∧ out = (sel.filter (fun s => decide (s ∈ ocols))).map (fun a => (lookup ocols r a).join) ++
          (sel.filter (fun s => !decide (s ∈ ocols))).map some) ∨
       (nd = false ∧ ∃ names l, (sel.filter (fun s => decide (s ∈ ocols))).map (fun a => (lookup ocols r a).join)
            = names.map some ∧ filterNow t now false neg names = .ok l ∧
          out = l.map some ++ (sel.filter (fun s => !decide (s ∈ ocols))).map some)) := by
  unfold resolveOnTheRun at h
  cases prior with
  | none => simp at h
  | some sel =>
    cases orow with
    | none => simp at h
    | some r =>
      refine ⟨sel, r, rfl, rfl, ?_⟩
      simp only at h
      cases nd with
      | true => left; simp at h; exact ⟨rfl, h.symm⟩
      | false =>
        right
        simp only [Bool.false_eq_true, ↓reduceIte] at h
        cases ha : allSome ((sel.filter (fun s => decide (s ∈ ocols))).map (fun a => (lookup ocols r a).join)) with
        | none => simp [ha] at h
        | some names =>
          simp only [ha] at h
          cases hf : filterNow t now false neg names with
          | error e => simp [hf] at h
          | ok l =>
            simp only [hf, Except.ok.injEq] at h
            exact ⟨rfl, names, l, allSome_eq_some _ _ ha, hf, h.symm⟩

example : resolveOnTheRun (⟨[1, 2, 3], [[some 5, some 0, some 2]]⟩ : Table Nat Int) 0 [10, 11] (some [some 3, some 2])
    false false (some [10, 7, 11, 1]) = .ok [some 3, some 7, some 1] := by decide

/-! ### Tradability under the default flags (`selected_tradable`) and universe membership -/

/-- SelectAll, default flags: every selected ticker has a present, positive current price -/
theorem selectAll_tradable {t : Table ι α} {now : Nat} {out : List ι}
    (h : selectAll t now false false = .ok out) : ∀ k ∈ out, Tradable t now k :=
  fun k hk => (filterNow_default h k hk).2.2

example : ∀ k ∈ [1], Tradable (⟨[1, 2], [[some 5, some 0]]⟩ : Table Nat Int) 0 k :=
  selectAll_tradable (by decide)

theorem selectThese_tradable {t : Table ι α} {now : Nat} {tickers out : List ι}
    (h : selectThese t now tickers false false = .ok out) : ∀ k ∈ out, k ∈ tickers ∧ Tradable t now k :=
  fun k hk => ⟨(filterNow_default h k hk).1, (filterNow_default h k hk).2.2⟩

example : ∀ k ∈ [3, 1], k ∈ [3, 2, 1] ∧ Tradable (⟨[1, 2, 3], [[some 5, some (-1), some 2]]⟩ : Table Nat Int) 0 k :=
  selectThese_tradable (by decide)

theorem hasData_tradable {t : Table ι α} {now lo minCount : Nat} {prior : Option (List ι)} {out : List ι}
    (h : selectHasData t now lo minCount false false prior = .ok out) : ∀ k ∈ out, Tradable t now k := by
  rcases (hasData_spec h).2 with ⟨h1, _⟩ | ⟨_, row, hr, ho⟩
  · cases h1
  · intro k hk
    subst ho
    obtain ⟨p, hp, hpos⟩ := (tradableAt_iff _ _ _ _).1 (List.mem_filter.1 hk).2
    exact ⟨row, p, hr, hp, by simpa using hpos⟩

example : ∀ k ∈ [1, 3], Tradable (⟨[1, 2, 3], [[some 5, some (-1), some 2]]⟩ : Table Nat Int) 0 k :=
  hasData_tradable (lo := 0) (minCount := 1) (prior := none) (by decide)

theorem selectWhere_tradable {t : Table ι α} {now : Nat} {scols : List ι} {r : List (Option Bool)}
    {prior : Option (List ι)} {out : List ι}
    (h : selectWhere t now scols (some r) false false prior = .ok (some out)) : ∀ k ∈ out, Tradable t now k := by
  rcases selectWhere_spec h with ⟨h1, _⟩ | ⟨r', out', hr, ho, hf⟩
  · cases h1
  · cases hr; cases ho
    exact fun k hk => (filterNow_default hf k hk).2.2

example : ∀ k ∈ [3], Tradable (⟨[1, 2, 3], [[some 5, some (-1), some 2]]⟩ : Table Nat Int) 0 k :=
  selectWhere_tradable (scols := [3, 2]) (r := [some true, some true]) (prior := none) (by decide)

theorem selectRandomly_tradable {t : Table ι α} {now : Nat} {n : Option Int} {prior : Option (List ι)}
    {isIdx : Bool} {out : List ι} (h : selectRandomlyOk t now n false false prior isIdx out = .ok true) :
    ∀ k ∈ out, Tradable t now k := by
  obtain ⟨pool, hp, hsub, _⟩ := selectRandomly_spec h
  exact fun k hk => (filterNow_default hp k (hsub hk)).2.2

example : ∀ k ∈ [3], Tradable (⟨[1, 2, 3], [[some 5, some (-1), some 2]]⟩ : Table Nat Int) 0 k :=
  selectRandomly_tradable (n := some 1) (prior := some [2, 3]) (isIdx := false) (by decide)

/-- ResolveOnTheRun, default flags: every entry is either a non-alias of the prior selection (passed on as it
    was) or a resolved name that is tradable now -/
theorem resolve_tradable {t : Table ι α} {now : Nat} {ocols : List ι} {orow : Option (List (Option ι))}
    {prior : Option (List ι)} {out : List (Option ι)}
    (h : resolveOnTheRun t now ocols orow false false prior = .ok out) :
    ∀ x ∈ out, ∃ k, x = some k ∧ (Tradable t now k ∨ (k ∉ ocols ∧ ∀ sel, prior = some sel → k ∈ sel)) := by
  obtain ⟨sel, r, hp, _, hcase⟩ := resolve_spec h
  rcases hcase with ⟨h1, _⟩ | ⟨_, names, l, _, hf, ho⟩
  · cases h1
  · intro x hx
    subst ho
    rcases List.mem_append.1 hx with hx | hx
    · obtain ⟨k, hk, rfl⟩ := List.mem_map.1 hx
      exact ⟨k, rfl, Or.inl (filterNow_default hf k hk).2.2⟩
    · obtain ⟨k, hk, rfl⟩ := List.mem_map.1 hx
      rw [List.mem_filter] at hk
      refine ⟨k, rfl, Or.inr ⟨by simpa using hk.2, ?_⟩⟩
      intro sel' hs; rw [hp] at hs; cases hs; exact hk.1

example : ∀ x ∈ [some 3, some 7], ∃ k, x = some k ∧
    (Tradable (⟨[1, 2, 3], [[some 5, some (-1), some 2]]⟩ : Table Nat Int) 0 k ∨ (k ∉ [10, 11] ∧ ∀ sel, some [10, 7, 11] = some sel → k ∈ sel)) :=
  resolve_tradable (orow := some [some 3, some 2]) (by decide)

/-- SelectAll and SelectHasData never leave the universe, whatever the flags; SelectThese, SelectWhere and the
    resolved part of ResolveOnTheRun stay inside it unless `include_no_data` (see `witness_outside_universe`). -/
theorem selectAll_in_universe {t : Table ι α} {now : Nat} {nd neg : Bool} {out : List ι}
    (h : selectAll t now nd neg = .ok out) : out ⊆ t.cols := by
  rcases selectAll_spec h with ⟨_, ho⟩ | ⟨_, row, _, ho⟩
  · subst ho; exact fun _ hx => hx
  · subst ho; exact List.filter_sublist.subset

example : [1] ⊆ (⟨[1, 2], [[some 5, some 0]]⟩ : Table Nat Int).cols :=
  selectAll_in_universe (now := 0) (nd := false) (neg := false) (by decide)

theorem hasData_in_universe {t : Table ι α} {now lo minCount : Nat} {nd neg : Bool} {prior : Option (List ι)} {out : List ι}
    (h : selectHasData t now lo minCount nd neg prior = .ok out) : out ⊆ t.cols ∧ out ⊆ prior.getD t.cols := by
  obtain ⟨hk, hcase⟩ := hasData_spec h
  have : out ⊆ prior.getD t.cols := by
    rcases hcase with ⟨_, ho⟩ | ⟨_, row, _, ho⟩
    · subst ho; exact List.filter_sublist.subset
    · subst ho; exact fun x hx => List.filter_sublist.subset (List.filter_sublist.subset hx)
  exact ⟨fun x hx => hk x (this hx), this⟩

example : [3] ⊆ (⟨[1, 2, 3], [[some 5, some (-1), some 2]]⟩ : Table Nat Int).cols ∧ [3] ⊆ (some [3, 2]).getD (⟨[1, 2, 3], [[some 5, some (-1), some 2]]⟩ : Table Nat Int).cols :=
  hasData_in_universe (now := 0) (lo := 0) (minCount := 1) (nd := false) (neg := false) (by decide)

theorem selectThese_in_universe {t : Table ι α} {now : Nat} {tickers : List ι} {neg : Bool} {out : List ι}
    (h : selectThese t now tickers false neg = .ok out) : out ⊆ t.cols := by
  rcases selectThese_spec h with ⟨h1, _⟩ | ⟨_, row, _, hk, ho⟩
  · cases h1
  · subst ho; exact fun x hx => hk x (List.filter_sublist.subset hx)

example : [3, 2] ⊆ (⟨[1, 2, 3], [[some 5, some (-1), some 2]]⟩ : Table Nat Int).cols :=
  selectThese_in_universe (now := 0) (tickers := [3, 2]) (neg := true) (by decide)

theorem selectWhere_in_universe {t : Table ι α} {now : Nat} {scols : List ι} {r : List (Option Bool)} {neg : Bool}
    {prior : Option (List ι)} {out : List ι}
    (h : selectWhere t now scols (some r) false neg prior = .ok (some out)) : out ⊆ t.cols := by
  rcases selectWhere_spec h with ⟨h1, _⟩ | ⟨r', out', hr, ho, hf⟩
  · cases h1
  · cases hr; cases ho
    rcases filterNow_ok hf with ⟨h1, _⟩ | ⟨_, row, _, hk, ho⟩
    · cases h1
    · subst ho; exact fun x hx => hk x (List.filter_sublist.subset hx)

example : [3] ⊆ (⟨[1, 2, 3], [[some 5, some (-1), some 2]]⟩ : Table Nat Int).cols :=
  selectWhere_in_universe (now := 0) (scols := [3, 2]) (r := [some true, some true]) (neg := false) (prior := none) (by decide)

/-! ### "Evaluated on data up to now": rows after `now` never matter -/

theorem selectAll_no_lookahead (t : Table ι α) (now : Nat) (nd neg : Bool) :
    selectAll (t.truncate now) now nd neg = selectAll t now nd neg := filterNow_truncate t now nd neg t.cols

example : selectAll ((⟨[1, 2], [[some 1, some 2], [none, some 0]]⟩ : Table Nat Int).truncate 0) 0 false false = selectAll (⟨[1, 2], [[some 1, some 2], [none, some 0]]⟩ : Table Nat Int) 0 false false ∧
    (⟨[1, 2], [[some 1, some 2], [none, some 0]]⟩ : Table Nat Int).truncate 0 = ⟨[1, 2], [[some 1, some 2]]⟩ := ⟨selectAll_no_lookahead _ _ _ _, rfl⟩

theorem selectThese_no_lookahead (t : Table ι α) (now : Nat) (tk : List ι) (nd neg : Bool) :
    selectThese (t.truncate now) now tk nd neg = selectThese t now tk nd neg := filterNow_truncate t now nd neg tk

example : selectThese ((⟨[1, 2], [[some 1, some 2], [none, some 0]]⟩ : Table Nat Int).truncate 0) 0 [2] false false = selectThese (⟨[1, 2], [[some 1, some 2], [none, some 0]]⟩ : Table Nat Int) 0 [2] false false :=
  selectThese_no_lookahead _ _ _ _ _

theorem hasData_no_lookahead (t : Table ι α) (now lo mc : Nat) (nd neg : Bool) (prior : Option (List ι)) :
    selectHasData (t.truncate now) now lo mc nd neg prior = selectHasData t now lo mc nd neg prior := by
  unfold selectHasData
  rw [rowAt_truncate, window_truncate]
  rfl

example : selectHasData ((⟨[1, 2], [[some 1, some 2], [none, some 0]]⟩ : Table Nat Int).truncate 0) 0 0 1 false false none = selectHasData (⟨[1, 2], [[some 1, some 2], [none, some 0]]⟩ : Table Nat Int) 0 0 1 false false none :=
  hasData_no_lookahead _ _ _ _ _ _ _

theorem selectWhere_no_lookahead (t : Table ι α) (now : Nat) (scols : List ι) (srow : Option (List (Option Bool)))
    (nd neg : Bool) (prior : Option (List ι)) :
    selectWhere (t.truncate now) now scols srow nd neg prior = selectWhere t now scols srow nd neg prior := by
  unfold selectWhere
  cases srow with
  | none => rfl
  | some r => simp only [filterNow_truncate]

example : selectWhere ((⟨[1, 2], [[some 1, some 2], [none, some 0]]⟩ : Table Nat Int).truncate 0) 0 [1] (some [some true]) false false none
    = selectWhere (⟨[1, 2], [[some 1, some 2], [none, some 0]]⟩ : Table Nat Int) 0 [1] (some [some true]) false false none := selectWhere_no_lookahead _ _ _ _ _ _ _

theorem randomPool_no_lookahead (t : Table ι α) (now : Nat) (nd neg : Bool) (prior : Option (List ι)) :
    randomPool (t.truncate now) now nd neg prior = randomPool t now nd neg prior :=
  filterNow_truncate t now nd neg _

example : randomPool ((⟨[1, 2], [[some 1, some 2], [none, some 0]]⟩ : Table Nat Int).truncate 0) 0 false false none = randomPool (⟨[1, 2], [[some 1, some 2], [none, some 0]]⟩ : Table Nat Int) 0 false false none :=
  randomPool_no_lookahead _ _ _ _ _

theorem resolve_no_lookahead (t : Table ι α) (now : Nat) (ocols : List ι) (orow : Option (List (Option ι)))
    (nd neg : Bool) (prior : Option (List ι)) :
    resolveOnTheRun (t.truncate now) now ocols orow nd neg prior = resolveOnTheRun t now ocols orow nd neg prior := by
  unfold resolveOnTheRun
  simp only [filterNow_truncate]

example : resolveOnTheRun ((⟨[1, 2], [[some 1, some 2], [none, some 0]]⟩ : Table Nat Int).truncate 0) 0 [7] (some [some 1]) false false (some [7])
    = resolveOnTheRun (⟨[1, 2], [[some 1, some 2], [none, some 0]]⟩ : Table Nat Int) 0 [7] (some [some 1]) false false (some [7]) := resolve_no_lookahead _ _ _ _ _ _ _

end Flagged

/-! ### Name / type / status filters and SetStat -/
section Plain
variable {ι α : Type} [DecidableEq ι]

/-- SelectRegex keeps, in order, the prior entries the pattern matches (a sub-list of the prior selection) -/
theorem regex_spec (p : ι → Bool) (s : List ι) :
    selectRegex p (some s) = .ok (s.filter p) ∧ (s.filter p).Sublist s ∧ ∀ k, k ∈ s.filter p ↔ k ∈ s ∧ p k = true :=
  ⟨rfl, List.filter_sublist, fun _ => List.mem_filter⟩

example : selectRegex (fun k => k % 2 == 0) (some [1, 2, 3, 4]) = .ok [2, 4] := by decide
example : selectRegex (fun k => k % 2 == 0) (none : Option (List Nat)) = .error .keyError := rfl

/-- SelectActive removes exactly the closed and the rolled names -/
theorem active_spec (rolled closed s : List ι) :
    ∃ out, selectActive rolled closed (some s) = .ok out ∧ out.Sublist s ∧
      ∀ k, k ∈ out ↔ k ∈ s ∧ k ∉ rolled ∧ k ∉ closed := by
  refine ⟨_, rfl, List.filter_sublist, fun k => ?_⟩
  simp [List.mem_filter]

example : selectActive [2] [4] (some [1, 2, 3, 4]) = .ok [1, 3] := by decide

/-- `issubclass` of the model is reflexive and closed under the base-class step (so the bounded search
    is the reflexive-transitive closure of `Ty.parent`) -/
theorem isSub_refl (a : Ty) : a.isSub a = true := by cases a <;> decide

example : Ty.hedgeSec.isSub .hedgeSec = true := isSub_refl _

theorem isSub_step (a p b : Ty) (hp : a.parent = some p) (h : p.isSub b = true) : a.isSub b = true := by
  cases a <;> cases b <;> simp [Ty.parent] at hp <;> subst hp <;> revert h <;> decide

example : Ty.couponHedgeSec.isSub .securityBase = true ∧ Ty.hedgeSec.isSub .fiSecurity = false :=
  ⟨isSub_step _ .couponSec _ rfl (by decide), by decide⟩

/-- SelectTypes: the children (in insertion order) whose class is an instance of an included and of no excluded
    type (default exclusion: NoneType, i.e. nothing), restricted to the prior selection when there is one -/
theorem types_spec (kids : List (ι × Ty)) (incl excl : List Ty) (prior : Option (List ι)) (k : ι) :
    k ∈ selectTypes kids incl excl prior ↔
      (∃ ty, (k, ty) ∈ kids ∧ isInstance ty incl = true ∧
        isInstance ty (if excl.isEmpty then [Ty.noneType] else excl) = false) ∧
      (∀ p, prior = some p → k ∈ p) := by
  unfold selectTypes
  cases prior with
  | none =>
    simp only [List.mem_map, List.mem_filter, Bool.and_eq_true, Bool.not_eq_true']
    constructor
    · rintro ⟨⟨k', ty⟩, ⟨hm, h1, h2⟩, rfl⟩
      exact ⟨⟨ty, hm, h1, h2⟩, fun p hp => by cases hp⟩
    · rintro ⟨⟨ty, hm, h1, h2⟩, _⟩
      exact ⟨(k, ty), ⟨hm, h1, h2⟩, rfl⟩
  | some p =>
    simp only [List.mem_map, List.mem_filter, Bool.and_eq_true, Bool.not_eq_true', decide_eq_true_eq]
    constructor
    · rintro ⟨⟨⟨k', ty⟩, ⟨hm, h1, h2⟩, rfl⟩, hp⟩
      exact ⟨⟨ty, hm, h1, h2⟩, fun p' hp' => by cases hp'; exact hp⟩
    · rintro ⟨⟨ty, hm, h1, h2⟩, hp⟩
      exact ⟨⟨(k, ty), ⟨hm, h1, h2⟩, rfl⟩, hp p rfl⟩

example : selectTypes [(1, Ty.security), (2, Ty.hedgeSec), (3, Ty.strategy), (4, Ty.couponHedgeSec)]
    [Ty.securityBase] [Ty.hedgeSec, Ty.couponHedgeSec] (some [4, 3, 1]) = [1] := by decide

/-- SetStat: the statistic is the frame's row at `now − lag` (paired with the frame's columns); no such row → False -/
theorem setStat_spec (scols : List ι) (srows : List (List (Option α))) (t0row : Option Nat) :
    (∀ st, setStat scols srows t0row = some st ↔ ∃ j r, t0row = some j ∧ srows[j]? = some r ∧ st = scols.zip r) ∧
    (setStat scols srows t0row = none ↔ ∀ j, t0row = some j → srows[j]? = none) := by
  cases t0row with
  | none =>
    exact ⟨fun st => ⟨fun h => (by cases h), fun ⟨j, r, hj, _⟩ => (by cases hj)⟩, ⟨fun _ j hj => (by cases hj), fun _ => rfl⟩⟩
  | some j =>
    cases hr : srows[j]? with
    | none =>
      have e : setStat scols srows (some j) = none := by unfold setStat; simp only [hr]
      refine ⟨fun st => ⟨fun h => (by rw [e] at h; cases h), ?_⟩, ⟨fun _ j' hj => (by cases hj; exact hr), fun _ => e⟩⟩
      rintro ⟨j', r, hj, hr', _⟩
      cases hj; rw [hr] at hr'; cases hr'
    | some r =>
      have e : setStat scols srows (some j) = some (scols.zip r) := by unfold setStat; simp only [hr]
      refine ⟨fun st => ⟨fun h => ?_, ?_⟩, ⟨fun h => (by rw [e] at h; cases h), fun h => ?_⟩⟩
      · rw [e] at h; cases h; exact ⟨j, r, rfl, hr, rfl⟩
      · rintro ⟨j', r', hj, hr', hst⟩
        cases hj; rw [hr] at hr'; cases hr'; rw [e, hst]
      · have := h j rfl; rw [hr] at this; cases this

example : setStat [1, 2] [[some (3 : Int), none], [some 4, some 5]] (some 1) = some [(1, some 4), (2, some 5)] := by decide
example : setStat [1, 2] [[some (3 : Int), none]] none = none := rfl

/-- the filtering selectors keep any guarantee the prior selection had (`subset_preserves`) -/
theorem subset_preserves {out prior : List ι} (h : out ⊆ prior) (P : ι → Prop) (hp : ∀ k ∈ prior, P k) :
    ∀ k ∈ out, P k := fun k hk => hp k (h hk)

example : ∀ k ∈ [2, 4], k % 2 = 0 :=
  subset_preserves (out := [2, 4]) (prior := [2, 4, 6]) (by decide) (fun k => k % 2 = 0) (by decide)

theorem types_subset (kids : List (ι × Ty)) (incl excl : List Ty) (p : List ι) :
    selectTypes kids incl excl (some p) ⊆ p := by
  intro k hk
  exact ((types_spec kids incl excl (some p) k).1 hk).2 p rfl

example : selectTypes [(1, Ty.security), (2, Ty.strategy)] [Ty.node] [] (some [2, 5]) ⊆ [2, 5] := types_subset _ _ _ _

end Plain

/-! ### Ranked selection -/
section Rank
variable {ι α : Type} [DecidableEq ι] [LinearOrder α] [OfNat α 0] [OfNat α 1] [Mul α] [HasNatFloor α]

/-- **SelectN (function ⊨ relation).**  Whenever the statistic's index is duplicate-free, what the model of
    SelectN computes (with its stable sort) satisfies the order-insensitive relation `selectNOk`, which is what
    the real output is checked against (pandas' quicksort may order ties differently). -/
theorem selectN_fun_satisfies_rel {stat : Option (List (ι × Option α))} {prior : Option (List ι)} {n : NSpec α}
    {asc aon fs : Bool} {out : List ι}
    (hnd : ∀ s, stat = some s → (s.map Prod.fst).Nodup)
    (h : selectN stat prior n asc aon fs = .ok out) :
    selectNOk stat prior n asc aon fs out = .ok true := by
  unfold selectN at h
  unfold selectNOk
  by_cases hr : nRefused n = true
  · simp [hr] at h
  · simp only [hr, Bool.false_eq_true, ↓reduceIte] at h ⊢
    cases stat with
    | none => simp at h
    | some s =>
      simp only at h ⊢
      cases hk : keepN n (eligible s prior fs).length with
      | error e => simp [hk] at h
      | ok k =>
        simp only [hk, Except.ok.injEq] at h ⊢
        have hE := eligible_keys_nodup (hnd s rfl) prior fs
        have htop := isTopK_ranked asc (eligible s prior fs) hE k
        have hlen : (((ranked asc (eligible s prior fs)).take k).map Prod.fst).length = min k (eligible s prior fs).length := by
          simp [List.length_take, (ranked_perm asc _).length_eq]
        rw [allOrNone_eq aon k _ _ hlen] at h
        by_cases ha : (aon && decide ((eligible s prior fs).length < k)) = true
        · simp only [ha, ↓reduceIte] at h ⊢
          simp [← h]
        · simp only [ha, Bool.false_eq_true, ↓reduceIte] at h ⊢
          rw [← h]; exact congrArg _ htop

example : selectN (some [(1, some (3 : Int)), (2, none), (3, some 7), (4, some 5)]) none (.int 2) false false false = .ok [3, 4] := by
  decide

/-- **SelectN (meaning of the relation).**  An output accepted by `selectNOk`:
    * lies inside the eligible statistics (non-missing; inside the prior selection when `filter_selected`);
    * has exactly `min(k, |eligible|)` entries, `k` as the code computes it (`keepN`), or is empty when
      `all_or_none` and fewer than `k` are eligible;
    * is ordered by the statistic, and every eligible ticker left out ranks no better than every ticker taken. -/
theorem selectN_spec {s : List (ι × Option α)} {prior : Option (List ι)} {n : NSpec α}
    {asc aon fs : Bool} {out : List ι}
    (h : selectNOk (some s) prior n asc aon fs out = .ok true) :
    ∃ k, keepN n (eligible s prior fs).length = .ok k ∧
      ((aon = true ∧ (eligible s prior fs).length < k ∧ out = []) ∨
       ((aon = false ∨ k ≤ (eligible s prior fs).length) ∧
        out.length = min k (eligible s prior fs).length ∧
        (∀ o ∈ out, ∃ v, (o, some v) ∈ s ∧ (fs = true → ∀ p, prior = some p → o ∈ p)) ∧
        (out.filterMap (valOf (eligible s prior fs))).Pairwise (fun a b => if asc then a ≤ b else b ≤ a) ∧
        (∀ e v w, (e, some w) ∈ s → (fs = true → ∀ p, prior = some p → e ∈ p) → e ∉ out →
          ∀ o ∈ out, valOf (eligible s prior fs) o = some v → if asc then v ≤ w else w ≤ v))) := by
  unfold selectNOk at h
  by_cases hr : nRefused n = true
  · simp [hr] at h
  · simp only [hr, Bool.false_eq_true, ↓reduceIte] at h
    cases hk : keepN n (eligible s prior fs).length with
    | error e => simp [hk] at h
    | ok k =>
      simp only [hk] at h
      refine ⟨k, rfl, ?_⟩
      by_cases ha : (aon && decide ((eligible s prior fs).length < k)) = true
      · simp only [ha, ↓reduceIte, Except.ok.injEq, decide_eq_true_eq] at h
        simp only [Bool.and_eq_true, decide_eq_true_eq] at ha
        exact Or.inl ⟨ha.1, ha.2, h⟩
      · simp only [ha, Bool.false_eq_true, ↓reduceIte, Except.ok.injEq] at h
        obtain ⟨h1, h2, _, h4, h5⟩ := isTopK_sound h
        right
        refine ⟨?_, h1, ?_, ?_, ?_⟩
        · simp only [Bool.and_eq_true, decide_eq_true_eq, not_and, not_lt] at ha
          cases aon with
          | false => exact Or.inl rfl
          | true => exact Or.inr (ha rfl)
        · intro o ho
          obtain ⟨v, hv⟩ := h2 o ho
          exact ⟨v, mem_eligible.1 hv⟩
        · exact h4.imp (fun {a b} hab => (leDir_iff asc a b).1 hab)
        · intro e v w hes hfs hne o ho hv
          exact (leDir_iff asc v w).1 (h5 (e, w) (mem_eligible.2 ⟨hes, hfs⟩) hne o ho v hv)

example : selectNOk (some [(1, some (3 : Int)), (2, some 3), (3, some 7)]) none (.int 2) false false false [3, 2] = .ok true := by
  decide

/-- SelectN with `filter_selected` returns a subset of the prior selection (and so keeps its guarantees) -/
theorem selectN_filter_subset {s : List (ι × Option α)} {p : List ι} {n : NSpec α} {asc aon : Bool} {out : List ι}
    (h : selectNOk (some s) (some p) n asc aon true out = .ok true) : out ⊆ p := by
  obtain ⟨k, _, hcase⟩ := selectN_spec h
  rcases hcase with ⟨_, _, ho⟩ | ⟨_, _, hmem, _⟩
  · subst ho; exact fun _ hx => by cases hx
  · intro o ho
    obtain ⟨_, _, hp⟩ := hmem o ho
    exact hp rfl p rfl

example : [3] ⊆ [3, 9] :=
  selectN_filter_subset (s := [(1, some (5 : Int)), (3, some 2)]) (n := .int 1) (asc := false) (aon := false) (by decide)

/-- errors of SelectN: negative n (ValueError at construction), missing temp['stat'] (KeyError),
    float n ≥ 1 (TypeError from the slice) — nothing else -/
theorem selectN_errors {stat : Option (List (ι × Option α))} {prior : Option (List ι)} {n : NSpec α}
    {asc aon fs : Bool} {e : SelErr} (h : selectN stat prior n asc aon fs = .error e) :
    (e = .valueError ∧ ∃ x, n = .real x ∧ x < 0) ∨ (e = .keyError ∧ stat = none) ∨
    (e = .typeError ∧ ∃ x, n = .real x ∧ ¬ x < 1) := by
  unfold selectN at h
  cases n with
  | int k =>
    simp only [nRefused, Bool.false_eq_true, ↓reduceIte, keepN] at h
    cases stat with
    | none => simp at h; exact Or.inr (Or.inl ⟨h.symm, rfl⟩)
    | some s => simp at h
  | real x =>
    by_cases hx : x < 0
    · simp [nRefused, hx] at h
      exact Or.inl ⟨h.symm, x, rfl, hx⟩
    · simp only [nRefused, hx, decide_false, Bool.false_eq_true, ↓reduceIte] at h
      cases stat with
      | none => simp at h; exact Or.inr (Or.inl ⟨h.symm, rfl⟩)
      | some s =>
        by_cases h1 : x < 1
        · simp [keepN, hx, h1] at h
        · simp [keepN, hx, h1] at h
          exact Or.inr (Or.inr ⟨h.symm, x, rfl, h1⟩)

example : selectN (none : Option (List (Nat × Option Int))) none (.int 2) false false false = .error .keyError := rfl

end Rank

/-! ### Fractional n and the return formula (ordered field) -/
section Field
variable {ι K : Type} [DecidableEq ι] [Field K] [LinearOrder K] [IsStrictOrderedRing K] [FloorSemiring K]

/-- fractional n: `keep_n = ⌊n·len⌋`, which never exceeds the number of eligible tickers -/
theorem keepN_frac_spec (x : K) (len k : Nat) (h0 : 0 ≤ x) (h1 : x < 1) (h : keepN (.real x) len = .ok k) :
    (k : K) ≤ x * len ∧ x * len < k + 1 ∧ k ≤ len := by
  have hx : ¬ x < 0 := not_lt.2 h0
  simp only [keepN, hx, ↓reduceIte, h1, Except.ok.injEq] at h
  subst h
  have hnn : (0 : K) ≤ x * (len : K) := mul_nonneg h0 (Nat.cast_nonneg _)
  refine ⟨Nat.floor_le hnn, Nat.lt_floor_add_one _, ?_⟩
  have : x * (len : K) ≤ (len : K) := by
    calc x * (len : K) ≤ 1 * (len : K) := mul_le_mul_of_nonneg_right h1.le (Nat.cast_nonneg _)
      _ = len := one_mul _
  exact Nat.floor_le_of_le this

example : keepN (.real (1 / 2 : ℚ)) 5 = .ok 2 := by
  simp only [keepN]
  norm_num [natFloor, natCast]
  rw [show (5 / 2 : ℚ) = 2 + 1 / 2 by norm_num]
  exact Nat.floor_eq_iff (by norm_num) |>.2 ⟨by norm_num, by norm_num⟩

/-- one column of StatTotalReturn: `last / first − 1`, stated under the guard the code does *not* have
    (`first ≠ 0`; in doubles a zero first price gives ±inf or NaN) -/
theorem retCell_spec (f l : K) (_hf : f ≠ 0) : retCell (some (some f)) (some (some l)) = some (l / f - 1) := by
  simp [retCell]

example : retCell (some (some (4 : ℚ))) (some (some 5)) = some (1 / 4) :=
  (retCell_spec (4 : ℚ) 5 (by norm_num)).trans (by norm_num)

theorem retCell_missing (a b : Option (Option K)) (h : ¬ ∃ f l, a = some (some f) ∧ b = some (some l)) :
    retCell a b = none := by
  unfold retCell
  split
  · rename_i f l; exact absurd ⟨f, l, rfl, rfl⟩ h
  · rfl

example : retCell (some (none : Option ℚ)) (some (some 5)) = none :=
  retCell_missing _ _ (by rintro ⟨f, l, h, _⟩; cases h)

end Field

/-! ### StatTotalReturn and SelectMomentum (any number type with the operations the code uses — doubles included) -/
section Return
variable {ι K : Type} [DecidableEq ι] [LT K] [DecidableLT K] [LE K] [DecidableLE K] [OfNat K 0] [OfNat K 1]
  [Div K] [Sub K] [Mul K] [HasNatFloor K]

/-- **StatTotalReturn.**  It answers False exactly when the data starts after `t0` (`win = none`); otherwise
    the statistic has one entry per selected ticker, in order, equal to `retCell` of the first and the last row
    of the window `lo ≤ j < hi1` of the rows visible at `now` (an empty window raises IndexError, an unknown
    ticker or a missing selection KeyError). -/
theorem totalReturn_spec {t : Table ι K} {now : Nat} {win : Option (Nat × Nat)} {prior : Option (List ι)}
    {res : Option (List (ι × Option K))} (h : statTotalReturn t now win prior = .ok res) :
    ∃ sel, prior = some sel ∧ (∀ k ∈ sel, k ∈ t.cols) ∧
      ((win = none ∧ res = none) ∨
       (∃ lo hi1 first last, win = some (lo, hi1) ∧ (t.window now lo hi1).head? = some first ∧
          (t.window now lo hi1).getLast? = some last ∧
          res = some (sel.map (fun k => (k, retCell (lookup t.cols first k) (lookup t.cols last k)))))) := by
  unfold statTotalReturn at h
  cases prior with
  | none => simp at h
  | some sel =>
    refine ⟨sel, rfl, ?_⟩
    simp only at h
    by_cases hk : allKnown t.cols sel = true
    · simp only [hk, ↓reduceIte] at h
      refine ⟨(allKnown_iff _ _).1 hk, ?_⟩
      cases win with
      | none => left; simp at h; exact ⟨rfl, h.symm⟩
      | some w =>
        obtain ⟨lo, hi1⟩ := w
        right
        simp only at h
        cases hf : (t.window now lo hi1).head? with
        | none => simp [hf] at h
        | some first =>
          cases hl : (t.window now lo hi1).getLast? with
          | none => simp [hf, hl] at h
          | some last =>
            simp only [hf, hl, Except.ok.injEq] at h
            exact ⟨lo, hi1, first, last, rfl, hf, hl, h.symm⟩
    · simp [hk] at h

example : statTotalReturn (⟨[1, 2], [[some 4, none], [some 5, some 1], [some 6, some 2], [some 100, some 100]]⟩ : Table Nat ℚ)
    2 (some (0, 3)) (some [1, 2]) = .ok (some [(1, some (1 / 2)), (2, none)]) := by
  simp [statTotalReturn, allKnown, Table.window, Table.visible, lookup, retCell]
  norm_num

theorem totalReturn_no_lookahead (t : Table ι K) (now : Nat) (win : Option (Nat × Nat)) (prior : Option (List ι)) :
    statTotalReturn (t.truncate now) now win prior = statTotalReturn t now win prior := by
  unfold statTotalReturn
  simp only [window_truncate]
  rfl

example : statTotalReturn ((⟨[1, 2], [[some 4, none], [some 8, some 1], [some 12, some 2], [some 100, some 100]]⟩ : Table Nat Int).truncate 2) 2 (some (0, 3)) (some [1, 2]) = statTotalReturn (⟨[1, 2], [[some 4, none], [some 8, some 1], [some 12, some 2], [some 100, some 100]]⟩ : Table Nat Int) 2 (some (0, 3)) (some [1, 2]) ∧
    statTotalReturn (⟨[1, 2], [[some 4, none], [some 8, some 1], [some 12, some 2], [some 100, some 100]]⟩ : Table Nat Int) 2 (some (0, 3)) (some [1, 2]) = .ok (some [(1, some 2), (2, none)]) :=
  ⟨totalReturn_no_lookahead _ _ _ _, by decide⟩

/-- the statistic's index is the selection itself (so SelectMomentum ranks exactly the selected tickers) and
    lies inside the universe -/
theorem totalReturn_keys {t : Table ι K} {now : Nat} {win : Option (Nat × Nat)} {sel : List ι}
    {st : List (ι × Option K)} (h : statTotalReturn t now win (some sel) = .ok (some st)) :
    st.map Prod.fst = sel ∧ ∀ k ∈ sel, k ∈ t.cols := by
  obtain ⟨sel', hs, hk, hcase⟩ := totalReturn_spec h
  cases hs
  rcases hcase with ⟨_, hn⟩ | ⟨_, _, _, _, _, _, _, hr⟩
  · cases hn
  · cases hr
    refine ⟨?_, hk⟩
    simp [List.map_map, Function.comp_def]

example : [(1, some (2 : Int)), (2, none)].map Prod.fst = [1, 2] ∧ ∀ k ∈ [1, 2], k ∈ (⟨[1, 2], [[some 4, none], [some 8, some 1], [some 12, some 2], [some 100, some 100]]⟩ : Table Nat Int).cols :=
  totalReturn_keys (now := 2) (win := some (0, 3)) (by decide)

/-- **SelectMomentum** = StatTotalReturn then SelectN(filter_selected=False): it stops (False, temp untouched)
    exactly when StatTotalReturn does, and otherwise leaves that statistic and SelectN's choice from it. -/
theorem momentum_spec {t : Table ι K} {now : Nat} {win : Option (Nat × Nat)} {prior : Option (List ι)} {n : NSpec K}
    {asc aon : Bool} {res : Option (List (ι × Option K) × List ι)}
    (h : selectMomentum t now win prior n asc aon = .ok res) :
    (res = none ∧ statTotalReturn t now win prior = .ok none) ∨
    (∃ st sel, res = some (st, sel) ∧ statTotalReturn t now win prior = .ok (some st) ∧
      selectN (some st) prior n asc aon false = .ok sel) := by
  unfold selectMomentum at h
  by_cases hr : nRefused n = true
  · simp [hr] at h
  · simp only [hr, Bool.false_eq_true, ↓reduceIte] at h
    cases hs : statTotalReturn t now win prior with
    | error e => simp [hs] at h
    | ok r =>
      cases r with
      | none => simp [hs] at h; exact Or.inl ⟨h.symm, rfl⟩
      | some st =>
        simp only [hs] at h
        cases hn : selectN (some st) prior n asc aon false with
        | error e => simp [hn] at h
        | ok sel =>
          simp only [hn, Except.ok.injEq] at h
          exact Or.inr ⟨st, sel, h.symm, rfl, hn⟩

example : selectMomentum (⟨[1, 2, 3], [[some 4, some 1, some 5], [some 8, some 3, some 5]]⟩ : Table Nat Int) 1 (some (0, 2)) (some [1, 2, 3])
    (.int 1) false false = .ok (some ([(1, some 1), (2, some 2), (3, some 0)], [2])) := by decide
example : selectMomentum (⟨[1], [[some 4]]⟩ : Table Nat Int) 0 none (some [1]) (.int 1) false false = .ok none := by decide

end Return

/-! ### Witnesses: where the code (and therefore the model) departs from the property -/
section Witness

/-- **Finding.** `include_no_data=True` switches off the `price > 0` filter as well: with `include_negative=False`
    (documented: zero and negative prices are not included) a ticker priced −1 is selected.  Same shared
    block in SelectAll, SelectThese, SelectHasData, SelectWhere, SelectRandomly, ResolveOnTheRun. -/
theorem witness_include_no_data_admits_nonpositive :
    selectAll (⟨[1], [[some (-1)]]⟩ : Table Nat Int) 0 true false = .ok [1] ∧
    selectThese (⟨[1], [[some (-1)]]⟩ : Table Nat Int) 0 [1] true false = .ok [1] ∧
    selectHasData (⟨[1], [[some (-1)]]⟩ : Table Nat Int) 0 0 1 true false none = .ok [1] ∧
    selectWhere (⟨[1], [[some (-1)]]⟩ : Table Nat Int) 0 [1] (some [some true]) true false none = .ok (some [1]) ∧
    randomPool (⟨[1], [[some (-1)]]⟩ : Table Nat Int) 0 true false none = .ok [1] ∧
    resolveOnTheRun (⟨[1], [[some (-1)]]⟩ : Table Nat Int) 0 [7] (some [some 1]) true false (some [7]) = .ok [some 1] ∧
    ¬ Tradable (⟨[1], [[some (-1)]]⟩ : Table Nat Int) 0 1 := by
  refine ⟨by decide, by decide, by decide, by decide, by decide, by decide, ?_⟩
  rintro ⟨row, p, hr, hp, hpos⟩
  simp at hr; subst hr
  simp [lookup] at hp; subst hp
  exact absurd hpos (by decide)

/-- **Finding.** with `include_no_data=True` SelectThese / SelectWhere / ResolveOnTheRun pass on names that are
    not columns of the universe (ResolveOnTheRun even a missing name); with the default flags the same inputs
    raise KeyError -/
theorem witness_outside_universe :
    selectThese (⟨[1], [[some 5]]⟩ : Table Nat Int) 0 [9] true false = .ok [9] ∧
    selectThese (⟨[1], [[some 5]]⟩ : Table Nat Int) 0 [9] false false = .error .keyError ∧
    selectWhere (⟨[1], [[some 5]]⟩ : Table Nat Int) 0 [9] (some [some true]) true false none = .ok (some [9]) ∧
    resolveOnTheRun (⟨[1], [[some 5]]⟩ : Table Nat Int) 0 [7, 8] (some [some 9, none]) true false (some [7, 8]) = .ok [some 9, none] ∧
    resolveOnTheRun (⟨[1], [[some 5]]⟩ : Table Nat Int) 0 [7, 8] (some [some 9, none]) false false (some [7, 8]) = .error .keyError := by
  decide

/-- SelectAll(include_no_data=True) leaves a pandas Index; SelectRandomly(n, include_no_data=True) then hands it
    to `random.sample`, which refuses it (TypeError) — modelled, not part of the property -/
theorem witness_random_sample_index :
    selectRandomlyOk (⟨[1, 2], [[some 5, some 6]]⟩ : Table Nat Int) 0 (some 1) true false (some [1, 2]) true [1] = .error .typeError := by
  decide

end Witness

end Bt.C14
