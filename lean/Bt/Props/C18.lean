import Bt.Proofs.Report
import Mathlib.Tactic.NormNum
/-!
C18 — reports agree with the node histories they summarise (property theorems only; helper lemmas live in
`Bt.Proofs.Report`).

The theorems are about `Bt.Algos.Report`, the executable model of `Backtest.weights / security_weights /
positions / herfindahl_index / turnover`, `StrategyBase.get_transactions`, `Result.prices` and
`ReplayTransactions` that the `report` / `replay` correspondence ties to the real code.  `K` is any linearly
ordered field; a snapshot lists every member of the tree (any shape, any size) with the root first; runs have
any number of dates.

The balance identity "root value = cash of every strategy + value of every security" is proved for the engine
model in `Bt.C01` and is taken here as the hypothesis `hC01`.

Departures of the code from the property text are kept as `witness_*` theorems at the end; the three
repaired ones (`*_before_repair`) are about explicitly named old formulas.
-/
namespace Bt.C18
open Bt.Report
set_option linter.unusedSectionVars false
set_option linter.unusedVariables false

section
variable {ι : Type} [DecidableEq ι] [LE ι] [DecidableLE ι]
  {K : Type} [Field K] [LinearOrder K] [IsStrictOrderedRing K]

/-! ### component weights -/

/-- `Backtest.weights`: one column per member, keyed by full name, holding the member's value over the
    root's value — the notional values of both under a fixed-income root. -/
theorem weights_def (fi : Bool) (n0 : Node ι) (r : Cell K) (rest : Snap ι K) :
    weightsAt fi ((n0, r) :: rest) =
      ((n0, r) :: rest).map (fun nc => (nc.1.full, some ((if fi then nc.2.notl else nc.2.value) /
        (if fi then r.notl else r.value)))) := by
  rw [weightsAt_eq]; rfl

example : weightsAt false exSnap = [(0, some 1), (1, some (3 / 10)), (2, some (3 / 10)), (3, some (1 / 5)), (4, some 0)] := by
  decide +kernel

example : weightsAt true exSnap = [(0, some 1), (1, some (3 / 5)), (2, some (2 / 5)), (3, some (2 / 5)), (4, some 0)] := by
  decide +kernel

/-- the root's own weight is one whenever its value (notional) is non-zero -/
theorem weights_root (fi : Bool) (n0 : Node ι) (r : Cell K) (rest : Snap ι K) (h : basis fi r ≠ 0) :
    (weightsAt fi ((n0, r) :: rest)).head? = some (n0.full, some 1) := by
  rw [weightsAt_eq]; simp [div_self h]

example : (weightsAt false exSnap).head? = some (0, some 1) :=
  weights_root false _ _ _ (by decide +kernel)

/-! ### security weights -/

/-- `Backtest.security_weights`: the column of a ticker holds the sum of the values (notionals) of all
    securities of that name, in any number of sub-strategies, over the root's; tickers nobody holds have no
    column. -/
theorem security_weights_aggregate (fi : Bool) (n0 : Node ι) (r : Cell K) (rest : Snap ι K) (k : ι) :
    getK k (secAgg (basis fi) ((n0, r) :: rest)) =
      (if k ∈ (secPairs (basis fi) ((n0, r) :: rest)).map Prod.fst
       then some (sumFor k (secPairs (basis fi) ((n0, r) :: rest))) else none) ∧
    securityWeightsAt fi ((n0, r) :: rest) =
      (secAgg (basis fi) ((n0, r) :: rest)).map (fun kx => (kx.1, some (kx.2 / basis fi r))) :=
  ⟨getK_groupSum k _, securityWeightsAt_eq fi n0 r rest⟩

example : securityWeightsAt false exSnap = [(5, some (1 / 2)), (7, some 0)] := by decide +kernel

example : getK 5 (secAgg (basis false) exSnap) = some 50 ∧ sumFor 5 (secPairs (basis false) exSnap) = 50 := by
  decide +kernel

/-- aggregation is a permutation-invariant sum per name: the order in which `members` lists the securities
    does not change any column (in exact arithmetic) -/
theorem aggregate_perm_invariant {l₁ l₂ : List (ι × K)} (p : l₁.Perm l₂) (k : ι) :
    getK k (groupSum l₁) = getK k (groupSum l₂) ∧ getK k (groupSum l₁) =
      (if k ∈ l₁.map Prod.fst then some (sumFor k l₁) else none) :=
  ⟨getK_groupSum_perm p k, getK_groupSum k l₁⟩

example : getK 5 (groupSum [((5 : Nat), (30 : ℚ)), (7, 1), (5, 20)]) = getK 5 (groupSum [(5, 20), (5, 30), (7, 1)]) :=
  (aggregate_perm_invariant (by decide) 5).1

/-- an aggregated frame has exactly one column per ticker -/
theorem aggregate_one_column_per_name (l : List (ι × K)) : ((groupSum l).map Prod.fst).Nodup :=
  nodup_groupSum l

example : (groupSum [((5 : Nat), (30 : ℚ)), (7, 1), (5, 20)]).map Prod.fst = [5, 7] := by decide +kernel

/-- Sum to one: given the balance identity of the date (C01: the root's value is the cash of all strategies
    plus the values of all securities of the tree) and a non-zero root value, the aggregated security weights
    together with all strategies' cash fractions add up to one — for every tree shape and any sharing of
    tickers.  (Market-value roots; under a fixed-income root weights are notional based.) -/
theorem security_weights_sum (n0 : Node ι) (r : Cell K) (rest : Snap ι K)
    (hC01 : r.value = ((((n0, r) :: rest).filter (fun nc => !nc.1.isSec)).map (fun nc => nc.2.cash)).sum +
                      ((((n0, r) :: rest).filter (fun nc => nc.1.isSec)).map (fun nc => nc.2.value)).sum)
    (hV : r.value ≠ 0) :
    sumSome ((securityWeightsAt false ((n0, r) :: rest)).map Prod.snd) +
      sumSome ((cashFractionsAt ((n0, r) :: rest)).map Prod.snd) = 1 := by
  rw [sumSome_securityWeights, sumSome_cashFractions]
  have hb : ∀ c : Cell K, basis false c = c.value := fun _ => rfl
  simp only [hb]
  rw [← add_div, add_comm, ← hC01, div_self hV]

example : sumSome ((securityWeightsAt false exSnap).map Prod.snd) + sumSome ((cashFractionsAt exSnap).map Prod.snd) = 1 :=
  security_weights_sum _ _ _ (by decide +kernel) (by decide +kernel)

/-! ### positions -/

/-- `Backtest.positions`: per ticker the sum of the positions of all securities of that name -/
theorem positions_aggregate (s : Snap ι K) (k : ι) :
    getK k (positionsAt s) =
      (if k ∈ (secPairs Cell.pos s).map Prod.fst then some (sumFor k (secPairs Cell.pos s)) else none) ∧
    ((positionsAt s).map Prod.fst).Nodup :=
  ⟨getK_groupSum k _, nodup_groupSum _⟩

example : positionsAt exSnap = [(5, 5), (7, 0)] := by decide +kernel

/-! ### transactions -/

/-- Telescoping: for every run (any number of dates), every ticker that has a column and every date, the
    listed quantities of that ticker dated up to that date add up to the aggregated position recorded on that
    date. -/
theorem transactions_cumulate (r : Run ι K) (k : ι) (hk : ∀ s ∈ r.dates, (getK k (positionsAt s)).isSome)
    (t : Nat) (s : Snap ι K) (hs : r.dates[t]? = some s) (pos : K) (hpos : getK k (positionsAt s) = some pos) :
    cumQty k t (transactions r) = pos := by
  have h := cumQty_txnFrom r.boSet k r.dates 0 none hk t s hs
  simp only [Nat.zero_add] at h
  unfold transactions
  rw [h, hpos]
  simp [base]

example : cumQty 5 1 (transactions exRun) = 5 ∧ cumQty 5 0 (transactions exRun) = 0 ∧
    transactions exRun = [{ date := 1, name := 5, qty := 5, price := some (51 / 5) }] := by decide +kernel

/-- every listed row has a non-zero quantity and is dated inside the run -/
theorem transactions_nonzero (bo : Bool) (t : Nat) (prev : Option (List (ι × K))) (s : Snap ι K) (x : Txn ι K)
    (h : x ∈ txnRows bo t prev s) : x.qty ≠ 0 ∧ x.date = t := by
  refine ⟨?_, date_txnRows h⟩
  unfold txnRows at h
  rcases List.mem_filterMap.1 h with ⟨kx, _, hr⟩
  unfold txnRow at hr
  split at hr
  · rename_i hz
    cases hr
    exact (isNonzero_iff _).1 hz
  · cases hr

example : ∀ x ∈ txnRows true 1 (some (positionsAt exSnap0)) exSnap, x.qty ≠ 0 ∧ x.date = 1 :=
  fun x h => transactions_nonzero _ _ _ _ x h

/-- The listed price is the market price of the ticker plus — with bid/offer accounting — the sum over ALL
    securities of that name of (bid/offer paid on the date / multiplier), over the listed (net) quantity; without
    bid/offer accounting it is the market price. -/
theorem transaction_price (boSet : Bool) (k : ι) (d p : K) (s : Snap ι K)
    (hp : lastOf Cell.price k s = some (some p))
    (hk : k ∈ (secPairs (fun c => c.boPaid / c.mult) s).map Prod.fst) :
    txnPrice boSet k d s =
      some (if boSet then p + sumFor k (secPairs (fun c => c.boPaid / c.mult) s) / d else p) := by
  have hb : getK k (spreadAt s) = some (sumFor k (secPairs (fun c => c.boPaid / c.mult) s)) := by
    unfold spreadAt secAgg; rw [getK_groupSum]; simp [hk]
  unfold txnPrice
  cases boSet <;> simp [hp, hb, ofNum_eq]

example : txnPrice true 5 5 exSnap = some (10 + 1 / 5) ∧ txnPrice false 5 5 exSnap = some 10 ∧
    txnPrice true 5 5 sharedSnap = some (10 + 1 / 5) ∧ txnPrice true 1 4 mRun.dates.getLast! = some (10 + 1 / 4) := by
  decide +kernel

/-- Price = outlay / (quantity × multiplier) = execution price: when the date's only trade of the ticker — in
    whichever of the securities of that name, with any multiplier `m ≠ 0` — moved `d ≠ 0` units at market `p`
    with half spread `h` (outlay `d·p·m + |d|·h·m`, bid/offer paid `|d|·h·m`, the other securities of the name
    paid nothing), the listed price is `p + h` for a purchase and `p − h` for a sale. -/
theorem transaction_price_is_execution_price (k : ι) (d p h m : K) (s : Snap ι K) (hd : d ≠ 0) (hm : m ≠ 0)
    (hp : lastOf Cell.price k s = some (some p))
    (hk : k ∈ (secPairs (fun c => c.boPaid / c.mult) s).map Prod.fst)
    (hb : sumFor k (secPairs (fun c => c.boPaid / c.mult) s) = marketSpread d h m / m) :
    txnPrice true k d s = some ((d * p * m + marketSpread d h m) / (d * m)) ∧
    (0 < d → txnPrice true k d s = some (p + h)) ∧ (d < 0 → txnPrice true k d s = some (p - h)) := by
  rw [transaction_price true k d p s hp hk, hb]
  simp only [↓reduceIte, marketSpread, absA_eq]
  refine ⟨?_, ?_, ?_⟩
  · congr 1; field_simp
  · intro h0; rw [abs_of_pos h0]; congr 1; field_simp
  · intro h0; rw [abs_of_neg h0]; congr 1; field_simp; ring

example : txnPrice true 1 4 mRun.dates.getLast! = some ((4 * 10 * 10 + marketSpread 4 (1 / 4) 10) / (4 * 10)) :=
  (transaction_price_is_execution_price 1 4 10 (1 / 4) 10 _ (by decide) (by decide) (by decide +kernel)
    (by decide +kernel) (by decide +kernel)).1

/-- What the list shows for a ticker that traded once on a date: its aggregated position moved from `x` to
    `x + q` (`q ≠ 0`), the market price is `p`, the (bid/offer paid / multiplier) of the securities of that name
    adds up to `spread / mult`: the row is `listedRow` — the quantity `q` at `p + spread / mult / q` — which is
    what the replay theorem below feeds to `ReplayTransactions`. -/
theorem txnRow_of_single_trade (t : Nat) (pv : List (ι × K)) (s : Snap ι K) (tr : OTrade ι K) (x : K)
    (hprev : getK tr.name pv = some x) (hq : tr.qty ≠ 0)
    (hp : lastOf Cell.price tr.name s = some (some tr.price))
    (hb : getK tr.name (spreadAt s) = some (tr.spread / tr.mult)) :
    (txnRow true t (some pv) s (tr.name, x + tr.qty)).map (fun r => (r.name, some r.qty, r.price)) =
      some (listedRow tr) := by
  have hqty : qtyAt (some pv) tr.name (x + tr.qty) = tr.qty := by simp [qtyAt, hprev]
  have hnz : isNonzero tr.qty = true := (isNonzero_iff _).2 hq
  unfold txnRow
  simp only [hqty, hnz, ↓reduceIte, Option.map_some, listedRow, ofNum_eq]
  simp [txnPrice, hp, hb, ofNum_eq]

example : (txnRow true 1 (some (positionsAt mRun.dates.head!)) mRun.dates.getLast! (1, 0 + 4)).map
    (fun r => (r.name, some r.qty, r.price)) = some (listedRow mTrade) := by decide +kernel

/-! ### turnover and the Herfindahl index -/

/-- `Backtest.turnover`: min(purchases, sales) over the root's VALUE, where purchases (sales) are the
    non-negative (negated negative) outlays of the date, aggregated per ticker first. -/
theorem turnover_def (n0 : Node ι) (r : Cell K) (rest : Snap ι K) (h : outlaysAt ((n0, r) :: rest) ≠ []) :
    turnoverAt ((n0, r) :: rest) =
      some (min ((outlaysAt ((n0, r) :: rest)).map (fun kx => max kx.2 0)).sum
                ((outlaysAt ((n0, r) :: rest)).map (fun kx => max (-kx.2) 0)).sum / r.value) :=
  turnoverAt_eq n0 r rest h

example : outlaysAt exSnap = [(5, 20), (7, -5)] ∧ turnoverAt exSnap = some (5 / 100) := by decide +kernel

/-- a tree without any security has an empty outlay frame: nothing was bought or sold and the turnover is
    0 over the root's value, i.e. 0, on every date (before 9e115a9 it was NaN:
    `witness_turnover_no_securities_before_repair`) -/
theorem turnover_no_security (n0 : Node ι) (r : Cell K) (rest : Snap ι K) (h : outlaysAt ((n0, r) :: rest) = []) :
    turnoverAt ((n0, r) :: rest) = some 0 := by
  unfold turnoverAt
  simp [h, divO_eq]

example : turnoverAt [(nodeS 0 0, cellS 100 0 100 100)] = some 0 := turnover_no_security _ _ _ (by decide +kernel)

/-- `Backtest.herfindahl_index`: the sum of the squared aggregated security weights -/
theorem hhi_def (fi : Bool) (n0 : Node ι) (r : Cell K) (rest : Snap ι K) :
    herfindahlAt fi ((n0, r) :: rest) =
      ((secAgg (basis fi) ((n0, r) :: rest)).map (fun kx => (kx.2 / basis fi r) ^ 2)).sum := by
  rw [herfindahlAt_eq]
  congr 1
  exact List.map_congr_left (fun kx _ => (sq _).symm)

example : herfindahlAt false exSnap = 1 / 4 := by decide +kernel

/-! ### the Result's price series -/

/-- `Result.prices[name]` and `backtest.stats.prices` are the root's `_prices` rows — the strategy's index —
    date by date; no other field of any node is read. -/
theorem result_is_index (r : Run ι K) :
    (reports r).map (fun d => d.price) = r.dates.map (fun s => s.head?.bind (fun nc => nc.2.price)) := by
  unfold reports
  rw [List.map_map]
  apply List.map_congr_left
  intro s _
  cases s with
  | nil => rfl
  | cons a l => rfl

example : (reports exRun).map (fun d => d.price) = [some 100, some 101] := by decide +kernel

/-! ### replay -/

/-- One date: when every trade of the date is in a different security (so the list shows each as a row of
    its own, `txnRow_of_single_trade`), is not `is_zero`, was executed at the date's market price on a security
    with any non-zero multiplier, and the commission does not change when it is charged on the spread-inclusive
    price, then `ReplayTransactions` fed with the listed rows — in the list's order,
    whatever the execution order was — leaves the positions and the cash the original trades left. -/
theorem replay_day_reproduces {tol : K} (htol : 0 < tol) (fee : K → K → K) (st : RState ι K) (d : ODay ι K)
    (h : GoodDay tol fee st.secs d) :
    replayDay true tol fee d.px st (d.shown.map listedRow) = .ok (origDay fee st d.trades) :=
  replayDay_listed htol st h

example : replayDay true tolQ fee0 px10 rtStart ([oneTrade].map listedRow) = .ok (origDay fee0 rtStart [oneTrade]) ∧
    (origDay fee0 rtStart [oneTrade]).cash = 959 ∧
    replayDay true tolQ fee0 px10 mStart ([mTrade].map listedRow) = .ok (origDay fee0 mStart [mTrade]) ∧
    (origDay fee0 mStart [mTrade]).cash = 590 := by decide +kernel

/-- `replay_reproduces_partial` (induction over the dates, any number of them): under at most one trade per
    security and date and the conditions of `replay_day_reproduces`, replaying the listed rows date by date
    reproduces the original state — every position and the cash, hence every value `cash + Σ pos·price·mult` —
    after every date.

    Partial: (1) the rows are `listedRow` of the executed trades; that `get_transactions` shows exactly these
    rows for such a run is proved per row (`txnRow_of_single_trade`) and for the quantities
    (`transactions_cumulate`); for the positions the composition with `transactions` of the recorded histories
    is `replay_reproduces_positions` below (every run), for cash and values it is not composed into one
    statement; (2) the general statement — any run — is false: see
    `witness_round_trip_vanishes`, `witness_price_dependent_commission`. -/
theorem replay_reproduces_partial {tol : K} (htol : 0 < tol) (fee : K → K → K)
    (rows : Nat → List (ι × Option K × Option K)) (days : List (ODay ι K)) (t0 : Nat) (st : RState ι K)
    (hrows : ∀ j d, days[j]? = some d → rows (t0 + j) = d.shown.map listedRow)
    (hgood : ∀ d ∈ days, GoodDay tol fee st.secs d) :
    replayRun true tol fee rows t0 st (days.map (fun d => d.px)) =
      .ok (origRun fee st (days.map (fun d => d.trades))) :=
  replayRun_listed htol fee rows days t0 st hrows hgood

example : replayTxns true tolQ fee0 (transactions oneRun) 1 rtStart [px10] = .ok (origRun fee0 rtStart [[oneTrade]]) ∧
    GoodDay tolQ fee0 rtStart.secs { px := px10, trades := [oneTrade], shown := [oneTrade] } := by
  refine ⟨by decide +kernel, List.Perm.refl _, by decide, ?_⟩
  intro tr htr
  simp only [List.mem_singleton] at htr
  subst htr
  exact ⟨by decide +kernel, by decide +kernel, rfl, by decide +kernel, by decide +kernel, rfl⟩

/-- Positions, composed and for EVERY run (any tree, shared tickers, any number of trades per date, any
    costs): when the replay of the run's own transaction list completes (children present, bid/offer accounting
    on, prices present) and no listed quantity is `is_zero`, then after every date every child of the replaying
    strategy holds its initial position plus the aggregated position the original run recorded for that ticker
    on that date.  (Induction over the dates; the quantities telescope, `transactions_cumulate`.)  Cash and
    values are reproduced only under the conditions of `replay_reproduces_partial`. -/
theorem replay_reproduces_positions {tol : K} (fee : K → K → K) (bo : Bool) (r : Run ι K) (pxs : List (ι → Option K))
    (st0 : RState ι K) (states : List (RState ι K))
    (hz : ∀ x ∈ transactions r, isZero tol x.qty = false)
    (h : replayTxns bo tol fee (transactions r) 0 st0 pxs = .ok states)
    (k : ι) (hk : ∀ s ∈ r.dates, (getK k (positionsAt s)).isSome)
    (t : Nat) (s : Snap ι K) (hs : r.dates[t]? = some s) (pos : K) (hpos : getK k (positionsAt s) = some pos)
    (sj : RState ι K) (hj : states[t]? = some sj) :
    posOfSec k sj.secs = (posOfSec k st0.secs).map (fun x => x + pos) := by
  have hq : ∀ t', ∀ row ∈ rowsOn t' (transactions r), ∃ q, row.2.1 = some q ∧ isZero tol q = false := by
    intro t' row hrow
    unfold rowsOn at hrow
    rcases List.mem_map.1 hrow with ⟨x, hx, rfl⟩
    exact ⟨x.qty, rfl, hz x (List.mem_filter.1 hx).1⟩
  have h1 := replayRun_pos (fun t' => rowsOn t' (transactions r)) k hq pxs 0 st0 states h t sj hj
  rw [h1, sum_dayQty_eq_cumQty, transactions_cumulate r k hk t s hs pos hpos]

example : (replayTxns true tolQ fee0 (transactions oneRun) 0 rtStart [px10, px10]).map
    (fun l => l.map (fun st => posOfSec 1 st.secs)) = .ok [some 0, some 4] := by decide +kernel

/-- the original day does not depend on the order in which its trades were executed -/
theorem original_day_order_irrelevant (fee : K → K → K) {l₁ l₂ : List (OTrade ι K)} (p : l₁.Perm l₂)
    (st : RState ι K) : origDay fee st l₁ = origDay fee st l₂ :=
  origDay_perm p st

example : origDay fee0 rtStart rtTrades = origDay fee0 rtStart rtTrades.reverse :=
  original_day_order_irrelevant fee0 (List.reverse_perm _).symm rtStart

end

/-! ### witnesses: where the code departs from the property text -/

/-- A same-date round trip vanishes: buying 4 and selling 4 of one security on one date (each paying 1 of
    spread) leaves the position where it was, so `get_transactions` lists nothing for the date; the original
    run ends the date with 998 in cash, the replay of the (empty) list with 1000. -/
theorem witness_round_trip_vanishes :
    (origDay fee0 rtStart rtTrades).cash = 998 ∧ (origDay fee0 rtStart rtTrades).secs.map (fun s => s.pos) = [0] ∧
    transactions rtRun = [] ∧
    (replayTxns true tolQ fee0 (transactions rtRun) 1 rtStart [px10]).map (fun l => l.map (fun st => st.cash)) = .ok [1000] := by
  decide +kernel

/-- One trade per date is not enough when the commission depends on the price: the original fee is charged on
    the market price (4·10/100), the replayed one on the listed, spread-inclusive price (4·10.25/100). -/
theorem witness_price_dependent_commission :
    (origDay feeProp rtStart [oneTrade]).cash = 1000 - 41 - 40 / 100 ∧
    (replayTxns true tolQ feeProp (transactions oneRun) 1 rtStart [px10]).map (fun l => l.map (fun st => st.cash))
      = .ok [1000 - 41 - 41 / 100] := by
  decide +kernel

/-! Pre-repair behaviour (the formulas `txnPriceOld` / `turnoverAtOld` the code used before 445d8ee, 1793789,
    9e115a9), next to what the repaired model gives on the same histories. -/

/-- Before 445d8ee the bid/offer paid (cash, multiplier included) was divided by the quantity only: 4 units @10
    with multiplier 10 and half spread 1/4 pay 10 of spread; the execution price is 10.25, the old list showed
    10 + 10/4 = 12.5. -/
theorem witness_multiplier_price_before_repair :
    marketSpread (4 : ℚ) (1 / 4) 10 = 10 ∧
    txnPriceOld 1 4 mRun.dates.getLast! = some (25 / 2) ∧ txnPrice true 1 4 mRun.dates.getLast! = some (41 / 4) := by
  decide +kernel

/-- Before 1793789 only the LAST same-named security's bid/offer paid entered the price: in `sharedSnap` the
    first security `5` paid 1 of spread and the second nothing; the old list showed the bare market price. -/
theorem witness_shared_ticker_spread_dropped_before_repair :
    txnPriceOld 5 5 sharedSnap = some 10 ∧ txnPrice true 5 5 sharedSnap = some (51 / 5) := by
  decide +kernel

/-- Before 9e115a9 a run that never created a security had NaN turnover on every date while "the lesser of
    purchases and sales over NAV" is 0 / NAV = 0. -/
theorem witness_turnover_no_securities_before_repair :
    turnoverAtOld [(nodeS 0 0, cellS 100 0 100 100)] = none ∧
    turnoverAt [(nodeS 0 0, cellS 100 0 100 100)] = some 0 ∧
    herfindahlAt false [(nodeS 0 0, cellS 100 0 100 100)] = 0 := by
  decide +kernel

end Bt.C18
