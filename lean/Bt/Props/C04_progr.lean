import Bt.Proofs.ProgramR
import Bt.Proofs.ProgramREx
import Bt.Props.C04_progx
/-! C04 for blotter-driven strategies inside the whole-program model — **no look-ahead**.

    `Bt/Algos/ProgramR.lean`: `progRunR cfg p path` is the stack `[ReplayTransactions(frame)]` /
    `[SimulateRFQTransactions(frame, model)]` of the strategy at `path`: on row `d` the rows of the frame stamped in
    `(timeline[d-1], timeline[d]]` (`Blotter.select`, frame order), each executed as `transact(quantity, price=price,
    update=False)` on the child it names, then `root.update(now)`.  The model is tied to bt/algos.py by the `whole-run-r`
    protocol (complete backtests, every node history compared bit for bit).

    (1) `progRunR` is causal and public like every other node function — so trees that contain blotter-driven strategies are
        covered by the generic whole-backtest theorems of `C04_progx` (one blotter, two data sets);
    (2) it is causal *in its blotter* (`CausalWith (BlotterAgree cut)`): a second blotter with the same rows stamped up to
        `cut` does the same at every date whose stamp is `≤ cut`;
    (3) GENERIC: two trees of run functions that correspond node by node (`Nodes2`) — a complete backtest of each, on two data
        sets that agree up to row `t`, records the same histories up to `t`;  (4) the instance for blotters. -/
set_option linter.unusedSectionVars false
namespace Bt.C04
open Bt Bt.P08 Bt.P04 Bt.Prog Bt.PProg Bt.PProgX Bt.PProgR Bt.Blotter Bt.Select

variable {K : Type} [Field K] [LinearOrder K] [IsStrictOrderedRing K] [HasFloor K] [Select.HasNatFloor K]

/-! ### (1) a node function like the others -/

/-- **a blotter-driven stack is causal and public** (any frame, any timeline, any multiplier, at every path, for every `t`):
    truncating the engine's data after `t` commutes with it at every date `d ≤ t`, and all it does are public calls -/
theorem progRunR_causal_public (cfg : Cfg K) (t : Nat) (p : ProgR K) (path : List Nat) :
    Causal t (progRunR cfg p path) ∧ P04.RunPublic cfg (progRunR cfg p path) :=
  ⟨PProgR.progRunR_causal p path t, PProgR.progRunR_public p path⟩

example : Causal 2 (progRunR cfgE progRA []) ∧ P04.RunPublic cfgE (progRunR cfgE progRA []) :=
  progRunR_causal_public cfgE 2 progRA []

/-- the row loop alone (the `for … in rows.iterrows()` of one call) -/
theorem execRows_causal_public (cfg : Cfg K) (t : Nat) (mult : Option K) (path : List Nat) (rows : List (Int × BRow K)) :
    Causal t (fun _ w => execRows cfg mult path rows w) ∧ P04.RunPublic cfg (fun _ w => execRows cfg mult path rows w) :=
  PProgR.execRows_causal_public t mult path rows

/-- hence: **one blotter, two data sets** — a tree of causal public node functions some of which are blotter-driven; this is
    `gtree_backtest_causal` with nothing left to show for the blotter nodes.  Stated for a blotter-driven root over securities
    and for a blotter-driven sub-strategy under any causal public parent. -/
theorem blotter_root_backtest_causal (cfg : Cfg K) (p : ProgR K) (kids : List (Option (GTree K)))
    (hk : ∀ k ∈ kids, k = none) {t : Nat} {w w' : World K} (hw : w.trunc t = w'.trunc t) (hz : HedgeZero w.root)
    (capital : K) (d0 : Nat) (hd0 : d0 ≤ t) (pre post : List Nat) (hpre : ∀ d ∈ pre, d ≤ t) (hpost : ∀ d ∈ post, t < d)
    {r r' : World K}
    (h : btRun cfg (treeRunG (.node (progRunR cfg p) kids) []) capital (d0 :: (pre ++ post)) w = .ok r)
    (h' : btRun cfg (treeRunG (.node (progRunR cfg p) kids) []) capital (d0 :: (pre ++ post)) w' = .ok r') :
    (∀ j, j ≤ t → rowsAt j r.root = rowsAt j r'.root) ∧ rowLens r.root = rowLens r'.root := by
  have hall : ∀ (P : RunFn K → Prop) (ks : List (Option (GTree K))), (∀ k ∈ ks, k = none) → ∀ path i,
      AllNodesL P ks path i := by
    intro P ks
    induction ks with
    | nil => intro _ path i; rw [allNodesL_nil]; trivial
    | cons k ks ih =>
      intro hks path i
      obtain rfl := hks k (List.mem_cons_self ..)
      rw [allNodesL_none]
      exact ih (fun x hx => hks x (List.mem_cons_of_mem _ hx)) path (i + 1)
  refine gtree_backtest_causal cfg _ ?_ ?_ hw hz capital d0 hd0 pre post hpre hpost h h'
  · rw [allNodes_node]; exact ⟨PProgR.progRunR_causal p [] t, hall _ kids hk [] 0⟩
  · rw [allNodes_node]; exact ⟨PProgR.progRunR_public p [], hall _ kids hk [] 0⟩

theorem wRA_hedgeZero : HedgeZero wRA.root := by
  simp [wRA, secB, secE, HedgeZero, HedgeZeroL, isHedge]

/-- blotter A on data sets A and B (equal on rows 0-2): both backtests succeed; rows 0-2 of everything agree; after row 2 the
    root holds 5 `x`, 3 `y` (the row stamped −5 was never executed) and is worth 1000 − 5·11 − 2·20 − 19 + 5·11 + 3·19 = 998 -/
example : ∃ r r', btRun cfgE (treeRunG gtreeRA []) 1000 (0 :: ([1, 2] ++ [3])) wRA = .ok r ∧
    btRun cfgE (treeRunG gtreeRA []) 1000 (0 :: ([1, 2] ++ [3])) wRB = .ok r' ∧
    (∀ j, j ≤ 2 → rowsAt j r.root = rowsAt j r'.root) ∧
    (rowsAt 2 r.root).take 2 = [some (499 / 5), some 998] ∧
    (rowsAt 3 r.root).take 2 ≠ (rowsAt 3 r'.root).take 2 := by
  have hA : (btRun cfgE (treeRunG gtreeRA []) 1000 [0, 1, 2, 3] wRA).toOption.map
      (fun r => ((rowsAt 2 r.root).take 2, (rowsAt 3 r.root).take 2)) =
      some ([some (499 / 5), some 998], [some (1009 / 10), some 1009]) := by decide +kernel
  have hB : (btRun cfgE (treeRunG gtreeRA []) 1000 [0, 1, 2, 3] wRB).toOption.map
      (fun r => (rowsAt 3 r.root).take 2) = some [some (524 / 5), some 1048] := by decide +kernel
  obtain ⟨r, hr, ha⟩ := P16.exists_of_toOption_map hA
  obtain ⟨r', hr', hb⟩ := P16.exists_of_toOption_map hB
  simp only [Prod.mk.injEq] at ha
  refine ⟨r, r', hr, hr', (blotter_root_backtest_causal cfgE progRA [none, none] (by simp) (t := 2) (w := wRA) (w' := wRB) rfl
    wRA_hedgeZero 1000 0 (by decide) [1, 2] [3] (by decide) (by decide) hr hr').1, ha.1, ?_⟩
  rw [ha.2, hb]; decide +kernel

/-! ### (2) causal in the blotter -/

/-- **No look-ahead into the blotter.**  `BlotterAgree cut t p p'`: same timeline and multiplier, the stamps of rows `0..t` of
    the timeline are `≤ cut`, and the two frames have the same rows stamped `≤ cut` in the same order (rows stamped later may
    differ in any way — other quantities, other prices, dropped, added, anywhere in the frame).  Then `progRunR p'` on the data
    truncated after `t` does at every date `d ≤ t` what `progRunR p` does on the full data (`select_causal`). -/
theorem progRunR_causalWith (cfg : Cfg K) (cut : Int) (t : Nat) (path : List Nat) :
    CausalWith (BlotterAgree cut) t (fun p => progRunR cfg p path) :=
  PProgR.progRunR_causalWith cut t path

/-- the rows handed to every call up to `t` are the same -/
theorem blotter_rows_agree {cut : Int} {t : Nat} {p p' : ProgR K} (h : BlotterAgree cut t p p') {d : Nat} (hd : d ≤ t) :
    select p'.timeline d p'.rows = select p.timeline d p.rows :=
  congrArg Prod.snd (PProgR.pick_agree h hd)

theorem progRAB_agree : BlotterAgree 20 2 progRA progRB := by
  refine ⟨rfl, rfl, ?_, by decide⟩
  intro d now hd hn
  have : d = 0 ∨ d = 1 ∨ d = 2 := by omega
  rcases this with rfl | rfl | rfl <;> (simp [progRA, tlE] at hn; omega)

example : CausalPair 2 (progRunR cfgE progRA []) (progRunR cfgE progRB []) ∧
    select tlE 2 progRB.rows = [(15, (0, 5, 11))] ∧ select tlE 3 progRB.rows ≠ select tlE 3 progRA.rows :=
  ⟨progRunR_causalWith cfgE 20 2 [] _ _ progRAB_agree, by decide, by decide⟩

/-! ### (3) GENERIC: two trees that correspond node by node -/

/-- **two trees of run functions with the same shape whose corresponding nodes agree up to `t`** (`CausalPair`), the nodes
    of the first being public: `Strategy.run()` of the two trees agrees up to `t` -/
theorem treeRunG_causalPair (cfg : Cfg K) {t : Nat} (tr tr' : GTree K) (path : List Nat)
    (h : Nodes2 (fun f f' => CausalPair t f f' ∧ P04.RunPublic cfg f) tr tr' path) :
    CausalPair t (treeRunG tr path) (treeRunG tr' path) :=
  (PProgR.treeRunG_causalPair tr tr' path h).1

/-- **No look-ahead of whole backtests, two programs.**  Trees `tr`, `tr'` of the same shape whose corresponding nodes agree
    up to `t`; every node of both causal and public; two data sets that agree on every row `≤ t`; dates `d0 :: (pre ++ post)`
    with `d0`, `pre` all `≤ t` and `post` all `> t`.  If both complete backtests succeed, every recorded entry of every node at
    every index `j ≤ t` is the same in both results and all rows have the same lengths. -/
theorem gtree2_backtest_causal (cfg : Cfg K) (tr tr' : GTree K) {t : Nat}
    (h2 : Nodes2 (fun f f' => CausalPair t f f' ∧ P04.RunPublic cfg f) tr tr' [])
    (hc' : AllNodes (Causal t) tr' []) (hp' : AllNodes (P04.RunPublic cfg) tr' [])
    {w w' : World K} (hw : w.trunc t = w'.trunc t) (hz : HedgeZero w.root)
    (capital : K) (d0 : Nat) (hd0 : d0 ≤ t) (pre post : List Nat) (hpre : ∀ d ∈ pre, d ≤ t)
    (hpost : ∀ d ∈ post, t < d) {r r' : World K}
    (h : btRun cfg (treeRunG tr []) capital (d0 :: (pre ++ post)) w = .ok r)
    (h' : btRun cfg (treeRunG tr' []) capital (d0 :: (pre ++ post)) w' = .ok r') :
    (∀ j, j ≤ t → rowsAt j r.root = rowsAt j r'.root) ∧ rowLens r.root = rowLens r'.root :=
  btRun_causal_pair (PProgR.treeRunG_causalPair tr tr' [] h2).1 (treeRunG_causal cfg tr' [] t hc' hp')
    (PProgR.treeRunG_causalPair tr tr' [] h2).2 (treeRunG_public cfg tr' [] hp') hw hz capital d0 hd0 pre post hpre hpost h h'

/-! ### (4) the instance: blotters that agree up to the cut -/

/-- a blotter-driven node against the same node with a blotter that agrees up to `cut` -/
theorem progRunR_pair (cfg : Cfg K) {cut : Int} {t : Nat} {p p' : ProgR K} (h : BlotterAgree cut t p p') (path : List Nat) :
    CausalPair t (progRunR cfg p path) (progRunR cfg p' path) ∧ P04.RunPublic cfg (progRunR cfg p path) :=
  ⟨PProgR.progRunR_causalWith cut t path p p' h, PProgR.progRunR_public p path⟩

/-- any causal public node against itself -/
theorem same_node_pair (cfg : Cfg K) {t : Nat} {f : RunFn K} (hc : Causal t f) (hp : P04.RunPublic cfg f) :
    CausalPair t f f ∧ P04.RunPublic cfg f := ⟨hc, hp⟩

/-- **No look-ahead of a complete backtest of a blotter-driven strategy: two blotters, two data sets.**  A flat strategy
    replaying blotter `p` on data `w`, and blotter `p'` on data `w'`; the blotters agree on the rows stamped up to `cut`
    (which covers rows `0..t` of the timeline), the data agree on rows `≤ t`.  Whatever both runs record up to row `t` is the
    same. -/
theorem blotter_backtest_causal (cfg : Cfg K) {cut : Int} {t : Nat} {p p' : ProgR K} (hE : BlotterAgree cut t p p')
    {w w' : World K} (hw : w.trunc t = w'.trunc t) (hz : HedgeZero w.root)
    (capital : K) (d0 : Nat) (hd0 : d0 ≤ t) (pre post : List Nat) (hpre : ∀ d ∈ pre, d ≤ t)
    (hpost : ∀ d ∈ post, t < d) {r r' : World K}
    (h : btRun cfg (progRunR cfg p []) capital (d0 :: (pre ++ post)) w = .ok r)
    (h' : btRun cfg (progRunR cfg p' []) capital (d0 :: (pre ++ post)) w' = .ok r') :
    (∀ j, j ≤ t → rowsAt j r.root = rowsAt j r'.root) ∧ rowLens r.root = rowLens r'.root :=
  btRun_causal_pair (PProgR.progRunR_causalWith cut t [] p p' hE) (PProgR.progRunR_causal p' [] t)
    (PProgR.progRunR_public p []) (PProgR.progRunR_public p' []) hw hz capital d0 hd0 pre post hpre hpost h h'

/-- blotter A on data set A against blotter B on data set B (the blotters agree up to stamp 20 = row 2, the data up to row 2):
    both succeed, rows 0-2 of everything recorded agree, row 3 does not (B buys 40 `x` at 1 and sells 3 `y` at 50) -/
example : ∃ r r', btRun cfgE (progRunR cfgE progRA []) 1000 (0 :: ([1, 2] ++ [3])) wRA = .ok r ∧
    btRun cfgE (progRunR cfgE progRB []) 1000 (0 :: ([1, 2] ++ [3])) wRB = .ok r' ∧
    (∀ j, j ≤ 2 → rowsAt j r.root = rowsAt j r'.root) ∧
    (rowsAt 3 r.root).take 2 ≠ (rowsAt 3 r'.root).take 2 := by
  have hA : (btRun cfgE (progRunR cfgE progRA []) 1000 [0, 1, 2, 3] wRA).toOption.map
      (fun r => (rowsAt 3 r.root).take 2) = some [some (1009 / 10), some 1009] := by decide +kernel
  have hB : (btRun cfgE (progRunR cfgE progRB []) 1000 [0, 1, 2, 3] wRB).toOption.map
      (fun r => ((rowsAt 3 r.root).take 1).length) = some 1 := by decide +kernel
  have hB2 : (btRun cfgE (progRunR cfgE progRB []) 1000 [0, 1, 2, 3] wRB).toOption.map
      (fun r => decide ((rowsAt 3 r.root).take 2 = [some (1009 / 10), some 1009])) = some false := by decide +kernel
  obtain ⟨r, hr, ha⟩ := P16.exists_of_toOption_map hA
  obtain ⟨r', hr', -⟩ := P16.exists_of_toOption_map hB
  refine ⟨r, r', hr, hr', (blotter_backtest_causal cfgE progRAB_agree (w := wRA) (w' := wRB) rfl wRA_hedgeZero 1000 0
    (by decide) [1, 2] [3] (by decide) (by decide) hr hr').1, ?_⟩
  rw [hr'] at hB2
  rw [ha]
  intro hh
  simp [Except.toOption, ← hh] at hB2

/-- **… nested**: a blotter-driven sub-strategy under an ordinary parent (any `progRunX`), next to securities: the trees with
    blotter `p` and with blotter `p'` correspond node by node -/
theorem nested_blotter_nodes2 (cfg : Cfg K) {cut : Int} {t : Nat} {p p' : ProgR K} (hE : BlotterAgree cut t p p')
    (par : ProgX K) (path : List Nat) :
    Nodes2 (fun f f' => CausalPair t f f' ∧ P04.RunPublic cfg f)
      (.node (progRunX cfg par) [some (.node (progRunR cfg p) []), none])
      (.node (progRunX cfg par) [some (.node (progRunR cfg p') []), none]) path := by
  rw [nodes2_node]
  refine ⟨same_node_pair cfg (progRunX_causal cfg par path t) (progRunX_public cfg par path), ?_⟩
  rw [NodesL2, nodes2_node, NodesL2, NodesL2, NodesL2]
  exact ⟨⟨progRunR_pair cfg hE _, trivial⟩, trivial⟩

/-- a complete backtest of `[parent stack] over (blotter-driven sub-strategy, security)` with two blotters that agree up to
    the cut, on two data sets that agree up to row `t` -/
theorem nested_blotter_backtest_causal (cfg : Cfg K) {cut : Int} {t : Nat} {p p' : ProgR K} (hE : BlotterAgree cut t p p')
    (par : ProgX K)
    {w w' : World K} (hw : w.trunc t = w'.trunc t) (hz : HedgeZero w.root)
    (capital : K) (d0 : Nat) (hd0 : d0 ≤ t) (pre post : List Nat) (hpre : ∀ d ∈ pre, d ≤ t)
    (hpost : ∀ d ∈ post, t < d) {r r' : World K}
    (h : btRun cfg (treeRunG (.node (progRunX cfg par) [some (.node (progRunR cfg p) []), none]) []) capital
      (d0 :: (pre ++ post)) w = .ok r)
    (h' : btRun cfg (treeRunG (.node (progRunX cfg par) [some (.node (progRunR cfg p') []), none]) []) capital
      (d0 :: (pre ++ post)) w' = .ok r') :
    (∀ j, j ≤ t → rowsAt j r.root = rowsAt j r'.root) ∧ rowLens r.root = rowLens r'.root := by
  refine gtree2_backtest_causal cfg _ _ (nested_blotter_nodes2 cfg hE par []) ?_ ?_ hw hz capital d0 hd0 pre post hpre hpost h h'
  · rw [allNodes_node, allNodesL_some, allNodes_node, allNodesL_nil, allNodesL_none, allNodesL_nil]
    exact ⟨progRunX_causal cfg par [] t, ⟨PProgR.progRunR_causal p' _ t, trivial⟩, trivial⟩
  · rw [allNodes_node, allNodesL_some, allNodes_node, allNodesL_nil, allNodesL_none, allNodesL_nil]
    exact ⟨progRunX_public cfg par [], ⟨PProgR.progRunR_public p' _, trivial⟩, trivial⟩

example : Nodes2 (fun f f' => CausalPair 2 f f' ∧ P04.RunPublic cfgE f)
    (.node (progRunX cfgE progXPar) [some (.node (progRunR cfgE progRA) []), none])
    (.node (progRunX cfgE progXPar) [some (.node (progRunR cfgE progRB) []), none]) [] :=
  nested_blotter_nodes2 cfgE progRAB_agree progXPar []

end Bt.C04
