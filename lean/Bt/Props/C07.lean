import Bt.Proofs.Ledger
import Bt.Proofs.LedgerEx
import Mathlib.Tactic.NormNum
/-! C07 — cash ledger (property theorems only; helper lemmas live in `Bt.Proofs.Ledger`). -/
namespace Bt.C07
open Bt
set_option linter.unusedSectionVars false

variable {K : Type} [Field K] [LinearOrder K] [IsStrictOrderedRing K] [HasFloor K]

/-- An executed trade of `q` at the market price `p` (no custom price): the position moves by `q`, the
    outlay accumulator by `q·p·mult + spread` with `spread = |q|·½·bidoffer·mult`, bid/offer-paid by the
    spread; the single adjustment sent to the security's parent is `−(outlay + fee)` with
    `fee = comm q (p·mult)`, carries that fee, and is never a flow.  Nothing else of the security changes. -/
theorem transact_books (cfg : Cfg K) (comm : K → K → K) (s s' : SecData K) (q : K) (adj : Adj K)
    (h : secTransactCore cfg comm s q none = .ok (s', some adj)) :
    ∃ p bo, s.price = some p ∧ s.bidoffer = some bo ∧
      s'.position = s.position + q ∧
      s'.outlayAcc - s.outlayAcc = q * p * s.mult + |q| * cfg.half * bo * s.mult ∧
      s'.bidofferPaid - s.bidofferPaid = |q| * cfg.half * bo * s.mult ∧
      adj.fee = comm q (p * s.mult) ∧
      adj.amount = -((q * p * s.mult + |q| * cfg.half * bo * s.mult) + comm q (p * s.mult)) ∧
      adj.flow = false ∧
      s' = { s with needupdate := true, position := s'.position, outlayAcc := s'.outlayAcc,
                    bidofferPaid := s'.bidofferPaid } := by
  rcases secTransactCore_ok h with ⟨_, _, h3⟩ | ⟨_, full, outlay, fee, bo, ho, hs, ha⟩
  · cases h3
  · obtain ⟨p, b, hp, hb, hr⟩ := secOutlay_none_ok ho
    simp only [Prod.mk.injEq] at hr
    obtain ⟨rfl, rfl, rfl, rfl⟩ := hr
    simp only [Option.some.injEq] at ha
    subst ha; subst hs
    refine ⟨p, b, hp, hb, rfl, ?_, ?_, rfl, rfl, rfl, rfl⟩ <;> simp

example : ∃ s' adj, secTransactCore LEx.cfg LEx.comm LEx.sec (-4) none = .ok (s', some adj) := by
  norm_num [secTransactCore, secOutlay, isZero, absA, LEx.cfg, LEx.sec, Except.bind, pure, Except.pure]

/-- The same with a custom execution price `cp`: the "spread" is the price difference `q·(cp − p)·mult`
    and the commission is evaluated at `cp·mult`. -/
theorem transact_books_custom (cfg : Cfg K) (comm : K → K → K) (s s' : SecData K) (q cp : K) (adj : Adj K)
    (h : secTransactCore cfg comm s q (some cp) = .ok (s', some adj)) :
    ∃ p, s.price = some p ∧ s.bidofferSet = true ∧
      s'.position = s.position + q ∧
      s'.outlayAcc - s.outlayAcc = q * p * s.mult + q * (cp - p) * s.mult ∧
      s'.bidofferPaid - s.bidofferPaid = q * (cp - p) * s.mult ∧
      adj.fee = comm q (cp * s.mult) ∧
      adj.amount = -((q * p * s.mult + q * (cp - p) * s.mult) + comm q (cp * s.mult)) ∧
      adj.flow = false ∧
      s' = { s with needupdate := true, position := s'.position, outlayAcc := s'.outlayAcc,
                    bidofferPaid := s'.bidofferPaid } := by
  have hbs : s.bidofferSet = true := by
    unfold secTransactCore at h
    by_cases hb : s.bidofferSet = true
    · exact hb
    · simp only [Bool.not_eq_true] at hb
      split at h
      · cases h
      · simp [hb] at h
  rcases secTransactCore_ok h with ⟨_, _, h3⟩ | ⟨_, full, outlay, fee, bo, ho, hs, ha⟩
  · cases h3
  · obtain ⟨p, hp, hr⟩ := secOutlay_some_ok ho
    simp only [Prod.mk.injEq] at hr
    obtain ⟨rfl, rfl, rfl, rfl⟩ := hr
    simp only [Option.some.injEq] at ha
    subst ha; subst hs
    refine ⟨p, hp, hbs, rfl, ?_, ?_, rfl, rfl, rfl, rfl⟩ <;> simp

example : ∃ s' adj, secTransactCore LEx.cfg LEx.comm LEx.sec 5 (some 51) = .ok (s', some adj) := by
  norm_num [secTransactCore, secOutlay, isZero, absA, LEx.cfg, LEx.sec, Except.bind, pure, Except.pure]

/-- A quantity below the tolerance is not traded: no state change, no adjustment (hence no fee). -/
theorem transact_zero_noop (cfg : Cfg K) (comm : K → K → K) (s : SecData K) (q : K) (custom : Option K)
    (hq : |q| < cfg.tol) : secTransactCore cfg comm s q custom = .ok (s, none) := by
  unfold secTransactCore
  rw [(isZero_iff_L cfg.tol q).mpr hq]; rfl

example : |(1/10000000 : Rat)| < LEx.cfg.tol := by norm_num [LEx.cfg]

/-- Conversely an adjustment (and hence a fee) is produced only by a quantity at or above the tolerance,
    and then exactly one (the result type holds at most one). -/
theorem transact_adj_iff (cfg : Cfg K) (comm : K → K → K) (s s' : SecData K) (q : K) (custom : Option K)
    (oa : Option (Adj K)) (h : secTransactCore cfg comm s q custom = .ok (s', oa)) :
    oa.isSome = true ↔ cfg.tol ≤ |q| := by
  rw [← isZero_false_iff_L]
  rcases secTransactCore_ok h with ⟨hz, _, rfl⟩ | ⟨hz, _, _, _, _, _, _, rfl⟩ <;> simp [hz]

example : ∃ s' oa, secTransactCore LEx.cfg LEx.comm LEx.sec (-4) none = .ok (s', oa) := by
  norm_num [secTransactCore, secOutlay, isZero, absA, LEx.cfg, LEx.sec, Except.bind, pure, Except.pure]

/-- `StrategyBase.adjust`: the amount goes to capital, the fee to `last_fee`, the amount to `net_flows`
    exactly when it is a flow — and no other field changes. -/
theorem adjust_books (sd : StratData K) (a : Adj K) :
    (sd.adjust a).capital = sd.capital + a.amount ∧
    (sd.adjust a).lastFee = sd.lastFee + a.fee ∧
    (a.flow = true → (sd.adjust a).netFlows = sd.netFlows + a.amount) ∧
    (a.flow = false → (sd.adjust a).netFlows = sd.netFlows) ∧
    sd.adjust a = { sd with capital := (sd.adjust a).capital, lastFee := (sd.adjust a).lastFee,
                            netFlows := (sd.adjust a).netFlows } := by
  refine ⟨rfl, rfl, ?_, ?_, rfl⟩ <;> intro h <;> simp [StratData.adjust, h]

example : (LEx.strat.adjust { amount := 25, fee := 1, flow := true }).netFlows = 75 := by
  norm_num [StratData.adjust, LEx.strat]

/-- The sizing probes of `allocate` (`secOutlay`) return numbers only: the security that comes out of
    `secAllocate` is the refreshed security, either untouched (nothing to trade) or put through exactly one
    `secTransactCore` with the quantity the search returned. -/
theorem probe_pure (cfg : Cfg K) (pn : Option Nat) (comm : K → K → K) (s s' : SecData K) (amount : K)
    (oa : Option (Adj K)) (h : secAllocate cfg pn comm s amount = .ok (s', oa)) :
    ∃ s1, secRefresh cfg pn s = .ok s1 ∧
      ((allocQuantity cfg comm s1 amount = .ok none ∧ s' = s1 ∧ oa = none) ∨
       (∃ q, allocQuantity cfg comm s1 amount = .ok (some q) ∧
             secTransactCore cfg comm s1 q none = .ok (s', oa))) := by
  unfold secAllocate at h
  obtain ⟨s1, h1, h2⟩ := Except.bind_ok h
  obtain ⟨oq, h3, h4⟩ := Except.bind_ok h2
  refine ⟨s1, h1, ?_⟩
  cases oq with
  | none =>
    left
    simp only [pure, Except.pure, Except.ok.injEq, Prod.mk.injEq] at h4
    exact ⟨h3, h4.1.symm, h4.2.symm⟩
  | some q => right; exact ⟨q, h3, h4⟩

example : ∃ s' oa, secAllocate LEx.cfg (some 1) (fun _ _ => 0) LEx.sec (-300) = .ok (s', oa) := by
  norm_num [secAllocate, secRefresh, secUpdate, secBaseUpdate, secEarly, allocQuantity, allocQ0, eqA, secTransactCore, secOutlay, isZero, absA,
    LEx.cfg, LEx.sec, Except.bind, bind, pure, Except.pure]

/-- `stratDateChange`: on a genuinely new date (`now = some n`, `n ≠ d`) the flow and fee accumulators are
    zeroed and `last_price / last_value / last_notl` are captured from the closing state of the previous
    date; on the first date (`now = none`) or a repeated date only `now` is written. -/
theorem accumulators_reset (d : Nat) (sd : StratData K) :
    (∀ n, sd.now = some n → n ≠ d →
      stratDateChange d sd =
        ({ sd with netFlows := 0, lastFee := 0, lastPrice := sd.price, lastValue := sd.value,
                   lastNotl := sd.notl, now := some d }, true)) ∧
    (sd.now = some d → stratDateChange d sd = ({ sd with now := some d }, false)) ∧
    (sd.now = none → stratDateChange d sd = ({ sd with now := some d }, true)) := by
  refine ⟨?_, ?_, ?_⟩
  · intro n hn hnd
    unfold stratDateChange; simp [hn, hnd]
  · intro hn
    unfold stratDateChange; simp [hn]
  · intro hn
    unfold stratDateChange; simp [hn]

example : LEx.strat.now = some 1 ∧ (1 : Nat) ≠ 2 := by decide

/-- The security-side accumulators: `bidoffer_paid` is zeroed exactly on a date change of a security with
    bid/offer data, and the outlay accumulator is always zero after the flush into the date's row. -/
theorem sec_accumulators_reset (d : Nat) (s : SecData K) :
    (s.now ≠ some d → s.bidofferSet = true → (secDateChange d s).bidofferPaid = 0) ∧
    (s.now = some d → secDateChange d s = s) ∧
    (s.bidofferSet = false → (secDateChange d s).bidofferPaid = s.bidofferPaid) ∧
    (secFlushOutlay d s).outlayAcc = 0 ∧
    (secDateChange d s).outlayAcc = s.outlayAcc := by
  refine ⟨?_, ?_, ?_, ?_, ?_⟩
  · intro h hb; unfold secDateChange; simp [h, hb]
  · intro h; unfold secDateChange; simp [h]
  · intro hb; unfold secDateChange; split <;> simp [hb]
  · unfold secFlushOutlay; split
    · rfl
    · rename_i h
      have h' : eqA s.outlayAcc 0 = true := by simpa using h
      exact (eqA_iff_L _ _).mp h'
  · unfold secDateChange; split <;> rfl

example : LEx.sec.now ≠ some 2 ∧ LEx.sec.bidofferSet = true := by decide

/-- Allocating `amount` to a sub-strategy: the parent receives exactly one adjustment, `−amount` with no
    fee and *not* a flow; the sub-strategy books `+amount` as a flow, and on top of that exactly the
    (non-flow) adjustments `L` its own children send while the amount is pushed down
    (`allocKidsAdjs` is the trace of those): capital `+ amount + Σ L.amount`, `net_flows + amount`,
    `last_fee + Σ L.fee`; every other field of the sub-strategy is unchanged. -/
theorem allocNode_books (cfg : Cfg K) (pn : Option Nat) (comm : K → K → K) (amount : K)
    (sd : StratData K) (kids : List (Node K)) (n' : Node K) (adjs : List (Adj K))
    (h : allocNode cfg pn comm amount (.strat sd kids) = .ok (n', adjs)) :
    adjs = [{ amount := -amount, fee := 0, flow := false }] ∧
    ∃ sd2 kids2 L, n' = .strat sd2 kids2 ∧ kids2.length = kids.length ∧
      allocKidsAdjs cfg amount kids (sd.adjust { amount := amount, fee := 0, flow := true }) = .ok L ∧
      (∀ a ∈ L, a.flow = false) ∧
      sd2 = { sd with capital := sd.capital + amount + adjAmounts L,
                      netFlows := sd.netFlows + amount,
                      lastFee := sd.lastFee + 0 + adjFees L } := by
  rw [allocNode] at h
  obtain ⟨⟨sd2, kids2⟩, h1, h2⟩ := Except.map_ok h
  simp only [Prod.mk.injEq] at h2
  obtain ⟨rfl, rfl⟩ := h2
  obtain ⟨L, hL, hnf, hsd, hlen⟩ := allocKids_trace kids h1
  refine ⟨rfl, sd2, kids2, L, rfl, hlen, hL, hnf, ?_⟩
  rw [hsd, foldl_adjust_nonflow L _ hnf]
  simp [StratData.adjust]

example : ∃ n' adjs, allocNode LEx.cfg (some 1) LEx.comm (-300) (.strat LEx.sub [.sec { LEx.sec with weight := 1 }])
    = .ok (n', adjs) := by
  norm_num [allocNode, allocKids, secAllocate, secRefresh, secUpdate, secBaseUpdate, secEarly, allocQuantity, allocQ0, eqA, secTransactCore,
    secOutlay, isZero, absA, Node.weight, StratData.adjust,
    LEx.cfg, LEx.sec, LEx.sub, LEx.comm, Except.bind, Except.map, bind, pure, Except.pure]

/-- `allocate` on the root: the debit and the credit hit the same node and cancel
    (`capital + (−a) + a = capital`, likewise `net_flows`), so the root's capital and fees move only by what
    its children's trades send back (`L`), and `net_flows` does not move at all. -/
theorem opAllocate_root_books (cfg : Cfg K) (sd : StratData K) (kids : List (Node K)) (stale : Bool)
    (amount : K) (update : Bool) (w' : World K)
    (h : opAllocate cfg { root := .strat sd kids, stale := stale } [] amount update = .ok w') :
    ∃ sd2 kids2 L, w'.root = .strat sd2 kids2 ∧ kids2.length = kids.length ∧
      allocKidsAdjs cfg amount kids sd = .ok L ∧ (∀ a ∈ L, a.flow = false) ∧
      sd2 = { sd with capital := sd.capital + adjAmounts L, lastFee := sd.lastFee + adjFees L } ∧
      sd2.netFlows = sd.netFlows := by
  unfold opAllocate World.modify at h
  simp only [modAt] at h
  obtain ⟨⟨r, a, st⟩, h1, h2⟩ := Except.map_ok h
  subst h2
  rw [adjust_cancel] at h1
  obtain ⟨⟨sd2, kids2⟩, h3, h4⟩ := Except.map_ok h1
  simp only [Prod.mk.injEq] at h4
  obtain ⟨rfl, _, _⟩ := h4
  obtain ⟨L, hL, hnf, hsd, hlen⟩ := allocKids_trace kids h3
  refine ⟨sd2, kids2, L, rfl, hlen, hL, hnf, ?_, ?_⟩
  · rw [hsd, foldl_adjust_nonflow L _ hnf]
  · rw [hsd, foldl_adjust_nonflow L _ hnf]

example : ∃ w', opAllocate LEx.cfg { root := .strat LEx.strat [.sec LEx.sec], stale := false } [] (-1000) false
    = .ok w' := by
  norm_num [opAllocate, World.modify, modAt, allocKids, allocNode, secAllocate, secRefresh, secUpdate, secBaseUpdate, secEarly, allocQuantity, allocQ0,
    eqA, secTransactCore, secOutlay, isZero, absA, Node.weight, StratData.adjust,
    LEx.cfg, LEx.sec, LEx.strat, LEx.comm, Except.bind, Except.map, bind, pure, Except.pure]

/-- After `update(d)` of a strategy the cash / fees / flows rows of date `d` hold the node's capital,
    `last_fee` and `net_flows` (and no other row moved); the update itself moves capital only by the coupons
    swept from the direct security children — on a new date exactly the cash parked on them, otherwise 0. -/
theorem rows_cash_fees_flows (cfg : Cfg K) (d : Nat) (sd : StratData K) (kids : List (Node K)) (n' : Node K)
    (h : updNode cfg d (.strat sd kids) = .ok n') :
    ∃ sd' kids', n' = .strat sd' kids' ∧
      sd'.rCash = sd.rCash.set d sd'.capital ∧
      sd'.rFees = sd.rFees.set d sd'.lastFee ∧
      sd'.rFlows = sd.rFlows.set d sd'.netFlows ∧
      (d < sd.rCash.length → sd'.rCash[d]? = some sd'.capital) ∧
      (d < sd.rFees.length → sd'.rFees[d]? = some sd'.lastFee) ∧
      (d < sd.rFlows.length → sd'.rFlows[d]? = some sd'.netFlows) ∧
      sd'.capital = sd.capital + (if (stratDateChange d sd).2 then parkedKids kids else 0) := by
  obtain ⟨kids1, acc, sd3, hk, hw, rfl⟩ := updNode_strat_ok h
  obtain ⟨c1, c2, c3, c4, c5, c6⟩ := stratWrite_ledger hw
  obtain ⟨r1, r2, r3, r4, r5, r6⟩ := stratRows_rows d sd3
  obtain ⟨e1, e2, e3, e4⟩ := stratDateChange_rows d sd
  have hc := updKids_coupons kids hk
  simp only [zero_add] at hc
  have hcap : (stratRows d sd3).capital = sd.capital + (if (stratDateChange d sd).2 then parkedKids kids else 0) := by
    rw [r1, c1]; simp only; rw [e1, hc]
  have q1 : (stratRows d sd3).rCash = sd.rCash.set d (stratRows d sd3).capital := by
    rw [r4, r1, c4]; simp only; rw [e2]
  have q2 : (stratRows d sd3).rFees = sd.rFees.set d (stratRows d sd3).lastFee := by
    rw [r5, r2, c5]; simp only; rw [e3]
  have q3 : (stratRows d sd3).rFlows = sd.rFlows.set d (stratRows d sd3).netFlows := by
    rw [r6, r3, c6]; simp only; rw [e4]
  refine ⟨_, _, rfl, q1, q2, q3, ?_, ?_, ?_, hcap⟩
  · intro hd; rw [q1]; simp [hd]
  · intro hd; rw [q2]; simp [hd]
  · intro hd; rw [q3]; simp [hd]

example : ∃ n', updNode LEx.cfg 2 (.strat LEx.strat [.sec LEx.sec]) = .ok n' := by
  norm_num [updNode, updKids, stratDateChange, sweepSec, secUpdate, secBaseUpdate, secEarly, secDateChange,
    secRecordPos, secMarkValue, secSetValue, secQuiet, secFlushOutlay, secRowBidoffer, accAdd, cell, eqA,
    stratWrite, stratChanged, stratSetTotals, mvReturn, stratSetPrice, stratRows, kidsWeights,
    isZero, absA, LEx.cfg, LEx.sec, LEx.strat, Except.bind, Except.map, bind, pure, Except.pure]

/-- A trade on a security addressed through the tree is charged once, to the security's own parent: the
    parent books the (at most one) adjustment of `secTransact`, the security is replaced by the traded one,
    every sibling is untouched. -/
theorem transact_charged_to_parent (cfg : Cfg K) (sd : StratData K) (kids : List (Node K)) (stale : Bool)
    (i : Nat) (s : SecData K) (q : K) (update : Bool) (custom : Option K) (w' : World K)
    (hi : kids[i]? = some (.sec s))
    (h : opTransact cfg { root := .strat sd kids, stale := stale } [i] q update custom = .ok w') :
    ∃ s' oa, secTransact cfg sd.now sd.comm s q true custom = .ok (s', oa) ∧
      w'.root = .strat (oa.toList.foldl StratData.adjust sd) (kids.set i (.sec s')) ∧
      (oa = none → w'.root = .strat sd (kids.set i (.sec s'))) ∧
      (∀ a, oa = some a → w'.root = .strat (sd.adjust a) (kids.set i (.sec s')) ∧ a.flow = false) := by
  unfold opTransact World.modify at h
  simp only [modAt, hi] at h
  obtain ⟨⟨r, a, st⟩, h1, h2⟩ := Except.map_ok h
  subst h2
  obtain ⟨⟨k', adjs, st'⟩, h3, h4⟩ := Except.map_ok h1
  simp only [Prod.mk.injEq] at h4
  obtain ⟨rfl, _, _⟩ := h4
  obtain ⟨⟨s', oa⟩, h5, h6⟩ := Except.map_ok h3
  simp only [Prod.mk.injEq] at h6
  obtain ⟨rfl, rfl, _⟩ := h6
  refine ⟨s', oa, h5, rfl, ?_, ?_⟩
  · rintro rfl; rfl
  · rintro a rfl
    refine ⟨rfl, ?_⟩
    unfold secTransact at h5
    obtain ⟨s1, _, h7⟩ := Except.bind_ok h5
    exact secTransactCore_adj_nonflow h7 a (by simp)

example : ∃ w', opTransact LEx.cfg { root := .strat LEx.strat [.sec LEx.sec2, .sec LEx.sec], stale := false } [1] 2 false none
    = .ok w' := by
  norm_num [opTransact, World.modify, modAt, secTransact, secRefresh, eqA, secUpdate, secBaseUpdate, secEarly, secTransactCore, secOutlay, isZero, absA,
    LEx.cfg, LEx.sec, LEx.strat, LEx.comm, Except.bind, Except.map, bind, pure, Except.pure]

/-- … and to nobody else: for an operation `f` applied two or more levels down (`i :: j :: rest`), the
    node at the top of the path keeps its data unchanged (no adjustment reaches it) and only its `i`-th
    child is replaced.  Holds for every node-level operation routed by `modAt`, in particular
    `opTransact` / `opAllocate`. -/
theorem deep_op_frame (f : Option (StratData K) → Node K → Except Err (OpRes K)) (i j : Nat) (rest : List Nat)
    (par : Option (StratData K)) (sd : StratData K) (kids : List (Node K)) (n' : Node K)
    (adjs : List (Adj K)) (st : Bool)
    (h : modAt f (i :: j :: rest) par (.strat sd kids) = .ok (n', adjs, st)) :
    adjs = [] ∧ ∃ k k', kids[i]? = some k ∧ modAt f (j :: rest) (some sd) k = .ok (k', [], st) ∧
      n' = .strat sd (kids.set i k') := by
  rw [modAt] at h
  cases hk : kids[i]? with
  | none => simp [hk] at h
  | some k =>
    simp only [hk] at h
    obtain ⟨⟨k', a, st'⟩, h1, h2⟩ := Except.map_ok h
    simp only [Prod.mk.injEq] at h2
    obtain ⟨rfl, rfl, rfl⟩ := h2
    have ha : a = [] := by
      cases k with
      | sec s => rw [modAt] at h1; cases h1
      | strat sdk kk =>
        rw [modAt] at h1
        cases hk2 : kk[j]? with
        | none => simp [hk2] at h1
        | some k2 =>
          simp only [hk2] at h1
          obtain ⟨⟨_, _, _⟩, _, h3⟩ := Except.map_ok h1
          simp only [Prod.mk.injEq] at h3
          exact h3.2.1.symm
    subst ha
    exact ⟨rfl, k, k', rfl, h1, rfl⟩

example : ∃ r, modAt (fun _ n => pure (n, [({ amount := 1, fee := 0, flow := false } : Adj Rat)], false)) [0, 0] none
    (.strat LEx.strat [.strat LEx.sub [.sec LEx.sec2]]) = .ok r := by
  simp [modAt, Except.map, pure, Except.pure]

/-- The ledger equation for one `allocate(amount)` received by a sub-strategy standing on date `d`:
    `Δcash = amount received − Δ(outlays recorded by its own securities for d) − Δ(fees recorded for the node)
             − capital passed to its sub-strategies`
    (`outlayKids d` = `outlays` row of `d` plus the pending accumulator, over the direct security children;
    `passedKids amount` = `Σ amount · weight` over the direct sub-strategy children).  Any number and mix of
    children. -/
theorem allocate_ledger (cfg : Cfg K) (pn : Option Nat) (comm : K → K → K) (amount : K) (d : Nat)
    (sd : StratData K) (kids : List (Node K)) (n' : Node K) (adjs : List (Adj K))
    (hnow : sd.now = some d) (hrows : rowsOK d kids)
    (h : allocNode cfg pn comm amount (.strat sd kids) = .ok (n', adjs)) :
    ∃ sd2 kids2, n' = .strat sd2 kids2 ∧
      sd2.capital - sd.capital =
        amount - (outlayKids d kids2 - outlayKids d kids) - (sd2.lastFee - sd.lastFee) - passedKids amount kids := by
  rw [allocNode] at h
  obtain ⟨⟨sd2, kids2⟩, h1, h2⟩ := Except.map_ok h
  simp only [Prod.mk.injEq] at h2
  obtain ⟨rfl, rfl⟩ := h2
  obtain ⟨e1, _⟩ := allocKids_ledger kids (sd := sd.adjust { amount := amount, fee := 0, flow := true })
    (by exact hnow) hrows h1
  refine ⟨sd2, kids2, rfl, ?_⟩
  simp only [stratW, StratData.adjust] at e1
  linear_combination e1

example : ∃ n' adjs, LEx.sub.now = some 1 ∧ rowsOK 1 ([.sec { LEx.sec with weight := 1 }] : List (Node Rat)) ∧
    allocNode LEx.cfg (some 1) LEx.comm (-300) (.strat LEx.sub [.sec { LEx.sec with weight := 1 }]) = .ok (n', adjs) := by
  norm_num [allocNode, allocKids, secAllocate, secRefresh, secUpdate, secBaseUpdate, secEarly, allocQuantity, allocQ0,
    eqA, secTransactCore, secOutlay, isZero, absA, Node.weight, StratData.adjust, rowsOK,
    LEx.cfg, LEx.sec, LEx.sub, LEx.comm, Except.bind, Except.map, bind, pure, Except.pure]

/-- … and at the root, where nothing is received (debit and credit cancel):
    `Δcash = − Δ(outlays of own securities) − Δ(fees) − capital passed to sub-strategies`. -/
theorem allocate_ledger_root (cfg : Cfg K) (sd : StratData K) (kids : List (Node K)) (stale : Bool)
    (amount : K) (update : Bool) (d : Nat) (w' : World K)
    (hnow : sd.now = some d) (hrows : rowsOK d kids)
    (h : opAllocate cfg { root := .strat sd kids, stale := stale } [] amount update = .ok w') :
    ∃ sd2 kids2, w'.root = .strat sd2 kids2 ∧ sd2.netFlows = sd.netFlows ∧
      sd2.capital - sd.capital =
        - (outlayKids d kids2 - outlayKids d kids) - (sd2.lastFee - sd.lastFee) - passedKids amount kids := by
  obtain ⟨sd2, kids2, L, hr, _, _, _, _, hnf⟩ := opAllocate_root_books cfg sd kids stale amount update w' h
  unfold opAllocate World.modify at h
  simp only [modAt] at h
  obtain ⟨⟨r, a, st⟩, h1, h2⟩ := Except.map_ok h
  subst h2
  rw [adjust_cancel] at h1
  obtain ⟨⟨sd3, kids3⟩, h3, h4⟩ := Except.map_ok h1
  simp only [Prod.mk.injEq] at h4
  obtain ⟨rfl, _, _⟩ := h4
  simp only [Node.strat.injEq] at hr
  obtain ⟨rfl, rfl⟩ := hr
  obtain ⟨e1, _⟩ := allocKids_ledger kids hnow hrows h3
  refine ⟨sd3, kids3, rfl, hnf, ?_⟩
  simp only [stratW] at e1
  linear_combination e1

example : ∃ w', LEx.strat.now = some 1 ∧ rowsOK 1 ([.sec LEx.sec] : List (Node Rat)) ∧
    opAllocate LEx.cfg { root := .strat LEx.strat [.sec LEx.sec], stale := false } [] (-1000) false = .ok w' := by
  norm_num [opAllocate, World.modify, modAt, allocKids, allocNode, secAllocate, secRefresh, secUpdate, secBaseUpdate,
    secEarly, allocQuantity, allocQ0, eqA, secTransactCore, secOutlay, isZero, absA, Node.weight, StratData.adjust,
    rowsOK, LEx.cfg, LEx.sec, LEx.strat, LEx.comm, Except.bind, Except.map, bind, pure, Except.pure]

end Bt.C07
