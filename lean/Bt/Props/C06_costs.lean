import Bt.Proofs.RebalanceVocab
import Bt.Proofs.RebalanceCostsEx
import Bt.Props.C06
import Mathlib.Tactic.NormNum
/-! C06 — `Rebalance` **with costs, whole units, at any path, with sub-strategy targets, from a stale world**
    (property theorems only; helper lemmas live in `Bt.Proofs.RebalanceJobs` … `RebalanceVocab`, fixtures in
    `Bt.Proofs.RebalanceCostsEx`).  `Bt.Props.C06` has the cost-free, one-level, fractional statement
    (`Rebalance_exact_partial`); this file removes those three restrictions.

    Vocabulary (all from `Bt.P06`):
    * `PW root p sd ks` — the world, not stale, whose tree is `root` with the strategy `(sd, ks)` at path `p`
      (`PW_of_world`: every world that is not stale is of this form; `flatW sd ss = PW _ [] sd (ss.map .sec)`).
      The frame statement "`updRoot cfg d (PW root p sd3 ks3) = .ok w'`" says: the final world is the closing
      `root.update(d)` of the tree the algo started from with ONLY the strategy at `p` replaced — the rest of the
      tree is untouched by the trades, and the closing update refreshes the ancestors' cached totals.
    * `RSec d s` — a plain security standing on `d` whose position did not move since its last update, priced,
      `value = position·price·mult` (what `allocate` reaches without a refresh); whole or fractional units, any
      spread.  `NiceSec` (C06) is the fractional, zero-spread, non-negligible-price special case.
    * costs: `boOf s` the spread of the date, `spreadOf cfg s q = |q|·½·spread·mult`, `feeOf comm s q` the
      commission booked for effectively trading `q` (0 when nothing is traded), `outF cfg comm s q` the full
      outlay the sizing search looks at, `unitOutlay cfg comm s q = outF (q+1) − outF q`;
      `childCost comm s t` = growth of the spread paid on the child + commission booked on the strategy for the
      trade that took `s` to `t`; `feeBetween comm s t` its commission part; `boSumL ss = Σ bidoffer_paid`.
    * per child (`s` before the call, `t` after the closing update): `Kept s t`, `WeightIs cfg tot t`,
      `ReachedUpToCosts`, `WithinUnit`, `ClosedOrUntouched`, `NotTargeted` — see their docstrings.
    * `BankruptStep cfg d w3` — the root's bankruptcy step fires in the closing update of `w3` (negative total
      on a market-value root that is not bankrupt yet): the whole tree is liquidated instead.

    Nothing here assumes that the sizing search succeeds: every theorem is conditional on
    `algoRebalance … = .ok w'` (the search may raise, `C05.witness_raise_*`). -/
set_option linter.unusedSectionVars false
namespace Bt.C06
open Bt Bt.Rebal Bt.RebalEx Bt.Alloc Bt.P06 Bt.P06Ex

variable {K : Type} [Field K] [LinearOrder K] [IsStrictOrderedRing K] [HasFloor K]

/-! ### (1) fractional units with commission and spreads -/

/-- **`Rebalance_within_costs`.**  The setting of `Rebalance_exact_partial` — the root strategy of a flat world,
    market value, on date `d`, security children that need no refresh, distinct target indices, cached weights =
    value shares of the base `V = sd.value` — but with ANY commission function `sd.comm` and ANY bid/offer
    spreads, fractional units.  If the algo does not raise, then either the bankruptcy step fired in the closing
    update (the total after the trades is negative), or:
    * the fees of the date grew by the commissions of the children's trades;
    * the new total `cash + Σ child values` is the old total less the costs booked in the call
      (commissions + growth of the spread paid), and it is the strategy's value (up to the `TOL` write guard);
      in particular `cash' = total' − Σ child values`;
    * every child is the same security marked at its price, weighted `value / total'`;
    * every target with a non-negligible scaled weight is `ReachedUpToCosts`: untouched, or closed out because
      its target is below `TOL`, or `|value' − (1−κ)·w·V + cost booked for that child| ≤ atol + TOL·|amount|`;
    * every other child is `ClosedOrUntouched`. -/
theorem Rebalance_within_costs (cfg : Cfg K) (d : Nat) (sd : StratData K) (ss : List (SecData K))
    (T : List (Nat × K)) (cash notional : Option K) (w' : World K)
    (htol : 0 < cfg.tol) (hnow : sd.now = some d) (hfi : sd.fixedIncome = false)
    (hsec : ∀ s ∈ ss, RSec d s) (hfrac : ∀ s ∈ ss, s.integer = false)
    (hnd : (T.map (·.1)).Nodup) (hin : ∀ i ∈ T.map (·.1), i < ss.length)
    (hwts : ∀ s ∈ ss, s.weight * sd.value = s.value)
    (h : algoRebalance cfg (flatW sd ss) [] T cash notional = .ok w') :
    (∃ (sd3 : StratData K) (ss3 : List (SecData K)), updRoot cfg d (flatW sd3 ss3) = .ok w' ∧
      sd3.capital + worthSum ss3 < 0 ∧ sd3.bankrupt = false) ∨
    ∃ (sdF : StratData K) (ssF : List (SecData K)), w' = flatW sdF ssF ∧ ssF.length = ss.length ∧
      sdF.lastFee = sd.lastFee + (List.zipWith (feeBetween sd.comm) ss ssF).sum ∧
      sdF.capital + (ssF.map (·.value)).sum =
        sd.capital + worthSum ss - ((sdF.lastFee - sd.lastFee) + (boSumL ssF - boSumL ss)) ∧
      (sdF.value = sdF.capital + (ssF.map (·.value)).sum ∨
        (sdF.value = sd.value ∧
          isZero cfg.tol (sd.value - (sdF.capital + (ssF.map (·.value)).sum)) = true)) ∧
      (∀ (i : Nat) (s : SecData K), ss[i]? = some s → ∃ t, ssF[i]? = some t ∧
        (Kept s t ∧ WeightIs cfg (sdF.capital + (ssF.map (·.value)).sum) t ∧
          (∀ wt, (i, wt) ∈ T → isZero cfg.tol (wt * cashScale cash) = false →
            ReachedUpToCosts cfg sd.comm (wt * cashScale cash * sd.value) s t) ∧
          (NotTargeted cfg T cash i → ClosedOrUntouched cfg sd.comm s t))) :=
  secs_final_root cfg d sd ss T cash notional w' htol hnow hfi hsec hnd hin h
    (fun i s t tot => Kept s t ∧ WeightIs cfg tot t ∧
      (∀ wt, (i, wt) ∈ T → isZero cfg.tol (wt * cashScale cash) = false →
        ReachedUpToCosts cfg sd.comm (wt * cashScale cash * sd.value) s t) ∧
      (NotTargeted cfg T cash i → ClosedOrUntouched cfg sd.comm s t))
    (fun _ _ s _ _ hs hc =>
      have hm := List.mem_of_getElem? hs
      ⟨hc.kept, hc.weightIs, fun wt hi hz => hc.reached d htol (hsec s hm) (hfrac s hm) hnd (hwts s hm) wt hi hz,
        fun hn => hc.closedOr d htol (hsec s hm) hnd hn⟩)

/-- 1000 of value, flat fee 2, `b` (spread 0.4) is not a target: `a → 40 %`, `c → 20 %` with 20 % cash.  `b` is
    sold (fee 2, half-spread 2), `a` and `c` each end 2 (their fee) below target: 398 and 198; the total is
    1000 − 8. -/
example : (0 : Rat) < cfgQ.tol ∧ stratC.now = some 1 ∧ stratC.fixedIncome = false ∧
    (∀ s ∈ secsC, RSec 1 s) ∧ (∀ s ∈ secsC, s.integer = false) ∧
    (([(0, 1/2), (2, 1/4)] : List (Nat × Rat)).map (·.1)).Nodup ∧
    (∀ i ∈ ([(0, 1/2), (2, 1/4)] : List (Nat × Rat)).map (·.1), i < secsC.length) ∧
    (∀ s ∈ secsC, s.weight * stratC.value = s.value) ∧
    (algoRebalance cfgQ (flatW stratC secsC) [] [(0, 1/2), (2, 1/4)] (some (1/5)) none).map viewC
      = .ok [[396, 992, 1, 6], [199/5, 398, 199/496, 0], [0, 0, 0, 2], [99/5, 198, 99/496, 0]] :=
  ⟨by decide +kernel, rfl, rfl, secsC_rsec, secsC_frac, by decide, by decide, secsC_wts, by decide +kernel⟩

/-- spreads on every security and a commission of 0.1 % of the traded value (the search iterates several times):
    the call succeeds and the traded target `a` ends within `isclose`'s tolerance of `target − cost booked` -/
example : ∃ w', (∀ s ∈ secsP, RSec 1 s) ∧
    algoRebalance cfgQ (flatW stratP secsP) [] [(0, 1/2), (2, 1/4)] (some (1/5)) none = .ok w' ∧
    reachedA w' = true :=
  let ⟨w', h, hp⟩ := Ex.check_ok
    (x := algoRebalance cfgQ (flatW stratP secsP) [] [(0, 1/2), (2, 1/4)] (some (1/5)) none) (p := reachedA)
    (by decide +kernel)
  ⟨w', secsP_rsec, h, hp⟩

/-- **`Rebalance_costs_total`** (strategy level).  Same setting with non-negative costs (commission function and
    `½·spread·mult` non-negative): unless the bankruptcy step fires, `total' = total − costs booked in the call`
    with `costs ≥ 0`, and — when every target was traded by the sizing search (position moved, not closed out) —
    `Σ_targets |value' − (1−κ)·w·V| ≤ costs booked in the call + Σ_targets (atol + TOL·|amount|)`
    (`devT`/`tolT`: the two summands for one target; the costs of closing the other children are part of the
    right-hand side). -/
theorem Rebalance_costs_total (cfg : Cfg K) (d : Nat) (sd : StratData K) (ss : List (SecData K))
    (T : List (Nat × K)) (cash notional : Option K) (w' : World K)
    (htol : 0 < cfg.tol) (hnow : sd.now = some d) (hfi : sd.fixedIncome = false)
    (hsec : ∀ s ∈ ss, RSec d s) (hfrac : ∀ s ∈ ss, s.integer = false)
    (hnd : (T.map (·.1)).Nodup) (hin : ∀ i ∈ T.map (·.1), i < ss.length)
    (hwts : ∀ s ∈ ss, s.weight * sd.value = s.value)
    (hfee : ∀ q x, 0 ≤ sd.comm q x) (hsp : ∀ s ∈ ss, 0 ≤ cfg.half * boOf s * s.mult)
    (h : algoRebalance cfg (flatW sd ss) [] T cash notional = .ok w') :
    (∃ (sd3 : StratData K) (ss3 : List (SecData K)), updRoot cfg d (flatW sd3 ss3) = .ok w' ∧
      sd3.capital + worthSum ss3 < 0 ∧ sd3.bankrupt = false) ∨
    ∃ (sdF : StratData K) (ssF : List (SecData K)), w' = flatW sdF ssF ∧ ssF.length = ss.length ∧
      sdF.capital + (ssF.map (·.value)).sum =
        sd.capital + worthSum ss - ((sdF.lastFee - sd.lastFee) + (boSumL ssF - boSumL ss)) ∧
      0 ≤ (sdF.lastFee - sd.lastFee) + (boSumL ssF - boSumL ss) ∧
      ((∀ (i : Nat) (wt : K) (s t : SecData K), (i, wt) ∈ T → ss[i]? = some s → ssF[i]? = some t →
          isZero cfg.tol (wt * cashScale cash) = false ∧ t.position ≠ s.position ∧ t.position ≠ 0) →
        (T.map (devT ssF sd.value (cashScale cash))).sum ≤
          (sdF.lastFee - sd.lastFee) + (boSumL ssF - boSumL ss) +
            (T.map (tolT cfg ss sd.value (cashScale cash))).sum) :=
  costs_total_root cfg d sd ss T cash notional w' htol hnow hfi hsec hfrac hnd hin hwts hfee hsp h

/-- on the flat-fee fixture: distances 2 + 2, costs booked 8 (three fees of 2 and `b`'s half-spread 2),
    tolerances `2·atol + TOL·(100 + 200)` -/
example : (∀ q x, (0 : Rat) ≤ stratC.comm q x) ∧ (∀ s ∈ secsC, (0 : Rat) ≤ cfgQ.half * boOf s * s.mult) ∧
    (([(0, 1/2), (2, 1/4)] : List (Nat × Rat)).map
      (devT [mkC "a" false 1 10 0 (199/5) (199/496) true, mkC "b" false 1 20 (2/5) 0 0 true,
        mkC "c" false 2 5 0 (99/5) (99/496) true] 1000 (4/5))).sum = 4 ∧
    (([(0, 1/2), (2, 1/4)] : List (Nat × Rat)).map (tolT cfgQ secsC 1000 (4/5))).sum
      = 2/10^8 + 300/10^16 := by
  refine ⟨fun _ _ => by show (0 : Rat) ≤ 2; norm_num, ?_, by decide +kernel, by decide +kernel⟩
  intro s hs
  simp only [secsC, List.mem_cons, List.not_mem_nil, or_false] at hs
  rcases hs with rfl | rfl | rfl <;> decide +kernel

/-- **Why "nothing traded" is an alternative of `ReachedUpToCosts`.**  A flat fee of 2 and a target value of
    exactly 2 on a flat security: the search's second iterate is `q = 0` (the whole amount would go into the fee),
    `allocate` returns without trading, nothing is booked, and the child stays at value 0 — off its target by the
    fee that was NOT paid. -/
theorem witness_fee_swallows_target :
    (algoRebalance cfgQ (flatW (mkDC (fun _ _ => 2) 1000 1000 1) [feeSec]) [] [(0, 1/500)] none none).map viewC
      = .ok [[1000, 1000, 1, 0], [0, 0, 0, 0]] := by
  decide +kernel

/-! ### (2) whole units: within one unit plus costs -/

/-- **`Rebalance_within_unit_plus_costs`.**  The same root setting with ANY commission function and spreads,
    children with whole or fractional units.  Inherited from C05: `[FloorRing K]` with `floorA`/`ceilA` the real
    floor and ceiling (`hfloor`, `hceil`; true of `ℚ`, `rat_hfloor`/`rat_hceil`), whole-unit children hold a whole
    number of units, and the sizing search does not raise (the theorem is conditional on `.ok`; it may raise,
    `C05.witness_raise_*`).  Unless the bankruptcy step fires, the ledger is as in `Rebalance_within_costs`, and
    every target with a non-negligible scaled weight is `ReachedUpToCosts` (fractional child) or `WithinUnit`
    (whole-unit child): untouched; closed through the unchecked skip; `isclose`; or
    `−unitOutlay < value' − (1−κ)·w·V + cost booked < 0` with a whole quantity traded, where
    `unitOutlay = price·mult + Δ half-spread + Δ commission` of one more unit (`unitOutlay_le`).
    No monotonicity of the outlay is needed for the bound; it gives maximality (`Rebalance_unit_maximal`). -/
theorem Rebalance_within_unit_plus_costs [FloorRing K] (hfloor : ∀ x : K, floorA x = (⌊x⌋ : K))
    (hceil : ∀ x : K, ceilA x = (⌈x⌉ : K)) (cfg : Cfg K) (d : Nat) (sd : StratData K)
    (ss : List (SecData K)) (T : List (Nat × K)) (cash notional : Option K) (w' : World K)
    (htol : 0 < cfg.tol) (hnow : sd.now = some d) (hfi : sd.fixedIncome = false)
    (hsec : ∀ s ∈ ss, RSec d s)
    (hnd : (T.map (·.1)).Nodup) (hin : ∀ i ∈ T.map (·.1), i < ss.length)
    (hwts : ∀ s ∈ ss, s.weight * sd.value = s.value)
    (h : algoRebalance cfg (flatW sd ss) [] T cash notional = .ok w') :
    (∃ (sd3 : StratData K) (ss3 : List (SecData K)), updRoot cfg d (flatW sd3 ss3) = .ok w' ∧
      sd3.capital + worthSum ss3 < 0 ∧ sd3.bankrupt = false) ∨
    ∃ (sdF : StratData K) (ssF : List (SecData K)), w' = flatW sdF ssF ∧ ssF.length = ss.length ∧
      sdF.lastFee = sd.lastFee + (List.zipWith (feeBetween sd.comm) ss ssF).sum ∧
      sdF.capital + (ssF.map (·.value)).sum =
        sd.capital + worthSum ss - ((sdF.lastFee - sd.lastFee) + (boSumL ssF - boSumL ss)) ∧
      (sdF.value = sdF.capital + (ssF.map (·.value)).sum ∨
        (sdF.value = sd.value ∧
          isZero cfg.tol (sd.value - (sdF.capital + (ssF.map (·.value)).sum)) = true)) ∧
      (∀ (i : Nat) (s : SecData K), ss[i]? = some s → ∃ t, ssF[i]? = some t ∧
        (Kept s t ∧ WeightIs cfg (sdF.capital + (ssF.map (·.value)).sum) t ∧
          (∀ wt, (i, wt) ∈ T → isZero cfg.tol (wt * cashScale cash) = false →
            (s.integer = false → ReachedUpToCosts cfg sd.comm (wt * cashScale cash * sd.value) s t) ∧
            (s.integer = true → (∃ z : ℤ, s.position = (z : K)) →
              WithinUnit cfg sd.comm (wt * cashScale cash * sd.value) s t)) ∧
          (NotTargeted cfg T cash i → ClosedOrUntouched cfg sd.comm s t))) :=
  secs_final_root cfg d sd ss T cash notional w' htol hnow hfi hsec hnd hin h
    (fun i s t tot => Kept s t ∧ WeightIs cfg tot t ∧
      (∀ wt, (i, wt) ∈ T → isZero cfg.tol (wt * cashScale cash) = false →
        (s.integer = false → ReachedUpToCosts cfg sd.comm (wt * cashScale cash * sd.value) s t) ∧
        (s.integer = true → (∃ z : ℤ, s.position = (z : K)) →
          WithinUnit cfg sd.comm (wt * cashScale cash * sd.value) s t)) ∧
      (NotTargeted cfg T cash i → ClosedOrUntouched cfg sd.comm s t))
    (fun _ _ s _ _ hs hc =>
      have hm := List.mem_of_getElem? hs
      ⟨hc.kept, hc.weightIs, fun wt hi hz =>
        ⟨fun hf => hc.reached d htol (hsec s hm) hf hnd (hwts s hm) wt hi hz,
          fun hf hw => hc.withinUnit hfloor hceil d htol (hsec s hm) hf hw hnd (hwts s hm) wt hi hz⟩,
        fun hn => hc.closedOr d htol (hsec s hm) hnd hn⟩)

/-- whole-unit `i` (3 units at 30) to 25 % of 1000 with a flat fee of 2: 5 more units (outlay 152 < 160 < 182),
    value 240 = target 250 − fee 2 − 8, within the unit's 30; `b` is closed (fee 2, half-spread 2) -/
example : (∀ x : Rat, floorA x = ((⌊x⌋ : ℤ) : Rat)) ∧ (∀ x : Rat, ceilA x = ((⌈x⌉ : ℤ) : Rat)) ∧
    (∀ s ∈ secsIC, RSec 1 s) ∧ (∀ s ∈ secsIC, s.weight * stratIC.value = s.value) ∧
    (mkC "i" true 1 30 0 3 (9/100) true).position = ((3 : ℤ) : Rat) ∧
    (algoRebalance cfgQ (flatW stratIC secsIC) [] [(0, 1/4)] none none).map viewC
      = .ok [[754, 994, 1, 4], [8, 240, 120/497, 0], [0, 0, 0, 2]] ∧
    outF cfgQ stratIC.comm (mkC "i" true 1 30 0 3 (9/100) true) 5 = 152 ∧
    unitOutlay cfgQ stratIC.comm (mkC "i" true 1 30 0 3 (9/100) true) 5 = 30 := by
  refine ⟨rat_hfloor, rat_hceil, secsIC_rsec, ?_, by decide +kernel, by decide +kernel, by decide +kernel,
    by decide +kernel⟩
  intro s hs
  simp only [secsIC, List.mem_cons, List.not_mem_nil, or_false] at hs
  rcases hs with rfl | rfl <;> decide +kernel

/-- "within one trading unit plus costs" as one inequality: a traded whole-unit child with a non-negative booked
    cost is within that cost plus the largest of one unit's value, the full outlay of one more unit, `TOL` and
    `isclose`'s tolerance of its target. -/
theorem Rebalance_unit_bound (cfg : Cfg K) (comm : K → K → K) (target : K) (s t : SecData K)
    (h : WithinUnit cfg comm target s t) (hk : Kept s t) (hmoved : t.position ≠ s.position)
    (hcost : 0 ≤ childCost comm s t) :
    |t.value - target| ≤ childCost comm s t +
      max (max |px s * s.mult| (unitOutlay cfg comm s (t.position - s.position)))
        (max cfg.tol (cfg.atol + cfg.tol * |target - s.value|)) :=
  h.bound hk hmoved hcost

example : |(240 : Rat) - 250| ≤ 2 + max (max |(30 : Rat) * 1| 30) (max (1/10^16) (1/10^8 + 1/10^16 * |250 - 90|)) := by
  norm_num

/-- the full outlay of one more unit is at most its value plus half the spread plus the change of the
    commission ("`p·m + comm + half-spread`") -/
theorem unit_outlay_le (cfg : Cfg K) (comm : K → K → K) (s : SecData K) (q : K) :
    unitOutlay cfg comm s q ≤ px s * s.mult + |cfg.half * boOf s * s.mult| +
      |comm (q + 1) (px s * s.mult) - comm q (px s * s.mult)| :=
  unitOutlay_le cfg comm s q

example : unitOutlay cfgQ (commPerShare 1) (mkC "i" true 1 30 (1/5) 3 (9/100) true) 5 = 30 + 1/10 + 1 := by
  decide +kernel

/-- **Maximality** (C05's hypothesis: an outlay strictly increasing over whole quantities, e.g. by
    `C05.outlay_strictMono_int` / `C05.outlay_strictMono`): in the bracketing case of `WithinUnit` the whole
    quantity traded is affordable and no larger whole quantity is. -/
theorem Rebalance_unit_maximal [FloorRing K] (cfg : Cfg K) (comm : K → K → K) (s : SecData K) (a q : K)
    (n : ℤ) (hmono : StrictMono (fun z : ℤ => outF cfg comm s (z : K)))
    (hq : q = (n : K)) (h1 : outF cfg comm s q < a) (h2 : a < outF cfg comm s (q + 1)) :
    outF cfg comm s q ≤ a ∧ ∀ z : ℤ, outF cfg comm s (z : K) ≤ a → (z : K) ≤ q :=
  bracket_maximal cfg comm s a q n hmono hq h1 h2

example : StrictMono (fun z : ℤ => outF cfgQ stratIC.comm (mkC "i" true 1 30 0 3 (9/100) true) (z : Rat)) ∧
    (5 : Rat) = ((5 : ℤ) : Rat) ∧ outF cfgQ stratIC.comm (mkC "i" true 1 30 0 3 (9/100) true) 5 < 160 ∧
    (160 : Rat) < outF cfgQ stratIC.comm (mkC "i" true 1 30 0 3 (9/100) true) (5 + 1) := by
  refine ⟨fun a b hab => ?_, by norm_num, by decide +kernel, by decide +kernel⟩
  have hab' : (a : Rat) < b := by exact_mod_cast hab
  have e : ∀ z : Rat, outF cfgQ stratIC.comm (mkC "i" true 1 30 0 3 (9/100) true) z = z * 30 + 2 := by
    intro z
    simp only [outF, fullOutF, boOf, mkC, mkS, stratIC, mkDC, px, Option.getD_some]
    ring
  simp only [e]
  linarith

/-! ### (3) any path of any tree; sub-strategies as targets -/

/-- **`Rebalance_at_path`** (with costs).  `Rebalance_within_costs` lifted from the root of a flat world to the
    market-value strategy `(sd, ss)` found at ANY path `p` of ANY tree that is not stale (its children are
    securities; siblings, ancestors and everything else are arbitrary), standing on `d` like the root.  If the
    algo does not raise: the final world is the closing `root.update(d)` of the starting tree with ONLY the
    strategy at `p` replaced (and of that strategy only cash and fees of the date moved before the update) — the
    rest of the tree is untouched, the update refreshes the ancestors' cached totals —, and unless the root's
    bankruptcy step fires in that update, the world is not stale and at `p` the ledger and every child are as in
    `Rebalance_within_costs`. -/
theorem Rebalance_at_path (cfg : Cfg K) (d : Nat) (w : World K) (p : List Nat) (sd : StratData K)
    (ss : List (SecData K)) (T : List (Nat × K)) (cash notional : Option K) (w' : World K)
    (htol : 0 < cfg.tol) (hst : w.stale = false) (hp : w.root.get? p = some (.strat sd (ss.map Node.sec)))
    (hrn : w.root.now = some d) (hnow : sd.now = some d) (hfi : sd.fixedIncome = false)
    (hsec : ∀ s ∈ ss, RSec d s) (hfrac : ∀ s ∈ ss, s.integer = false)
    (hnd : (T.map (·.1)).Nodup) (hin : ∀ i ∈ T.map (·.1), i < ss.length)
    (hwts : ∀ s ∈ ss, s.weight * sd.value = s.value)
    (h : algoRebalance cfg w p T cash notional = .ok w') :
    ∃ (sd3 : StratData K) (ss3 : List (SecData K)),
      updRoot cfg d (PW w.root p sd3 (ss3.map Node.sec)) = .ok w' ∧ sd3 = withCF sd sd3.capital sd3.lastFee ∧
      ss3.length = ss.length ∧
      (BankruptStep cfg d (PW w.root p sd3 (ss3.map Node.sec)) ∨
       (w'.stale = false ∧ ∃ (sdF : StratData K) (ssF : List (SecData K)),
        w'.root.get? p = some (.strat sdF (ssF.map Node.sec)) ∧ ssF.length = ss.length ∧
        sdF.lastFee = sd.lastFee + (List.zipWith (feeBetween sd.comm) ss ssF).sum ∧
        sdF.capital + (ssF.map (·.value)).sum =
          sd.capital + worthSum ss - ((sdF.lastFee - sd.lastFee) + (boSumL ssF - boSumL ss)) ∧
        (sdF.value = sdF.capital + (ssF.map (·.value)).sum ∨
          (sdF.value = sd.value ∧
            isZero cfg.tol (sd.value - (sdF.capital + (ssF.map (·.value)).sum)) = true)) ∧
        (∀ (i : Nat) (s : SecData K), ss[i]? = some s → ∃ t, ssF[i]? = some t ∧
          (Kept s t ∧ WeightIs cfg (sdF.capital + (ssF.map (·.value)).sum) t ∧
            (∀ wt, (i, wt) ∈ T → isZero cfg.tol (wt * cashScale cash) = false →
              ReachedUpToCosts cfg sd.comm (wt * cashScale cash * sd.value) s t) ∧
            (NotTargeted cfg T cash i → ClosedOrUntouched cfg sd.comm s t))))) := by
  have hw := PW_of_world w p sd (ss.map Node.sec) hst hp
  rw [hw] at h
  exact secs_final_at cfg d w.root p sd ss T cash notional w' htol ⟨_, hp⟩ (by rw [← hw]; exact hrn) hnow hfi hsec
    hnd hin h
    (fun i s t tot => Kept s t ∧ WeightIs cfg tot t ∧
      (∀ wt, (i, wt) ∈ T → isZero cfg.tol (wt * cashScale cash) = false →
        ReachedUpToCosts cfg sd.comm (wt * cashScale cash * sd.value) s t) ∧
      (NotTargeted cfg T cash i → ClosedOrUntouched cfg sd.comm s t))
    (fun _ _ s _ _ hs hc =>
      have hm := List.mem_of_getElem? hs
      ⟨hc.kept, hc.weightIs, fun wt hi hz => hc.reached d htol (hsec s hm) (hfrac s hm) hnd (hwts s hm) wt hi hz,
        fun hn => hc.closedOr d htol (hsec s hm) hnd hn⟩)

/-- the flat-fee fixture one level down (path `[0]` under a root holding no cash): same trades, and the closing
    update refreshes the root's value to 992 -/
example : nestedC.stale = false ∧ nestedC.root.get? [0] = some (.strat stratC (secsC.map Node.sec)) ∧
    nestedC.root.now = some 1 ∧
    (algoRebalance cfgQ nestedC [0] [(0, 1/2), (2, 1/4)] (some (1/5)) none).map
      (fun w => [atC w [], atC w [0], atC w [0, 0], atC w [0, 1], atC w [0, 2]])
      = .ok [some [0, 992, 1, 0], some [396, 992, 1, 6], some [199/5, 398, 199/496, 0], some [0, 0, 0, 2],
          some [99/5, 198, 99/496, 0]] :=
  ⟨rfl, rfl, rfl, by decide +kernel⟩

/-- **`Rebalance_at_path_whole_units`.**  `Rebalance_within_unit_plus_costs` at any path: the frame and ledger of
    `Rebalance_at_path`, children with whole or fractional units (C05's `[FloorRing K]`, `hfloor`, `hceil`;
    whole-unit children hold a whole number of units). -/
theorem Rebalance_at_path_whole_units [FloorRing K] (hfloor : ∀ x : K, floorA x = (⌊x⌋ : K))
    (hceil : ∀ x : K, ceilA x = (⌈x⌉ : K)) (cfg : Cfg K) (d : Nat) (w : World K) (p : List Nat)
    (sd : StratData K) (ss : List (SecData K)) (T : List (Nat × K)) (cash notional : Option K) (w' : World K)
    (htol : 0 < cfg.tol) (hst : w.stale = false) (hp : w.root.get? p = some (.strat sd (ss.map Node.sec)))
    (hrn : w.root.now = some d) (hnow : sd.now = some d) (hfi : sd.fixedIncome = false)
    (hsec : ∀ s ∈ ss, RSec d s)
    (hnd : (T.map (·.1)).Nodup) (hin : ∀ i ∈ T.map (·.1), i < ss.length)
    (hwts : ∀ s ∈ ss, s.weight * sd.value = s.value)
    (h : algoRebalance cfg w p T cash notional = .ok w') :
    ∃ (sd3 : StratData K) (ss3 : List (SecData K)),
      updRoot cfg d (PW w.root p sd3 (ss3.map Node.sec)) = .ok w' ∧ sd3 = withCF sd sd3.capital sd3.lastFee ∧
      ss3.length = ss.length ∧
      (BankruptStep cfg d (PW w.root p sd3 (ss3.map Node.sec)) ∨
       (w'.stale = false ∧ ∃ (sdF : StratData K) (ssF : List (SecData K)),
        w'.root.get? p = some (.strat sdF (ssF.map Node.sec)) ∧ ssF.length = ss.length ∧
        sdF.lastFee = sd.lastFee + (List.zipWith (feeBetween sd.comm) ss ssF).sum ∧
        sdF.capital + (ssF.map (·.value)).sum =
          sd.capital + worthSum ss - ((sdF.lastFee - sd.lastFee) + (boSumL ssF - boSumL ss)) ∧
        (sdF.value = sdF.capital + (ssF.map (·.value)).sum ∨
          (sdF.value = sd.value ∧
            isZero cfg.tol (sd.value - (sdF.capital + (ssF.map (·.value)).sum)) = true)) ∧
        (∀ (i : Nat) (s : SecData K), ss[i]? = some s → ∃ t, ssF[i]? = some t ∧
          (Kept s t ∧ WeightIs cfg (sdF.capital + (ssF.map (·.value)).sum) t ∧
            (∀ wt, (i, wt) ∈ T → isZero cfg.tol (wt * cashScale cash) = false →
              (s.integer = false → ReachedUpToCosts cfg sd.comm (wt * cashScale cash * sd.value) s t) ∧
              (s.integer = true → (∃ z : ℤ, s.position = (z : K)) →
                WithinUnit cfg sd.comm (wt * cashScale cash * sd.value) s t)) ∧
            (NotTargeted cfg T cash i → ClosedOrUntouched cfg sd.comm s t))))) := by
  have hw := PW_of_world w p sd (ss.map Node.sec) hst hp
  rw [hw] at h
  exact secs_final_at cfg d w.root p sd ss T cash notional w' htol ⟨_, hp⟩ (by rw [← hw]; exact hrn) hnow hfi hsec
    hnd hin h
    (fun i s t tot => Kept s t ∧ WeightIs cfg tot t ∧
      (∀ wt, (i, wt) ∈ T → isZero cfg.tol (wt * cashScale cash) = false →
        (s.integer = false → ReachedUpToCosts cfg sd.comm (wt * cashScale cash * sd.value) s t) ∧
        (s.integer = true → (∃ z : ℤ, s.position = (z : K)) →
          WithinUnit cfg sd.comm (wt * cashScale cash * sd.value) s t)) ∧
      (NotTargeted cfg T cash i → ClosedOrUntouched cfg sd.comm s t))
    (fun _ _ s _ _ hs hc =>
      have hm := List.mem_of_getElem? hs
      ⟨hc.kept, hc.weightIs, fun wt hi hz =>
        ⟨fun hf => hc.reached d htol (hsec s hm) hf hnd (hwts s hm) wt hi hz,
          fun hf hw => hc.withinUnit hfloor hceil d htol (hsec s hm) hf hw hnd (hwts s hm) wt hi hz⟩,
        fun hn => hc.closedOr d htol (hsec s hm) hnd hn⟩)

/-- the whole-unit fixture one level down: `i` buys 5 units (240 of value), `b` is closed -/
example : (∀ x : Rat, floorA x = ((⌊x⌋ : ℤ) : Rat)) ∧ (∀ x : Rat, ceilA x = ((⌈x⌉ : ℤ) : Rat)) ∧
    (algoRebalance cfgQ
      { root := .strat { mkD 0 1000 1 with name := "root" } [.strat stratIC (secsIC.map Node.sec)], stale := false }
      [0] [(0, 1/4)] none none).map (fun w => [atC w [], atC w [0], atC w [0, 0], atC w [0, 1]])
      = .ok [some [0, 994, 1, 0], some [754, 994, 1, 4], some [8, 240, 120/497, 0], some [0, 0, 0, 2]] :=
  ⟨rat_hfloor, rat_hceil, by decide +kernel⟩

/-- **`Rebalance_exact_at_path`.**  `Rebalance_exact_partial` (fractional units, no commission, zero spread,
    balanced strategy) lifted from the root to the strategy found at any path of any tree that is not stale:
    same frame as `Rebalance_at_path`; unless the root's bankruptcy step fires, the strategy at `p` keeps its
    value `V`, its cash is the remainder `V − Σ child values`, nothing is booked, every target whose trade is not
    swallowed by `TOL` ends with value exactly `(1−κ)·w·V` and (if not parked) weight `(1−κ)·w`, every other
    child is closed. -/
theorem Rebalance_exact_at_path (cfg : Cfg K) (d : Nat) (w : World K) (p : List Nat) (sd : StratData K)
    (ss : List (SecData K)) (T : List (Nat × K)) (cash notional : Option K) (w' : World K)
    (hatol : 0 ≤ cfg.atol) (htol : 0 < cfg.tol) (hst : w.stale = false)
    (hp : w.root.get? p = some (.strat sd (ss.map Node.sec))) (hrn : w.root.now = some d)
    (hnow : sd.now = some d) (hfi : sd.fixedIncome = false) (hcomm : ∀ q x, sd.comm q x = 0)
    (hnice : ∀ s ∈ ss, NiceSec cfg d s) (hnd : (T.map (·.1)).Nodup) (hin : ∀ i ∈ T.map (·.1), i < ss.length)
    (hbal : sd.value = sd.capital + worthSum ss) (hwts : ∀ s ∈ ss, s.weight * sd.value = s.value)
    (h : algoRebalance cfg w p T cash notional = .ok w') :
    ∃ (sd3 : StratData K) (ss3 : List (SecData K)),
      updRoot cfg d (PW w.root p sd3 (ss3.map Node.sec)) = .ok w' ∧
      (BankruptStep cfg d (PW w.root p sd3 (ss3.map Node.sec)) ∨
       (w'.stale = false ∧ ∃ (sdF : StratData K) (ssF : List (SecData K)),
        w'.root.get? p = some (.strat sdF (ssF.map Node.sec)) ∧ ssF.length = ss.length ∧
        sdF.value = sd.value ∧ sdF.capital + (ssF.map (·.value)).sum = sd.value ∧
        sdF.lastFee = sd.lastFee ∧
        (∀ (i : Nat) (wt : K) (s : SecData K), (i, wt) ∈ T → ss[i]? = some s →
          TargetExact cfg sd.value s (wt * cashScale cash) →
          ∃ t, ssF[i]? = some t ∧ t.value = wt * cashScale cash * sd.value ∧
            t.value = t.position * px t * t.mult ∧ px t = px s ∧ t.mult = s.mult ∧
            t.bidofferPaid = s.bidofferPaid ∧
            (t.needupdate = true → isZero cfg.tol sd.value = false → t.weight = wt * cashScale cash)) ∧
        (∀ (i : Nat) (s : SecData K), ss[i]? = some s →
          (i ∉ T.map (·.1) ∨ ∃ wt, (i, wt) ∈ T ∧ isZero cfg.tol (wt * cashScale cash) = true) →
          ∃ t, ssF[i]? = some t ∧
            (isZero cfg.tol s.value = false → isZero cfg.tol s.position = false →
              t.position = 0 ∧ t.value = 0) ∧
            (isZero cfg.tol s.value = true ∨ isZero cfg.tol s.position = true →
              t.position = s.position ∧ t.value = s.value)))) := by
  have hw := PW_of_world w p sd (ss.map Node.sec) hst hp
  rw [hw] at h
  exact exact_at_path cfg d w.root p sd ss T cash notional w' hatol htol ⟨_, hp⟩ (by rw [← hw]; exact hrn) hnow
    hfi hcomm hnice hnd hin hbal hwts h

/-- C06's cost-free flat strategy under a root holding no cash: targets 40 % and 20 % reached exactly at `[0]` -/
example : nested.stale = false ∧ nested.root.get? [0] = some (.strat strat (secs.map Node.sec)) ∧
    nested.root.now = some 1 ∧ (∀ s ∈ secs, NiceSec cfgQ 1 s) ∧ strat.value = strat.capital + worthSum secs ∧
    (algoRebalance cfgQ nested [0] [(0, 1/2), (2, 1/4)] (some (1/5)) none).map
      (fun w => [atC w [], atC w [0], atC w [0, 0], atC w [0, 1], atC w [0, 2]])
      = .ok [some [0, 1000, 1, 0], some [400, 1000, 1, 0], some [40, 400, 2/5, 0], some [0, 0, 0, 0],
          some [20, 200, 1/5, 0]] :=
  ⟨rfl, rfl, rfl, secs_nice, by decide +kernel, by decide +kernel⟩

/-- **`Rebalance_substrategy_targets`.**  The market-value strategy `(sd, ks)` found at any path `p` of a tree
    that is not stale, standing on `d` like the root, without commission, each of whose children is either a
    fractional, cost-free, up-to-date security or a sub-strategy (`NiceSub`: on `d`, no commission, such
    securities as children) that is a target with a non-negligible scaled weight.  If the algo does not raise:
    same frame; unless the root's bankruptcy step fires, every targeted sub-strategy `(sdc, cs)` received
    `A = ((1−κ)·w − its weight) × V` like a security and, after the closing update (`SubOut`): its cash is
    `cash + A − Σ` what its children paid, every child `c` of it went through `allocate(A × c.weight)` — its
    value moved by `stepCash cfg c (A·c.weight)`, which is exactly `A × c.weight` when the trade is not swallowed
    by `TOL` (`Rebal.stepCash_of_exact`) —, and its value is `cash + Σ position·price·mult + A` (up to the `TOL`
    write guard), i.e. `(1−κ)·w·V` on a balanced sub-strategy (`substrategy_reaches_target`); every targeted
    security whose trade is not swallowed by `TOL` ends with value exactly `(1−κ)·w·V`. -/
theorem Rebalance_substrategy_targets (cfg : Cfg K) (d : Nat) (w : World K) (p : List Nat) (sd : StratData K)
    (ks : List (Node K)) (T : List (Nat × K)) (cash notional : Option K) (w' : World K)
    (hatol : 0 ≤ cfg.atol) (htol : 0 < cfg.tol) (hst : w.stale = false)
    (hp : w.root.get? p = some (.strat sd ks)) (hrn : w.root.now = some d)
    (hnow : sd.now = some d) (hfi : sd.fixedIncome = false) (hcomm : ∀ q x, sd.comm q x = 0)
    (hnd : (T.map (·.1)).Nodup) (hin : ∀ i ∈ T.map (·.1), i < ks.length)
    (hkids : ∀ (i : Nat) (k : Node K), ks[i]? = some k →
      (∃ s, k = .sec s ∧ NiceSec cfg d s) ∨
      (∃ sdc cs wt, k = .strat sdc (cs.map Node.sec) ∧ NiceSub cfg d sdc cs ∧ (i, wt) ∈ T ∧
        isZero cfg.tol (wt * cashScale cash) = false))
    (h : algoRebalance cfg w p T cash notional = .ok w') :
    ∃ (sd3 : StratData K) (ks3 : List (Node K)), updRoot cfg d (PW w.root p sd3 ks3) = .ok w' ∧
      (BankruptStep cfg d (PW w.root p sd3 ks3) ∨
       (w'.stale = false ∧
        (∀ (i : Nat) (wt : K) (sdc : StratData K) (cs : List (SecData K)), (i, wt) ∈ T →
          ks[i]? = some (.strat sdc (cs.map Node.sec)) →
          ∃ sdF csF, w'.root.get? (p ++ [i]) = some (.strat sdF (csF.map Node.sec)) ∧
            SubOut cfg ((wt * cashScale cash - sdc.weight) * sd.value) sdc cs sdF csF) ∧
        (∀ (i : Nat) (wt : K) (s : SecData K), (i, wt) ∈ T → ks[i]? = some (.sec s) →
          s.weight * sd.value = s.value → TargetExact cfg sd.value s (wt * cashScale cash) →
          ∃ sdp' ksp' t, w'.root.get? p = some (.strat sdp' ksp') ∧ ksp'[i]? = some (.sec t) ∧
            t.value = wt * cashScale cash * sd.value ∧ t.value = t.position * px t * t.mult ∧
            px t = px s ∧ t.mult = s.mult))) := by
  have hw := PW_of_world w p sd ks hst hp
  rw [hw] at h
  exact rebalance_subs_final cfg d w.root p sd ks T cash notional w' hatol htol ⟨_, hp⟩ (by rw [← hw]; exact hrn)
    hnow hfi hcomm hnd hin hkids h

/-- root worth 1000: 300 cash, security `a` (300) and a sub-strategy worth 400 (100 cash, `x` 200 at weight ½,
    `y` 100 at weight ¼).  Targets `a → 20 %`, sub-strategy `→ 60 %`: the sub-strategy receives 200, `x` gets 100,
    `y` gets 50, 50 stay in its cash; its value is 600 -/
example : (∀ c ∈ subSecs, NiceSec cfgQ 1 c) ∧ subD.now = some 1 ∧
    (algoRebalance cfgQ { root := .strat subTop subKids, stale := false } [] [(0, 1/5), (1, 3/5)] none none).map
      (fun w => [atC w [], atC w [0], atC w [1], atC w [1, 0], atC w [1, 1]])
      = .ok [some [200, 1000, 1, 0], some [20, 200, 1/5, 0], some [150, 600, 3/5, 0], some [30, 300, 1/2, 0],
          some [30, 150, 1/4, 0]] :=
  ⟨subSecs_nice, rfl, by decide +kernel⟩

/-- a targeted sub-strategy that was balanced (`value = cash + Σ position·price·mult`, cached weight = value
    share of `V`) ends with value `(1−κ)·w·V` (up to the `TOL` write guard) -/
theorem substrategy_reaches_target (cfg : Cfg K) (wt' V : K) (sdc sdF : StratData K) (cs csF : List (SecData K))
    (hbal : sdc.value = sdc.capital + worthSum cs) (hw : sdc.weight * V = sdc.value)
    (h : SubOut cfg ((wt' - sdc.weight) * V) sdc cs sdF csF) :
    sdF.value = wt' * V ∨ (sdF.value = sdc.value ∧ isZero cfg.tol (sdc.value - wt' * V) = true) := by
  have e : sdc.capital + worthSum cs + (wt' - sdc.weight) * V = wt' * V := by
    rw [← hbal, sub_mul, hw]; ring
  have := h.value
  rw [e] at this
  exact this

example : subD.value = subD.capital + worthSum subSecs ∧ subD.weight * 1000 = subD.value := by
  decide +kernel

/-! ### (4) from a stale world -/

/-- **`Rebalance_from_stale`.**  `Rebalance` starts with a refreshing read of the target's value.  On ANY world
    (pending changes or not) whose strategy at `p` is a market-value strategy before and after that refresh, with
    as many children, the algo is the algo on the refreshed world `w1`, which is not stale — so every theorem of
    this file and of `Bt.Props.C06` applies with `w1` in the place of `w`, and the base `V` is the value the
    refresh computed. -/
theorem Rebalance_from_stale (cfg : Cfg K) (w w1 : World K) (p : List Nat) (T : List (Nat × K))
    (cash notional : Option K) (sd0 sd1 : StratData K) (ks0 ks1 : List (Node K))
    (hp : w.root.get? p = some (.strat sd0 ks0)) (hf0 : sd0.fixedIncome = false)
    (hr : refresh cfg w = .ok w1) (hp1 : w1.root.get? p = some (.strat sd1 ks1))
    (hf1 : sd1.fixedIncome = false) (hlen : ks1.length = ks0.length) :
    w1.stale = false ∧ algoRebalance cfg w p T cash notional = algoRebalance cfg w1 p T cash notional :=
  ⟨refresh_not_stale cfg w w1 hr, algoRebalance_stale cfg w w1 p T cash notional sd0 sd1 ks0 ks1 hp hf0 hr hp1 hf1 hlen⟩

/-- `a` was bought since the last update (40 units, cached value still 300, cached total 1000): the refresh marks
    `a` at 400 (total still 1000, weights 40 % / 20 %), and `Rebalance(a → 50 %)` then works against `V = 1000`
    on the refreshed weights: `a` ends at 500, `b` is closed -/
example : staleW.stale = true ∧ (refresh cfgQ staleW).map viewC
      = .ok [[400, 1000, 1, 0], [40, 400, 2/5, 0], [10, 200, 1/5, 0]] ∧
    (algoRebalance cfgQ staleW [] [(0, 1/2)] none none).map viewC
      = .ok [[500, 1000, 1, 0], [50, 500, 1/2, 0], [0, 0, 0, 0]] :=
  ⟨rfl, by decide +kernel, by decide +kernel⟩

/-- **`Rebalance_within_costs_from_stale`.**  `Rebalance_within_costs` from a world with pending changes: if the
    refreshing read at the head of the algo turns `w` (root a market-value strategy) into the flat world
    `flatW sd ss` that satisfies the hypotheses of `Rebalance_within_costs` — `sd.value` is then the value that
    refresh computed —, the conclusion of `Rebalance_within_costs` holds for `Rebalance` called on `w`. -/
theorem Rebalance_within_costs_from_stale (cfg : Cfg K) (d : Nat) (w : World K) (sd0 : StratData K)
    (ks0 : List (Node K)) (sd : StratData K) (ss : List (SecData K))
    (T : List (Nat × K)) (cash notional : Option K) (w' : World K)
    (hp0 : w.root.get? [] = some (.strat sd0 ks0)) (hf0 : sd0.fixedIncome = false)
    (hr : refresh cfg w = .ok (flatW sd ss)) (hlen : ss.length = ks0.length)
    (htol : 0 < cfg.tol) (hnow : sd.now = some d) (hfi : sd.fixedIncome = false)
    (hsec : ∀ s ∈ ss, RSec d s) (hfrac : ∀ s ∈ ss, s.integer = false)
    (hnd : (T.map (·.1)).Nodup) (hin : ∀ i ∈ T.map (·.1), i < ss.length)
    (hwts : ∀ s ∈ ss, s.weight * sd.value = s.value)
    (h : algoRebalance cfg w [] T cash notional = .ok w') :
    (∃ (sd3 : StratData K) (ss3 : List (SecData K)), updRoot cfg d (flatW sd3 ss3) = .ok w' ∧
      sd3.capital + worthSum ss3 < 0 ∧ sd3.bankrupt = false) ∨
    ∃ (sdF : StratData K) (ssF : List (SecData K)), w' = flatW sdF ssF ∧ ssF.length = ss.length ∧
      sdF.lastFee = sd.lastFee + (List.zipWith (feeBetween sd.comm) ss ssF).sum ∧
      sdF.capital + (ssF.map (·.value)).sum =
        sd.capital + worthSum ss - ((sdF.lastFee - sd.lastFee) + (boSumL ssF - boSumL ss)) ∧
      (sdF.value = sdF.capital + (ssF.map (·.value)).sum ∨
        (sdF.value = sd.value ∧
          isZero cfg.tol (sd.value - (sdF.capital + (ssF.map (·.value)).sum)) = true)) ∧
      (∀ (i : Nat) (s : SecData K), ss[i]? = some s → ∃ t, ssF[i]? = some t ∧
        (Kept s t ∧ WeightIs cfg (sdF.capital + (ssF.map (·.value)).sum) t ∧
          (∀ wt, (i, wt) ∈ T → isZero cfg.tol (wt * cashScale cash) = false →
            ReachedUpToCosts cfg sd.comm (wt * cashScale cash * sd.value) s t) ∧
          (NotTargeted cfg T cash i → ClosedOrUntouched cfg sd.comm s t))) := by
  rw [(Rebalance_from_stale cfg w (flatW sd ss) [] T cash notional sd0 sd ks0 (ss.map Node.sec) hp0 hf0 hr
    (flat_get_root sd ss) hfi (by rw [List.length_map]; exact hlen)).2] at h
  exact Rebalance_within_costs cfg d sd ss T cash notional w' htol hnow hfi hsec hfrac hnd hin hwts h

/-- the stale fixture refreshes to a flat world (two security children, not stale, market value, on date 1,
    value 1000) whose children need no further refresh and carry the value shares of the refreshed total as
    weights (`refreshedOK` checks exactly that) -/
example : staleW.root.get? [] = some (.strat (mkD 400 1000 1)
      [.sec { mkS "a" 1 (some 10) 40 (3/10) true with value := 300, notl := 300, lastPos := 30 },
       .sec (mkS "b" 1 (some 20) 10 (1/5) true)]) ∧
    (refresh cfgQ staleW).map refreshedOK = .ok true :=
  ⟨rfl, by decide +kernel⟩

end Bt.C06
