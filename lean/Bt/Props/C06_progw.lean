import Bt.Proofs.ProgramW
/-! C06 (Rebalance) inside whole programs: the optional cash fraction `temp['cash']`.  In the extended whole-program model
    (`Bt/Algos/ProgramX.lean`) a `SetCash(c)` in the stack is the field `ProgX.cash := some c`, handed to `algoRebalance` as its
    `cash` argument (`C15W.progRunX_hands_post_weights`).  Here: for a strategy that is not fixed-income, rebalancing with the cash
    fraction `c` set aside **is** rebalancing to the targets scaled by `1 − c` (`rebalance_cash_is_scale`) — the base stays the
    strategy's value, every child is closed / traded exactly as without cash — and therefore a stack with `SetCash(c)` runs, day by
    day, exactly as the same stack with `ScaleWeights(1 − c)` placed last (`progRunX_cash_eq_scale`).  And what
    `RebalanceOverTime(n)` in place of `Rebalance` hands to its inner `Rebalance` (`overTime_last`).
    Helper lemmas: `Bt.Proofs.ProgramW` (namespace `Bt.PProgW`). -/
set_option linter.unusedSectionVars false
namespace Bt.C06W
open Bt Bt.P08 Bt.P04 Bt.Prog Bt.PProg Bt.PProgX Bt.PProgW Bt.Select Bt.Weigh

variable {K : Type} [Field K] [LinearOrder K] [IsStrictOrderedRing K] [HasFloor K]

/-- the strategy at `path` is not fixed-income once the tree has been brought up to date -/
def NotFI (cfg : Cfg K) (w : World K) (path : List Nat) : Prop :=
  ∀ w1 sd ks, refresh cfg w = .ok w1 → w1.root.get? path = some (.strat sd ks) → sd.fixedIncome = false

theorem bind_congr' {ε α β : Type} {x : Except ε α} {f g : α → Except ε β} (h : ∀ a, x = .ok a → f a = g a) :
    x.bind f = x.bind g := by
  cases x with
  | error e => rfl
  | ok a => exact h a rfl

/-- **`Rebalance` with `temp['cash'] = c` is `Rebalance` to the targets scaled by `1 − c`** (market-value strategy): same base,
    same children closed, and every target traded to `weight × (1 − c)` -/
theorem rebalance_cash_is_scale (cfg : Cfg K) (w : World K) (path : List Nat) (targets : List (Nat × K)) (c : K)
    (hfi : NotFI cfg w path) :
    algoRebalance cfg w path targets (some c) none =
      algoRebalance cfg w path (scaleWeights (1 - c) targets) none none := by
  unfold algoRebalance
  cases hn : w.root.get? path with
  | none => rfl
  | some n =>
    cases n with
    | sec s => rfl
    | strat sd0 kids0 =>
      simp only [Option.isSome_none, Bool.and_false, Bool.false_eq_true, ↓reduceIte]
      refine bind_congr' fun w1 h1 => ?_
      cases hn1 : w1.root.get? path with
      | none => rfl
      | some n1 =>
        cases n1 with
        | sec s => rfl
        | strat sd ks =>
          have hf : sd.fixedIncome = false := hfi w1 sd ks h1 hn1
          simp only [hf, Bool.false_eq_true, ↓reduceIte, scaleWeights_fst]
          refine bind_congr' fun w2 _ => ?_
          rw [rebalanceTargets_cash]

variable [Select.HasNatFloor K]

/-- **a stack with `SetCash(c)` runs exactly as the same stack with `ScaleWeights(1 − c)` as its last post step** (strategy not
    fixed-income), on every day and every world -/
theorem progRunX_cash_eq_scale (cfg : Cfg K) (p : ProgX K) (c : K) (path : List Nat) (d : Nat) (w : World K)
    (hc : p.cash = some c) (hfi : NotFI cfg w path) (hnc : ∀ st ∈ p.post, WStep.isClose st = false) :
    progRunX cfg p path d w =
      progRunX cfg { p with post := p.post ++ [.scale (1 - c)], cash := none } path d w := by
  unfold progRunX
  simp only
  cases hg : p.gate.getD d false with
  | false => rfl
  | true =>
    simp only [↓reduceIte]
    cases hn : w.root.get? path with
    | none => rfl
    | some n =>
      cases n with
      | sec s => rfl
      | strat sd kids =>
        simp only
        cases hs : selSteps (tableOf p.ucols kids d) d p.sels none with
        | error e => rfl
        | ok r =>
          cases r with
          | none => rfl
          | some sel =>
            simp only
            have hwx : weigherX { p with post := p.post ++ [.scale (1 - c)], cash := none } d sel = weigherX p d sel := rfl
            rw [hwx]
            refine bind_congr' fun r _ => ?_
            cases r with
            | none => rfl
            | some ws0 =>
              simp only
              rw [postSteps_append, bind_assoc', hc]
              refine bind_congr' fun s hs1 => ?_
              obtain ⟨w1, ws1⟩ := s
              rw [postSteps_single, postStep_scale, bind_ok']
              refine rebalance_cash_is_scale cfg w1 path ws1 c ?_
              intro w2 sd2 ks2 hr2 hn2
              rcases postSteps_world _ hnc hs1 with e | hr
              · rw [e] at hr2; exact hfi w2 sd2 ks2 hr2 hn2
              · rw [refresh_idem_aux hr] at hr2
                cases hr2
                exact hfi w1 sd2 ks2 hr hn2

/-! ### `RebalanceOverTime(n)` in place of `Rebalance` (stack without `run_always`) -/

/-- **what `RebalanceOverTime(n)` hands to the `Rebalance` it owns** when it ends a stack: the tree is brought up to date, and
    every target `x` of a name whose child currently weighs `c` (0 for a name that is no child) becomes `c + (x − c)/n` — same
    names in the same order; with `n = 1` the targets themselves -/
theorem overTime_last (cfg : Cfg K) (path : List Nat) (pre : List (WStep K)) (n : K) (w w1 : World K)
    (ws0 ws : List (Nat × K)) (h : postSteps cfg path (pre ++ [.overTime n]) (w, ws0) = .ok (w1, ws)) :
    ∃ wm wsm sd kids, postSteps cfg path pre (w, ws0) = .ok (wm, wsm) ∧ refresh cfg wm = .ok w1 ∧
      w1.root.get? path = some (.strat sd kids) ∧
      ws = wsm.map (fun q => (q.1, dictGetD (curWeights kids) q.1 0 + (q.2 - dictGetD (curWeights kids) q.1 0) / n)) ∧
      dictKeys ws = dictKeys wsm ∧ (n = 1 → ws = wsm) := by
  obtain ⟨⟨wm, wsm⟩, hpre, hlast⟩ := postSteps_snoc_ok h
  obtain ⟨hr, sd, kids, hk, hws⟩ := postStep_overTime_ok hlast
  refine ⟨wm, wsm, sd, kids, hpre, hr, hk, hws, ?_, ?_⟩
  · rw [hws]; unfold rotTargets; simp [dictKeys, List.map_map, Function.comp_def]
  · intro h1
    rw [hws, h1]
    unfold rotTargets
    conv_rhs => rw [← List.map_id wsm]
    refine List.map_congr_left fun q _ => ?_
    simp

/-! ### non-vacuity -/

/-- the fresh tree of data set A is a market-value strategy: `NotFI` holds at the root -/
theorem wXA_notFI : NotFI cfgE wXA [] := by
  intro w1 sd ks hr hn
  rw [refresh_of_fresh rfl] at hr
  cases hr
  cases hn
  rfl

/-- `progWD` (`LimitDeltas(0.1)`, `SetCash(0.25)`) and `progWD'` (`LimitDeltas(0.1)`, `ScaleWeights(0.75)`) on row 1 of data set A:
    the same day; whole backtests of the two end with the same weights in the children -/
example : progRunX cfgE progWD [] 1 wXA = progRunX cfgE progWD' [] 1 wXA ∧
    (btRun cfgE (treeRunG gtreeWD []) 1000 [0, 1, 2, 3] wXA).toOption.map rootWeights =
      (btRun cfgE (treeRunG gtreeWD' []) 1000 [0, 1, 2, 3] wXA).toOption.map rootWeights :=
  ⟨progRunX_cash_eq_scale cfgE progWD (1/4) [] 1 wXA rfl wXA_notFI (by decide), by decide +kernel⟩

/-- … and `Rebalance` itself: 60/40 with a quarter set aside is 45/30 -/
example : algoRebalance cfgE wXA [] [(0, 3/5), (1, 2/5)] (some (1/4)) none =
    algoRebalance cfgE wXA [] (scaleWeights (1 - 1/4) [(0, 3/5), (1, 2/5)]) none none ∧
    scaleWeights (1 - 1/4 : Rat) [(0, 3/5), (1, 2/5)] = [(0, 9/20), (1, 3/10)] :=
  ⟨rebalance_cash_is_scale cfgE wXA [] _ (1/4) wXA_notFI, by decide +kernel⟩

/-- `RebalanceOverTime(2)` after the 70/20/10 targets on the fresh tree of data set A (all current weights zero): half of each -/
example : ∃ ws, postSteps cfgE [] ([] ++ [.overTime (2 : Rat)]) (wXA, wsW) = .ok (wXA, ws) ∧
    ws = [(0, 7/20), (1, 1/10), (2, 1/20)] ∧ dictKeys ws = dictKeys wsW := by
  have hr : refresh cfgE wXA = .ok wXA := refresh_of_fresh rfl
  have e : postSteps cfgE [] ([] ++ [.overTime (2 : Rat)]) (wXA, wsW) = .ok (wXA, [(0, 7/20), (1, 1/10), (2, 1/20)]) := by
    rw [List.nil_append, postSteps_single]
    simp only [postStep, hr]
    show Except.ok (wXA, rotTargets (2 : Rat) (curWeights [.sec xE, .sec yE, .sec zE]) wsW) = _
    congr 2
    decide +kernel
  obtain ⟨wm, wsm, _, _, hpre, _, _, _, hk, _⟩ := overTime_last cfgE [] [] 2 wXA wXA wsW _ e
  rw [postSteps_nil] at hpre
  cases hpre
  exact ⟨_, e, rfl, hk⟩

end Bt.C06W
