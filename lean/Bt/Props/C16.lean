import Bt.Props.C16_flags
import Bt.Props.C16_flat
import Bt.Props.C16_terminal
/-! C16 — bankruptcy is detected, clean and terminal.  The property theorems are in three fragments
    (all in namespace `Bt.C16`; helper lemmas in `Bt.Proofs.{Flags,FlagsEval,Liq*,Terminal*}`, namespace `Bt.P16`):

    * `C16_flags`    — *detected*: `updRoot` sets the flag exactly when the total it computes is below zero (not fixed income,
                       not within TOL), sub-strategies and fixed-income strategies are never flagged, every public operation
                       and the whole loop keep every other flag, the root flag is monotone;
    * `C16_flat`     — *clean*: the liquidation leaves every security of the whole tree (any depth) flat, with the excluded
                       corner cases (zero-priced position, dust weight) as Lean witnesses;
    * `C16_terminal` — *terminal*: once flagged the loop never calls the algos again, positions stay zero, cash and value stay
                       constant (cash changes at most once more, by the carry parked on the bankruptcy date).

    This file glues them. -/
set_option linter.unusedSectionVars false
namespace Bt.C16
open Bt

variable {K : Type} [Field K] [LinearOrder K] [IsStrictOrderedRing K] [HasFloor K]

/-- **Detected, clean and terminal, in one statement.**  `root.update(d)` on a not yet flagged world computes a total
    `v`; if `v < 0` (market-value root, beyond TOL) the returned world is flagged, every security of the whole tree is
    flat, and — whatever the algos are and however many dates follow — after the rest of the run the flag is still set,
    every position is still zero, the root's cash is the cash of the bankruptcy date plus the carry parked on its
    securities that day, and its value is all the cash of the tree at the bankruptcy date. -/
theorem bankruptcy_detected_clean_terminal (cfg : Cfg K) (htol : 0 < cfg.tol) (run : RunFn K)
    (d d1 : Nat) (ds : List Nat) (w w1 w' : World K) (sd : StratData K) (kids : List (Node K)) (v : K)
    (hroot : w.root = .strat sd kids) (hmv : sd.fixedIncome = false) (hb : sd.bankrupt = false)
    (hv : P16.rootTotal cfg d w = .ok v) (hneg : v < 0) (hnz : isZero cfg.tol v = false)
    (hL : P16.Liquidable cfg d w.root) (hW : P16.NoDustWeights cfg w)
    (h1 : updRoot cfg d w = .ok w1)
    (hfresh : P16.Fresh d1 w1.root)
    (h : btLoop cfg run (d1 :: ds) w1 = .ok w') :
    w1.bankrupt = true ∧ w1.root.allFlat ∧
    w'.bankrupt = true ∧ P16.allFlat w'.root ∧
    P16.rootCash w' = P16.rootCash w1 + parkedCash (P16.rootKids w1) ∧
    w'.root.value = P16.cashBelow w1.root := by
  have hb0 : w.bankrupt = false := by simp [World.bankrupt, hroot, hb]
  have hb1 : w1.bankrupt = true := by
    have := flag_iff_trigger cfg d w w1 sd kids v hroot hv h1
    rw [this]
    simp [hb, hmv, hnz, hneg]
  have hflat := bankrupt_flat cfg htol d w w1 hL hW h1 hb0 hb1
  obtain ⟨t1, _, t3, t4, t5, _⟩ := terminal_after_liquidation_next cfg run d1 ds w1 w' hb1 hflat hfresh h
  exact ⟨hb1, hflat, t1, t3, t4, t5⟩

end Bt.C16
