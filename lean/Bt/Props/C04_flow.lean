import Bt.Props.C04_progx
/-! `CapitalFlow` at the head of a stack (`Bt.Prog.withFlow`): an `adjust` issued on every call before the rest of the stack.
    It keeps a node function causal and public — so trees whose stacks start with a capital flow are covered by the generic
    whole-backtest theorems (`gtree_backtest_causal`, …) — and when the rest of the stack is the identity (gate closed) the call is
    exactly the flow. -/
set_option linter.unusedSectionVars false
namespace Bt.C04
open Bt Bt.P08 Bt.P04 Bt.Prog Bt.PProg Bt.PProgX Bt.Select

variable {K : Type} [Field K] [LinearOrder K] [IsStrictOrderedRing K] [HasFloor K] [Select.HasNatFloor K]

/-- a capital flow in front of a public stack is public (explicit updates at the date of the call only) -/
theorem withFlow_public (cfg : Cfg K) (a : K) (f : List Nat → RunFn K) (path : List Nat)
    (hf : P04.RunPublic cfg (f path)) : P04.RunPublic cfg (withFlow a f path) := by
  unfold withFlow
  exact P04.runPublic_seq (P04.runPublic_adjust path a true true) hf

/-- a capital flow in front of a causal stack is causal: the amount is a constant of the program, not data -/
theorem withFlow_causal (cfg : Cfg K) (t : Nat) (a : K) (f : List Nat → RunFn K) (path : List Nat)
    (hf : Causal t (f path)) : Causal t (withFlow a f path) := by
  unfold withFlow
  exact P04.causal_seq (P04.causal_adjust path a true true) hf (P04.runPublic_adjust (cfg := cfg) path a true true)

/-- with the rest of the stack idle (scheduler says no), a call is exactly the flow -/
theorem withFlow_gate_closed (a : K) (f : List Nat → RunFn K) (path : List Nat) (d : Nat) (w : World K)
    (hf : ∀ w', f path d w' = .ok w') : withFlow a f path d w = opAdjust w path a true true := by
  unfold withFlow
  cases h : opAdjust w path a true true with
  | error e => rfl
  | ok w1 => simp [Except.bind, hf]

/-- instance: every extended stack headed by a capital flow -/
theorem flow_progRunX_causal_public (cfg : Cfg K) (t : Nat) (a : K) (p : ProgX K) (path : List Nat) :
    Causal t (withFlow a (progRunX cfg p) path) ∧ P04.RunPublic cfg (withFlow a (progRunX cfg p) path) :=
  ⟨withFlow_causal cfg t a _ path (progRunX_causal cfg p path t), withFlow_public cfg a _ path (progRunX_public cfg p path)⟩

example : Causal 2 (withFlow (100 : Rat) (progRunX cfgE progXE) []) ∧
    P04.RunPublic cfgE (withFlow (100 : Rat) (progRunX cfgE progXE) []) :=
  flow_progRunX_causal_public cfgE 2 100 progXE []

end Bt.C04
