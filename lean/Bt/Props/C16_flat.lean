import Bt.Proofs.Liquidate
import Bt.Proofs.LiqOutside
import Bt.Proofs.LiqMonitor
import Bt.Props.C08
/-! C16 (part) — a bankrupt market-value root is liquidated: every position in the whole tree is closed
    at that date's prices.  Property theorems only; the lemmas live in `Bt.Proofs.LiqSec`, `LiqTree`,
    `Liquidate` (namespace `Bt.P16`).

    **Hypotheses the proofs forced** (each is a finding; the two `witness_…` theorems at the end show that
    the first and the last cannot be dropped):

    * `P16.Liquidable cfg d n` — every security of the tree satisfies `P16.SecPre cfg d`:
      - `live`   the mark `position × price(d) × multiplier` of an open position is not within `TOL` of `0`
                 (in particular the price at the liquidation date is not exactly `0`, the multiplier is
                 not `0`; a child worth exactly `0` is not even visited by `flatten`, one worth less than
                 `TOL` makes `allocate` return at `is_zero(amount)`);
      - `nodust` no position with `0 < |position| < TOL` (`transact`/`allocate` drop such quantities);
      - `off`    a security with `needupdate = False` is exactly flat, worth `0`, notional `0`, weight `0`;
      - `ndw`    no weight with `0 < |weight| < TOL`;
      - `mark0`, `rowp`  book-keeping invariants of all reachable worlds (a security last marked flat is
                 worth nothing; the position row at the security's date holds its last marked position).
      That a price (and a bid/offer entry when `bidofferSet`) is present at `d` is *not* assumed: a NaN
      there makes `update`/`outlay` raise, and every theorem is about a run that returns.
    * `0 < cfg.tol` (`TOL = 1e-16` in the code).
    * `P16.NoDustWeights cfg w` — **on the run, not on the input**: in no world the liquidation passes
      through (`P16.LiqReach`: entry into the bankruptcy step, getter refreshes, single-level flattens)
      does a security carry a weight with `0 < |weight| < TOL`.  Weights are recomputed by every refresh
      as `value / parent value`, and the parent's value depends on the commissions paid so far, so for
      an arbitrary commission function this is not a condition on the input.  Not needed when the root
      holds securities only (`bankrupt_flat_onelevel`): no refresh happens then. -/
set_option linter.unusedSectionVars false
namespace Bt.C16
open Bt Bt.C08

variable {K : Type} [Field K] [LinearOrder K] [IsStrictOrderedRing K] [HasFloor K]

/-! ### concrete instances used by the `example`s (`cfgQ` of C08: `TOL = 1/1000`) -/

/-- commission: 1 per trade plus 1/10 per unit -/
def feeQ : Rat → Rat → Rat := fun q _ => 1 + absA q / 10

/-- a plain security, multiplier 2, bid/offer spread 1, marked on date 0 at the first price -/
def mkSec (name : String) (pos : Rat) (prices : List (Option Rat)) (w : Rat) (integer : Bool := false) :
    SecData Rat :=
  { name := name, kind := .plain, fixedIncome := false, integer := integer, bidofferSet := true, mult := 2,
    now := some 0, price := prices.head?.join, value := pos * (prices.head?.join.getD 0) * 2,
    notl := pos * (prices.head?.join.getD 0) * 2, weight := w, position := pos, lastPos := pos,
    outlayAcc := 0, bidoffer := some 1, bidofferPaid := 0, capital := 0, coupon := 0, holdingCost := 0,
    needupdate := true, prices := prices, bidoffers := [some 1, some 1], coupons := [], costLong := none,
    costShort := none, rValue := [0, 0], rPosition := [pos, 0], rNotl := [0, 0], rOutlay := [0, 0],
    rBidofferPaid := [0, 0], rCoupon := [0, 0], rHolding := [0, 0] }

def mkStrat (name : String) (cap val : Rat) : StratData Rat :=
  { name := name, fixedIncome := false, bidofferSet := true, paperTrade := false, paperPx := 100,
    comm := feeQ, now := some 0, capital := cap, price := 100, value := val, notl := 0, weight := 0,
    netFlows := 0, lastValue := val, lastNotl := 0, lastPrice := 100, lastFee := 0, bidofferPaid := 0,
    bankrupt := false, rPrice := [100, 0], rValue := [val, 0], rNotl := [0, 0], rCash := [cap, 0],
    rFees := [0, 0], rFlows := [0, 0], rBidofferPaid := [0, 0] }

mutual
/-- the positions of all securities of a tree, left to right -/
def posOf : Node Rat → List Rat
  | .sec s => [s.position]
  | .strat _ ks => posOfL ks
def posOfL : List (Node Rat) → List Rat
  | [] => []
  | k :: ks => posOf k ++ posOfL ks
end

mutual
/-- the entries at index `d` of the position rows of all securities of a tree -/
def rowOf (d : Nat) : Node Rat → List (Option Rat)
  | .sec s => [s.rPosition[d]?]
  | .strat _ ks => rowOfL d ks
def rowOfL (d : Nat) : List (Node Rat) → List (Option Rat)
  | [] => []
  | k :: ks => rowOf d k ++ rowOfL d ks
end

/-- a root over a sub-strategy `S` (security `x` and a sub-sub-strategy `T` holding whole units of `z`)
    and a short position `b`; `cash` is the root's cash -/
def nested (cash : Rat) : Node Rat :=
  .strat (mkStrat "root" cash (cash + 294))
    [ .strat (mkStrat "S" 100 254)
        [ .sec (mkSec "x" 3 [some 10, some 8] (60/254)),
          .strat (mkStrat "T" 10 94) [ .sec (mkSec "z" 7 [some 6, some 5] (84/94) true) ] ],
      .sec (mkSec "b" (-2) [some 10, some 12] (40/706)) ]

/-! ### (1) close-out of one security -/

/-- **`allocate(-value)` closes the position exactly.**  A security marked for `d` at its present
    position (`now = d`, `lastPos = position` — what any `update(d)` leaves), parent's clock `d`, position
    not dust, value not within `TOL` of `0`: if `allocate(-value)` returns, `position = 0` — for any
    commission function, any spread, any multiplier, whole or fractional units. -/
theorem closeout_flat (cfg : Cfg K) (htol : 0 < cfg.tol) (d : Nat) (comm : K → K → K) (s s' : SecData K)
    (a : Option (Adj K)) (hnow : s.now = some d) (hlp : s.lastPos = s.position)
    (hnd : isZero cfg.tol s.position = true → s.position = 0) (hvz : isZero cfg.tol s.value = false)
    (h : secAllocate cfg (some d) comm s (-s.value) = .ok (s', a)) : s'.position = 0 :=
  P16.secAllocate_close_min htol hnow hlp hnd hvz h

/-- 7 whole units at 6 (multiplier 2, spread 1, fee 1 + 0.7): sold out, proceeds 84 − 7 − 1.7 -/
example : ((secAllocate cfgQ (some 0) feeQ (mkSec "z" 7 [some 6, some 5] 1 true) (-84)).toOption.map
    fun r => (r.1.position, r.2.map (·.amount))) = some (0, some (84 - 7 - 17/10)) := by decide +kernel

/-- a fractional short position is bought back -/
example : ((secAllocate cfgQ (some 0) feeQ (mkSec "b" (-5/2) [some 10, some 12] 1) 50).toOption.map
    fun r => r.1.position) = some 0 := by decide +kernel

/-! ### (2) `strategy.flatten()` at any depth -/

/-- **`flatten` called on the strategy at `path`** (any depth, nested sub-strategies included): if it
    returns, every security below `path` has position `0`.  `hclk`: the strategies' clocks are at `d`;
    `hup`: when nothing is pending the tree is up to date for `d` (true of every world the engine
    leaves with `stale = false`). -/
theorem flatten_flat (cfg : Cfg K) (htol : 0 < cfg.tol) (d : Nat) (w w' : World K) (path : List Nat)
    (hL : P16.Liquidable cfg d w.root) (hclk : P16.ClocksAt d w.root)
    (hup : w.stale = false → updNode cfg d w.root = .ok w.root)
    (hW : P16.NoDustWeights cfg w) (h : opFlatten cfg w path = .ok w') :
    ∃ m, w'.root.get? path = some m ∧ m.allFlat :=
  (P16.opFlatten_flat htol (hL.withClocks hclk) hup hW h).1

/-- `S.flatten()` in a solvent tree with pending changes: `x` and `z` (two levels down) are closed, `b`
    is not touched -/
example : ((opFlatten cfgQ ⟨nested 1000, true⟩ [0]).toOption.map fun w => (posOf w.root, w.bankrupt)) =
    some ([0, 0, -2], false) := by decide +kernel

/-- securities flat before stay flat, whatever else `flatten` does (e.g. a bankruptcy triggered by the
    getter refresh in the middle of it) -/
theorem flatten_keeps_flat (cfg : Cfg K) (htol : 0 < cfg.tol) (d : Nat) (w w' : World K) (path : List Nat)
    (hL : P16.Liquidable cfg d w.root) (hclk : P16.ClocksAt d w.root)
    (hup : w.stale = false → updNode cfg d w.root = .ok w.root)
    (hW : P16.NoDustWeights cfg w) (h : opFlatten cfg w path = .ok w') (q : List Nat) (m : Node K)
    (hq : w.root.get? q = some m) (hm : m.allFlat) : ∃ m', w'.root.get? q = some m' ∧ m'.allFlat := by
  obtain ⟨m', hq', hr⟩ := P16.treeRel_get? q (P16.opFlatten_flat htol (hL.withClocks hclk) hup hW h).2 hq
  exact ⟨m', hq', P16.FRel.allFlat hr hm⟩

/-- the root's cash is negative: the refresh inside `S.flatten()` finds the root bankrupt and liquidates
    everything -/
example : ((opFlatten cfgQ ⟨nested (-1000), true⟩ [0]).toOption.map fun w => (posOf w.root, w.bankrupt)) =
    some ([0, 0, 0], true) := by decide +kernel

/-- **… and nothing outside `path` is touched**: every security that is not below `path` keeps its
    position — unless the getter refresh in the middle of the call found the root bankrupt (the flag
    changed) and liquidated the whole tree.  No hypothesis on prices, dust or weights. -/
theorem flatten_elsewhere_untouched (cfg : Cfg K) (w w' : World K) (path : List Nat)
    (h : opFlatten cfg w path = .ok w') (hb : w'.bankrupt = w.bankrupt) (q : List Nat) (s : SecData K)
    (hq : ¬ path <+: q) (hs : w.root.get? q = some (.sec s)) :
    ∃ s', w'.root.get? q = some (.sec s') ∧ s'.position = s.position :=
  P16.opFlatten_outside h hb q s hq hs

/-- `T.flatten()` two levels down: only `z` is sold -/
example : ((opFlatten cfgQ ⟨nested 1000, true⟩ [0, 1]).toOption.map fun w => (posOf w.root, w.bankrupt)) =
    some ([3, 0, -2], false) ∧ ¬ [0, 1] <+: [0, 0] := by
  constructor <;> decide +kernel

/-! ### (3) bankruptcy -/

/-- **Bankrupt ⇒ flat.**  If `root.update(d)` returns with the bankruptcy flag newly set (so the
    liquidation branch ran), every security in the whole tree — at any depth — has position `0`.
    `hL` is about the INPUT world `w` (its clocks may still be at an earlier date); `hW` is the
    hypothesis on the run. -/
theorem bankrupt_flat (cfg : Cfg K) (htol : 0 < cfg.tol) (d : Nat) (w w' : World K)
    (hL : P16.Liquidable cfg d w.root) (hW : P16.NoDustWeights cfg w)
    (h : updRoot cfg d w = .ok w') (hb : w.bankrupt = false) (hb' : w'.bankrupt = true) :
    w'.root.allFlat :=
  P16.updRoot_bankrupt_flat htol hL hW h hb hb'

example : ((updRoot cfgQ 1 ⟨nested (-1000), false⟩).toOption.map fun w => (posOf w.root, w.bankrupt)) =
    some ([0, 0, 0], true) ∧ (World.mk (nested (-1000)) false).bankrupt = false := by
  constructor <;> decide +kernel

/-- **… and the rows record it**: in the world `root.update(d)` returns, every security marked on `d`
    (`now = d`: all those the update loop visited that day, in particular every security whose position
    was closed) has `0` at index `d` of its position row.  *Partial* in this respect only: a security
    that was already switched off (`needupdate = False`) before date `d` is not visited, so the engine
    writes nothing in its row at `d`; that the untouched entry is `0` is a fact about how the rows are
    allocated, which the model does not fix. -/
theorem bankrupt_flat_rows (cfg : Cfg K) (htol : 0 < cfg.tol) (d : Nat) (w w' : World K)
    (hL : P16.Liquidable cfg d w.root) (hW : P16.NoDustWeights cfg w)
    (h : updRoot cfg d w = .ok w') (hb : w.bankrupt = false) (hb' : w'.bankrupt = true) :
    AllSecs (fun s => s.position = 0 ∧
      (s.now = some d → d < s.rPosition.length → s.rPosition[d]? = some 0)) w'.root :=
  P16.updRoot_bankrupt_rows htol hL hW h hb hb'

example : ((updRoot cfgQ 1 ⟨nested (-1000), false⟩).toOption.map fun w => (rowOf 0 w.root, rowOf 1 w.root)) =
    some ([some 3, some 7, some (-2)], [some 0, some 0, some 0]) := by decide +kernel

/-- **The one-level case, all hypotheses on the input**: a root holding securities only.  No refresh
    happens during the liquidation, so nothing is assumed about the run. -/
theorem bankrupt_flat_onelevel (cfg : Cfg K) (htol : 0 < cfg.tol) (d : Nat) (w w' : World K)
    (sd : StratData K) (kids : List (Node K)) (hr : w.root = .strat sd kids)
    (hone : P16.hasStrat kids = false) (hL : P16.Liquidable cfg d w.root)
    (h : updRoot cfg d w = .ok w') (hb : w.bankrupt = false) (hb' : w'.bankrupt = true) :
    w'.root.allFlat :=
  (P16.updRoot_bankrupt_onelevel htol hr hone hL h hb hb').1

/-- a root with negative cash holding a long and a short position -/
def flat1 : Node Rat :=
  .strat (mkStrat "root" (-100) (-80))
    [ .sec (mkSec "a" 3 [some 10, some 8] (3/4)), .sec (mkSec "b" (-2) [some 10, some 12] (1/2)) ]

theorem mkSec_pre (name : String) (pos p0 p1 w : Rat) (integer : Bool) (hp : isZero cfgQ.tol pos = false)
    (hv : isZero cfgQ.tol (pos * p1 * 2) = false) (hw : isZero cfgQ.tol w = true → w = 0) :
    P16.SecPre cfgQ 1 (mkSec name pos [some p0, some p1] w integer) := by
  refine ⟨fun h => ?_, fun h => (by cases h), fun h => ?_, fun h => (by cases h), hw,
    fun _ => ⟨fun h => ?_, ?_⟩⟩
  · rw [show (mkSec name pos [some p0, some p1] w integer).position = pos from rfl, hp] at h; cases h
  · have h' : pos = 0 := h
    rw [h'] at hp
    exact absurd hp (by decide +kernel)
  · have : secEarly 1 (mkSec name pos [some p0, some p1] w integer) = false := by
      simp [secEarly, mkSec]
    rw [this] at h; cases h
  · intro _ p hpp
    have : (secDateChange 1 (mkSec name pos [some p0, some p1] w integer)).price = some p1 := by
      simp [secDateChange, mkSec, cell]
    rw [this] at hpp
    cases hpp
    exact hv

/-- every hypothesis of `bankrupt_flat_onelevel` discharged on a concrete world -/
example : ∃ w', updRoot cfgQ 1 ⟨flat1, false⟩ = .ok w' ∧ w'.root.allFlat := by
  have h1 : ((updRoot cfgQ 1 ⟨flat1, false⟩).toOption.map fun w => w.bankrupt) = some true := by
    decide +kernel
  cases h : updRoot cfgQ 1 ⟨flat1, false⟩ with
  | error e => rw [h] at h1; cases h1
  | ok w' =>
    rw [h] at h1
    have hb' : w'.bankrupt = true := by simpa [Except.toOption] using h1
    refine ⟨w', rfl, bankrupt_flat_onelevel cfgQ (by decide +kernel) 1 _ w' _ _ rfl rfl ?_ h rfl hb'⟩
    simp only [P16.Liquidable, flat1, AllSecs_strat, AllSecsKids_cons, AllSecs_sec, AllSecsKids_nil,
      and_true]
    exact ⟨mkSec_pre _ _ _ _ _ _ (by decide +kernel) (by decide +kernel) (by decide +kernel),
      mkSec_pre _ _ _ _ _ _ (by decide +kernel) (by decide +kernel) (by decide +kernel)⟩

example : ((updRoot cfgQ 1 ⟨flat1, false⟩).toOption.map fun w => (posOf w.root, w.root.value)) =
    some ([0, 0], -100 + 48 - 3 - 13/10 - 48 - 2 - 12/10) := by decide +kernel

/-- **The nested case with a hypothesis one can check.**  Instead of `NoDustWeights` (a statement about
    all worlds the run may pass through): the liquidation run with a monitor on the getter refreshes
    (`P16.guardRf`: abort if a refresh produces a weight with `0 < |weight| < TOL`) returns, and the
    tree it starts from (`P16.liqStart`: the children updated for `d`) has no such weight
    (`P16.ndwB`).  Both are computable on a concrete world. -/
theorem bankrupt_flat_monitored (cfg : Cfg K) (htol : 0 < cfg.tol) (d : Nat) (w w' : World K)
    (hL : P16.Liquidable cfg d w.root)
    (hM : ∀ wB, P16.liqStart cfg d w = .ok wB → P16.ndwB cfg wB.root = true ∧
      ∃ wF, flattenAt cfg (P16.guardRf cfg (refreshNB cfg)) wB.root [] wB = .ok wF)
    (h : updRoot cfg d w = .ok w') (hb : w.bankrupt = false) (hb' : w'.bankrupt = true) :
    w'.root.allFlat :=
  (P16.updRoot_bankrupt_monitored htol hL hM h hb hb').1

/-- every hypothesis of `bankrupt_flat_monitored` discharged on the three-level tree `nested (-1000)` -/
example : ∃ w', updRoot cfgQ 1 ⟨nested (-1000), false⟩ = .ok w' ∧ w'.root.allFlat := by
  have h1 : ((updRoot cfgQ 1 ⟨nested (-1000), false⟩).toOption.map fun w => w.bankrupt) = some true := by
    decide +kernel
  have h2 : ((P16.liqStart cfgQ 1 ⟨nested (-1000), false⟩).toOption.map fun wB =>
      P16.ndwB cfgQ wB.root &&
        (flattenAt cfgQ (P16.guardRf cfgQ (refreshNB cfgQ)) wB.root [] wB).toOption.isSome) = some true := by
    decide +kernel
  cases h : updRoot cfgQ 1 ⟨nested (-1000), false⟩ with
  | error e => rw [h] at h1; cases h1
  | ok w' =>
    rw [h] at h1
    have hb' : w'.bankrupt = true := by simpa [Except.toOption] using h1
    refine ⟨w', rfl, bankrupt_flat_monitored cfgQ (by decide +kernel) 1 _ w' ?_ ?_ h rfl hb'⟩
    · simp only [P16.Liquidable, nested, AllSecs_strat, AllSecsKids_cons, AllSecs_sec, AllSecsKids_nil,
        and_true]
      exact ⟨⟨mkSec_pre _ _ _ _ _ _ (by decide +kernel) (by decide +kernel) (by decide +kernel),
        mkSec_pre _ _ _ _ _ _ (by decide +kernel) (by decide +kernel) (by decide +kernel)⟩,
        mkSec_pre _ _ _ _ _ _ (by decide +kernel) (by decide +kernel) (by decide +kernel)⟩
    · intro wB hB
      rw [hB] at h2
      simp only [Except.toOption, Option.map_some, Option.some.injEq, Bool.and_eq_true] at h2
      refine ⟨h2.1, ?_⟩
      cases hF : flattenAt cfgQ (P16.guardRf cfgQ (refreshNB cfgQ)) wB.root [] wB with
      | error e => rw [hF] at h2; simp at h2
      | ok wF => exact ⟨wF, rfl⟩

/-! ### (4) the excluded cases are real -/

/-- security `a` is priced at exactly `0` on the liquidation date -/
def zeroPriceTree : Node Rat :=
  .strat (mkStrat "root" (-100) (-30))
    [ .sec (mkSec "a" 5 [some 10, some 0] (1/2)), .sec (mkSec "b" 2 [some 10, some 10] (1/2)) ]

/-- **Why `live` is needed (the known zero-value case).**  `a` holds 5 units and its price on date 1 is
    exactly `0`.  The root goes bankrupt on date 1 (value −100 + 0 + 40 < 0), the flag is set, `b` is sold —
    and `a` keeps its 5 units: `flatten` only visits children with `value != 0`. -/
theorem witness_zero_price_keeps_position :
    ((updRoot cfgQ 1 ⟨zeroPriceTree, false⟩).toOption.map fun w => (posOf w.root, w.bankrupt)) =
      some ([5, 0], true) ∧
    ¬ P16.Liquidable cfgQ 1 zeroPriceTree := by
  refine ⟨by decide +kernel, fun h => ?_⟩
  simp only [P16.Liquidable, zeroPriceTree, AllSecs_strat, AllSecsKids_cons, AllSecs_sec] at h
  have h2 := (h.1.live (by decide +kernel)).2 (by decide +kernel) 0 (by decide +kernel)
  exact absurd h2 (by decide +kernel)

/-- `x` is worth 2 in a sub-strategy worth 10002: its weight 2/10002 is below `TOL = 1/1000` -/
def dustWeightTree : Node Rat :=
  .strat (mkStrat "root" (-20000) (-9998))
    [ .strat (mkStrat "S" 10000 10002) [ .sec (mkSec "x" 1 [some 1, some 1] (2/10002)) ] ]

/-- **Why `NoDustWeights` is needed.**  The root goes bankrupt; `S.flatten()` sells `x` (position 0);
    the refresh that follows switches `x` off (`is_zero(weight) and is_zero(position)`) and, being
    skipped, `x` keeps its dust weight; the root then liquidates `S` by `allocate(-S.value)`, which
    pushes `amount × weight ≈ −2` back into `x`: the liquidation ends with `x` SHORT (about 3.3 units
    here, the sizing search absorbing fee and spread). -/
theorem witness_dust_weight_reopens :
    ((updRoot cfgQ 1 ⟨dustWeightTree, false⟩).toOption.map fun w =>
      ((posOf w.root).map fun p => decide (p < -3), w.bankrupt)) = some ([true], true) ∧
    ¬ P16.NoDustWeights cfgQ ⟨dustWeightTree, false⟩ := by
  refine ⟨by decide +kernel, fun h => ?_⟩
  have h0 := h _ P16.LiqReach.start
  simp only [dustWeightTree, AllSecs_strat, AllSecsKids_cons, AllSecs_sec, P16.NDW] at h0
  exact absurd (h0.1.1 (by decide +kernel)) (by decide +kernel)

end Bt.C16
