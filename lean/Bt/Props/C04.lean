import Bt.Proofs.Causal
import Bt.Proofs.CausalAlgo
import Bt.Props.C08
/-! C04 — no look-ahead: everything recorded for dates up to `t` depends only on supplied data dated `t` or
    earlier (property theorems only; helper lemmas live in `Bt.Proofs.Causal*`, namespace `Bt.P04`).

    * `SecData.trunc t` / `Node.trunc t` / `World.trunc t` (`Bt.Engine.Backtest`) keep rows `0..t` of every
      supplied column (prices, bid/offer, coupons, holding costs) and nothing else; two data sets "agree up to
      `t`" when their truncations are equal — after `t` they are arbitrary (values, NaNs, even lengths).
    * `P04.ClockLE t w`: every strategy of the tree that has a clock, and the root, has it `≤ t`;
      `P04.AtClock d w`: … has it `= d` (the state in which `Backtest.run` calls `Strategy.run()`).
    * `P04.StepC cfg C` / `P04.RunC cfg C`: one / finitely many calls of the public API (`P08.PublicStep`, `P08.Run`)
      whose explicit `root.update(d)` calls have `C d`.
    * `P04.Causal t run`: at every date `d ≤ t`, with the clock at `d`, `run d` commutes with truncation after `t`
      (`P04.CausalStrong`, the same on every world with clocks `≤ t`, implies it: `causal_of_clockLE`);
      `P04.RunPublic cfg run`: what `run d` does, called with the clock at `d`, is a `RunC cfg (· = d)`.

    Hypotheses that turned out unnecessary: the dates need not be increasing, and `btLoop_trunc` / `btRun_trunc`
    need nothing about the clocks of the initial world (`root.update(d)` moves every clock to `d` before reading it). -/
set_option linter.unusedSectionVars false
namespace Bt.C04
open Bt Bt.P08 Bt.P04 Bt.C08

variable {K : Type} [Field K] [LinearOrder K] [IsStrictOrderedRing K] [HasFloor K]

/-! ### concrete data for the `example`s: a root over two securities, three rows of data; `wA` and `wB` agree on
    rows 0 and 1 and differ on row 2 -/

def secA (nm : String) (ps : List (Option Rat)) : SecData Rat :=
  { name := nm, kind := .plain, fixedIncome := false, integer := false, bidofferSet := false, mult := 1,
    now := none, price := none, value := 0, notl := 0, weight := 0, position := 0, lastPos := 0,
    outlayAcc := 0, bidoffer := some 0, bidofferPaid := 0, capital := 0, coupon := 0, holdingCost := 0,
    needupdate := true, prices := ps, bidoffers := [], coupons := [], costLong := none, costShort := none,
    rValue := [0, 0, 0], rPosition := [0, 0, 0], rNotl := [0, 0, 0], rOutlay := [0, 0, 0],
    rBidofferPaid := [0, 0, 0], rCoupon := [0, 0, 0], rHolding := [0, 0, 0] }

def rootA : StratData Rat :=
  { name := "root", fixedIncome := false, bidofferSet := false, paperTrade := false, paperPx := 100,
    comm := fun _ _ => 0, now := some 0, capital := 100, price := 100, value := 100, notl := 0, weight := 0,
    netFlows := 0, lastValue := 100, lastNotl := 0, lastPrice := 100, lastFee := 0, bidofferPaid := 0,
    bankrupt := false, rPrice := [100, 0, 0], rValue := [100, 0, 0], rNotl := [0, 0, 0], rCash := [100, 0, 0],
    rFees := [0, 0, 0], rFlows := [0, 0, 0], rBidofferPaid := [0, 0, 0] }

def wA : World Rat :=
  ⟨.strat rootA [.sec (secA "x" [some 10, some 11, some 12]), .sec (secA "y" [some 20, some 21, some 22])], false⟩
def wB : World Rat :=
  ⟨.strat rootA [.sec (secA "x" [some 10, some 11, some 99]), .sec (secA "y" [some 20, some 21, some 5])], false⟩

/-- an algo function: put 22 into the first security, then bring the second to half of the portfolio -/
def runQ : RunFn Rat := fun _ w =>
  (opAllocate cfgQ w [0] 22 true).bind fun w1 => opRebalance cfgQ w1 [] (1/2) 1 none true

theorem wA_wB_agree : wA.trunc 1 = wB.trunc 1 := rfl

theorem wA_atClock : AtClock 0 wA := by
  refine ⟨?_, ?_⟩ <;> simp [wA, rootA, NowsIn, NowsInL, Ck, Node.now]

theorem wA_hedgeZero : HedgeZero wA.root := by
  simp [wA, secA, HedgeZero, HedgeZeroL, isHedge]

theorem runQ_causal (t : Nat) : Causal t runQ :=
  causal_seq (cfg := cfgQ) (causal_allocate [0] 22 true) (causal_rebalance [] (1/2) 1 none true)
    (runPublic_allocate [0] 22 true)

theorem runQ_public : RunPublic cfgQ runQ :=
  runPublic_seq (runPublic_allocate [0] 22 true) (runPublic_rebalance [] (1/2) 1 none true)

/-! ### (1) truncation of the supplied data after `t` commutes with every engine operation run at a clock `≤ t` -/

/-- `SecurityBase.update(d)` (every subclass), `d ≤ t`: on the truncated data it raises the same error or
    returns the truncation of the same security — the only cells read are those of row `d`. -/
theorem secUpdate_trunc (cfg : Cfg K) {d t : Nat} (h : d ≤ t) (s : SecData K) :
    secUpdate cfg d (s.trunc t) = (secUpdate cfg d s).map (·.trunc t) :=
  P04.secUpdate_trunc cfg s h

example : secUpdate cfgQ 1 (secQ.trunc 1) = (secUpdate cfgQ 1 secQ).map (·.trunc 1) ∧
    (secQ.trunc 0).prices = [some 10] ∧ (secQ.trunc 0).costLong = some [some (1/2)] :=
  ⟨secUpdate_trunc cfgQ (le_refl 1) secQ, rfl, rfl⟩

/-- the core of it: a cell at row `d ≤ t` is the same in the truncated column -/
theorem cell_trunc (l : List (Option K)) {d t : Nat} (h : d ≤ t) : cell (l.take (t + 1)) d = cell l d :=
  P04.cell_take l h

example : cell ([some (10 : Rat), some 11, some 12].take (1 + 1)) 1 = some 11 := by decide +kernel

/-- a security's own refresh, `allocate` and `transact`, the parent's clock being unset or `≤ t` -/
theorem secRefresh_trunc (cfg : Cfg K) {t : Nat} {pnow : Option Nat} (hp : ∀ d, pnow = some d → d ≤ t)
    (s : SecData K) : secRefresh cfg pnow (s.trunc t) = (secRefresh cfg pnow s).map (·.trunc t) :=
  P04.secRefresh_trunc cfg s hp

theorem secAllocate_trunc (cfg : Cfg K) {t : Nat} {pnow : Option Nat} (hp : ∀ d, pnow = some d → d ≤ t)
    (comm : K → K → K) (s : SecData K) (amount : K) :
    secAllocate cfg pnow comm (s.trunc t) amount =
      (secAllocate cfg pnow comm s amount).map fun r => (r.1.trunc t, r.2) :=
  P04.secAllocate_trunc cfg comm s hp amount

theorem secTransact_trunc (cfg : Cfg K) {t : Nat} {pnow : Option Nat} (hp : ∀ d, pnow = some d → d ≤ t)
    (comm : K → K → K) (s : SecData K) (q : K) (u : Bool) (custom : Option K) :
    secTransact cfg pnow comm (s.trunc t) q u custom =
      (secTransact cfg pnow comm s q u custom).map fun r => (r.1.trunc t, r.2) :=
  P04.secTransact_trunc cfg comm s hp q u custom

example : ((secAllocate cfgQ (some 1) (fun _ _ => 0) (secQ.trunc 1) 50).toOption.map fun r => r.1.position) =
    some (19561/2662) ∧
    secAllocate cfgQ (some 1) (fun _ _ => 0) (secQ.trunc 1) 50 =
      (secAllocate cfgQ (some 1) (fun _ _ => 0) secQ 50).map fun r => (r.1.trunc 1, r.2) :=
  ⟨by decide +kernel, secAllocate_trunc cfgQ (fun _ h => by cases h; exact le_refl 1) _ secQ 50⟩

/-- `update(d)` of any node of any tree, `d ≤ t` -/
theorem updNode_trunc (cfg : Cfg K) {d t : Nat} (h : d ≤ t) (n : Node K) :
    updNode cfg d (n.trunc t) = (updNode cfg d n).map (Node.trunc t) :=
  P04.updNode_trunc cfg h n

example : updNode cfgQ 1 (treeQ.trunc 1) = (updNode cfgQ 1 treeQ).map (Node.trunc 1) :=
  updNode_trunc cfgQ (le_refl 1) treeQ

/-- `root.update(d)`, `d ≤ t`, bankruptcy liquidation included — whatever the clocks of the tree were -/
theorem updRoot_trunc (cfg : Cfg K) {d t : Nat} (h : d ≤ t) (w : World K) :
    updRoot cfg d (w.trunc t) = (updRoot cfg d w).map (World.trunc t) :=
  P04.updRoot_trunc cfg h w

example : updRoot cfgQ 1 (wA.trunc 1) = (updRoot cfgQ 1 wA).map (World.trunc 1) ∧
    ((updRootF cfgQ 1 2 (wA.trunc 1)).toOption.map fun w => w.root.value) = some 100 :=
  ⟨updRoot_trunc cfgQ (le_refl 1) wA, by decide +kernel⟩

/-- `allocate` / `transact` pushed down a tree whose strategies have their clocks `≤ t` -/
theorem allocNode_trunc (cfg : Cfg K) (t : Nat) (n : Node K) (pnow : Option Nat) (comm : K → K → K) (amount : K)
    (hp : ∀ d, pnow = some d → d ≤ t) (hn : NowsIn (· ≤ t) n) :
    allocNode cfg pnow comm amount (n.trunc t) =
      (allocNode cfg pnow comm amount n).map fun r => (r.1.trunc t, r.2) :=
  P04.allocNode_trunc cfg t n pnow comm amount hp hn

theorem transNode_trunc (cfg : Cfg K) (t : Nat) (n : Node K) (pnow : Option Nat) (comm : K → K → K) (q : K)
    (custom : Option K) (hp : ∀ d, pnow = some d → d ≤ t) (hn : NowsIn (· ≤ t) n) :
    transNode cfg pnow comm q custom (n.trunc t) =
      (transNode cfg pnow comm q custom n).map fun r => (r.1.trunc t, r.2) :=
  P04.transNode_trunc cfg t n pnow comm q custom hp hn

example : NowsIn (· ≤ 0) treeQ ∧ allocNode cfgQ (some 0) (fun _ _ => 0) 50 (treeQ.trunc 0) =
    (allocNode cfgQ (some 0) (fun _ _ => 0) 50 treeQ).map fun r => (r.1.trunc 0, r.2) := by
  have h : NowsIn (· ≤ 0) treeQ := by simp [treeQ, NowsIn, NowsInL, stratQ]
  exact ⟨h, allocNode_trunc cfgQ 0 treeQ _ _ _ (fun _ h => by cases h; exact le_refl 0) h⟩

/-- the refresh of every refreshing getter, on a world whose clocks are `≤ t` -/
theorem refresh_trunc (cfg : Cfg K) {t : Nat} {w : World K} (hw : ClockLE t w) :
    refresh cfg (w.trunc t) = (refresh cfg w).map (World.trunc t) :=
  P04.refresh_trunc hw

example : refresh cfgQ ((⟨wA.root, true⟩ : World Rat).trunc 1) =
    (refresh cfgQ ⟨wA.root, true⟩).map (World.trunc 1) :=
  refresh_trunc cfgQ (w := ⟨wA.root, true⟩) (wA_atClock.clockLE (by decide))

/-- the public operations, on a world whose clocks are `≤ t` -/
theorem opAdjust_trunc {t : Nat} {w : World K} (hw : ClockLE t w) (path : List Nat) (amount : K) (u fl : Bool) :
    opAdjust (w.trunc t) path amount u fl = (opAdjust w path amount u fl).map (World.trunc t) :=
  P04.opAdjust_trunc hw path amount u fl
theorem opAllocate_trunc (cfg : Cfg K) {t : Nat} {w : World K} (hw : ClockLE t w) (path : List Nat) (amount : K)
    (u : Bool) : opAllocate cfg (w.trunc t) path amount u = (opAllocate cfg w path amount u).map (World.trunc t) :=
  P04.opAllocate_trunc hw path amount u
theorem opTransact_trunc (cfg : Cfg K) {t : Nat} {w : World K} (hw : ClockLE t w) (path : List Nat) (q : K)
    (u : Bool) (custom : Option K) :
    opTransact cfg (w.trunc t) path q u custom = (opTransact cfg w path q u custom).map (World.trunc t) :=
  P04.opTransact_trunc hw path q u custom
theorem opFlatten_trunc (cfg : Cfg K) {t : Nat} {w : World K} (hw : ClockLE t w) (path : List Nat) :
    opFlatten cfg (w.trunc t) path = (opFlatten cfg w path).map (World.trunc t) :=
  P04.opFlatten_trunc hw path
theorem opClose_trunc (cfg : Cfg K) {t : Nat} {w : World K} (hw : ClockLE t w) (path : List Nat) (child : Nat)
    (u : Bool) : opClose cfg (w.trunc t) path child u = (opClose cfg w path child u).map (World.trunc t) :=
  P04.opClose_trunc hw path child u
theorem opRebalance_trunc (cfg : Cfg K) {t : Nat} {w : World K} (hw : ClockLE t w) (path : List Nat) (weight : K)
    (child : Nat) (base : Option K) (u : Bool) :
    opRebalance cfg (w.trunc t) path weight child base u =
      (opRebalance cfg w path weight child base u).map (World.trunc t) :=
  P04.opRebalance_trunc hw path weight child base u
theorem opRead_trunc (cfg : Cfg K) {t : Nat} {w : World K} (hw : ClockLE t w) (path : List Nat) (g : Getter) :
    opRead cfg (w.trunc t) path g = (opRead cfg w path g).map (World.trunc t) :=
  P04.opRead_trunc hw path g

example : ClockLE 1 wA ∧
    opAllocate cfgQ (wA.trunc 1) [0] 22 true = (opAllocate cfgQ wA [0] 22 true).map (World.trunc 1) ∧
    opRebalance cfgQ (wA.trunc 1) [] (1/2) 1 none true =
      (opRebalance cfgQ wA [] (1/2) 1 none true).map (World.trunc 1) ∧
    (opAllocate cfgQ (wA.trunc 1) [0] 22 true).toOption.isSome = true := by
  have h : ClockLE 1 wA := wA_atClock.clockLE (by decide)
  exact ⟨h, opAllocate_trunc cfgQ h _ _ _, opRebalance_trunc cfgQ h _ _ _ _ _, by decide +kernel⟩

/-- **the invariant**: public calls whose explicit updates are at dates in `C` keep all clocks in `C`
    (`C := (· ≤ t)`: `ClockLE t`; `C := (· = d)`: `AtClock d`) -/
theorem clocks_preserved (cfg : Cfg K) (C : Nat → Prop) {w w' : World K} (hw : WOK C w) (h : RunC cfg C w w') :
    WOK C w' := h.wok hw

example (w' : World Rat) (h : opAllocate cfgQ wA [0] 22 true = .ok w') : ClockLE 1 w' :=
  clocks_preserved cfgQ (· ≤ 1) (wA_atClock.clockLE (by decide)) (.single (.allocate _ _ _ h))

/-- **step level**: a public step executed at clocks `≤ t` (an explicit `update(d)` only with `d ≤ t`) is the same
    public step, with the same arguments, between the truncated worlds -/
theorem step_trunc (cfg : Cfg K) {t : Nat} {w w' : World K} (hw : ClockLE t w) (h : StepC cfg (· ≤ t) w w') :
    StepC cfg (· ≤ t) (w.trunc t) (w'.trunc t) := h.trunc hw

/-- **run level**: any finite sequence of them -/
theorem run_trunc (cfg : Cfg K) {t : Nat} {w w' : World K} (hw : ClockLE t w) (h : RunC cfg (· ≤ t) w w') :
    RunC cfg (· ≤ t) (w.trunc t) (w'.trunc t) := h.trunc hw

example (w1 w2 : World Rat) (h1 : opAllocate cfgQ wA [0] 22 true = .ok w1) (h2 : updRoot cfgQ 1 w1 = .ok w2) :
    RunC cfgQ (· ≤ 1) (wA.trunc 1) (w2.trunc 1) :=
  run_trunc cfgQ (wA_atClock.clockLE (by decide))
    (.cons (.allocate _ _ _ h1) (.cons (.update 1 (le_refl 1) h2) (.nil _)))

/-- a `StepC` / `RunC` is a `P08.PublicStep` / `P08.Run` -/
theorem runC_public (cfg : Cfg K) (C : Nat → Prop) {w w' : World K} (h : RunC cfg C w w') : Run cfg w w' :=
  h.toPublic

example (w1 : World Rat) (h1 : opAllocate cfgQ wA [0] 22 true = .ok w1) : Run cfgQ wA w1 :=
  runC_public cfgQ (· = 1) (.single (.allocate _ _ _ h1))

/-! ### (2) causal algo functions -/

/-- the definition, spelled out -/
theorem causal_iff (t : Nat) (run : RunFn K) :
    Causal t run ↔ ∀ d, d ≤ t → ∀ w, AtClock d w → run d (w.trunc t) = (run d w).map (World.trunc t) := Iff.rfl

example : Causal 1 runQ ↔
    ∀ d, d ≤ 1 → ∀ w, AtClock d w → runQ d (w.trunc 1) = (runQ d w).map (World.trunc 1) := causal_iff 1 runQ

/-- the variant that asks for commutation on all worlds with clocks `≤ t` is stronger -/
theorem causal_of_clockLE {t : Nat} {run : RunFn K}
    (h : ∀ d, d ≤ t → ∀ w, ClockLE t w → run d (w.trunc t) = (run d w).map (World.trunc t)) : Causal t run :=
  CausalStrong.causal h

example : Causal 1 (fun _ w => opAllocate cfgQ w [0] 22 true) :=
  causal_of_clockLE fun _ _ _ hw => opAllocate_trunc cfgQ hw _ _ _

/-- doing nothing is causal and public -/
theorem causal_id (t : Nat) : Causal t (fun _ w => (.ok w : Except Err (World K))) := P04.causal_id
theorem runPublic_id (cfg : Cfg K) : RunPublic cfg (fun _ w => (.ok w : Except Err (World K))) := P04.runPublic_id

example : btLoop cfgQ (fun _ w => .ok w) [1] (wA.trunc 1) = (btLoop cfgQ (fun _ w => .ok w) [1] wA).map (World.trunc 1) :=
  btLoop_trunc (causal_id 1) [1] (by decide) wA

/-- sequential composition of causal functions, the first being public -/
theorem causal_seq (cfg : Cfg K) {t : Nat} {f g : RunFn K} (hf : Causal t f) (hg : Causal t g)
    (hfp : RunPublic cfg f) : Causal t (fun d w => (f d w).bind (g d)) := P04.causal_seq hf hg hfp
theorem runPublic_seq (cfg : Cfg K) {f g : RunFn K} (hf : RunPublic cfg f) (hg : RunPublic cfg g) :
    RunPublic cfg (fun d w => (f d w).bind (g d)) := P04.runPublic_seq hf hg

example : Causal 1 runQ ∧ RunPublic cfgQ runQ := ⟨runQ_causal 1, runQ_public⟩

/-- every public operation with fixed arguments is causal and public -/
theorem causal_update (cfg : Cfg K) (t : Nat) : Causal t (fun d w => updRoot cfg d w) := P04.causal_update
theorem causal_adjust (t : Nat) (path : List Nat) (amount : K) (u fl : Bool) :
    Causal t (fun _ w => opAdjust w path amount u fl) := P04.causal_adjust path amount u fl
theorem causal_allocate (cfg : Cfg K) (t : Nat) (path : List Nat) (amount : K) (u : Bool) :
    Causal t (fun _ w => opAllocate cfg w path amount u) := P04.causal_allocate path amount u
theorem causal_transact (cfg : Cfg K) (t : Nat) (path : List Nat) (q : K) (u : Bool) (custom : Option K) :
    Causal t (fun _ w => opTransact cfg w path q u custom) := P04.causal_transact path q u custom
theorem causal_flatten (cfg : Cfg K) (t : Nat) (path : List Nat) : Causal t (fun _ w => opFlatten cfg w path) :=
  P04.causal_flatten path
theorem causal_close (cfg : Cfg K) (t : Nat) (path : List Nat) (child : Nat) (u : Bool) :
    Causal t (fun _ w => opClose cfg w path child u) := P04.causal_close path child u
theorem causal_rebalance (cfg : Cfg K) (t : Nat) (path : List Nat) (weight : K) (child : Nat) (base : Option K)
    (u : Bool) : Causal t (fun _ w => opRebalance cfg w path weight child base u) :=
  P04.causal_rebalance path weight child base u
theorem causal_read (cfg : Cfg K) (t : Nat) (path : List Nat) (g : Getter) :
    Causal t (fun _ w => opRead cfg w path g) := P04.causal_read path g

example : Causal 1 (fun _ w => opClose cfgQ w [] 0 true) ∧ RunPublic cfgQ (fun _ w => opClose cfgQ w [] 0 true) :=
  ⟨causal_close cfgQ 1 [] 0 true, runPublic_close [] 0 true⟩

/-- `World.obs`: the world with every supplied column erased — all the fields an algo reads through the
    engine's getters (clocks, the current row's price, value, weight, position, capital, recorded rows …) -/
theorem obs_trunc (t : Nat) (w : World K) : (w.trunc t).obs = w.obs := P04.obs_trunc t w

example : (wA.trunc 0).obs = wB.obs ∧ ((wA.obs.root.get? [0]).map fun n => n.value) = some 0 :=
  ⟨by rw [obs_trunc]; rfl, by decide +kernel⟩

/-- **reading the engine**: the arguments of a causal function may be computed from `w.obs` -/
theorem causal_of_obs {t : Nat} {X : Type} (a : Nat → World K → X) {g : X → RunFn K} (hg : ∀ x, Causal t (g x)) :
    Causal t (fun d w => g (a d w.obs) d w) := P04.causal_of_obs a hg
theorem runPublic_of_obs (cfg : Cfg K) {X : Type} (a : Nat → World K → X) {g : X → RunFn K}
    (hg : ∀ x, RunPublic cfg (g x)) : RunPublic cfg (fun d w => g (a d w.obs) d w) := P04.runPublic_of_obs a hg

/-- value of the first child, as a getter would return it -/
def firstValue (o : World Rat) : Rat := match o.root.get? [0] with | some n => n.value | none => 0

/-- e.g. "sell the whole current value of the first child": the amount is read from the tree -/
example : Causal 1 (fun _ w => opAllocate cfgQ w [0] (-(firstValue w.obs)) true) :=
  causal_of_obs (fun _ o => -(firstValue o)) (g := fun x _ w => opAllocate cfgQ w [0] x true)
    (fun x => causal_allocate cfgQ 1 [0] x true)

/-- `bt.algos.Rebalance` (model `algoRebalance`) with given target weights -/
theorem causal_algoRebalance (cfg : Cfg K) (t : Nat) (path : List Nat) (targets : List (Nat × K))
    (cash notional : Option K) : Causal t (fun _ w => algoRebalance cfg w path targets cash notional) :=
  P04.causal_algoRebalance path targets cash notional
theorem runPublic_algoRebalance (cfg : Cfg K) (path : List Nat) (targets : List (Nat × K))
    (cash notional : Option K) : RunPublic cfg (fun _ w => algoRebalance cfg w path targets cash notional) :=
  P04.runPublic_algoRebalance path targets cash notional

example : Causal 1 (fun _ w => algoRebalance cfgQ w [] [(0, 1/2), (1, 1/2)] none none) :=
  causal_algoRebalance cfgQ 1 [] _ none none

/-- **algos that read supplied frames** (`CausalWith E t run`: for frames `p`, `p'` with `E t p p'`, `run p'` on the
    truncated engine data does what `run p` does on the full data): enough that the frames are used through a
    result determined by their part dated up to the date of the call -/
theorem causalWith_of_factor {t : Nat} {P X : Type} {E : Nat → P → P → Prop} (f : P → Nat → X) (g : X → RunFn K)
    (hf : ∀ p p' d, d ≤ t → E t p p' → f p' d = f p d) (hg : ∀ x, Causal t (g x)) :
    CausalWith E t (fun p d w => g (f p d) d w) := P04.causalWith_of_factor f g hf hg

/-- worked instance with C14 (`selectAll_no_lookahead`): `SelectAll → WeighEqually → Rebalance`, the universe
    being a supplied table; `SelAgree t p p'` is `p.truncate t = p'.truncate t` -/
theorem selEqRebalance_causal (cfg : Cfg K) (t : Nat) (nd neg : Bool) :
    CausalWith SelAgree t (selEqRebalance cfg nd neg) := selEqRebalance_causalWith nd neg
theorem selEqRebalance_public (cfg : Cfg K) (nd neg : Bool) (p : Select.Table Nat K) :
    RunPublic cfg (selEqRebalance cfg nd neg p) := P04.selEqRebalance_public nd neg p

def univA : Select.Table Nat Rat := ⟨[0, 1], [[some 10, some 20], [some 11, some 21], [some 12, some 22]]⟩
def univB : Select.Table Nat Rat := ⟨[0, 1], [[some 10, some 20], [some 11, some 21], [none, some (-5)]]⟩

example : SelAgree 1 univA univB ∧ Select.selectAll univA 2 false false ≠ Select.selectAll univB 2 false false ∧
    CausalPair 1 (selEqRebalance cfgQ false false univA) (selEqRebalance cfgQ false false univB) :=
  ⟨rfl, by decide +kernel, selEqRebalance_causal cfgQ 1 false false univA univB rfl⟩

/-- worked instance with C15 (`window_prefix_determined`): `WeighInvVol(lookback, lag) → Rebalance`, a weigher
    with a lookback window and a lag; `FrameAgree t p p'`: same columns, same rows dated `≤ t` -/
theorem invVolRebalance_causal [Weigh.HasSqrt K] (cfg : Cfg K) (t : Nat) (lag lookback : Int) (sel : List Nat) :
    CausalWith FrameAgree t (invVolRebalance cfg lag lookback sel) := invVolRebalance_causalWith lag lookback sel
theorem invVolRebalance_public [Weigh.HasSqrt K] (cfg : Cfg K) (lag lookback : Int) (sel : List Nat)
    (p : Weigh.Table Nat K) : RunPublic cfg (invVolRebalance cfg lag lookback sel p) :=
  P04.invVolRebalance_public lag lookback sel p

def frameA : Weigh.Table Nat Rat :=
  ⟨[0, 1], [(0, [some 10, some 20]), (1, [some 11, some 21]), (2, [some 12, some 22])]⟩
def frameB : Weigh.Table Nat Rat :=
  ⟨[0, 1], [(0, [some 10, some 20]), (1, [some 11, some 21]), (2, [some 99, none]), (3, [some 1, some 1])]⟩

example (sq : Weigh.HasSqrt Rat) : FrameAgree 1 frameA frameB ∧
    CausalPair 1 (invVolRebalance cfgQ 1 3 [0, 1] frameA) (invVolRebalance cfgQ 1 3 [0, 1] frameB) := by
  have h : FrameAgree 1 frameA frameB := ⟨rfl, by decide +kernel⟩
  exact ⟨h, invVolRebalance_causal cfgQ 1 1 3 [0, 1] frameA frameB h⟩

/-! ### (3) `Backtest.run` on truncated data -/

/-- one pass of the loop body (`update; run; update`) at a date `d ≤ t` -/
theorem btDay_trunc (cfg : Cfg K) {t : Nat} {run : RunFn K} (hc : Causal t run) {d : Nat} (hd : d ≤ t)
    (w : World K) : btDay cfg run d (w.trunc t) = (btDay cfg run d w).map (World.trunc t) :=
  P04.btDay_trunc hc hd w

example : btDay cfgQ runQ 1 (wA.trunc 1) = (btDay cfgQ runQ 1 wA).map (World.trunc 1) :=
  btDay_trunc cfgQ (runQ_causal 1) (le_refl 1) wA

/-- **the loop over dates all `≤ t`**: on the data truncated after `t` it raises the same error or returns the
    truncation of the same world — for every causal algo function, from any world -/
theorem btLoop_trunc (cfg : Cfg K) {t : Nat} {run : RunFn K} (hc : Causal t run) (ds : List Nat)
    (hds : ∀ d ∈ ds, d ≤ t) (w : World K) :
    btLoop cfg run ds (w.trunc t) = (btLoop cfg run ds w).map (World.trunc t) :=
  P04.btLoop_trunc hc ds hds w

example : btLoop cfgQ runQ [1] (wA.trunc 1) = (btLoop cfgQ runQ [1] wA).map (World.trunc 1) ∧
    btLoop cfgQ runQ [1] (wA.trunc 1) = btLoop cfgQ runQ [1] (wB.trunc 1) ∧
    ((btLoopF cfgQ runQ 2 [1] (wA.trunc 1)).toOption.map fun r => (rowsAt 1 r.root).take 4) =
      some [some 100, some 100, some 72, some 28] :=
  ⟨btLoop_trunc cfgQ (runQ_causal 1) [1] (by decide) wA, by rw [wA_wB_agree], by decide +kernel⟩

/-- **`Backtest.run`** (initial capital, the synthetic first row, the loop), all dates `≤ t` -/
theorem btRun_trunc (cfg : Cfg K) {t : Nat} {run : RunFn K} (hc : Causal t run) (capital : K) (dates : List Nat)
    (hds : ∀ d ∈ dates, d ≤ t) (w0 : World K) :
    btRun cfg run capital dates (w0.trunc t) = (btRun cfg run capital dates w0).map (World.trunc t) :=
  P04.btRun_trunc hc capital dates hds w0

example : btRun cfgQ runQ 1000 [0, 1] (wA.trunc 1) = (btRun cfgQ runQ 1000 [0, 1] wA).map (World.trunc 1) :=
  btRun_trunc cfgQ (runQ_causal 1) 1000 [0, 1] (by decide) wA

/-! ### (4) what is recorded up to `t` does not depend on data after `t` -/

/-- public calls executed while every clock lies in `P` (explicit updates at dates in `P`) write recorded rows
    only at indices in `P` — C08's `past_rows_frozen` for the whole public API -/
theorem public_rows_frozen (cfg : Cfg K) (P : Nat → Prop) {w w' : World K} (hw : WOK P w) (h : RunC cfg P w w') :
    Frozen P w.root w'.root := h.frozen hw

example (w1 : World Rat) (h1 : opAllocate cfgQ wA [0] 22 true = .ok w1) : Frozen (· = 0) wA.root w1.root :=
  public_rows_frozen cfgQ (· = 0) wA_atClock (.single (.allocate _ _ _ h1))

/-- the part of a run over dates all after `t` leaves every recorded row alone at every index `≤ t` -/
theorem post_rows_frozen (cfg : Cfg K) {t : Nat} {run : RunFn K} (hp : RunPublic cfg run) (ds : List Nat)
    (hds : ∀ d ∈ ds, t < d) {w w' : World K} (h : btLoop cfg run ds w = .ok w') :
    Frozen (t < ·) w.root w'.root := btLoop_frozen hp ds hds w w' h

example (r : World Rat) (h : btLoop cfgQ runQ [1, 2] wA = .ok r) : Frozen (0 < ·) wA.root r.root :=
  post_rows_frozen cfgQ runQ_public [1, 2] (by decide) h

/-- a run keeps the all-zero notional rows of hedge securities (`P08.HedgeZero`) all-zero -/
theorem run_hedgeZero (cfg : Cfg K) {run : RunFn K} (hp : RunPublic cfg run) (ds : List Nat) {w w' : World K}
    (h : btLoop cfg run ds w = .ok w') (hz : HedgeZero w.root) : HedgeZero w'.root :=
  btLoop_hedgeZero hp ds w w' h hz

example (r : World Rat) (h : btLoop cfgQ runQ [1, 2] wA = .ok r) : HedgeZero r.root :=
  run_hedgeZero cfgQ runQ_public [1, 2] h wA_hedgeZero

/-- **Main theorem (C04).**  Two data sets that agree on every row `≤ t` and are arbitrary afterwards
    (`w.trunc t = w'.trunc t`); an algo function that is causal and public; dates `pre ++ post`, those of `pre`
    all `≤ t`, those of `post` all `> t`; the initial tree with all-zero hedge notional rows (any freshly set-up
    tree).  If both runs succeed, every recorded entry of every node at every index `j ≤ t` — value, position,
    notional, outlay, bid/offer paid, coupon, holding cost of each security; price, value, notional, cash, fees,
    flows, bid/offer paid of each strategy (`P08.rowsAt j`) — is the same in both results, and every row list has
    the same length. -/
theorem backtest_causal (cfg : Cfg K) {t : Nat} {run : RunFn K} (hc : Causal t run) (hp : RunPublic cfg run)
    {w w' : World K} (hw : w.trunc t = w'.trunc t) (hz : HedgeZero w.root)
    (pre post : List Nat) (hpre : ∀ d ∈ pre, d ≤ t) (hpost : ∀ d ∈ post, t < d) {r r' : World K}
    (h : btLoop cfg run (pre ++ post) w = .ok r) (h' : btLoop cfg run (pre ++ post) w' = .ok r') :
    (∀ j, j ≤ t → rowsAt j r.root = rowsAt j r'.root) ∧ rowLens r.root = rowLens r'.root :=
  backtest_causal_pair hc hc hp hp hw hz pre post hpre hpost h h'

/-- on `wA`, `wB` (prices of both securities differ on row 2): both runs over dates 1, 2 succeed, rows 0 and 1 of
    everything recorded agree, row 2 does not -/
example : ∃ r r', btLoop cfgQ runQ ([1] ++ [2]) wA = .ok r ∧ btLoop cfgQ runQ ([1] ++ [2]) wB = .ok r' ∧
    (∀ j, j ≤ 1 → rowsAt j r.root = rowsAt j r'.root) ∧ rowsAt 2 r.root ≠ rowsAt 2 r'.root ∧
    (rowsAt 1 r.root).take 4 = [some 100, some 100, some 72, some 28] := by
  have hA : (btLoopF cfgQ runQ 2 [1, 2] wA).toOption.map (fun r => ((rowsAt 1 r.root).take 4, (rowsAt 2 r.root).take 1)) =
      some ([some 100, some 100, some 72, some 28], [some (2192 / 21)]) := by decide +kernel
  have hB : (btLoopF cfgQ runQ 2 [1, 2] wB).toOption.map (fun r => (rowsAt 2 r.root).take 1) =
      some [some (4996 / 21)] := by decide +kernel
  cases ha : btLoopF cfgQ runQ 2 [1, 2] wA with
  | error e => rw [ha] at hA; cases hA
  | ok r =>
    cases hb : btLoopF cfgQ runQ 2 [1, 2] wB with
    | error e => rw [hb] at hB; cases hB
    | ok r' =>
      rw [ha] at hA; rw [hb] at hB
      simp only [Except.toOption, Option.map_some, Option.some.injEq, Prod.mk.injEq] at hA hB
      have ha' := btLoopF_sound _ _ _ ha
      have hb' := btLoopF_sound _ _ _ hb
      refine ⟨r, r', ha', hb',
        (backtest_causal cfgQ (runQ_causal 1) runQ_public wA_wB_agree wA_hedgeZero [1] [2] (by decide) (by decide)
          ha' hb').1, fun hh => ?_, hA.1⟩
      rw [hh, hB] at hA
      exact absurd hA.2 (by decide +kernel)

/-- the same with two algo functions that agree up to `t` (`CausalPair t run run'`: `run'` on the truncated data
    does at dates `≤ t` what `run` does on the full data) -/
theorem backtest_causal_two (cfg : Cfg K) {t : Nat} {run run' : RunFn K} (hc : CausalPair t run run')
    (hc' : Causal t run') (hp : RunPublic cfg run) (hp' : RunPublic cfg run') {w w' : World K}
    (hw : w.trunc t = w'.trunc t) (hz : HedgeZero w.root)
    (pre post : List Nat) (hpre : ∀ d ∈ pre, d ≤ t) (hpost : ∀ d ∈ post, t < d) {r r' : World K}
    (h : btLoop cfg run (pre ++ post) w = .ok r) (h' : btLoop cfg run' (pre ++ post) w' = .ok r') :
    (∀ j, j ≤ t → rowsAt j r.root = rowsAt j r'.root) ∧ rowLens r.root = rowLens r'.root :=
  backtest_causal_pair hc hc' hp hp' hw hz pre post hpre hpost h h'

/-- an algo function that changes its behaviour after date 1 (it stops trading) -/
def runQ' : RunFn Rat := fun d w => if d ≤ 1 then runQ d w else .ok w

theorem runQ'_pair : CausalPair 1 runQ runQ' := fun d hd w hw => by
  show (if d ≤ 1 then runQ d (w.trunc 1) else .ok (w.trunc 1)) = _
  rw [if_pos hd]; exact runQ_causal 1 d hd w hw

theorem runQ'_causal : Causal 1 runQ' := fun d hd w hw => by
  show (if d ≤ 1 then runQ d (w.trunc 1) else .ok (w.trunc 1)) =
    (if d ≤ 1 then runQ d w else .ok w).map (World.trunc 1)
  rw [if_pos hd, if_pos hd]; exact runQ_causal 1 d hd w hw

theorem runQ'_public : RunPublic cfgQ runQ' := fun d w w2 hw h => by
  unfold runQ' at h
  split at h
  · exact runQ_public d w w2 hw h
  · cases h; exact .nil _

example (r r' : World Rat) (h : btLoop cfgQ runQ ([1] ++ [2]) wA = .ok r)
    (h' : btLoop cfgQ runQ' ([1] ++ [2]) wB = .ok r') : ∀ j, j ≤ 1 → rowsAt j r.root = rowsAt j r'.root :=
  (backtest_causal_two cfgQ runQ'_pair runQ'_causal runQ_public runQ'_public wA_wB_agree wA_hedgeZero [1] [2]
    (by decide) (by decide) h h').1

/-- **… and changing signals / target weights / any supplied frame after `t`**: an algo function `run p` reading
    frames `p`, causal in them (`CausalWith E t run`), two frames that agree up to `t` (`E t p p'`), two engine data
    sets that agree up to `t` -/
theorem backtest_causal_with (cfg : Cfg K) {t : Nat} {P : Type} {E : Nat → P → P → Prop} {run : P → RunFn K}
    (hc : CausalWith E t run) (hp : ∀ p, RunPublic cfg (run p)) {p p' : P} (hE : E t p p') (hE' : E t p' p')
    {w w' : World K} (hw : w.trunc t = w'.trunc t) (hz : HedgeZero w.root)
    (pre post : List Nat) (hpre : ∀ d ∈ pre, d ≤ t) (hpost : ∀ d ∈ post, t < d) {r r' : World K}
    (h : btLoop cfg (run p) (pre ++ post) w = .ok r) (h' : btLoop cfg (run p') (pre ++ post) w' = .ok r') :
    (∀ j, j ≤ t → rowsAt j r.root = rowsAt j r'.root) ∧ rowLens r.root = rowLens r'.root :=
  backtest_causal_pair (hc p p' hE) (hc p' p' hE') (hp p) (hp p') hw hz pre post hpre hpost h h'

/-- `SelectAll → WeighEqually → Rebalance` on universes `univA` / `univB` (row 2: a NaN and a negative price in
    `univB`, so the selections of date 2 differ) and engine data `wA` / `wB`: whatever the two runs record for
    dates 0 and 1 is the same -/
example (r r' : World Rat)
    (h : btLoop cfgQ (selEqRebalance cfgQ false false univA) ([1] ++ [2]) wA = .ok r)
    (h' : btLoop cfgQ (selEqRebalance cfgQ false false univB) ([1] ++ [2]) wB = .ok r') :
    ∀ j, j ≤ 1 → rowsAt j r.root = rowsAt j r'.root :=
  (backtest_causal_with cfgQ (selEqRebalance_causal cfgQ 1 false false) (selEqRebalance_public cfgQ false false)
    (p := univA) (p' := univB) rfl rfl wA_wB_agree wA_hedgeZero [1] [2] (by decide) (by decide) h h').1

/-- **structural form, without the hedge hypothesis**: the states `m`, `m'` after the last date `≤ t` agree up to
    row `t` (hence in every recorded row, `P08.allRows`), and each final result differs from its `m` only at
    recorded indices `> t` (`P08.Frozen (t < ·)`: all rows keep their length and their entries at indices `≤ t`,
    except that the notional row of a hedge security may have been zero-filled) -/
theorem backtest_causal_frozen (cfg : Cfg K) {t : Nat} {run : RunFn K} (hc : Causal t run) (hp : RunPublic cfg run)
    {w w' : World K} (hw : w.trunc t = w'.trunc t)
    (pre post : List Nat) (hpre : ∀ d ∈ pre, d ≤ t) (hpost : ∀ d ∈ post, t < d) {r r' : World K}
    (h : btLoop cfg run (pre ++ post) w = .ok r) (h' : btLoop cfg run (pre ++ post) w' = .ok r') :
    ∃ m m' : World K, btLoop cfg run pre w = .ok m ∧ btLoop cfg run pre w' = .ok m' ∧
      m.trunc t = m'.trunc t ∧ allRows m.root = allRows m'.root ∧
      Frozen (t < ·) m.root r.root ∧ Frozen (t < ·) m'.root r'.root :=
  P04.backtest_causal_frozen hc hc hp hp hw pre post hpre hpost h h'

example (r r' : World Rat) (h : btLoop cfgQ runQ ([1] ++ [2]) wA = .ok r)
    (h' : btLoop cfgQ runQ ([1] ++ [2]) wB = .ok r') :
    ∃ m m' : World Rat, allRows m.root = allRows m'.root ∧ Frozen (1 < ·) m.root r.root ∧
      Frozen (1 < ·) m'.root r'.root := by
  obtain ⟨m, m', -, -, -, h1, h2, h3⟩ :=
    backtest_causal_frozen cfgQ (runQ_causal 1) runQ_public wA_wB_agree [1] [2] (by decide) (by decide) h h'
  exact ⟨m, m', h1, h2, h3⟩

/-- **the error case**: over the dates `≤ t`, the run raises on one data set iff it raises the same error on the
    other … -/
theorem backtest_causal_raises (cfg : Cfg K) {t : Nat} {run : RunFn K} (hc : Causal t run)
    {w w' : World K} (hw : w.trunc t = w'.trunc t) (pre : List Nat) (hpre : ∀ d ∈ pre, d ≤ t) (e : Err) :
    btLoop cfg run pre w = .error e ↔ btLoop cfg run pre w' = .error e :=
  prefix_error hc hc hw pre hpre e

/-- … and then so do both whole runs -/
theorem backtest_causal_raises_whole (cfg : Cfg K) {t : Nat} {run : RunFn K} (hc : Causal t run)
    {w w' : World K} (hw : w.trunc t = w'.trunc t) (pre post : List Nat) (hpre : ∀ d ∈ pre, d ≤ t) (e : Err)
    (h : btLoop cfg run pre w = .error e) :
    btLoop cfg run (pre ++ post) w = .error e ∧ btLoop cfg run (pre ++ post) w' = .error e :=
  (backtest_causal_error hc hc hw pre post hpre e h).2

/-- a security held with a NaN price on row 1 in both data sets: `update` raises on row 1 in both -/
def wNaN (p2 : Option Rat) : World Rat :=
  ⟨.strat rootA [.sec { secA "x" [some 10, none, p2] with position := 1 }], false⟩

example : (wNaN (some 12)).trunc 1 = (wNaN none).trunc 1 ∧
    (btLoop cfgQ runQ [1] (wNaN (some 12)) = .error .nanPriceOpenPosition ↔
      btLoop cfgQ runQ [1] (wNaN none) = .error .nanPriceOpenPosition) :=
  ⟨rfl, backtest_causal_raises cfgQ (runQ_causal 1) (w := wNaN (some 12)) (w' := wNaN none) rfl [1] (by decide) _⟩

/-! ### (5) the hypothesis bites: an algo function that reads tomorrow's price is not causal -/

/-- look-ahead: adds 1 of capital when the first security has a price on the *next* row -/
def peek : RunFn Rat := fun d w =>
  match w.root.get? [0] with
  | some (.sec s) =>
    match cell s.prices (d + 1) with
    | some _ => opAdjust w [] 1 false false
    | none => .ok w
  | _ => .ok w

/-- capital of the root -/
def rootCash (w : World Rat) : Rat := match w.root with | .strat sd _ => sd.capital | .sec _ => 0

theorem lookahead_not_causal : ¬ Causal 0 peek := by
  intro h
  have e := h 0 (le_refl 0) wA wA_atClock
  have e1 : (peek 0 (wA.trunc 0)).toOption.map rootCash = some 100 := by decide +kernel
  have e2 : ((peek 0 wA).map (World.trunc 0)).toOption.map rootCash = some 101 := by decide +kernel
  rw [e, e2] at e1
  exact absurd e1 (by decide +kernel)

/-- it is public all the same: `RunPublic` does not imply `Causal` -/
example : RunPublic cfgQ peek := fun d w w2 _ h => by
  unfold peek at h
  split at h
  · split at h
    · exact .single (.adjust _ _ _ _ h)
    · cases h; exact .nil _
  · cases h; exact .nil _

end Bt.C04
