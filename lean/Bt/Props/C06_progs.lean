import Bt.Proofs.ProgramS
import Bt.Props.C06_progw
/-! C06 (Rebalance) inside whole programs whose algo objects remember: `run_always(RebalanceOverTime(n))` at the end of an
    extended stack (`Bt/Algos/ProgramS.lean`: `progRunXS`, memories `Mem` travelling in the program tree `GTreeS`, nested
    backtests `simRunGS` — what the driver executes for the `wholeruns` request of the `whole-run-x` protocol).
      (1) the programs without memory are an instance: `simRunGS` of a lifted backtest is the lifting of `simRunG`
          (`memoryless_instance`), so everything proved about `simRunG` speaks about what the driver runs for them;
      (2) the stack up to its last algo is what `progRunX` computes before `Rebalance` (`stack_prefix`);
      (3) one call of the stack: fresh weights re-arm the object with `n` periods whatever it remembered (`rot_rearm`); a day
          on which the stack stops early trades towards the remembered target when armed (`rot_idle_armed`) and does nothing
          when disarmed (`rot_idle_disarmed`);
      (4) an armed call refreshes the tree, hands `cur + (target − cur)/left` to `Rebalance`, and counts down (`rot_call`);
          on the last period (`left = 1`) it hands over the remembered target itself (`rot_last_period_on_target`);
      (5) armed with `k+1` periods the object holds the target through `k` further calls and is disarmed after `k+1`
          (`rot_countdown`).
    Helper lemmas: `Bt.Proofs.ProgramS` (namespace `Bt.PProgS`). -/
set_option linter.unusedSectionVars false
namespace Bt.C06S
open Bt Bt.P08 Bt.P04 Bt.Prog Bt.PProg Bt.PProgX Bt.PProgW Bt.PProgS Bt.Select Bt.Weigh

variable {K : Type} [Field K] [LinearOrder K] [IsStrictOrderedRing K] [HasFloor K]

/-! ### (1) programs without memory -/

/-- **`Backtest.run` of a nested tree of memoryless programs, executed with memories, is `simRunG`** (final worlds of the
    backtest and of all shadow copies included: `liftSim` keeps every world) -/
theorem memoryless_instance (cfg : Cfg K) (c : K) (dates : List Nat) (s : SimG K) :
    simRunGS cfg c dates (liftSim s) = (simRunG cfg c dates s).map liftSim ∧ (liftSim s).world = s.world :=
  ⟨simRunGS_lift c dates s, liftSim_world s⟩

/-- one day of a memoryless tree: the world of `treeRunG`, the tree handed back unchanged -/
theorem memoryless_day (t : GTree K) (path : List Nat) (d : Nat) (w : World K) :
    treeRunGS (liftTree t) path d w = (treeRunG t path d w).map fun w' => (liftTree t, w') :=
  treeRunGS_lift t path d w

variable [Select.HasNatFloor K]

/-! ### (2) the stack without its last algo -/

/-- `progRunX` is `stackWeights` followed by `Rebalance` on the weights it produced (nothing, when the stack stopped) -/
theorem stack_prefix (cfg : Cfg K) (p : ProgX K) (path : List Nat) (d : Nat) (w : World K) :
    progRunX cfg p path d w = (stackWeights cfg p path d w).bind (finishX cfg p path w) :=
  progRunX_eq_stackWeights p path d w

/-! ### (3) one call of `[…, run_always(RebalanceOverTime(n))]` -/

/-- **fresh weights re-arm**: when the stack gets through, the object forgets what it held and starts `n` periods on the new
    weights -/
theorem rot_rearm (cfg : Cfg K) (p : ProgX K) (n : K) (path : List Nat) (d : Nat) (mem : Mem K) (w w1 : World K)
    (ws : List (Nat × K)) (h : stackWeights cfg p path d w = .ok (some (w1, ws))) :
    progRunXS cfg p n path d mem w = rotCall cfg path ws n w1 := by
  unfold progRunXS; rw [h]; rfl

/-- **an idle day while armed** (gate closed or a selector answered False): the object still trades, towards the remembered
    target with the remembered number of periods left -/
theorem rot_idle_armed (cfg : Cfg K) (p : ProgX K) (n : K) (path : List Nat) (d : Nat) (w : World K)
    (tw : List (Nat × K)) (left : K) (h : stackWeights cfg p path d w = .ok none) :
    progRunXS cfg p n path d (some (tw, left)) w = rotCall cfg path tw left w := by
  unfold progRunXS; rw [h]; rfl

/-- **an idle day while disarmed** leaves the world and the (empty) memory as they are -/
theorem rot_idle_disarmed (cfg : Cfg K) (p : ProgX K) (n : K) (path : List Nat) (d : Nat) (w : World K)
    (h : stackWeights cfg p path d w = .ok none) : progRunXS cfg p n path d none w = .ok (none, w) := by
  unfold progRunXS; rw [h]; rfl

/-- a closed gate is such an idle day -/
theorem stack_gate_closed (cfg : Cfg K) (p : ProgX K) (path : List Nat) (d : Nat) (w : World K)
    (h : p.gate.getD d false = false) : stackWeights cfg p path d w = .ok none := by
  unfold stackWeights; rw [h]; rfl

/-! ### (4) an armed call -/

/-- **what an armed `RebalanceOverTime` does**: the tree is brought up to date, every remembered target `x` of a name whose
    child weighs `c` becomes `c + (x − c)/left`, the `Rebalance` it owns runs on these, and the memory afterwards is the same
    target with one period less — nothing once that reaches zero -/
theorem rot_call (cfg : Cfg K) (path : List Nat) (tw : List (Nat × K)) (left : K) (w w' : World K) (m' : Mem K)
    (h : rotCall cfg path tw left w = .ok (m', w')) :
    ∃ w1 sd kids, refresh cfg w = .ok w1 ∧ w1.root.get? path = some (.strat sd kids) ∧
      algoRebalance cfg w1 path (rotTargets left (curWeights kids) tw) none none = .ok w' ∧
      m' = memAfter tw left ∧ (left = 1 → m' = none) ∧ (left ≠ 1 → m' = some (tw, left - 1)) := by
  unfold rotCall at h
  obtain ⟨⟨w1, ws1⟩, h1, h2⟩ := bind_eq_ok h
  obtain ⟨hr, sd, kids, hk, hws⟩ := postStep_overTime_ok h1
  cases hreb : algoRebalance cfg w1 path ws1 none none with
  | error e => simp only [hreb] at h2; cases h2
  | ok w2 =>
    simp only [hreb] at h2
    cases h2
    refine ⟨w1, sd, kids, hr, hk, by rw [← hws]; exact hreb, rfl, ?_, ?_⟩
    · intro h1'; rw [h1']; exact memAfter_one tw
    · intro hne; exact memAfter_ne_one tw left hne

/-- **the last period lands on the target**: with one period left the weights handed to `Rebalance` are the remembered
    target itself -/
theorem rot_last_period_on_target (cur tw : List (Nat × K)) : rotTargets (1 : K) cur tw = tw := by
  unfold rotTargets
  conv_rhs => rw [← List.map_id tw]
  refine List.map_congr_left fun q _ => ?_
  simp

/-! ### (5) the countdown -/

/-- armed with `k+1` periods: after `j ≤ k` further calls the object still holds the target, with `k+1−j` periods left;
    after `k+1` calls it is disarmed (`countdown tw j` = the memory after `j` armed calls) -/
theorem rot_countdown (tw : List (Nat × K)) (k : Nat) :
    (∀ j, j ≤ k → countdown tw j (some (tw, ((k + 1 : Nat) : K))) = some (tw, ((k + 1 - j : Nat) : K))) ∧
    countdown tw (k + 1) (some (tw, ((k + 1 : Nat) : K))) = none :=
  ⟨fun j hj => countdown_armed tw j k hj, countdown_disarms tw k⟩

/-! ### non-vacuity: `progWS` = `[RunPeriod(row 1 only), SelectAll, WeighSpecified(70/20/10), run_always(RebalanceOverTime(2))]` -/

/-- a whole backtest with memory on data set A: row 1 arms the object and moves half way (35/10/5, one period left); on row 2
    the gate is closed, the object trades the rest (70/20/10) and disarms; on row 3 nothing is traded (the weights drift) -/
example : (simRunGS cfgE 1000 [0, 1] simWS).toOption.map (fun s => (rootWeights s.world, SimGS.rootMem s)) =
      some ([(0, 7/20), (1, 1/10), (2, 1/20)], some (wsW, 1)) ∧
    (simRunGS cfgE 1000 [0, 1, 2] simWS).toOption.map (fun s => (rootWeights s.world, SimGS.rootMem s)) =
      some (wsW, none) ∧
    (simRunGS cfgE 1000 [0, 1, 2, 3] simWS).toOption.map (fun s => (rootWeights s.world, SimGS.rootMem s)) =
      some ([(0, 15960/22879), (1, 4620/22879), (2, 2299/22879)], none) := by
  refine ⟨?_, ?_, ?_⟩ <;> decide +kernel

/-- (3): rows 0 and 2 are idle days of `progWS` (gate closed) — disarmed on row 0, nothing happens -/
example (w : World Rat) : stackWeights cfgE progWS [] 0 w = .ok none ∧
    progRunXS cfgE progWS 2 [] 0 none w = .ok (none, w) ∧
    ∀ tw left, progRunXS cfgE progWS 2 [] 2 (some (tw, left)) w = rotCall cfgE [] tw left w :=
  ⟨stack_gate_closed cfgE progWS [] 0 w rfl,
   rot_idle_disarmed cfgE progWS 2 [] 0 w (stack_gate_closed cfgE progWS [] 0 w rfl),
   fun tw left => rot_idle_armed cfgE progWS 2 [] 2 w tw left (stack_gate_closed cfgE progWS [] 2 w rfl)⟩

/-- (3): row 1 of data set A re-arms `progWS` -/
example (mem : Mem Rat) : progRunXS cfgE progWS 2 [] 1 mem wXA = rotCall cfgE [] wsW 2 wXA := by
  refine rot_rearm cfgE progWS 2 [] 1 mem wXA wXA wsW ?_
  have hs : selSteps (tableOf progWS.ucols [.sec xE, .sec yE, .sec zE] 1) 1 progWS.sels none =
      .ok (some (some [0, 1, 2])) := by decide +kernel
  unfold stackWeights
  have hn : wXA.root.get? [] = some (.strat (stratE "root" false) [.sec xE, .sec yE, .sec zE]) := rfl
  simp only [hn, hs]
  rfl

/-- (1): the memoryless nested backtest `simXPar` of `Bt.Proofs.ProgramXEx`, run with memories -/
example : simRunGS cfgE 1000 [0, 1, 2] (liftSim simXPar) = (simRunG cfgE 1000 [0, 1, 2] simXPar).map liftSim :=
  (memoryless_instance cfgE 1000 [0, 1, 2] simXPar).1

/-- (5): armed with three periods -/
example (tw : List (Nat × Rat)) : countdown tw 2 (some (tw, ((3 : Nat) : Rat))) = some (tw, ((1 : Nat) : Rat)) ∧
    countdown tw 3 (some (tw, ((3 : Nat) : Rat))) = none :=
  ⟨(rot_countdown tw 2).1 2 (le_refl 2), (rot_countdown tw 2).2⟩

end Bt.C06S
