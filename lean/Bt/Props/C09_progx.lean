import Bt.Proofs.ProgramX
import Bt.Proofs.ProgramXEx
import Bt.Props.C09
import Bt.Props.C09_prog
/-! C09 for extended programs and for nested backtests over trees of arbitrary run functions — **the shadow copy
    of a definition is the stand-alone backtest of that definition, for EVERY definition** (any run functions: calendar
    schedulers, counting schedulers `RunOnce` / `RunEveryNPeriods` / `RunAfterDays`, no scheduler, raising algos).

    `Bt.Prog.SimG` (`Bt/Algos/ProgramX.lean`) is a running backtest over a `GTree` (nodes carry arbitrary run
    functions `List Nat → RunFn`) with, for every sub-strategy (by path), the shadow copy `setup` made of it — itself
    a `SimG`.  `simDayG0` / `simDayG` / `simShadowG` / `simRunG` are `simDay0` / `simDay` / `simShadow` / `simRun` of
    `Bt/Algos/Program.lean` with `treeRunG` for `treeRun`: on the first date of the data nobody's run function is called
    (`Backtest.run` only updates; `StrategyBase.update` only updates a shadow copy when `inow == 0`).

    The theorems of `C09_prog` generalise verbatim, with NO hypothesis on the run functions of the definition.  (Before
    the repair of `StrategyBase.update` they needed "`Strategy.run()` of the definition's own tree is the identity at
    `d0`", `NoDust` and `0 < TOL`; the facts about run functions that are the identity at a row are kept in (1).)  For the
    price chain "`Strategy.run()` of the PARENT's tree only issues public calls" (`P16.RunPublic`) is still needed; it
    holds if every node function does (`C16.treeRunG_public16`), e.g. every `progRunX`.
    Helper lemmas: `Bt.Proofs.ProgramX` (namespace `Bt.PProgX`). -/
set_option linter.unusedSectionVars false
namespace Bt.C09
open Bt Bt.Prog Bt.PProg Bt.PProgX Bt.Select

variable {K : Type} [Field K] [LinearOrder K] [IsStrictOrderedRing K] [HasFloor K] [Select.HasNatFloor K]

/-! ### (1) node functions that are the identity at a row (facts; since the repair not a hypothesis of (2)–(4)) -/

/-- an extended stack whose scheduler answers False at row `d` leaves the tree as it is (no selector is evaluated) -/
theorem progRunX_gate_closed (cfg : Cfg K) (p : ProgX K) (path : List Nat) (d : Nat) (w : World K)
    (h : p.gate.getD d false = false) : progRunX cfg p path d w = .ok w :=
  PProgX.progRunX_gate_closed p path d w h

example (w : World Rat) : progRunX cfgE progXE [] 0 w = .ok w ∧ progXE.gate.getD 1 false = true :=
  ⟨progRunX_gate_closed cfgE progXE [] 0 w rfl, rfl⟩

/-- **GENERIC: if every node function of a `GTree` is the identity at row `d`** (at its path: `AllNodes (IdAt d)`)
    **then `Strategy.run()` of the whole tree at row `d` returns the tree as it is** -/
theorem treeRunG_gate_closed (tr : GTree K) (path : List Nat) (d : Nat) (w : World K)
    (h : AllNodes (IdAt d) tr path) : treeRunG tr path d w = .ok w :=
  treeRunG_id_at tr path h w

theorem kidsRunG_gate_closed (ks : List (Option (GTree K))) (path : List Nat) (i d : Nat) (w : World K)
    (h : AllNodesL (IdAt d) ks path i) : kidsRunG ks path i d w = .ok w :=
  kidsRunG_id_at ks path i h w

/-- a root that does nothing on even rows, over a child that does nothing on row 0 -/
example (w : World Rat) :
    treeRunG (.node (fun _ d w => if d % 2 = 0 then .ok w else .error .badPath)
      [some (.node (fun _ d w => if d = 0 then .ok w else opFlatten cfgE w [])  [])]) [] 0 w = .ok w := by
  refine treeRunG_gate_closed _ [] 0 w ?_
  rw [allNodes_node, allNodesL_some, allNodes_node, allNodesL_nil, allNodesL_nil]
  exact ⟨fun _ => rfl, ⟨fun _ => rfl, trivial⟩, trivial⟩

/-- the instance: a tree of extended programs all of whose gates are closed at `d` (`xGateClosed d x`, a `Bool`) -/
theorem progx_gate_closed (cfg : Cfg K) (x : XTree K) (path : List Nat) (d : Nat) (w : World K)
    (h : xGateClosed d x = true) : treeRunG (embedX cfg x) path d w = .ok w :=
  treeRunG_gate_closed _ path d w (idAt_embedX x h path)

example (w : World Rat) : treeRunG gtreePar [] 0 w = .ok w ∧ xGateClosed 1 xtreePar = false :=
  ⟨progx_gate_closed cfgE xtreePar [] 0 w (by decide +kernel), by decide +kernel⟩

/-! ### (2) funding a definition and stepping it as a shadow copy is its stand-alone backtest -/

/-- a leaf definition (no sub-strategies) as a `SimG` is `btRun` -/
theorem simRunG_leaf_eq_btRun (cfg : Cfg K) (c : K) (t : GTree K) (dates : List Nat) (w0 : World K) :
    simRunG cfg c dates (.mk w0 t []) = (btRun cfg (treeRunG t []) c dates w0).map fun w => SimG.mk w t [] :=
  simRunG_leaf c t dates w0

example : simRunG cfgE 1000000 [0, 1, 2, 3] simXSub =
    (btRun cfgE (treeRunG gtreeSub []) 1000000 [0, 1, 2, 3] wSubE).map fun w => SimG.mk w gtreeSub [] :=
  simRunG_leaf_eq_btRun cfgE 1000000 gtreeSub [0, 1, 2, 3] wSubE

/-! #### definitions that act on their first call -/

/-- `[RunOnce, SelectAll, SelectMomentum, WeighEqually, Rebalance]`: the gate the driver computes for `RunOnce` (silent on
    the dummy row 0 - nobody calls it there -, True on the first real date, False ever after) -/
def progXOnce : ProgX Rat := { progXSub with gate := [false, true, false, false], sels := [.all false false] }
def xtreeOnce : XTree Rat := .node progXOnce [none, none]
def gtreeOnce : GTree Rat := embedX cfgE xtreeOnce
def simXOnce : SimG Rat := .mk wSubE gtreeOnce []
/-- the parent of `ProgramXEx` with the `RunOnce` sub-strategy in place of `sub` -/
def xtreeParOnce : XTree Rat := .node progXPar [some xtreeOnce, none]
def gtreeParOnce : GTree Rat := embedX cfgE xtreeParOnce
def simXParOnce : SimG Rat := .mk wParE gtreeParOnce [([0], .mk wSubF gtreeOnce [])]

example : xGateClosed 1 xtreeOnce = false := by decide +kernel

/-- **Any nesting, any run functions — no hypothesis.**  `w0`, `t`, `papers`: a definition after `setup` — its tree, the
    run functions of its strategies, and its own shadow copies (arbitrary `SimG`s at arbitrary paths, nested to any
    depth).  Funding it with `c` and stepping it as a shadow copy over the dates `d0 :: ds` — updated on `d0`, the full
    loop body on every later date — is the stand-alone `Backtest.run` of the same definition: the same final `SimG` or
    the same error.  Nothing is assumed about the run functions on any date (they may act on their first call, raise,
    not be public), nor about the tree, nor about `papers`. -/
theorem simG_paper_eq_standalone_nested (cfg : Cfg K) (c : K) (d0 : Nat) (ds : List Nat)
    (w0 : World K) (t : GTree K) (papers : List (List Nat × SimG K)) :
    (opAdjust w0 [] c true true).bind (fun w1 => simShadowG cfg (d0 :: ds) (.mk w1 t papers)) =
      simRunG cfg c (d0 :: ds) (.mk w0 t papers) :=
  simShadowG_funded_eq_simRunG c d0 ds w0 t papers

/-- what `simShadowG` is: an update of the tree and of all its shadow copies on the first date, the loop after -/
theorem simShadowG_unfold (cfg : Cfg K) (d0 : Nat) (ds : List Nat) (s : SimG K) :
    simShadowG cfg (d0 :: ds) s = (simDayG0 cfg d0 s).bind (simLoopG cfg ds) := rfl

/-- the leaf case -/
theorem simG_paper_eq_standalone (cfg : Cfg K) (c : K) (d0 : Nat) (ds : List Nat)
    (w0 : World K) (t : GTree K) :
    (opAdjust w0 [] c true true).bind (fun w1 => simShadowG cfg (d0 :: ds) (.mk w1 t [])) =
      simRunG cfg c (d0 :: ds) (.mk w0 t []) :=
  simG_paper_eq_standalone_nested cfg c d0 ds w0 t []

/-- the momentum sub-strategy's definition (its gate is open on the first real date): shadow copy and stand-alone
    backtest end in the same state; the index is 100, 100, 100, 1200/11 (it holds `x` from row 2 on) -/
example : ∃ S', simShadowG cfgE [0, 1, 2, 3] (.mk wSubF gtreeSub []) = .ok S' ∧
    simRunG cfgE 1000000 [0, 1, 2, 3] simXSub = .ok S' ∧ S'.world.price = 1200 / 11 ∧
    rPriceAt S'.world [] = [100, 100, 100, 1200 / 11] := by
  have h1 : (simRunG cfgE 1000000 [0, 1, 2, 3] simXSub).toOption.map
      (fun S => (S.world.price, rPriceAt S.world [])) = some (1200 / 11, [100, 100, 100, 1200 / 11]) := by
    decide +kernel
  obtain ⟨S', hS, hv⟩ := P16.exists_of_toOption_map h1
  simp only [Prod.mk.injEq] at hv
  refine ⟨S', ?_, hS, hv.1, hv.2⟩
  have e := simG_paper_eq_standalone cfgE 1000000 0 [1, 2, 3] wSubE gtreeSub
  rw [wSubF_funded, P08.bind_ok] at e
  exact e.trans hS

/-- **a node function that raises whenever it is called** (`gtreeBad`): over the first date alone neither the shadow copy
    nor the stand-alone backtest calls it - both succeed; over two dates both raise, with the same error -/
example : (opAdjust wSubE [] 1000000 true true).bind (fun w1 => simShadowG cfgE [0] (.mk w1 gtreeBad [])) =
      simRunG cfgE 1000000 [0] (.mk wSubE gtreeBad []) ∧
    (simRunG cfgE 1000000 [0] (.mk wSubE gtreeBad [])).toOption.map (·.world.price) = some 100 ∧
    (opAdjust wSubE [] 1000000 true true).bind (fun w1 => simShadowG cfgE [0, 1] (.mk w1 gtreeBad [])) =
      simRunG cfgE 1000000 [0, 1] (.mk wSubE gtreeBad []) ∧
    raisedE (simRunG cfgE 1000000 [0, 1] (.mk wSubE gtreeBad [])) .badPath = true :=
  ⟨simG_paper_eq_standalone cfgE 1000000 0 [] wSubE gtreeBad, by decide +kernel,
   simG_paper_eq_standalone cfgE 1000000 0 [1] wSubE gtreeBad, by decide +kernel⟩

/-- the parent definition (with the shadow copy of `sub` inside) used itself as somebody's shadow copy -/
example : (opAdjust wParE [] 1000 true true).bind
      (fun w1 => simShadowG cfgE [0, 1, 2, 3] (.mk w1 gtreePar [([0], .mk wSubF gtreeSub [])])) =
    simRunG cfgE 1000 [0, 1, 2, 3] simXPar ∧
    (simRunG cfgE 1000 [0, 1, 2, 3] simXPar).toOption.map (·.world.price) = some (1205 / 11) :=
  ⟨simG_paper_eq_standalone_nested cfgE 1000 0 [1, 2, 3] wParE gtreePar _, by decide +kernel⟩

/-- the stand-alone run over a prefix of the dates is the state the whole run passes through (date for date) -/
theorem simRunG_prefix (cfg : Cfg K) (c : K) (d0 : Nat) (ds1 ds2 : List Nat) (s : SimG K) :
    simRunG cfg c (d0 :: (ds1 ++ ds2)) s = (simRunG cfg c (d0 :: ds1) s).bind (simLoopG cfg ds2) :=
  PProgX.simRunG_prefix c d0 ds1 ds2 s

example : simRunG cfgE 1000 [0, 1, 2, 3] simXPar = (simRunG cfgE 1000 [0, 1, 2] simXPar).bind (simLoopG cfgE [3]) :=
  simRunG_prefix cfgE 1000 0 [1, 2] [3] simXPar

/-! ### (3) inside a parent's backtest every shadow copy is the stand-alone backtest of its definition -/

/-- whatever the parent's tree, run functions, capital and trades are, each of its shadow copies is stepped by its
    own `simShadowG` over all the dates (updated on the first, the loop body on the others), and keeps its path -/
theorem simG_papers_independent (cfg : Cfg K) (C : K) (d0 : Nat) (ds : List Nat) (W : World K) (T : GTree K)
    (ps : List (List Nat × SimG K)) (S' : SimG K) (h : simRunG cfg C (d0 :: ds) (.mk W T ps) = .ok S') :
    ∃ W' ps', S' = .mk W' T ps' ∧
      List.Forall₂ (fun a b => a.1 = b.1 ∧ simShadowG cfg (d0 :: ds) a.2 = .ok b.2) ps ps' :=
  simRunG_papers h

/-- **Main theorem — every definition.**  A parent's complete backtest (`simRunG`, any capital `C`, any run functions)
    over the dates `d0 :: ds` succeeds with final state `S'`.  Take any of its shadow copies `(q, .mk w1 t qs)` that is
    the funded copy (`opAdjust w0 [] c true true = .ok w1`; the code uses `c = 1 000 000`) of a definition `w0`, `t`,
    `qs`.  Then the final state of that shadow copy inside `S'` is exactly the result of the stand-alone `Backtest.run`
    of the definition over the same dates.  Nothing is assumed about the definition's run functions (counting
    schedulers, stacks without a scheduler: all covered), about its tree, about the parent or about the inner copies. -/
theorem simG_shadow_is_standalone (cfg : Cfg K) (C c : K) (d0 : Nat) (ds : List Nat)
    (W : World K) (T : GTree K) (ps : List (List Nat × SimG K)) (S' : SimG K)
    (h : simRunG cfg C (d0 :: ds) (.mk W T ps) = .ok S')
    (q : List Nat) (w0 w1 : World K) (t : GTree K) (qs : List (List Nat × SimG K))
    (hmem : (q, SimG.mk w1 t qs) ∈ ps) (hfund : opAdjust w0 [] c true true = .ok w1) :
    ∃ W' ps' s', S' = .mk W' T ps' ∧ (q, s') ∈ ps' ∧ simRunG cfg c (d0 :: ds) (.mk w0 t qs) = .ok s' := by
  obtain ⟨W', ps', rfl, f⟩ := simRunG_papers h
  obtain ⟨⟨q', s'⟩, hb, hq, hl⟩ := forall₂_mem_left f _ hmem
  cases hq
  refine ⟨W', ps', s', rfl, hb, ?_⟩
  rw [← simShadowG_funded_eq_simRunG c d0 ds w0 t qs, hfund, P08.bind_ok]
  exact hl

/-- the parent `simXPar` (1000 of capital) and its shadow copy of `sub` (funded with 1 000 000): after the parent's
    backtest the copy is the stand-alone backtest of `sub`'s definition — index 1200/11 -/
example : ∃ W' ps' s', simRunG cfgE 1000 [0, 1, 2, 3] simXPar = .ok (.mk W' gtreePar ps') ∧ ([0], s') ∈ ps' ∧
    simRunG cfgE 1000000 [0, 1, 2, 3] simXSub = .ok s' ∧ s'.world.price = 1200 / 11 := by
  have h1 : (simRunG cfgE 1000 [0, 1, 2, 3] simXPar).toOption.map (fun _ => true) = some true := by
    decide +kernel
  have h2 : (simRunG cfgE 1000000 [0, 1, 2, 3] simXSub).toOption.map (·.world.price) = some (1200 / 11) := by
    decide +kernel
  obtain ⟨S', hS, -⟩ := P16.exists_of_toOption_map h1
  obtain ⟨W', ps', s', rfl, hm, hs⟩ := simG_shadow_is_standalone cfgE 1000 1000000 0 [1, 2, 3]
    wParE gtreePar _ S' hS [0] wSubE wSubF gtreeSub [] (List.mem_singleton.2 rfl) wSubF_funded
  obtain ⟨s2, hs2, hv⟩ := P16.exists_of_toOption_map h2
  have hs' : simRunG cfgE 1000000 [0, 1, 2, 3] simXSub = .ok s' := hs
  rw [hs'] at hs2
  cases hs2
  exact ⟨W', ps', s', hS, hm, hs', hv⟩

/-! ### (4) the child's price is the shadow copy's price -/

/-- **One date.**  In `simDayG` over a tree whose `Strategy.run()` only issues public calls (the paths of the shadow
    copies being distinct) every shadow copy `(q, s)` is stepped to `s'` by its own `simDayG`, `s'`'s price is written
    into the child's `paperPx` before the root's update, and at the end of the day — whatever the parent's run
    functions did, liquidation of the parent included — the paper-traded strategy at `q` shows `s'.world.price` as
    its price and has it recorded at row `d`. -/
theorem simG_child_price (cfg : Cfg K) (d : Nat) (w : World K) (t : GTree K) (papers : List (List Nat × SimG K))
    (S' : SimG K) (hpub : P16.RunPublic cfg (treeRunG t [])) (h : simDayG cfg d (.mk w t papers) = .ok S')
    (hnd : (papers.map (·.1)).Nodup) :
    ∃ w' papers', S' = .mk w' t papers' ∧
      List.Forall₂ (fun a b => a.1 = b.1 ∧ simDayG cfg d a.2 = .ok b.2) papers papers' ∧
      ∀ q s', (q, s') ∈ papers' → ∀ sd kk, w.root.get? q = some (.strat sd kk) → sd.paperTrade = true →
        ∃ sd' kk', w'.root.get? q = some (.strat sd' kk') ∧ sd'.price = s'.world.price ∧
          sd'.paperPx = s'.world.price ∧ (d < sd'.rPrice.length → sd'.rPrice[d]? = some s'.world.price) := by
  obtain ⟨w', papers', rfl, f, hp⟩ := simDayG_child_price hpub h hnd
  refine ⟨w', papers', rfl, f, fun q s' hm sd kk hg hpt => ?_⟩
  obtain ⟨sd', kk', g1, -, g3, g4, g5⟩ := hp q s' hm (paperT_iff.2 ⟨sd, kk, hg, hpt⟩)
  exact ⟨sd', kk', g1, g4, g3, g5⟩

/-- the hypothesis `hpub` for a tree of public node functions, and for a tree of extended programs -/
theorem treeRunG_public16_of_nodes (cfg : Cfg K) (t : GTree K) (path : List Nat)
    (h : AllNodes (P16.RunPublic cfg) t path) : P16.RunPublic cfg (treeRunG t path) :=
  PProgX.treeRunG_public16 t path h

theorem progx_public16 (cfg : Cfg K) (t : GTree K) (h : EveryNode (IsProgX cfg) t) (path : List Nat) :
    P16.RunPublic cfg (treeRunG t path) :=
  (progx_runCAll t h path).public16

/-- **Whole backtest: the sub-strategy's index is the stand-alone index — every definition.**  Setting of
    `simG_shadow_is_standalone`, the parent's `Strategy.run()` public, the paths of the parent's shadow copies distinct, the
    strategy at `q` in the parent's tree paper-traded.  After the parent's backtest over `d0 :: ds` the strategy at `q`
    shows as its price, and has recorded at the last date, the final price of the stand-alone backtest of its definition
    over the same dates.  (For the other dates apply the theorem to the prefixes of `d0 :: ds`: `simRunG_prefix`.)
    No hypothesis on the run functions of the sub-strategy's definition. -/
theorem simG_child_index_eq_standalone (cfg : Cfg K) (C c : K) (d0 : Nat) (ds : List Nat)
    (W : World K) (T : GTree K) (ps : List (List Nat × SimG K)) (S' : SimG K)
    (hpub : P16.RunPublic cfg (treeRunG T []))
    (h : simRunG cfg C (d0 :: ds) (.mk W T ps) = .ok S') (hnodup : (ps.map (·.1)).Nodup)
    (q : List Nat) (w0 w1 : World K) (t : GTree K) (qs : List (List Nat × SimG K))
    (hmem : (q, SimG.mk w1 t qs) ∈ ps) (hfund : opAdjust w0 [] c true true = .ok w1)
    (sd : StratData K) (kk : List (Node K)) (hq : W.root.get? q = some (.strat sd kk))
    (hpt : sd.paperTrade = true) :
    ∃ W' ps' s', S' = .mk W' T ps' ∧ simRunG cfg c (d0 :: ds) (.mk w0 t qs) = .ok s' ∧
      ∃ sd' kk', W'.root.get? q = some (.strat sd' kk') ∧ sd'.price = s'.world.price ∧
        (ds.getLastD d0 < sd'.rPrice.length → sd'.rPrice[ds.getLastD d0]? = some s'.world.price) := by
  obtain ⟨W', ps', s', rfl, hm, hs⟩ :=
    simG_shadow_is_standalone cfg C c d0 ds W T ps S' h q w0 w1 t qs hmem hfund
  obtain ⟨W2, ps2, e, hp⟩ := simRunG_child_price hpub h hnodup
  cases e
  obtain ⟨sd', kk', g1, -, -, g4, g5⟩ := hp q s' hm (paperT_iff.2 ⟨sd, kk, hq, hpt⟩)
  exact ⟨W', ps', s', rfl, hs, sd', kk', g1, g4, g5⟩

/-- the parent `simXPar` over the prefixes `[0,1,2]` and `[0,1,2,3]` of the dates: the price series recorded for the
    child `sub` is 100, 100, 100, 1200/11 — the stand-alone index of `sub`'s definition, date for date — while the
    parent's own index (half `sub`, half `z`) is 100, 100, 100, 1205/11 -/
example : (simRunG cfgE 1000 [0, 1, 2] simXPar).toOption.map (fun S => (rPriceAt S.world [0]).take 3) =
      (simRunG cfgE 1000000 [0, 1, 2] simXSub).toOption.map (fun S => (rPriceAt S.world []).take 3) ∧
    (simRunG cfgE 1000 [0, 1, 2, 3] simXPar).toOption.map (fun S => rPriceAt S.world [0]) =
      (simRunG cfgE 1000000 [0, 1, 2, 3] simXSub).toOption.map (fun S => rPriceAt S.world []) ∧
    (simRunG cfgE 1000 [0, 1, 2, 3] simXPar).toOption.map (fun S => (rPriceAt S.world [0], rPriceAt S.world [])) =
      some ([100, 100, 100, 1200 / 11], [100, 100, 100, 1205 / 11]) := by
  decide +kernel

/-- the theorem on that run: the strategy at `[0]` ends with the stand-alone price of its definition, recorded at row 3 -/
example (S' : SimG Rat) (h : simRunG cfgE 1000 (0 :: [1, 2, 3]) simXPar = .ok S') :
    ∃ W' ps' s', S' = .mk W' gtreePar ps' ∧ simRunG cfgE 1000000 (0 :: [1, 2, 3]) simXSub = .ok s' ∧
      ∃ sd' kk', W'.root.get? [0] = some (.strat sd' kk') ∧ sd'.price = s'.world.price ∧
        (3 < sd'.rPrice.length → sd'.rPrice[3]? = some s'.world.price) :=
  simG_child_index_eq_standalone cfgE 1000 1000000 0 [1, 2, 3] wParE gtreePar _ S'
    (progx_public16 cfgE gtreePar (everyNode_embedX xtreePar) []) h (by decide) [0] wSubE wSubF gtreeSub []
    (List.mem_singleton.2 rfl) wSubF_funded (stratE "sub" true) [.sec xE, .sec yE] rfl rfl

/-- **a `RunOnce` sub-strategy under a parent**: the theorem applies (no hypothesis on the child's gate), … -/
example (S' : SimG Rat) (h : simRunG cfgE 1000 (0 :: [1, 2, 3]) simXParOnce = .ok S') :
    ∃ W' ps' s', S' = .mk W' gtreeParOnce ps' ∧ simRunG cfgE 1000000 (0 :: [1, 2, 3]) simXOnce = .ok s' ∧
      ∃ sd' kk', W'.root.get? [0] = some (.strat sd' kk') ∧ sd'.price = s'.world.price ∧
        (3 < sd'.rPrice.length → sd'.rPrice[3]? = some s'.world.price) :=
  simG_child_index_eq_standalone cfgE 1000 1000000 0 [1, 2, 3] wParE gtreeParOnce _ S'
    (progx_public16 cfgE gtreeParOnce (everyNode_embedX xtreeParOnce) []) h (by decide) [0] wSubE wSubF gtreeOnce []
    (List.mem_singleton.2 rfl) wSubF_funded (stratE "sub" true) [.sec xE, .sec yE] rfl rfl

/-- … and evaluated: the price series the parent records for the `RunOnce` child is the stand-alone index of the
    `RunOnce` definition, date for date; the child did trade (once, on row 1: half `x`, half `y`) and its index moves -/
example : (simRunG cfgE 1000 [0, 1, 2, 3] simXParOnce).toOption.map (fun S => rPriceAt S.world [0]) =
      (simRunG cfgE 1000000 [0, 1, 2, 3] simXOnce).toOption.map (fun S => rPriceAt S.world []) ∧
    (simRunG cfgE 1000000 [0, 1, 2, 3] simXOnce).toOption.map (fun S => rPriceAt S.world []) =
      some [100, 100, 205 / 2, 225 / 2] := by
  decide +kernel

/-! ### (5) the fixed-shape programs of `C09_prog` are an instance -/

/-- `Backtest.run` of a nested tree of fixed-shape programs is `simRunG` of its embedding (`embedSim`: every tree
    `t` becomes `embed cfg t`, node function `progRun cfg p`; the shadow copies likewise, to any depth) -/
theorem simRun_eq_simRunG (cfg : Cfg K) (c : K) (dates : List Nat) (s : Sim K) :
    simRunG cfg c dates (embedSim cfg s) = (simRun cfg c dates s).map (embedSim cfg) :=
  simRun_embed c dates s

theorem simDay_eq_simDayG (cfg : Cfg K) (d : Nat) (s : Sim K) :
    simDayG cfg d (embedSim cfg s) = (simDay cfg d s).map (embedSim cfg) :=
  simDay_embed d s

/-- … with the same worlds -/
theorem simRun_world_eq_simRunG (cfg : Cfg K) (c : K) (dates : List Nat) (s : Sim K) :
    (simRunG cfg c dates (embedSim cfg s)).map (·.world) = (simRun cfg c dates s).map (·.world) := by
  rw [simRun_eq_simRunG, map_map']
  simp only [embedSim_world]

example : (simRunG cfgE 1000 [0, 1, 2, 3] (embedSim cfgE simParE)).map (·.world) =
      (simRun cfgE 1000 [0, 1, 2, 3] simParE).map (·.world) ∧
    (simRunG cfgE 1000 [0, 1, 2, 3] (embedSim cfgE simParE)).toOption.map (·.world.price) = some (875 / 8) :=
  ⟨simRun_world_eq_simRunG cfgE 1000 [0, 1, 2, 3] simParE, by decide +kernel⟩

/-- `C09.treeRun_gate_closed` re-proved by the generic theorem -/
theorem treeRun_gate_closed_via_generic (cfg : Cfg K) (tr : ProgTree K) (path : List Nat) (d : Nat) (w : World K)
    (h : gateClosed d tr = true) : treeRun cfg tr path d w = .ok w := by
  rw [treeRun_eq_treeRunG]
  exact treeRunG_gate_closed _ path d w (idAt_embed tr h path)

/-- `C09.sim_paper_eq_standalone_nested` through the embedding: the generic theorem at `embed cfg t` -/
theorem sim_paper_eq_standalone_via_generic (cfg : Cfg K) (c : K) (d0 : Nat) (ds : List Nat)
    (w0 : World K) (t : ProgTree K) (papers : List (List Nat × Sim K)) :
    ((opAdjust w0 [] c true true).bind (fun w1 => simShadow cfg (d0 :: ds) (.mk w1 t papers))).map (embedSim cfg) =
      (simRun cfg c (d0 :: ds) (.mk w0 t papers)).map (embedSim cfg) := by
  rw [← simRun_eq_simRunG, embedSim_mk,
    ← simG_paper_eq_standalone_nested cfg c d0 ds w0 (embed cfg t) (embedPapers cfg papers), bind_map']
  refine P09.bind_congr' _ fun w1 _ => ?_
  rw [← simShadow_embed, embedSim_mk]

example : ((opAdjust wParE [] 1000 true true).bind
      (fun w1 => simShadow cfgE [0, 1, 2, 3] (.mk w1 treeParE [([0], .mk wSubF treeSubE [])]))).map (embedSim cfgE) =
    (simRun cfgE 1000 [0, 1, 2, 3] simParE).map (embedSim cfgE) :=
  sim_paper_eq_standalone_via_generic cfgE 1000 0 [1, 2, 3] wParE treeParE _

/-- the shadow-copy stepping of fixed-shape programs is that of their embedding -/
theorem simShadow_eq_simShadowG (cfg : Cfg K) (ds : List Nat) (s : Sim K) :
    simShadowG cfg ds (embedSim cfg s) = (simShadow cfg ds s).map (embedSim cfg) :=
  simShadow_embed ds s

end Bt.C09
