import Bt.Proofs.Flags
import Bt.Proofs.FlagsEval
/-! C16 (flags) — where a `bankrupt` flag can be written: only on the root, only by `root.update`, only when the
    total it has just computed is negative (and not `is_zero`) and the root is not fixed-income.
    Property theorems only; helper lemmas live in `Bt.Proofs.Flags`, the evaluable clones and the concrete
    instances of the `example`s in `Bt.Proofs.FlagsEval`.

    Vocabulary (all in `Bt.Proofs.Flags`, namespace `P16`):
    * `P16.rootTotal cfg d w` — the total `val` (cash + children's values + swept coupons) that
      `root.update(d)` computes on `w` before its bankruptcy test: `updRoot` unfolded up to the test.
    * `P16.trigger cfg fi v` — `v < 0 && !fi && !is_zero(v)`: the model's test without `not self.bankrupt`.
    * `n.subFlags` — the `bankrupt` flags of all strategies strictly below the root of `n`, pre-order;
      `n.fis` — `fixedIncome` of every node, pre-order; `n.shape` — arity of every node, pre-order;
      `n.skel` — the tree of (kind, name, `fixedIncome`, and for strategies `bankrupt`) of every node.
    * `P16.Trace cfg w us w'` — `w'` is reached from `w` by steps each of which is either an execution of
      `updRoot cfg d` on the current world — recorded in `us`, in order, as `⟨d, world it ran on, total it
      computed⟩` — or a step that keeps the whole skeleton (all flags included). -/
set_option linter.unusedSectionVars false
namespace Bt.C16
open Bt

variable {K : Type} [Field K] [LinearOrder K] [IsStrictOrderedRing K] [HasFloor K]

/-! ### the definitions, spelled out -/

example (cfg : Cfg K) (d : Nat) (sd : StratData K) (kids : List (Node K)) (st : Bool) :
    P16.rootTotal cfg d ⟨.strat sd kids, st⟩ =
      (updKids cfg d (stratDateChange d sd).2 (stratDateChange d sd).1.bidofferSet kids
        ⟨(stratDateChange d sd).1.capital, 0, 0, 0⟩).map fun r => r.2.val + r.2.coupons := rfl

example (cfg : Cfg K) (fi : Bool) (v : K) :
    P16.trigger cfg fi v = (decide (v < 0) && !fi && !(isZero cfg.tol v)) := rfl

example (sd : StratData K) (k1 k2 : Node K) :
    (Node.strat sd [k1, k2]).subFlags = k1.flags ++ (k2.flags ++ []) ∧
    (Node.strat sd [k1, k2]).flags = sd.bankrupt :: (k1.flags ++ (k2.flags ++ [])) := by
  simp [Node.subFlags, Node.flags, P16.flagsL]

example : P16.w0.root.subFlags = [false] ∧ P16.w0.root.fis = [false, false, false, true] ∧
    P16.w0.root.shape = [some 2, some 1, none, none] := by
  simp [P16.w0, P16.tree0, Node.subFlags, Node.fis, Node.shape, P16.flagsL, Node.flags, P16.fisL, P16.shapeL,
    P16.stratR, P16.secA]

/-- `root.update` cannot succeed without having computed its total -/
theorem total_exists (cfg : Cfg K) (d : Nat) (w w' : World K) (h : updRoot cfg d w = .ok w') :
    ∃ v, P16.rootTotal cfg d w = .ok v :=
  P16.rootTotal_of_updRoot h

/-! ### (1) `root.update`: flagged exactly when the total triggers -/

/-- After `root.update(d)` the root's flag is the old flag or the model's test on the total just computed. -/
theorem flag_iff_trigger (cfg : Cfg K) (d : Nat) (w w' : World K) (sd : StratData K) (kids : List (Node K))
    (v : K) (hw : w.root = .strat sd kids) (hv : P16.rootTotal cfg d w = .ok v)
    (h : updRoot cfg d w = .ok w') :
    w'.bankrupt = (sd.bankrupt || (decide (v < 0) && !sd.fixedIncome && !(isZero cfg.tol v))) := by
  rw [P16.updRoot_bankrupt hv h]
  simp [World.bankrupt, World.rootFI, hw, P16.trigger, Node.fixedIncome]

/-- `wLev`: the sub-strategy holds 30 `a` against 200 of debt; on row 2 `a` is worth 5: total −50. -/
example : ∃ w' sd kids, P16.wLev.root = .strat sd kids ∧ P16.rootTotal P16.cfgQ 2 P16.wLev = .ok (-50) ∧
    updRoot P16.cfgQ 2 P16.wLev = .ok w' ∧ sd.bankrupt = false ∧ w'.bankrupt = true := by
  have h1 : (P16.updRootE P16.cfgQ 2 3 P16.wLev).toOption.map (·.bankrupt) = some true := by decide +kernel
  have h2 : P16.rootTotalE P16.cfgQ 2 3 P16.wLev = .ok (-50) := by decide +kernel
  obtain ⟨w', hw', hb⟩ := P16.exists_of_toOption_map h1
  exact ⟨w', _, _, rfl, P16.rootTotalE_sound h2, P16.updRootE_sound hw', rfl, hb⟩

/-- A root whose total is non-negative is not flagged by `root.update`. -/
theorem nonneg_never_flags (cfg : Cfg K) (d : Nat) (w w' : World K) (sd : StratData K) (kids : List (Node K))
    (v : K) (hw : w.root = .strat sd kids) (hv : P16.rootTotal cfg d w = .ok v)
    (h : updRoot cfg d w = .ok w') (hnn : 0 ≤ v) : w'.bankrupt = sd.bankrupt := by
  rw [flag_iff_trigger cfg d w w' sd kids v hw hv h]
  simp [not_lt.2 hnn]

/-- on row 1 `a` is still worth 10: total 100, no flag -/
example : ∃ w' sd kids, P16.wLev.root = .strat sd kids ∧ P16.rootTotal P16.cfgQ 1 P16.wLev = .ok 100 ∧
    updRoot P16.cfgQ 1 P16.wLev = .ok w' ∧ (0 : Rat) ≤ 100 ∧ w'.bankrupt = false := by
  have h1 : (P16.updRootE P16.cfgQ 1 3 P16.wLev).toOption.map (·.bankrupt) = some false := by decide +kernel
  have h2 : P16.rootTotalE P16.cfgQ 1 3 P16.wLev = .ok 100 := by decide +kernel
  obtain ⟨w', hw', hb⟩ := P16.exists_of_toOption_map h1
  exact ⟨w', _, _, rfl, P16.rootTotalE_sound h2, P16.updRootE_sound hw', by decide +kernel, hb⟩

/-- A fixed-income root is not flagged by `root.update`, whatever its total. -/
theorem fi_never_flags (cfg : Cfg K) (d : Nat) (w w' : World K) (sd : StratData K) (kids : List (Node K))
    (hw : w.root = .strat sd kids) (h : updRoot cfg d w = .ok w') (hfi : sd.fixedIncome = true) :
    w'.bankrupt = sd.bankrupt := by
  obtain ⟨v, hv⟩ := P16.rootTotal_of_updRoot h
  rw [flag_iff_trigger cfg d w w' sd kids v hw hv h]
  simp [hfi]

/-- the same position under a fixed-income root: total −50, value −50, no flag -/
example : ∃ w' sd kids, P16.wLevFI.root = .strat sd kids ∧ sd.fixedIncome = true ∧
    P16.rootTotal P16.cfgQ 2 P16.wLevFI = .ok (-50) ∧ updRoot P16.cfgQ 2 P16.wLevFI = .ok w' ∧
    w'.bankrupt = false ∧ w'.root.value = -50 := by
  have h1 : (P16.updRootE P16.cfgQ 2 3 P16.wLevFI).toOption.map (fun w => (w.bankrupt, w.root.value)) =
      some (false, -50) := by decide +kernel
  have h2 : P16.rootTotalE P16.cfgQ 2 3 P16.wLevFI = .ok (-50) := by decide +kernel
  obtain ⟨w', hw', hb⟩ := P16.exists_of_toOption_map h1
  simp only [Prod.mk.injEq] at hb
  exact ⟨w', _, _, rfl, rfl, P16.rootTotalE_sound h2, P16.updRootE_sound hw', hb.1, hb.2⟩

/-- A market-value root whose total is negative (and not `is_zero`) is flagged by that very `root.update`. -/
theorem negative_flags (cfg : Cfg K) (d : Nat) (w w' : World K) (sd : StratData K) (kids : List (Node K))
    (v : K) (hw : w.root = .strat sd kids) (hv : P16.rootTotal cfg d w = .ok v)
    (h : updRoot cfg d w = .ok w') (hneg : v < 0) (hfi : sd.fixedIncome = false)
    (hz : isZero cfg.tol v = false) : w'.bankrupt = true := by
  rw [flag_iff_trigger cfg d w w' sd kids v hw hv h]
  simp [hneg, hfi, hz]

example : ∃ w' sd kids, P16.wLev.root = .strat sd kids ∧ P16.rootTotal P16.cfgQ 2 P16.wLev = .ok (-50) ∧
    updRoot P16.cfgQ 2 P16.wLev = .ok w' ∧ (-50 : Rat) < 0 ∧ sd.fixedIncome = false ∧
    isZero P16.cfgQ.tol (-50 : Rat) = false := by
  have h1 : (P16.updRootE P16.cfgQ 2 3 P16.wLev).toOption.map (·.bankrupt) = some true := by decide +kernel
  have h2 : P16.rootTotalE P16.cfgQ 2 3 P16.wLev = .ok (-50) := by decide +kernel
  obtain ⟨w', hw', -⟩ := P16.exists_of_toOption_map h1
  exact ⟨w', _, _, rfl, P16.rootTotalE_sound h2, P16.updRootE_sound hw', by decide +kernel, rfl,
    by decide +kernel⟩

/-- When the bankruptcy step is not taken the total is what the root's `value` becomes (or the old value is
    kept, the total being `is_zero`-close to it): the total *is* the strategy's value. -/
theorem total_is_value (cfg : Cfg K) (d : Nat) (sd : StratData K) (kids : List (Node K)) (st : Bool)
    (w' : World K) (v : K) (hv : P16.rootTotal cfg d ⟨.strat sd kids, st⟩ = .ok v)
    (h : updRoot cfg d ⟨.strat sd kids, st⟩ = .ok w')
    (hn : sd.bankrupt = true ∨ P16.trigger cfg sd.fixedIncome v = false) :
    w'.root.value = v ∨ (isZero cfg.tol (sd.value - v) = true ∧ w'.root.value = sd.value) :=
  P16.updRoot_value hv h hn

example : ∃ w', updRoot P16.cfgQ 1 P16.wLev = .ok w' ∧ P16.rootTotal P16.cfgQ 1 P16.wLev = .ok 100 ∧
    P16.trigger P16.cfgQ false (100 : Rat) = false ∧ w'.root.value = 100 := by
  have h1 : (P16.updRootE P16.cfgQ 1 3 P16.wLev).toOption.map (·.root.value) = some 100 := by decide +kernel
  have h2 : P16.rootTotalE P16.cfgQ 1 3 P16.wLev = .ok 100 := by decide +kernel
  obtain ⟨w', hw', hb⟩ := P16.exists_of_toOption_map h1
  exact ⟨w', P16.updRootE_sound hw', P16.rootTotalE_sound h2, by decide +kernel, hb⟩

/-- `root.update` writes nothing else of the skeleton: every sub-strategy flag, every `fixedIncome`, the shape
    of the tree are what they were — also when it liquidates the whole tree. -/
theorem update_preserves_sub_flags (cfg : Cfg K) (d : Nat) (w w' : World K) (h : updRoot cfg d w = .ok w') :
    w'.root.subFlags = w.root.subFlags ∧ w'.root.fis = w.root.fis ∧ w'.root.shape = w.root.shape :=
  P16.of_subSkel (P16.updRoot_subSkel h)

/-- the liquidating update of `wLev`: root flagged, sub-strategy (whose own value was −50) not -/
example : ∃ w', updRoot P16.cfgQ 2 P16.wLev = .ok w' ∧ w'.bankrupt = true ∧ w'.root.subFlags = [false] := by
  have h1 : (P16.updRootE P16.cfgQ 2 3 P16.wLev).toOption.map (fun w => (w.bankrupt, w.root.subFlags)) =
      some (true, [false]) := by decide +kernel
  obtain ⟨w', hw', hb⟩ := P16.exists_of_toOption_map h1
  simp only [Prod.mk.injEq] at hb
  exact ⟨w', P16.updRootE_sound hw', hb.1, hb.2⟩

/-! ### (2) every other operation

Every operation of the model other than `updRoot` keeps the whole skeleton of the part of the tree it works
on (`Bt.Proofs.Flags`: `secUpdate_tag`, `adjust_tag`, `stratDateChange_tag`, `stratWrite_tag`, `stratRows_tag`,
`kidsWeights_skelL`, `updNode_skel`/`updKids_skelL`, `allocNode_skel`/`allocKids_skel`,
`transNode_skel`/`transKids_skel`, `flattenKidsMV_skel`, `flattenKidsFI_skel`, `flattenStrat_skel`,
`refreshNB_skel`, `flattenAt_skel`/`flattenSubs_skel` and `modAt_skel`/`modify_skel` relative to their function
argument).  The public operations that read a refreshing getter (`flatten`, `close`, `rebalance`, getter reads)
contain `if root.stale: root.update(root.now)` and so may execute `updRoot`; nothing else in them writes a flag. -/

/-- `update(d)` of any node (what a parent calls on its children; no bankruptcy step) keeps every flag. -/
theorem updNode_keeps_flags (cfg : Cfg K) (d : Nat) (n n' : Node K) (h : updNode cfg d n = .ok n') :
    n'.skel = n.skel ∧ n'.flags = n.flags ∧ n'.fis = n.fis :=
  ⟨P16.updNode_skel n n' h, P16.flags_of_skel _ _ (P16.updNode_skel n n' h),
   P16.fis_of_skel _ _ (P16.updNode_skel n n' h)⟩

/-- the sub-strategy of `wLev` is worth −50 on row 2: its own `update` leaves its flag alone -/
example : P16.wLev.root.get? [0] = some P16.subLev ∧ ∃ sub', updNode P16.cfgQ 2 P16.subLev = .ok sub' ∧
    sub'.value = -50 ∧ sub'.flags = [false] := by
  have h1 : (P08.updNodeF P16.cfgQ 2 3 P16.subLev).toOption.map (fun n => (n.value, n.flags)) =
      some (-50, [false]) := by decide +kernel
  obtain ⟨n', hn', hb⟩ := P16.exists_of_toOption_map h1
  simp only [Prod.mk.injEq] at hb
  exact ⟨rfl, n', P08.updNodeF_sound _ _ _ hn', hb.1, hb.2⟩

/-- `adjust`, `allocate`, `transact` (no getter is read): the whole skeleton, root flag included, is kept. -/
theorem adjust_keeps_flags (w w' : World K) (path : List Nat) (amount : K) (u fl : Bool)
    (h : opAdjust w path amount u fl = .ok w') : w'.root.skel = w.root.skel ∧ w'.bankrupt = w.bankrupt :=
  ⟨P16.opAdjust_skel h, P16.bankrupt_of_skel (P16.opAdjust_skel h)⟩

theorem allocate_keeps_flags (cfg : Cfg K) (w w' : World K) (path : List Nat) (amount : K) (u : Bool)
    (h : opAllocate cfg w path amount u = .ok w') : w'.root.skel = w.root.skel ∧ w'.bankrupt = w.bankrupt :=
  ⟨P16.opAllocate_skel h, P16.bankrupt_of_skel (P16.opAllocate_skel h)⟩

theorem transact_keeps_flags (cfg : Cfg K) (w w' : World K) (path : List Nat) (q : K) (u : Bool)
    (custom : Option K) (h : opTransact cfg w path q u custom = .ok w') :
    w'.root.skel = w.root.skel ∧ w'.bankrupt = w.bankrupt :=
  ⟨P16.opTransact_skel h, P16.bankrupt_of_skel (P16.opTransact_skel h)⟩

example : (opAdjust P16.wLev [0] (-500) true true).toOption.isSome = true ∧
    (opAllocate P16.cfgQ P16.wLev [0] 50 true).toOption.isSome = true ∧
    (opTransact P16.cfgQ P16.wLev [0, 0] (-3) true none).toOption.isSome = true := by
  refine ⟨by decide +kernel, by decide +kernel, by decide +kernel⟩

/-- One public call (`P08.PublicStep`: `root.update`, `adjust`, `allocate`, `transact`, `flatten`, `close`,
    `rebalance`, any getter read) keeps every sub-strategy flag, every `fixedIncome`, the shape. -/
theorem step_preserves_sub_flags (cfg : Cfg K) (w w' : World K) (h : P08.PublicStep cfg w w') :
    w'.root.subFlags = w.root.subFlags ∧ w'.root.fis = w.root.fis ∧ w'.root.shape = w.root.shape :=
  (P16.publicStep_traced h).sub

/-- … and so does any finite sequence of public calls. -/
theorem run_preserves_sub_flags (cfg : Cfg K) (w w' : World K) (h : P08.Run cfg w w') :
    w'.root.subFlags = w.root.subFlags ∧ w'.root.fis = w.root.fis ∧ w'.root.shape = w.root.shape :=
  (P16.run_traced h).sub

/-- The same, node by node: whatever public calls are made, the strategy found at any path below the root is
    still a strategy there, with the flag, the `fixedIncome` and the name it had. -/
theorem run_preserves_sub_strategy (cfg : Cfg K) (w w' : World K) (h : P08.Run cfg w w') (i : Nat)
    (rest : List Nat) (sd : StratData K) (ks : List (Node K))
    (hg : w.root.get? (i :: rest) = some (.strat sd ks)) :
    ∃ sd' ks', w'.root.get? (i :: rest) = some (.strat sd' ks') ∧ sd'.bankrupt = sd.bankrupt ∧
      sd'.fixedIncome = sd.fixedIncome ∧ sd'.name = sd.name :=
  (P16.run_traced h).sub_strat hg

/-- two public calls on `wLev`: withdraw 200 from the root, then `update(2)` (which liquidates) -/
example : ∃ w1 w2 sd ks, opAdjust P16.wLev [] (-200) true true = .ok w1 ∧ updRoot P16.cfgQ 2 w1 = .ok w2 ∧
    P08.Run P16.cfgQ P16.wLev w2 ∧ P16.wLev.root.get? [0] = some (.strat sd ks) ∧ w2.bankrupt = true := by
  have h0 : ((opAdjust P16.wLev [] (-200) true true).toOption.bind fun w1 =>
      (P16.updRootE P16.cfgQ 2 3 w1).toOption.map (·.bankrupt)) = some true := by decide +kernel
  cases h1 : opAdjust P16.wLev [] (-200) true true with
  | error e => rw [h1] at h0; cases h0
  | ok w1 =>
    rw [h1] at h0
    obtain ⟨w2, hw2, hb⟩ := P16.exists_of_toOption_map (x := P16.updRootE P16.cfgQ 2 3 w1) h0
    have hu := P16.updRootE_sound hw2
    exact ⟨w1, w2, _, _, rfl, hu, .cons (.adjust _ _ _ _ h1) (.cons (.update _ hu) (.nil _)), rfl, hb⟩

/-- **Only `root.update` writes the root's flag.**  Every public call decomposes into a trace of executions of
    `updRoot` (each on the then current world, with the total it computed) and steps that keep all flags; the
    root is flagged afterwards iff it was before or one of those `updRoot` executions computed a triggering
    total.  For the calls that read no refreshing getter see `adjust_/allocate_/transact_keeps_flags`. -/
theorem only_update_flags_root (cfg : Cfg K) (w w' : World K) (h : P08.PublicStep cfg w w') :
    ∃ us, P16.Trace cfg w us w' ∧
      (w'.bankrupt = true ↔ w.bankrupt = true ∨ ∃ u ∈ us, u.trigger cfg = true) := by
  obtain ⟨us, ht⟩ := P16.publicStep_traced h
  exact ⟨us, ht, ht.flag_iff⟩

/-- In particular a public call on a tree without pending changes that is not `update`, `flatten`, `close` or
    `rebalance` — a getter read on a fresh tree — keeps the root's flag. -/
theorem fresh_read_keeps_root_flag (cfg : Cfg K) (w w' : World K) (path : List Nat) (hs : w.stale = false)
    (h : opRead cfg w path .stratRefreshing = .ok w') : w'.bankrupt = w.bankrupt :=
  P16.bankrupt_of_skel (P16.refresh_skel_of_fresh hs h)

/-- **The unrestricted "a public call other than `update` keeps the root's flag" is false**: reading a refreshing
    getter (`value`, `price`, …) while a change is pending runs `root.update(root.now)`, which flags.  Here 200 is
    withdrawn from the root of `wLev` (`adjust`, which marks the tree stale), then `root.value` is read. -/
theorem read_can_flag_root :
    ∃ w w' : World Rat, P08.PublicStep P16.cfgQ w w' ∧ opRead P16.cfgQ w [] .stratRefreshing = .ok w' ∧
      w.bankrupt = false ∧ w'.bankrupt = true := by
  have h0 : ((opAdjust P16.wLev [] (-200) true true).toOption.bind fun w1 =>
      (P16.updRootE P16.cfgQ 1 3 w1).toOption.map fun w2 => (w1.stale, w1.root.now, w1.bankrupt, w2.bankrupt)) =
      some (true, some 1, false, true) := by decide +kernel
  cases h1 : opAdjust P16.wLev [] (-200) true true with
  | error e => rw [h1] at h0; cases h0
  | ok w1 =>
    rw [h1] at h0
    obtain ⟨w2, hw2, hb⟩ := P16.exists_of_toOption_map (x := P16.updRootE P16.cfgQ 1 3 w1) h0
    simp only [Prod.mk.injEq] at hb
    have hu := P16.updRootE_sound hw2
    have hr : opRead P16.cfgQ w1 [] .stratRefreshing = .ok w2 := by
      show refresh P16.cfgQ w1 = .ok w2
      rw [P08.refresh_of_stale hb.1 hb.2.1]; exact hu
    exact ⟨w1, w2, .read _ _ hr, hr, hb.2.2.1, hb.2.2.2⟩

/-- a trace in terms of what it says about flags (`P16.Trace.bankrupt`) -/
theorem trace_flag (cfg : Cfg K) (w w' : World K) (us : List (P16.UpdRec K)) (h : P16.Trace cfg w us w') :
    w'.bankrupt = (w.bankrupt || us.any (P16.UpdRec.trigger cfg)) ∧
    w'.root.subFlags = w.root.subFlags ∧ w'.root.fis = w.root.fis ∧ w'.root.shape = w.root.shape ∧
    ∀ u ∈ us, u.before.rootFI = w.rootFI :=
  ⟨h.bankrupt, (P16.of_subSkel h.subSkel).1, (P16.of_subSkel h.subSkel).2.1, (P16.of_subSkel h.subSkel).2.2,
   h.rootFI⟩

example (cfg : Cfg K) (u : P16.UpdRec K) :
    u.trigger cfg = (decide (u.total < 0) && !u.before.rootFI && !(isZero cfg.tol u.total)) := rfl

/-! ### (3) run level: the loop of `Backtest.run`

`P16.RunPublic cfg run`: the strategy's algos only issue public calls (`∀ d w w', run d w = .ok w' →
P08.Run cfg w w'`).  The `updRoot` executions of a backtest are then: the two explicit `update(dt)` of every
pass of the loop, the `update` calls among the algos' public calls, and the `if root.stale: root.update(root.now)`
of the getters read inside their `flatten` / `close` / `rebalance` / reads.  `P16.btLoop_traced` builds the trace
from exactly these (`P16.btDay_traced`, `P16.run_traced`, `P16.publicStep_traced`, `P16.refresh_traced`). -/

example (cfg : Cfg K) (run : RunFn K) :
    P16.RunPublic cfg run ↔ ∀ d w w', run d w = .ok w' → P08.Run cfg w w' := Iff.rfl

/-- After the loop of `Backtest.run` every sub-strategy flag is what it was before (a sub-strategy is never
    flagged, whatever its value), every `fixedIncome` and the shape likewise; a fixed-income root is never
    flagged; a flagged root stays flagged. -/
theorem btLoop_sub_flags (cfg : Cfg K) (run : RunFn K) (hrun : P16.RunPublic cfg run) (ds : List Nat)
    (w w' : World K) (h : btLoop cfg run ds w = .ok w') :
    w'.root.subFlags = w.root.subFlags ∧ w'.root.fis = w.root.fis ∧ w'.root.shape = w.root.shape ∧
    (w.rootFI = true → w'.bankrupt = w.bankrupt) ∧ (w.bankrupt = true → w'.bankrupt = true) :=
  have ht := P16.btLoop_traced hrun ds w w' h
  ⟨ht.sub.1, ht.sub.2.1, ht.sub.2.2, ht.fi, ht.mono⟩

/-- rows 1–3 on the fresh tree (after the initial `adjust(100)`; `update(0)`): the sub-strategy levers up on
    row 1, is worth −50 on row 2; the root is flagged, the sub-strategy is not -/
example : P16.RunPublic P16.cfgQ P16.runQ ∧ ∃ w1 w', btRun P16.cfgQ P16.runQ 100 [0] P16.w0 = .ok w1 ∧
    btLoop P16.cfgQ P16.runQ [1, 2, 3] w1 = .ok w' ∧ w1.root.subFlags = [false] ∧ w'.root.subFlags = [false] ∧
    w'.bankrupt = true := by
  refine ⟨P16.runQ_public, ?_⟩
  have h0 : ((P16.btRunE P16.cfgQ P16.runQ 3 100 [0] P16.w0).toOption.bind fun w1 =>
      (P16.btLoopE P16.cfgQ P16.runQ 3 [1, 2, 3] w1).toOption.map fun w' =>
        (w1.root.subFlags, w'.root.subFlags, w'.bankrupt)) = some ([false], [false], true) := by
    decide +kernel
  cases h1 : P16.btRunE P16.cfgQ P16.runQ 3 100 [0] P16.w0 with
  | error e => rw [h1] at h0; cases h0
  | ok w1 =>
    rw [h1] at h0
    obtain ⟨w', hw', hb⟩ := P16.exists_of_toOption_map (x := P16.btLoopE P16.cfgQ P16.runQ 3 [1, 2, 3] w1) h0
    simp only [Prod.mk.injEq] at hb
    exact ⟨w1, w', P16.btRunE_sound h1, P16.btLoopE_sound _ _ _ hw', hb.1, hb.2.1, hb.2.2⟩

/-- The root is flagged after the loop iff it was flagged before or one of the `updRoot` executions of the loop
    computed a triggering total (negative, not `is_zero`, root not fixed-income). -/
theorem btLoop_flag_iff (cfg : Cfg K) (run : RunFn K) (hrun : P16.RunPublic cfg run) (ds : List Nat)
    (w w' : World K) (h : btLoop cfg run ds w = .ok w') :
    ∃ us, P16.Trace cfg w us w' ∧
      (w'.bankrupt = true ↔ w.bankrupt = true ∨ ∃ u ∈ us, u.trigger cfg = true) := by
  obtain ⟨us, ht⟩ := P16.btLoop_traced hrun ds w w' h
  exact ⟨us, ht, ht.flag_iff⟩

/-- Contrapositive form: if every total computed by an `updRoot` execution of the loop is non-negative, the
    root's flag never changes ("a strategy whose value stays non-negative is never flagged"). -/
theorem btLoop_nonneg_never_flags (cfg : Cfg K) (run : RunFn K) (hrun : P16.RunPublic cfg run)
    (ds : List Nat) (w w' : World K) (h : btLoop cfg run ds w = .ok w') :
    ∃ us, P16.Trace cfg w us w' ∧ ((∀ u ∈ us, 0 ≤ u.total) → w'.bankrupt = w.bankrupt) := by
  obtain ⟨us, ht⟩ := P16.btLoop_traced hrun ds w w' h
  exact ⟨us, ht, ht.nonneg⟩

/-- row 1 alone: both updates of the day compute 100; no flag -/
example : ∃ w1 w', btRun P16.cfgQ P16.runQ 100 [0] P16.w0 = .ok w1 ∧ btLoop P16.cfgQ P16.runQ [1] w1 = .ok w' ∧
    P16.rootTotal P16.cfgQ 1 w1 = .ok 100 ∧ w'.bankrupt = false ∧ w'.root.value = 100 := by
  have h0 : ((P16.btRunE P16.cfgQ P16.runQ 3 100 [0] P16.w0).toOption.bind fun w1 =>
      (P16.btLoopE P16.cfgQ P16.runQ 3 [1] w1).toOption.map fun w' =>
        ((P16.rootTotalE P16.cfgQ 1 3 w1).toOption, w'.bankrupt, w'.root.value)) =
      some (some 100, false, 100) := by
    decide +kernel
  cases h1 : P16.btRunE P16.cfgQ P16.runQ 3 100 [0] P16.w0 with
  | error e => rw [h1] at h0; cases h0
  | ok w1 =>
    rw [h1] at h0
    obtain ⟨w', hw', hb⟩ := P16.exists_of_toOption_map (x := P16.btLoopE P16.cfgQ P16.runQ 3 [1] w1) h0
    simp only [Prod.mk.injEq] at hb
    cases h2 : P16.rootTotalE P16.cfgQ 1 3 w1 with
    | error e => rw [h2] at hb; cases hb.1
    | ok v =>
      rw [h2] at hb
      have hv : v = 100 := by simpa [Except.toOption] using hb.1
      subst hv
      exact ⟨w1, w', P16.btRunE_sound h1, P16.btLoopE_sound _ _ _ hw', P16.rootTotalE_sound h2, hb.2.1, hb.2.2⟩

/-- **Flagged on that date.**  If the total found by the first `update(d)` of a pass of the loop triggers, the
    pass ends right there (the day's `run()` is skipped) with the root flagged. -/
theorem btDay_flags_on_date (cfg : Cfg K) (run : RunFn K) (d : Nat) (w w' : World K) (v : K)
    (h : btDay cfg run d w = .ok w') (hv : P16.rootTotal cfg d w = .ok v)
    (ht : P16.trigger cfg w.rootFI v = true) : w'.bankrupt = true ∧ updRoot cfg d w = .ok w' :=
  P16.btDay_flags_on_date h hv ht

example : ∃ w', btDay P16.cfgQ P16.runQ 2 P16.wLev = .ok w' ∧ P16.rootTotal P16.cfgQ 2 P16.wLev = .ok (-50) ∧
    P16.trigger P16.cfgQ P16.wLev.rootFI (-50 : Rat) = true := by
  have h1 : (P16.btDayE P16.cfgQ P16.runQ 3 2 P16.wLev).toOption.isSome = true := by decide +kernel
  have h2 : P16.rootTotalE P16.cfgQ 2 3 P16.wLev = .ok (-50) := by decide +kernel
  cases h : P16.btDayE P16.cfgQ P16.runQ 3 2 P16.wLev with
  | error e => rw [h] at h1; cases h1
  | ok w' => exact ⟨w', P16.btDayE_sound h, P16.rootTotalE_sound h2, by decide +kernel⟩

/-! ### the same for the whole of `Backtest.run` -/

theorem btRun_sub_flags (cfg : Cfg K) (run : RunFn K) (hrun : P16.RunPublic cfg run) (capital : K)
    (dates : List Nat) (w w' : World K) (h : btRun cfg run capital dates w = .ok w') :
    w'.root.subFlags = w.root.subFlags ∧ w'.root.fis = w.root.fis ∧ w'.root.shape = w.root.shape ∧
    (w.rootFI = true → w'.bankrupt = w.bankrupt) ∧ (w.bankrupt = true → w'.bankrupt = true) :=
  have ht := P16.btRun_traced hrun h
  ⟨ht.sub.1, ht.sub.2.1, ht.sub.2.2, ht.fi, ht.mono⟩

theorem btRun_flag_iff (cfg : Cfg K) (run : RunFn K) (hrun : P16.RunPublic cfg run) (capital : K)
    (dates : List Nat) (w w' : World K) (h : btRun cfg run capital dates w = .ok w') :
    ∃ us, P16.Trace cfg w us w' ∧
      (w'.bankrupt = true ↔ w.bankrupt = true ∨ ∃ u ∈ us, u.trigger cfg = true) := by
  obtain ⟨us, ht⟩ := P16.btRun_traced hrun h
  exact ⟨us, ht, ht.flag_iff⟩

theorem btRun_nonneg_never_flags (cfg : Cfg K) (run : RunFn K) (hrun : P16.RunPublic cfg run) (capital : K)
    (dates : List Nat) (w w' : World K) (h : btRun cfg run capital dates w = .ok w') :
    ∃ us, P16.Trace cfg w us w' ∧ ((∀ u ∈ us, 0 ≤ u.total) → w'.bankrupt = w.bankrupt) := by
  obtain ⟨us, ht⟩ := P16.btRun_traced hrun h
  exact ⟨us, ht, ht.nonneg⟩

/-- the whole backtest on the fresh tree: root flagged (value −50 after liquidation), sub-strategy not;
    under a fixed-income root the same trades end at −50 unflagged -/
example : P16.RunPublic P16.cfgQ P16.runQ ∧
    (∃ w', btRun P16.cfgQ P16.runQ 100 [0, 1, 2, 3] P16.w0 = .ok w' ∧ P16.w0.bankrupt = false ∧ w'.bankrupt = true ∧
      w'.root.subFlags = [false] ∧ w'.root.value = -50) ∧
    (∃ w', btRun P16.cfgQ P16.runQ 100 [0, 1, 2, 3] P16.w0FI = .ok w' ∧ P16.w0FI.rootFI = true ∧ w'.bankrupt = false ∧
      w'.root.subFlags = [false] ∧ w'.root.value = -50) := by
  refine ⟨P16.runQ_public, ?_, ?_⟩
  · have h1 : (P16.btRunE P16.cfgQ P16.runQ 3 100 [0, 1, 2, 3] P16.w0).toOption.map
        (fun w => (w.bankrupt, w.root.subFlags, w.root.value)) = some (true, [false], -50) := by decide +kernel
    obtain ⟨w', hw', hb⟩ := P16.exists_of_toOption_map h1
    simp only [Prod.mk.injEq] at hb
    exact ⟨w', P16.btRunE_sound hw', rfl, hb.1, hb.2.1, hb.2.2⟩
  · have h1 : (P16.btRunE P16.cfgQ P16.runQ 3 100 [0, 1, 2, 3] P16.w0FI).toOption.map
        (fun w => (w.bankrupt, w.root.subFlags, w.root.value)) = some (false, [false], -50) := by decide +kernel
    obtain ⟨w', hw', hb⟩ := P16.exists_of_toOption_map h1
    simp only [Prod.mk.injEq] at hb
    exact ⟨w', P16.btRunE_sound hw', rfl, hb.1, hb.2.1, hb.2.2⟩

end Bt.C16
