/-
  Numeric interface of the model.  Model functions are written against the
  notation classes only, so the very same definitions evaluate at `Float`
  (IEEE double, what CPython computes with) and can be reasoned about at any
  linearly ordered field (Mathlib supplies the same notation instances).
-/
namespace Bt

/-- floor / ceil as functions `α → α` (math.floor / math.ceil). -/
class HasFloor (α : Type) where
  floorA : α → α
  ceilA : α → α
export HasFloor (floorA ceilA)

instance : HasFloor Float := ⟨Float.floor, Float.ceil⟩
instance : HasFloor Rat := ⟨fun q => (q.floor : Rat), fun q => (q.ceil : Rat)⟩

section
variable {α : Type} [Neg α] [Sub α] [LT α] [DecidableLT α] [OfNat α 0]

/-- `abs` as the code computes it. -/
def absA (x : α) : α := if x < 0 then -x else x

/-- `is_zero`: `abs(x) < TOL`. -/
def isZero (tol x : α) : Bool := decide (absA x < tol)
end

section
variable {α : Type} [Neg α] [Sub α] [Add α] [Mul α] [LT α] [DecidableLT α] [LE α] [DecidableLE α] [OfNat α 0]

/-- `np.isclose(a, b, rtol, atol)` for finite arguments: `|a-b| <= atol + rtol*|b|`. -/
def isClose (atol rtol a b : α) : Bool := decide (absA (a - b) ≤ atol + rtol * absA b)
end

end Bt
