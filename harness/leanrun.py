"""Talk to the Lean driver (native `btdriver`, built by setup from lean/Main.lean)."""
import os
import subprocess

HERE = os.path.dirname(os.path.abspath(__file__))
LEAN_DIR = os.path.join(os.path.dirname(HERE), "lean")
DRIVER = os.path.join(LEAN_DIR, ".lake", "build", "bin", "btdriver")


def ensure_driver():
    if not os.path.exists(DRIVER) or _stale():
        r = subprocess.run(["lake", "build", "btdriver"], cwd=LEAN_DIR, capture_output=True, text=True)
        if r.returncode != 0:
            raise RuntimeError("lake build btdriver failed:\n" + r.stdout + r.stderr)
    return DRIVER


def _stale():
    t = os.path.getmtime(DRIVER)
    for root, _, files in os.walk(LEAN_DIR):
        if ".lake" in root:
            continue
        for f in files:
            if f.endswith(".lean") and os.path.getmtime(os.path.join(root, f)) > t:
                return True
    return False


def run_lines(lines):
    """Send all request lines, return the answer lines (same length)."""
    if not lines:
        return []
    drv = ensure_driver()
    p = subprocess.run([drv], input="\n".join(lines) + "\n", capture_output=True, text=True)
    if p.returncode != 0:
        raise RuntimeError("driver failed: " + p.stderr[:2000])
    out = p.stdout.split("\n")
    if out and out[-1] == "":
        out.pop()
    if len(out) != len(lines):
        raise RuntimeError("driver answered %d lines for %d requests" % (len(out), len(lines)))
    return out
