"""`whole-run-r` protocol: complete Backtest.run() of generated programs that contain blotter-driven strategies - a strategy whose
stack is `[ReplayTransactions(frame)]` or `[SimulateRFQTransactions(frame, model)]` over children declared up front as Security
objects - flat, or nested under a parent with an ordinary `[RunPeriod, SelectAll | SelectThese, WeighEqually | WeighSpecified,
Rebalance]` stack (the sub-strategy's shadow copy then replays the blotter too - from the first real date on, like the child).  The real code is executed; from the real
post-setup trees (the backtest's own and every shadow copy's) the Lean model `Bt.Prog.simRunG` - node function `progRunR`, driver
tag `B` - runs the same program, and the final trees are compared by `whole_run.whole_run_protocol` itself (every field and every
recorded row of every node, shadow copies included, bit for bit).

Frames: rows stamped on data dates, between two data dates (executed on the next date), before the first date (after the synthetic
row: executed on the first date; before it: never executed by the backtest's own tree), duplicated (date, security) entries,
zero quantities; listed chronologically, security by security, reversed or shuffled; integer and fractional quantities; prices at,
inside and outside the day's mark; commissions; bid/offer frames with real spreads as well as the empty dict."""
import contextlib

import pandas as pd

from . import engine as E
from . import gen_runs as R
from . import whole_run as W

ORDERS = ["chronological", "by-security", "reversed", "shuffled"]
RFQ_MULT = 1.001
BLOTTER_ALGOS = ("ReplayTransactions", "SimulateRFQTransactions")


def is_blotter(spec_node):
    return spec_node["stack"][0][0] in BLOTTER_ALGOS


def gen_rows(rng, spec, tickers, early_ok):
    """rows [stamp, ticker, quantity, price] for the securities `tickers` of one blotter-driven strategy"""
    ds = [pd.Timestamp(d) for d in spec["dates"]]
    frac = rng.random() < 0.5
    rows = []
    for i, d in enumerate(ds):
        for t in tickers:
            if rng.random() >= 0.35:
                continue
            when = d
            r = rng.random()
            if i > 0 and r < 0.25:                       # between two data dates: belongs to the call that ends at d
                when = ds[i - 1] + (d - ds[i - 1]) * rng.choice([0.5, 0.25, 0.75])
            elif i == 0 and r < 0.3:                     # before the first date, after the synthetic row: executed on the first date
                when = d - pd.Timedelta(hours=rng.choice([1, 6, 12, 23]))
            elif i == 0 and r < 0.45 and early_ok:       # at or before the synthetic row: never executed by the backtest's own tree
                when = d - pd.Timedelta(days=rng.choice([1, 2, 5]))
            px = spec["prices"][t][i]
            k = rng.random()
            if k < 0.06:
                q = 0.0
            elif frac:
                q = rng.choice([1.0, -1.0, 1.0]) * round(rng.uniform(0.05, 25.0), rng.choice([1, 3, 6]))
            else:
                q = float(rng.choice([1, 2, 5, 10, -1, -3, 20, 7]))
            m = rng.choice([1.0, 1.0, 0.99, 1.02, 1.0 + rng.uniform(-0.03, 0.03)])
            rows.append([str(when), t, q, float(px * m)])
            if rng.random() < 0.05:                      # the same (date, security) entry twice
                rows.append([str(when), t, float(rng.choice([1, -2, 3])), float(px)])
    order = rng.choice(ORDERS)
    if order == "by-security":
        rows.sort(key=lambda r_: (r_[1], pd.Timestamp(r_[0])))
    elif order == "chronological":
        rows.sort(key=lambda r_: pd.Timestamp(r_[0]))
    elif order == "reversed":
        rows.sort(key=lambda r_: pd.Timestamp(r_[0]))
        rows.reverse()
    else:
        rng.shuffle(rows)
    return rows, order


def gen_spec_r(rng, nested=None):
    spec = R.gen_run_spec(rng, nested=False, T=rng.randint(5, 22))
    tick = list(spec["tickers"])
    T = len(spec["dates"])
    for j, t in enumerate(tick):
        spec["prices"][t] = [p if p is not None else 10.0 + 0.37 * i + j for i, p in enumerate(spec["prices"][t])]
    # custom-price transacts need bid/offer tracking: a frame with real spreads, or the empty dict
    if rng.random() < 0.5:
        spec["bidoffer"] = {t: ([rng.choice([0.0, 0.125, 0.25, 0.5])] * T if spec["grid"] != "float" else
                                [rng.uniform(0, 0.2) for _ in range(T)]) for t in tick}
    else:
        spec["bidoffer"] = None
    if nested is None:
        nested = rng.random() < 0.4
    spec["blotters"] = {}

    def blotter_node(name, early_ok):
        own = rng.sample(tick, rng.randint(1, len(tick)))          # declared in any order (not the data's)
        algo = rng.choice(["ReplayTransactions", "ReplayTransactions", "SimulateRFQTransactions"])
        key = "blotter_" + name
        rows, order = gen_rows(rng, spec, own, early_ok)
        spec["blotters"][key] = {"rows": rows, "order": order}
        return {"name": name, "tickers": own, "kids": [], "stack": [[algo, key]]}

    if not nested:
        spec["tree"] = blotter_node("top", True)
    else:
        # (rows stamped at or before the synthetic row are allowed in sub-strategies too: a shadow copy is not run on the synthetic
        # row - since the repair of StrategyBase.update -, so they are never executed, neither by the child nor by its copy)
        kids = [blotter_node("top_b%d" % i, True) for i in range(rng.randint(1, 2))]
        if rng.random() < 0.3:                                       # an ordinary sub-strategy next to them
            own = rng.sample(tick, rng.randint(1, len(tick)))
            kids.insert(rng.randint(0, len(kids)), {"name": "top_s", "tickers": own, "kids": [], "stack": W.gen_stack(rng, own)})
        own = rng.sample(tick, rng.randint(0, len(tick)))
        names = [k["name"] for k in kids] + own
        st = W.gen_stack(rng, names)
        if rng.random() < 0.8:
            # the parent funds every child on the first date (a sub-strategy that trades with no capital cannot compute a return:
            # ZeroDivisionError - kept in the other fifth of the programs, where model and code must raise alike)
            st[0][1] = True
            st[1] = ["SelectAll"]
            if st[2][0] == "WeighSpecified" and (set(names) - set(st[2][1]) or any(v <= 0 for v in st[2][1].values())):
                st[2] = ["WeighEqually"]
        spec["tree"] = {"name": "top", "tickers": own, "kids": kids, "stack": st}
    spec["whole"] = True
    spec["eager"] = True
    spec["kind"] = "whole-run-r"
    return spec


def blotter_frame(rows):
    idx = pd.MultiIndex.from_tuples([(pd.Timestamp(w), t) for w, t, _, _ in rows], names=["Date", "Security"]) if rows else \
        pd.MultiIndex.from_arrays([pd.DatetimeIndex([]), []], names=["Date", "Security"])
    return pd.DataFrame({"quantity": [r_[2] for r_ in rows], "price": [r_[3] for r_ in rows]}, index=idx, dtype=float)


def rfq_model(rfqs, target):       # every request is filled, a touch worse than asked
    out = rfqs.copy()
    out["price"] = out["price"] * RFQ_MULT
    return out


def build_strategy_r(bt, spec):
    def mk(t):
        kids = [mk(k) for k in t["kids"]]
        secs = [bt.Security(x) for x in t["tickers"]]
        if is_blotter(t):
            name, key = t["stack"][0]
            algo = bt.algos.ReplayTransactions(key) if name == "ReplayTransactions" else bt.algos.SimulateRFQTransactions(key, rfq_model)
            return bt.Strategy(t["name"], algos=[algo], children=secs)
        names = t["tickers"] + [k["name"] for k in t["kids"]]
        algos = [R.mk_algo(bt, d, names, spec["dates"], None, None) for d in t["stack"]]
        return bt.Strategy(t["name"], algos=algos, children=(kids + secs) or None)
    return mk(spec["tree"])


def build_backtest_r(bt, spec, spy_log=None, capital=None, strategy=None):
    data = R.frame(spec["prices"], spec["dates"])
    add = {"bidoffer": R.frame(spec["bidoffer"], spec["dates"]) if spec.get("bidoffer") else {}}
    for key, bl in spec["blotters"].items():
        add[key] = blotter_frame(bl["rows"])
    s = build_strategy_r(bt, spec)
    kw = {}
    if spec["comm"][0] != 0:
        kw["commissions"] = E.make_comm(*spec["comm"])
    b = bt.Backtest(s, data, initial_capital=spec["capital"] if capital is None else capital, integer_positions=spec["integer"],
                    additional_data=add, progress_bar=False, **kw)
    return b, data, add


def ser_blotter_node(bt, node, spec_node):
    """`B <mult> <timeline> <rows>` + the children (all securities)"""
    kids = list(node._childrenv)
    name_idx = {k.name: i for i, k in enumerate(kids)}
    name, key = spec_node["stack"][0]
    frame = node.get_data(key)
    tl = [int(pd.Timestamp(x).value) for x in node.data.index]
    rows = []
    for (when, sec), q, px in zip(frame.index, frame["quantity"].values, frame["price"].values):
        rows.append("%d %d %s %s" % (int(pd.Timestamp(when).value), name_idx[sec], E.tF(float(q)), E.tF(float(px))))
    toks = ["B", "N" if name == "ReplayTransactions" else E.tF(RFQ_MULT), E.tL(tl, str), "%d %s" % (len(rows), " ".join(rows)),
            str(len(kids))]
    for k in kids:
        if isinstance(k, bt.core.StrategyBase):
            raise ValueError("a blotter-driven strategy over sub-strategies is not modelled")
        toks.append("N")
    return " ".join(toks)


@contextlib.contextmanager
def blotter_programs(bt):
    """inside: `whole_run.whole_run_protocol(extended=True)` builds programs with `build_backtest_r` and serialises blotter-driven
    nodes as `B` nodes (every other node, and the recursion over the tree, stay whole_run's own)"""
    orig_ser, orig_R = W.ser_progx, W.R

    def ser(bt_, node, spec_node, bdates, first_row=1):
        if is_blotter(spec_node):
            return ser_blotter_node(bt_, node, spec_node)
        return orig_ser(bt_, node, spec_node, bdates, first_row)

    class _R:
        def __getattr__(self, k):
            return getattr(orig_R, k)
    shim = _R()
    shim.build_backtest = build_backtest_r
    W.ser_progx, W.R = ser, shim
    try:
        yield
    finally:
        W.ser_progx, W.R = orig_ser, orig_R


def blotter_whole_run_protocol(ctx, bt, n, corr_name="whole-run-r", footprint_fields=None):
    def make(rng):
        spec = gen_spec_r(rng)

        def walk(t, depth):
            if is_blotter(t):
                bl = spec["blotters"][t["stack"][0][1]]
                ctx.count(corr_name + ":blotter-strategies")
                ctx.count(corr_name + ":algo:" + t["stack"][0][0])
                ctx.count(corr_name + ":rows-order:" + bl["order"])
                ctx.count(corr_name + ":rows", len(bl["rows"]))
                ctx.count(corr_name + ":rows-between-data-dates", sum(1 for r_ in bl["rows"] if r_[0] not in
                                                                        {str(pd.Timestamp(d)) for d in spec["dates"]}))
                ctx.count(corr_name + ":" + ("nested-under-ordinary-parent" if depth else "flat"))
                ctx.count(corr_name + ":quantities:" + ("fractional" if any(r_[2] != int(r_[2]) for r_ in bl["rows"]) else "integer"))
            for k in t["kids"]:
                walk(k, depth + 1)
        walk(spec["tree"], 0)
        ctx.count(corr_name + ":bidoffer:" + ("frame" if spec["bidoffer"] else "empty-dict"))
        ctx.count(corr_name + ":commissions:" + ("yes" if spec["comm"][0] != 0 else "no"))
        return spec
    nfl0, nbit0 = ctx.cov.get(corr_name + ":floats-compared", 0), ctx.cov.get(corr_name + ":floats-bit-identical", 0)
    with blotter_programs(bt):
        done, nd = W.whole_run_protocol(ctx, bt, n, corr_name, make_spec=make, footprint_fields=footprint_fields, extended=True)
    if n > 0 and done == 0:
        ctx.disagreement("corr:%s:nothing-compared" % corr_name, {"kind": "no program reached the comparison"}, {})
    nfl, nbit = ctx.cov.get(corr_name + ":floats-compared", 0) - nfl0, ctx.cov.get(corr_name + ":floats-bit-identical", 0) - nbit0
    if nd == 0 and nfl != nbit and footprint_fields is None:
        # whole_run_protocol reports a float that differs beyond rounding; here the claim is bit-identity (executing the rows of a
        # call in another order, for instance, moves last bits only)
        ctx.disagreement("corr:%s:not-bit-identical" % corr_name, {"kind": "floats differ in their last bits", "compared": nfl, "identical": nbit}, {})
    return done, nd
