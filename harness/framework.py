"""Check runner (DESIGN 5): Lean gate -> real code + model correspondence + monitors -> decision,
known findings, evidence file, exit code."""
import argparse
import hashlib
import importlib
import json
import os
import random
import re
import subprocess
import sys
import time
import traceback

HERE = os.path.dirname(os.path.abspath(__file__))
VERIF = os.path.dirname(HERE)
LEAN_DIR = os.path.join(VERIF, "lean")
FORBIDDEN = re.compile(r"\b(sorry|admit|native_decide|bv_decide|implemented_by|unsafe)\b|^\s*axiom\s|maxHeartbeats\s+0\b")
STD_AXIOMS = {"propext", "Classical.choice", "Quot.sound"}

TRUSTED_BASE = [
    "Lean 4.33 kernel; axioms of every audited theorem are a subset of {propext, Classical.choice, Quot.sound}",
    "hand-written Lean model is tied to /repo only through the correspondence run of this check (generated inputs)",
    "theorems are about exact arithmetic in a linearly ordered field; the code computes in IEEE doubles",
    "pandas label lookup modelled as row-index arithmetic; deepcopy as value copy; dict order as list order",
    "harness/*.py (snapshot of private attributes, serialisation, comparison, monitors)",
]


class Ctx:
    def __init__(self, pid, tier, seed):
        self.pid = pid
        self.tier = tier
        self.seed = seed
        self.rng = random.Random((seed * 1000003) ^ int(hashlib.sha256(pid.encode()).hexdigest()[:8], 16))
        self.t0 = time.time()
        self.evaluations = 0
        self.classes = set()
        self.samples = []
        self.violations = []      # monitor failures on the real code: {key, what, replay}
        self.disagreements = []   # model/impl disagreements: {corr, detail, replay}
        self.cov = {}             # free-form coverage counters
        self.protocols = []       # correspondence protocols executed: (name, n_compared, n_disagree)
        self.notes = []

    def scale(self, quick, thorough):
        return thorough if self.tier == "thorough" else quick

    def count(self, key, n=1):
        self.cov[key] = self.cov.get(key, 0) + n

    def sample(self, s, cap=3):
        if len(self.samples) < cap:
            self.samples.append(s)

    def violation(self, key, what, replay_data):
        self.violations.append({"key": key, "what": what, "replay_data": replay_data})

    def disagreement(self, corr, detail, replay_data):
        self.disagreements.append({"corr": corr, "detail": detail, "replay_data": replay_data})

    def elapsed(self):
        return time.time() - self.t0


# ------------------------------------------------------------------ Lean gate
def lean_sources():
    out = []
    for root, _, files in os.walk(LEAN_DIR):
        if ".lake" in root:
            continue
        for f in sorted(files):
            if f.endswith(".lean"):
                out.append(os.path.join(root, f))
    return sorted(out)


def strip_comments(text):
    text = re.sub(r"/-.*?-/", "", text, flags=re.S)
    return "\n".join(l.split("--")[0] for l in text.split("\n"))


def theorem_names(path):
    txt = strip_comments(open(path).read())
    ns = []
    names = []
    for line in txt.split("\n"):
        m = re.match(r"\s*namespace\s+(\S+)", line)
        if m:
            ns.append(m.group(1))
            continue
        m = re.match(r"\s*end\s+(\S+)", line)
        if m and ns and ns[-1] == m.group(1):
            ns.pop()
            continue
        m = re.match(r"\s*(?:private\s+|protected\s+)?theorem\s+(\S+)", line)
        if m:
            names.append(".".join(ns + [m.group(1)]))
    return names


def lean_recheck(pid):
    """thorough tier: the compiled theorem modules of the property are re-checked by `leanchecker`, the toolchain's independent
    re-checker of .olean files (replays every declaration through the kernel).  Returns a list of errors."""
    frag_dir = os.path.join(LEAN_DIR, "Bt", "Props")
    frags = sorted(f[:-5] for f in os.listdir(frag_dir) if f.startswith(pid + "_") and f.endswith(".lean"))
    modules = ["Bt.Props." + pid] + ["Bt.Props." + f for f in frags]
    try:
        r = subprocess.run(["lake", "env", "leanchecker"] + modules, cwd=LEAN_DIR, capture_output=True, text=True, timeout=1800)
    except Exception as e:  # noqa
        return ["leanchecker did not finish: %r" % e]
    if r.returncode != 0:
        return ["leanchecker rejected %s: %s" % (" ".join(modules), (r.stdout + r.stderr)[-800:])]
    return []


def lean_gate(pid):
    """returns (obligations:[{name, ok, axioms}], errors:[str])"""
    errors = []
    props_file = os.path.join(LEAN_DIR, "Bt", "Props", pid + ".lean")
    if not os.path.exists(props_file):
        return [], ["no theorem file Bt/Props/%s.lean" % pid]
    srcs = lean_sources()
    h = hashlib.sha256()
    for s in srcs:
        h.update(s.encode())
        h.update(open(s, "rb").read())
    digest = h.hexdigest()
    cache_file = os.path.join(LEAN_DIR, ".lake", "audit_%s.json" % pid)
    if os.path.exists(cache_file):
        try:
            c = json.load(open(cache_file))
            if c.get("digest") == digest:
                return c["obligations"], c["errors"]
        except Exception:
            pass
    for s in srcs:
        for i, line in enumerate(strip_comments(open(s).read()).split("\n")):
            if FORBIDDEN.search(line):
                errors.append("forbidden token in %s:%d: %s" % (os.path.relpath(s, LEAN_DIR), i + 1, line.strip()[:80]))
    # the property's theorems: Props/Cxx.lean plus optional fragments Props/Cxx_*.lean (each built and audited)
    frag_dir = os.path.join(LEAN_DIR, "Bt", "Props")
    frags = sorted(f[:-5] for f in os.listdir(frag_dir) if f.startswith(pid + "_") and f.endswith(".lean"))
    modules = ["Bt.Props." + pid] + ["Bt.Props." + f for f in frags]
    r = subprocess.run(["lake", "build"] + modules, cwd=LEAN_DIR, capture_output=True, text=True)
    if r.returncode != 0:
        errors.append("lake build %s failed: %s" % (" ".join(modules), (r.stdout + r.stderr)[-1500:]))
        return [], errors
    names = theorem_names(props_file)
    for f in frags:
        names += theorem_names(os.path.join(frag_dir, f + ".lean"))
    names = list(dict.fromkeys(names))
    audit = os.path.join(LEAN_DIR, ".lake", "Audit_%s.lean" % pid)
    with open(audit, "w") as f:
        for m in modules:
            f.write("import %s\n" % m)
        for n in names:
            f.write("#print axioms %s\n" % n)
    r = subprocess.run(["lake", "env", "lean", audit], cwd=LEAN_DIR, capture_output=True, text=True)
    out = r.stdout + r.stderr
    obligations = []
    for n in names:
        m = re.search(r"'%s' depends on axioms: \[(.*?)\]" % re.escape(n), out, flags=re.S)
        if m:
            ax = [a.strip() for a in m.group(1).replace("\n", " ").split(",") if a.strip()]
        elif re.search(r"'%s' does not depend on any axioms" % re.escape(n), out):
            ax = []
        else:
            ax = None
        ok = ax is not None and set(ax) <= STD_AXIOMS
        obligations.append({"name": n, "ok": ok, "axioms": ax})
        if not ok:
            errors.append("theorem %s: axioms %s" % (n, ax))
    try:
        json.dump({"digest": digest, "obligations": obligations, "errors": errors}, open(cache_file, "w"))
    except Exception:
        pass
    return obligations, errors


# ------------------------------------------------------------------ known findings
def load_known():
    p = os.path.join(VERIF, "known_findings.json")
    if not os.path.exists(p):
        return []
    return json.load(open(p))


def write_replay(pid, seed, n, data):
    d = os.path.join(VERIF, "replays")
    os.makedirs(d, exist_ok=True)
    p = os.path.join(d, "%s_seed%d_%d.json" % (pid, seed, n))
    with open(p, "w") as f:
        json.dump(data, f, indent=1, default=str)
    return os.path.relpath(p, VERIF)


def write_evidence(ctx, level_text, obligations, n_viol, extra_assumptions):
    n_ob = len(obligations) + len(ctx.protocols)
    n_ok = sum(1 for o in obligations if o["ok"]) + sum(1 for p in ctx.protocols if p[2] == 0)
    ev = {
        "property_id": ctx.pid, "tier": ctx.tier, "seed": ctx.seed, "level": "proof",
        "coverage": {
            "obligations": max(n_ob, 1), "discharged": max(n_ok, 1) if n_ob else 1,
            "checker_cmd": "cd lean && lake build Bt.Props.%s && lake env lean .lake/Audit_%s.lean  (#print axioms of every theorem); correspondence: ./check %s --tier %s" % (ctx.pid, ctx.pid, ctx.pid, ctx.tier),
            "trusted_base": TRUSTED_BASE,
            "theorems": [{"name": o["name"], "axioms": o["axioms"], "ok": o["ok"]} for o in obligations],
            "correspondence_protocols": [{"name": p[0], "compared": p[1], "disagreements": p[2]} for p in ctx.protocols],
            "evaluations": max(ctx.evaluations, 1),
            "distinct_nontrivial": len(ctx.classes),
            "rule": level_text,
            "samples": ctx.samples or ["(no sample recorded)"],
            "counters": ctx.cov,
            "notes": ctx.notes,
        },
        "assumptions": TRUSTED_BASE + list(extra_assumptions),
        "wall_s": round(ctx.elapsed(), 2),
        "violations": n_viol,
    }
    if n_ob == 0:
        ev["coverage"]["obligations"] = 1
        ev["coverage"]["discharged"] = 0
    evdir = os.environ.get("VERIF_EVIDENCE_DIR") or os.path.join(VERIF, "evidence")   # (the override is for dry runs against seeded changes)
    os.makedirs(evdir, exist_ok=True)
    with open(os.path.join(evdir, ctx.pid + ".json"), "w") as f:
        json.dump(ev, f, indent=1, default=str)


def main(argv=None):
    ap = argparse.ArgumentParser()
    ap.add_argument("pid")
    ap.add_argument("--tier", default=os.environ.get("VERIF_TIER", "quick"))
    a = ap.parse_args(argv)
    tier = a.tier if a.tier in ("quick", "thorough") else "quick"
    seed = int(os.environ.get("VERIF_SEED", "0") or 0)
    pid = a.pid
    ctx = Ctx(pid, tier, seed)
    try:
        mod = importlib.import_module("harness.props." + pid)
    except ImportError:
        print("no check module for", pid)
        return 2

    obligations, lean_errors = lean_gate(pid)
    if tier == "thorough" and not lean_errors and not os.environ.get("VERIF_DEV_SKIP_LEAN"):
        rc_errs = lean_recheck(pid)
        lean_errors = lean_errors + rc_errs
        ctx.notes.append("leanchecker re-check of the property's theorem modules: " + ("ok" if not rc_errs else "FAILED"))
    if lean_errors and not os.environ.get("VERIF_DEV_SKIP_LEAN"):
        for e in lean_errors:
            print("LEAN-GATE:", e)
        # the Lean side does not depend on /repo: a failure here is an infrastructure error
        write_evidence(ctx, "lean gate failed", obligations, 0, [])
        return 2

    from . import loader
    n_out = 0
    exit_code = 0
    printed = []
    try:
        bt = loader.load_bt()
    except Exception as e:
        # the working tree does not import: no property is shown to hold
        path = write_replay(pid, seed, 0, {"kind": "import-failure", "error": traceback.format_exc()[-3000:]})
        print("VIOLATION property=%s replay=%s no-failing-input-found" % (pid, path))
        write_evidence(ctx, "bt failed to import", obligations, 1, [])
        return 1
    try:
        mod.run(ctx, bt)
        if ctx.disagreements and not ctx.violations and hasattr(mod, "search"):
            ctx.notes.append("correspondence broke: failing-input search started")
            mod.search(ctx, bt)
    except Exception:
        print("CHECK-ERROR:", traceback.format_exc()[-3000:])
        write_evidence(ctx, "check crashed", obligations, 0, [])
        return 2

    known = [k for k in load_known() if k.get("property") == pid and k.get("status") == "finding"]
    seen_known = {}
    new_viol = []
    for v in ctx.violations:
        k = next((k for k in known if k["key"] == v["key"]), None)
        if k is not None:
            seen_known.setdefault(k["key"], (k, v))
        else:
            new_viol.append(v)
    for key, (k, v) in seen_known.items():
        print("KNOWN-FINDING: property=%s %s [%s]" % (pid, k.get("what", v["what"])[:150], key))
    reported = set()
    for v in new_viol:
        if v["key"] in reported:
            continue
        reported.add(v["key"])
        n_out += 1
        path = write_replay(pid, seed, n_out, {"kind": "monitor", "property": pid, "key": v["key"], "what": v["what"],
                                              "seed": seed, "tier": tier, "case": v["replay_data"]})
        print("VIOLATION property=%s replay=%s" % (pid, path))
        print("  " + v["what"][:400])
        exit_code = 1
    if not new_viol and ctx.disagreements:
        d = ctx.disagreements[0]
        n_out += 1
        path = write_replay(pid, seed, n_out, {"kind": "correspondence", "property": pid, "no_longer_checks": d["corr"],
                                              "detail": d["detail"], "n_disagreements": len(ctx.disagreements),
                                              "seed": seed, "tier": tier, "case": d["replay_data"]})
        print("VIOLATION property=%s replay=%s no-failing-input-found" % (pid, path))
        print("  correspondence %s no longer checks: %s" % (d["corr"], json.dumps(d["detail"], default=str)[:400]))
        exit_code = 1
    rule = getattr(mod, "RULE", "")
    write_evidence(ctx, rule, obligations, len(new_viol) + (1 if (not new_viol and ctx.disagreements) else 0),
                   getattr(mod, "ASSUMPTIONS", []))
    print("%s %s seed=%d: %d evaluations, %d classes, %d theorems, protocols=%s, %.1fs -> exit %d" % (
        pid, tier, seed, ctx.evaluations, len(ctx.classes), len(obligations),
        [(p[0], p[1], p[2]) for p in ctx.protocols], ctx.elapsed(), exit_code))
    return exit_code


if __name__ == "__main__":
    sys.exit(main())
