"""Re-execute a replay file against the current working tree of /repo:  python3 harness/replay.py <file>"""
import importlib
import json
import os
import sys

sys.path.insert(0, os.path.dirname(os.path.dirname(os.path.abspath(__file__))))
from harness import loader  # noqa
from harness.framework import Ctx  # noqa


def main():
    data = json.load(open(sys.argv[1]))
    pid = data["property"]
    mod = importlib.import_module("harness.props." + pid)
    bt = loader.load_bt()
    ctx = Ctx(pid, data.get("tier", "quick"), data.get("seed", 0))
    print("replaying %s (%s): %s" % (sys.argv[1], data.get("kind"), data.get("key") or data.get("no_longer_checks")))
    mod.replay(bt, data, ctx)
    for v in ctx.violations:
        print("REPRODUCED violation %s: %s" % (v["key"], v["what"][:500]))
    for d in ctx.disagreements:
        print("REPRODUCED disagreement %s: %s" % (d["corr"], json.dumps(d["detail"], default=str)[:500]))
    if not ctx.violations and not ctx.disagreements:
        print("NOT REPRODUCED on the current tree")
    return 1 if (ctx.violations or ctx.disagreements) else 0


if __name__ == "__main__":
    sys.exit(main())
