"""C15 case kinds: for each weighting algo a generator (JSON-able case), an executor that calls the REAL algo on a real
Strategy, the Lean `weigh` requests with their comparison callbacks, and an independently written monitor."""
import math
import random as pyrandom

import numpy as np
import pandas as pd

from .weigh_lib import (NAMES, Rd, as_temp, clean, close, fin, frame_of, gen_holdings, gen_universe, gen_weights,  # noqa
                        holdable, items_of, make_strategy, same_dict, size_class, tDict, tOptDict, tSel, tTable, tF, tL, tO, tB)

KINDS = []
GEN = {}
EXEC = {}


def kind(name, weight=1):
    def deco(pair):
        gen, ex = pair()
        for _ in range(weight):
            KINDS.append(name)
        GEN[name] = gen
        EXEC[name] = ex
        return pair
    return deco


def gen_selection(rng, u, allow_dups=False):
    cols = list(u["cols"])
    r = rng.random()
    if r < 0.1:
        sel = []
    elif r < 0.2:
        sel = [rng.choice(cols)]
    elif r < 0.45:
        sel = cols[:]
    else:
        k = rng.randint(min(2, len(cols)), len(cols))
        sel = rng.sample(cols, k)
    rng.shuffle(sel)
    if allow_dups and sel and rng.random() < 0.5:
        sel = sel + [rng.choice(sel)]
    return sel


def expect(c, line, fn):
    c.requests.append((line, fn))


def viol(c, key, msg):
    c.violations.append(("C15/" + key, msg))


def tol(*xs):
    return 1e-9 * max([1.0] + [abs(x) for x in xs if x is not None and x == x and not math.isinf(x)])


# ================================================================== WeighEqually
@kind("equal")
def _equal():
    def gen(rng):
        u = gen_universe(rng, max_dates=6)
        ill = rng.random() < 0.08
        return {"u": u, "now": rng.randrange(len(u["days"])), "sel": gen_selection(rng, u, allow_dups=ill), "ill": ill,
                "prior": rng.random() < 0.3}

    def ex(bt, c):
        d = c.case
        s, _ = make_strategy(bt, d["u"], d["now"])
        sel = list(d["sel"])
        s.temp["selected"] = sel
        if d["prior"]:
            s.temp["weights"] = {"zz": 9.0}
        ret = bt.algos.WeighEqually()(s)
        real = items_of(s.temp["weights"])
        n = len(sel)
        dup = len(set(sel)) != n
        c.cls = (size_class(n), "dup" if dup else "distinct")
        c.tags.append("n=" + size_class(n))
        # monitor: equal weights summing to one
        if ret is not True:
            viol(c, "equal-return", "WeighEqually returned %r" % (ret,))
        if dup:
            c.tags.append("ill-formed:duplicate-selection")
        else:
            if [k for k, _ in real] != sel:
                viol(c, "equal-keys", "selected %r got keys %r" % (sel, [k for k, _ in real]))
            if n:
                tot = sum(v for _, v in real if v is not None)
                if any(v is None or abs(v - 1.0 / n) > tol() for _, v in real) or abs(tot - 1.0) > tol():
                    viol(c, "equal-weights", "selected %r weights %r (sum %r)" % (sel, real, tot))
        names = sorted(set(sel))
        expect(c, "equal " + tSel(names, sel), lambda a: None if same_dict(Rd(a[3:]).dict(names), real) else {"model": a, "real": real})
    return gen, ex


# ================================================================== WeighSpecified
@kind("specified")
def _specified():
    def gen(rng):
        u = gen_universe(rng, max_dates=5)
        keys = [k for k in NAMES[:rng.randint(0, 5)]]
        return {"u": u, "now": rng.randrange(len(u["days"])), "w": gen_weights(rng, keys), "poke": rng.choice(["set", "del", "ldelta", "none"])}

    def ex(bt, c):
        d = c.case
        s, _ = make_strategy(bt, d["u"], d["now"])
        spec = [(k, float(v)) for k, v in d["w"]]
        algo = bt.algos.WeighSpecified(**{k: v for k, v in spec})
        r1 = algo(s)
        first = items_of(s.temp["weights"])
        # what a downstream algo may do to temp['weights'] (LimitDeltas writes in place)
        tw = s.temp["weights"]
        if d["poke"] == "set" and spec:
            tw[spec[0][0]] = 123.0
            tw["zz"] = 1.0
        elif d["poke"] == "del" and spec:
            del tw[spec[0][0]]
        elif d["poke"] == "ldelta":
            bt.algos.LimitDeltas(0.0)(s)
        s.temp = {}
        r2 = algo(s)
        second = items_of(s.temp["weights"])
        c.cls = (size_class(len(spec)), d["poke"])
        c.tags.append("poke=" + d["poke"])
        if r1 is not True or r2 is not True:
            viol(c, "specified-return", "returned %r %r" % (r1, r2))
        if not same_dict(first, spec):
            viol(c, "specified-weights", "specified %r got %r" % (spec, first))
        if not same_dict(second, spec):
            viol(c, "specified-copy", "specified %r; after temp['weights'] was modified (%s) the next call gave %r" % (spec, d["poke"], second))
        names = sorted({k for k, _ in spec})

        def cmp(a):
            r = Rd(a[3:])
            m1 = r.dict(names)
            m2 = r.dict(names)
            return None if same_dict(m1, first) and same_dict(m2, second) else {"model": [m1, m2], "real": [first, second]}
        expect(c, "specified " + tDict(names, spec), cmp)
    return gen, ex


# ================================================================== ScaleWeights
@kind("scale")
def _scale():
    def gen(rng):
        u = gen_universe(rng, max_dates=5)
        keys = NAMES[:rng.randint(0, 6)]
        rng.shuffle(keys)
        return {"u": u, "now": rng.randrange(len(u["days"])), "w": gen_weights(rng, keys), "series": rng.random() < 0.4,
                "scale": rng.choice([0.0, 1.0, -1.0, 0.5, 2.0, rng.uniform(-3, 3), rng.randint(-16, 16) / 8.0])}

    def ex(bt, c):
        d = c.case
        s, _ = make_strategy(bt, d["u"], d["now"])
        w = [(k, float(v)) for k, v in d["w"]]
        sc = float(d["scale"])
        s.temp["weights"] = as_temp(d["series"], w)
        ret = bt.algos.ScaleWeights(sc)(s)
        real = items_of(s.temp["weights"])
        c.cls = (size_class(len(w)), "neg" if sc < 0 else "zero" if sc == 0 else "pos", "series" if d["series"] else "dict")
        c.tags.append("scale:" + c.cls[1])
        if ret is not True:
            viol(c, "scale-return", "returned %r" % (ret,))
        want = [(k, sc * v) for k, v in w]
        if not same_dict(real, want):
            viol(c, "scale-linear", "scale %r of %r gave %r" % (sc, w, real))
        names = sorted({k for k, _ in w})
        expect(c, "scale " + tF(sc) + " " + tDict(names, w),
               lambda a: None if same_dict(Rd(a[3:]).dict(names), real) else {"model": a, "real": real})
    return gen, ex


# ================================================================== WeighTarget
@kind("target")
def _target():
    def gen(rng):
        u = gen_universe(rng, max_dates=10)
        n = len(u["days"])
        now = rng.randrange(n)
        mode = rng.choice(["same-index", "subset", "subset", "shifted"])
        if mode == "same-index":
            idx = list(range(n))
        elif mode == "subset":
            idx = sorted(rng.sample(range(n), rng.randint(1, n)))
        else:
            idx = None
        cols = list(u["cols"]) + (["x1"] if rng.random() < 0.2 else [])
        rng.shuffle(cols)
        cols = cols[:rng.randint(1, len(cols))]
        if idx is None:
            days = sorted({u["days"][i] + rng.choice([-1, 1, 2]) for i in range(n)} - set(u["days"])) or [u["days"][0] - 1]
        else:
            days = [u["days"][i] for i in idx]
        rows = []
        for _ in days:
            ws = gen_weights(rng, cols)
            rows.append([None if rng.random() < 0.2 else v for _, v in ws])
        return {"u": u, "now": now, "cols": cols, "days": days, "rows": rows, "byname": rng.random() < 0.5, "prior": rng.random() < 0.3,
                "earlier_setup": rng.random() < 0.4}

    def ex(bt, c):
        d = c.case
        epoch = pd.Timestamp("2000-01-01")
        frame = pd.DataFrame([[np.nan if v is None else v for v in r] for r in d["rows"]],
                             index=pd.DatetimeIndex([epoch + pd.Timedelta(days=x) for x in d["days"]]), columns=d["cols"], dtype=float)
        extra = {"tw": frame} if d["byname"] else None
        s, data = make_strategy(bt, d["u"], d["now"], extra=extra)
        prior = {"zz": 9.0}
        if d["prior"]:
            s.temp["weights"] = prior
        algo = bt.algos.WeighTarget("tw" if d["byname"] else frame)
        if d["byname"] and d.get("earlier_setup"):
            # the same algo instance was used before, on a strategy set up with ANOTHER frame under the same name (a first
            # walk-forward pass, a probe): a named frame is looked up in the setup of the strategy at hand
            other = (frame * 0.5).shift(1, fill_value=0.25) if len(frame) else frame
            s0, _ = make_strategy(bt, d["u"], d["now"], extra={"tw": other})
            try:
                algo(s0)
            except Exception:
                pass
            c.tags.append("named-frame:instance-used-before-under-another-setup")
        ret = algo(s)
        today = d["u"]["days"][d["now"]]
        present = today in d["days"]
        if ret is True:
            real = items_of(s.temp["weights"])
        else:
            real = None
        c.cls = ("present" if present else "absent", "byname" if d["byname"] else "frame", size_class(len(d["cols"])))
        c.tags.append("date-" + c.cls[0])
        # monitor: the dated target weights (missing dropped) or nothing
        if present:
            row = d["rows"][d["days"].index(today)]
            want = [(k, v) for k, v in zip(d["cols"], row) if v is not None]
            if ret is not True or not same_dict(real, want):
                viol(c, "target-row", "frame row %r at %s: returned %r weights %r" % (want, today, ret, real))
        else:
            left = s.temp.get("weights")
            if ret is not False or (left is not None and not (d["prior"] and left is prior)):
                viol(c, "target-absent", "date not in frame: returned %r temp weights %r" % (ret, left))
        names = sorted(set(d["cols"]))

        def cmp(a):
            r = Rd(a[3:])
            flag = r.nat()
            m = r.dict(names) if flag else None
            ok = (m is None and real is None) or (m is not None and real is not None and same_dict(m, real))
            return None if ok else {"model": m, "real": real}
        expect(c, "target " + tTable(names, d["cols"], d["days"], d["rows"]) + " " + str(today), cmp)
    return gen, ex


# ================================================================== LimitDeltas
def monitor_ldelta(c, limit, cur, before, after):
    """limit: float or dict; cur/before/after: dict name -> float.  per-period change no larger than the limit."""
    allk = list(dict.fromkeys(list(before) + list(cur) + list(after)))
    for k in allk:
        cu = cur.get(k, 0.0)
        tg = before.get(k, 0.0)
        lim = limit if not isinstance(limit, dict) else limit.get(k)
        new = after.get(k, 0.0)
        if after.get(k) is None and k in after:
            viol(c, "limitDeltas-nan", "%s became non-finite" % k)
            continue
        if lim is None:
            if (k in after) != (k in before) or not close(new, tg):
                viol(c, "limitDeltas-untouched:key-without-limit", "%s has no limit: target %r -> %r" % (k, before.get(k), after.get(k)))
            continue
        if lim < 0:
            continue  # ill-formed limit
        if abs(new - cu) > lim + tol(new, cu):
            where = "held-not-targeted" if k not in before else "targeted-not-held" if k not in cur else "held-and-targeted"
            viol(c, "limitDeltas-bound:" + where, "%s: current %r target %r limit %r -> new target %r (|change| %r)" % (k, cu, before.get(k), lim, after.get(k), abs(new - cu)))
        if abs(tg - cu) <= lim - tol(tg, cu):
            if (k in after) != (k in before) or not close(new, tg):
                viol(c, "limitDeltas-untouched:within-limit", "%s: current %r target %r within limit %r but became %r" % (k, cu, before.get(k), lim, after.get(k)))
        elif abs(tg - cu) > lim + tol(tg, cu):
            want = cu + lim * (1.0 if tg > cu else -1.0)
            if not close(new, want):
                viol(c, "limitDeltas-clip", "%s: current %r target %r limit %r should become %r, got %r" % (k, cu, tg, lim, want, after.get(k)))


def ldelta_request(c, limit, cur, before, after_items, names):
    if isinstance(limit, dict):
        head = "ldelta 1 " + tF(0.0) + " " + tDict(names, list(limit.items()))
    else:
        head = "ldelta 0 " + tF(limit) + " 0"
    line = head + " " + tDict(names, cur) + " " + tDict(names, before)

    def cmp(a):
        m = Rd(a[3:]).dict(names)
        return None if same_dict(m, after_items, ordered=False) else {"model": m, "real": after_items, "cur": cur, "before": before, "limit": limit}
    expect(c, line, cmp)


def gen_limit(rng, keys):
    if rng.random() < 0.3 and keys:
        sub = [k for k in keys if rng.random() < 0.6]
        return {k: rng.choice([0.0, 0.05, 0.1, 0.25, rng.random() * 0.5]) for k in sub}
    return rng.choice([0.0, 0.05, 0.1, 0.1, 0.25, 0.5, 1.0, 5.0, rng.random() * 0.4, rng.randint(0, 16) / 32.0])


@kind("ldelta", 2)
def _ldelta():
    def gen(rng):
        u = gen_universe(rng, min_dates=3, max_dates=12, min_cols=2)
        n = len(u["days"])
        if rng.random() < 0.3:
            # whole run: WeighTarget frame with names dropping out -> LimitDeltas -> Rebalance
            full = [c_ for j, c_ in enumerate(u["cols"]) if all(r[j] is not None for r in u["rows"])]
            rows = []
            for _ in range(n):
                ws = gen_weights(rng, full, rng.choice(["simplex", "simplex-dyadic", "zeros"])) if full else []
                rows.append([None if rng.random() < 0.25 else v for _, v in ws])
            return {"mode": "backtest", "u": u, "cols": full, "rows": rows, "limit": gen_limit(rng, full), "integer": rng.random() < 0.3,
                    "flow": rng.choice([0.0, 0.0, 250000.0, 1e6, -300000.0])}
        now = rng.randrange(n)
        hold = gen_holdings(rng, u, now)
        keys = [k for k in u["cols"] if rng.random() < 0.7]
        if rng.random() < 0.15:
            keys = []
        rng.shuffle(keys)
        allk = list(dict.fromkeys(keys + ([h[0] for h in hold[1]] if hold else [])))
        return {"mode": "direct", "u": u, "now": now, "hold": hold, "tw": gen_weights(rng, keys), "series": rng.random() < 0.3,
                "limit": gen_limit(rng, allk), "flow": rng.choice([0.0, 0.0, 0.0, 0.5, 1.0, 3.0, -0.25])}

    def ex(bt, c):
        d = c.case
        limit = d["limit"]
        limit = {k: float(v) for k, v in limit.items()} if isinstance(limit, dict) else float(limit)
        names = sorted(set(d["u"]["cols"]))
        if d["mode"] == "direct":
            s, _ = make_strategy(bt, d["u"], d["now"], holdings=d["hold"])
            before = [(k, float(v)) for k, v in d["tw"]]
            s.temp["weights"] = as_temp(d["series"], before)
            if d.get("flow"):
                # a contribution / withdrawal booked earlier in the same stack (what CapitalFlow does): the tree is stale when LimitDeltas
                # runs and nobody has read a weight since; the weights it limits against are those the strategy holds NOW
                try:
                    v0 = float(s.value)
                    s.adjust(d["flow"] * v0)
                    c.tags.append("ldelta:flow-before-call")
                except Exception:
                    pass
            ret = bt.algos.LimitDeltas(limit)(s)
            after = items_of(s.temp["weights"])
            cur = [(k, float(ch.weight)) for k, ch in s.children.items()]      # read AFTER the call (a read refreshes the tree)
            if ret is not True:
                viol(c, "limitDeltas-return", "returned %r" % (ret,))
            steps = [(cur, before, after)]
        else:
            log = []

            class Rec(bt.Algo):
                def __init__(self, tag):
                    super(Rec, self).__init__()
                    self.tag = tag

                def __call__(self, target):
                    if self.tag == 0:
                        log.append([None, items_of(target.temp["weights"]), None])
                    else:
                        log[-1][2] = items_of(target.temp["weights"])
                        log[-1][0] = [(k, float(ch.weight)) for k, ch in target.children.items()]   # read after the call: reads refresh
                    return True
            frame = pd.DataFrame([[np.nan if v is None else v for v in r] for r in d["rows"]], index=pd.DatetimeIndex(d["u"]["dates"]),
                                 columns=d["cols"], dtype=float)
            head = [bt.algos.CapitalFlow(d["flow"])] if d.get("flow") else []
            if head:
                c.tags.append("ldelta:CapitalFlow-in-stack")
            st = bt.Strategy("s", head + [bt.algos.WeighTarget(frame), Rec(0), bt.algos.LimitDeltas(limit), Rec(1), bt.algos.Rebalance()])
            t = bt.Backtest(st, frame_of(d["u"]), initial_capital=1e6, integer_positions=d["integer"], progress_bar=False)
            try:
                t.run()
            except Exception as e:
                c.tags.append("backtest-raised:" + type(e).__name__)
            steps = [tuple(x) for x in log if x[2] is not None]
            c.tags.append("backtest-steps", ) if steps else None
        classes = set()
        for cur, before, after in steps:
            if any(v is None for _, v in before) or any(v is None for _, v in cur):
                viol(c, "target-row:nan-weight-kept" if d["mode"] == "backtest" else "limitDeltas-input-nan",
                     "non-finite weight reached LimitDeltas: weights %r current %r" % (before, cur))
                continue
            cd, bd, ad = dict(cur), dict(before), dict(after)
            monitor_ldelta(c, limit, cd, bd, ad)
            ldelta_request(c, limit, cur, before, after, names)
            hn = sum(1 for k in cd if k not in bd and abs(cd[k]) > 1e-12)
            tn = sum(1 for k in bd if k not in cd)
            lim0 = None if isinstance(limit, dict) else limit
            clipped = sum(1 for k in set(cd) | set(bd) if lim0 is not None and abs(bd.get(k, 0.0) - cd.get(k, 0.0)) > lim0)
            classes.add(("held-not-targeted" if hn else "-", "targeted-not-held" if tn else "-", "clipped" if clipped else "unclipped"))
            if hn:
                c.tags.append("held-name-absent-from-weights")
            if tn:
                c.tags.append("new-name-not-held")
            c.tags.append("clipped" if clipped else "not-clipped")
        c.cls = (d["mode"], "dictlimit" if isinstance(limit, dict) else "global", tuple(sorted(classes))[:3])
    return gen, ex


# ================================================================== LimitWeights
def lw_input_class(w, limit):
    vals = [v for _, v in w]
    n = len(vals)
    if n == 0:
        return "empty"
    if limit < 1.0 / n:
        return "infeasible"
    cur = list(vals)
    for _ in range(n + 2):   # follow the documented rounds only to name the input class (which round divides by zero)
        below = [v for v in cur if v < limit]
        if below and sum(below) == 0.0:
            return "below-cap-sum-zero"
        if not any(v > limit for v in cur) or not below:
            break
        exc_, s_ = sum(v - limit for v in cur if v > limit), sum(below)
        cur = [limit if v > limit else (v + (v / s_) * exc_ if v < limit else v) for v in cur]
    if abs(sum(vals) - 1.0) > 1e-9:
        return "sum-not-one"
    if any(v < 0 for v in vals):
        return "negative-weights"
    if any(v == 0 for v in vals):
        return "zero-weights"
    return "positive"


@kind("lweights", 2)
def _lweights():
    def gen(rng):
        u = gen_universe(rng, max_dates=4)
        keys = NAMES[:rng.choice([0, 1, 2, 2, 3, 3, 4, 5, 8])]
        rng.shuffle(keys)
        wk = rng.choice(["simplex", "simplex", "simplex-dyadic", "simplex-dyadic", "longshort", "zeros", "free", "equal", "scaled"])
        if wk == "equal":
            w = [(k, 1.0 / len(keys)) for k in keys]
        elif wk == "scaled":
            f = rng.choice([-1.0, 0.5, 2.0])
            w = [(k, f * v) for k, v in gen_weights(rng, keys, "simplex-dyadic")]
        else:
            w = gen_weights(rng, keys, wk)
        n = max(1, len(keys))
        mx = max([v for _, v in w] + [0.0])
        if rng.random() < 0.2:
            limit = rng.choice([0.0, -0.5, 1.0 / n - 1e-3, 0.5 / n, rng.random() / n])
        else:
            limit = rng.choice([1.0 / n, 1.0 / n, 1.0 / n + 1.0 / 64, 1.0, 2.0, 1.0 / n + rng.random() * (1 - 1.0 / n), 1.0 / n + rng.random() * (1 - 1.0 / n),
                                max(1.0 / n, rng.randint(1, 64) / 64.0), max(1.0 / n, mx), max(1.0 / n, mx * 0.75), max(1.0 / n, mx * 0.5)])
        return {"u": u, "w": w, "wkind": wk, "limit": limit, "series": rng.random() < 0.3, "absent": rng.random() < 0.04}

    def ex(bt, c):
        d = c.case
        s, _ = make_strategy(bt, d["u"], 0)
        w = [(k, float(v)) for k, v in d["w"]]
        limit = float(d["limit"])
        names = sorted({k for k, _ in w})
        if d["absent"]:
            ret = bt.algos.LimitWeights(limit)(s)
            if ret is not True or "weights" in s.temp:
                viol(c, "limitWeights-absent", "no weights in temp: returned %r, temp %r" % (ret, s.temp))
            c.cls = ("absent",)
            c.tags.append("weights-absent")
            return
        s.temp["weights"] = as_temp(d["series"], w)
        exc = None
        try:
            ret = bt.algos.LimitWeights(limit)(s)
            real = items_of(s.temp["weights"])
        except Exception as e:
            exc = e
            ret = None
            real = None
        icls = lw_input_class(w, limit)
        if exc is not None:
            msg = str(exc)
            out = "raised:" + ("SumNotOne" if "sum to 1" in msg else "InvalidLimit" if "invalid limit" in msg else type(exc).__name__)
        elif any(v is None for _, v in real):
            out = "nan"
        else:
            out = "done"
        c.cls = (icls, size_class(len(w)), out, "series" if d["series"] else "dict")
        c.tags.append("input:" + icls)
        c.tags.append("outcome:" + out)
        # monitor: cap respected and total preserved, or nothing when the cap is infeasible
        n = len(w)
        tot = sum(v for _, v in w)
        if n == 0:
            if exc is not None or real != []:
                viol(c, "limitWeights-empty", "empty weights: %r %r" % (exc, real))
        elif limit < 1.0 / n:
            if exc is not None or real != []:
                viol(c, "limitWeights-infeasible", "limit %r < 1/%d but result %r %r" % (limit, n, exc, real))
        elif abs(tot - 1.0) > 1e-9:
            c.tags.append("precondition:weights-do-not-sum-to-one")
        else:
            where = ":" + icls
            if exc is not None:
                viol(c, "limitWeights-raises" + where, "weights %r limit %r: %s: %s" % (w, limit, type(exc).__name__, str(exc)[:80]))
            elif out == "nan":
                viol(c, "limitWeights-nan" + where, "weights %r limit %r -> %r" % (w, limit, real))
            else:
                if [k for k, _ in real] != [k for k, _ in w]:
                    viol(c, "limitWeights-keys" + where, "weights %r limit %r -> %r" % (w, limit, real))
                if any(v > limit + tol(v, limit) for _, v in real):
                    viol(c, "limitWeights-cap" + where, "weights %r limit %r -> %r" % (w, limit, real))
                rt = sum(v for _, v in real)
                if abs(rt - tot) > tol(rt, tot):
                    viol(c, "limitWeights-total" + where, "weights %r (total %r) limit %r -> %r (total %r)" % (w, tot, limit, real, rt))

        def cmp(a):
            head, _, rest = a.partition(" ")
            if head == "raised":
                ok = out == "raised:" + rest.strip()
                m = rest
            elif head == "nan":
                m = Rd(rest).dict(names, opt=True)
                ok = out == "nan" and same_dict(m, real)
            elif head == "done":
                m = Rd(rest).dict(names)
                ok = out == "done" and same_dict(m, real)
            else:
                ok, m = False, a
            return None if ok else {"model": [head, m], "real": [out, real], "w": w, "limit": limit}
        expect(c, "lweights " + tF(limit) + " " + tDict(names, w), cmp)
    return gen, ex


# ================================================================== WeighRandomly
@kind("random")
def _random():
    def gen(rng):
        u = gen_universe(rng, max_dates=4)
        sel = gen_selection(rng, u)
        n = max(1, len(sel))
        mode = rng.choice(["default", "feasible", "feasible", "tight", "infeasible", "any"])
        if mode == "default":
            low, high, total = 0.0, 1.0, 1
        elif mode == "feasible":
            low = rng.randint(-8, 4) / 16.0
            high = low + rng.randint(0, 16) / 16.0
            total = n * low + rng.random() * n * (high - low)
        elif mode == "tight":
            low = rng.randint(0, 4) / 16.0
            high = low + rng.randint(0, 8) / 16.0
            total = rng.choice([n * low, n * high])
        elif mode == "infeasible":
            low, high = 0.0, rng.randint(1, 8) / 16.0
            total = rng.choice([n * high + 0.25, -0.25]) if rng.random() < 0.7 else 1.0
            if rng.random() < 0.3:
                low, high = high + 0.1, low
        else:
            low, high, total = rng.uniform(-1, 1), rng.uniform(-1, 1), rng.uniform(-2, 2)
        return {"u": u, "sel": sel, "low": low, "high": high, "total": total, "seed": rng.randrange(1 << 30), "mode": mode}

    def ex(bt, c):
        d = c.case
        s, _ = make_strategy(bt, d["u"], 0)
        sel = list(d["sel"])
        n = len(sel)
        low, high, total = d["low"], d["high"], d["total"]
        s.temp["selected"] = sel
        pyrandom.seed(d["seed"])
        ret = bt.algos.WeighRandomly(bounds=(low, high), weight_sum=total)(s)
        real = items_of(s.temp["weights"])
        # the draws the algo consumed, replayed from the same seed
        pyrandom.seed(d["seed"])
        us = [pyrandom.random() for _ in range(n)]
        perm = list(range(n))
        pyrandom.shuffle(perm)
        feasible = not (high < low) and not (n * high < total) and not (n * low > total)
        c.cls = (size_class(n), d["mode"], "feasible" if feasible else "infeasible")
        c.tags.append("feasible" if feasible else "infeasible")
        c.tags.append("n=" + size_class(n))
        if ret is not True:
            viol(c, "randomly-return", "returned %r" % (ret,))
        if not feasible:
            if real != []:
                viol(c, "randomly-infeasible", "n=%d bounds (%r,%r) total %r infeasible but weights %r" % (n, low, high, total, real))
        else:
            if [k for k, _ in real] != sel:
                viol(c, "randomly-keys", "selected %r keys %r" % (sel, real))
            elif any(v is None or v < low - tol(v, low) or v > high + tol(v, high) for _, v in real):
                viol(c, "randomly-bounds", "bounds (%r,%r): %r" % (low, high, real))
            elif abs(sum(v for _, v in real) - total) > tol(total, *[v for _, v in real]) * 4:
                viol(c, "randomly-total", "total %r: %r sums to %r" % (total, real, sum(v for _, v in real)))
        names = sorted(set(sel))
        expect(c, "random %s %s %s %s %s %s" % (tSel(names, sel), tF(low), tF(high), tF(float(total)), tL(us, tF), tL(perm, str)),
               lambda a: None if same_dict(Rd(a[3:]).dict(names), real) else {"model": Rd(a[3:]).dict(names), "real": real})
        if all(v is not None for _, v in real):
            expect(c, "randspec %s %s %s %s %s %s" % (tF(4e-9 * max(1.0, abs(total), abs(low), abs(high))), tSel(names, sel), tF(low), tF(high), tF(float(total)), tDict(names, real)),
                   lambda a: None if a.strip() == "ok 1" else {"lean-relation-randomlySpec": a, "real": real})
    return gen, ex


# ================================================================== trailing windows (shared)
EPOCH = pd.Timestamp("2000-01-01")


def gen_offsets(rng):
    lb = rng.choice([("days", rng.randint(0, 12)), ("days", rng.randint(5, 60)), ("months", rng.randint(1, 3)), ("days", 400)])
    lag = rng.choice([("days", 0), ("days", 0), ("days", rng.randint(1, 6)), ("months", 1), ("days", -rng.randint(1, 3))])
    return {"lookback": list(lb), "lag": list(lag)}


def gen_month_edge(rng, min_cols=2):
    """windows whose two offsets do not commute: calendar-month arithmetic next to a month end (now - lag - lookback is evaluated
    left to right: Mar 31 - 1 day - 1 month = Feb 29, Mar 31 - 1 month - 1 day = Feb 28), on a daily calendar so that every
    boundary date is a row"""
    u = gen_universe(rng, min_dates=70, max_dates=100, min_cols=min_cols, nan_ok=rng.random() < 0.3, cal="daily")
    edge = [i for i, ds in enumerate(u["dates"]) if i >= 45 and (pd.Timestamp(ds).day >= 29 or pd.Timestamp(ds).day <= 2)]
    now = rng.choice(edge) if edge else len(u["dates"]) - 1
    if rng.random() < 0.7:
        off = {"lookback": ["months", rng.randint(1, 2)], "lag": ["days", rng.randint(1, 3)]}
    else:
        off = {"lookback": ["days", rng.randint(10, 40)], "lag": ["months", 1]}
    return u, now, off


def offset_of(o):
    return pd.DateOffset(**{o[0]: o[1]})


def window_bounds(u, now_i, off):
    """(now, t0, lo, lag_days, lookback_days) with pandas' own offset arithmetic"""
    now = pd.Timestamp(u["dates"][now_i])
    t0 = now - offset_of(off["lag"])
    lo = t0 - offset_of(off["lookback"])
    return now, t0, lo, (now - t0).days, (t0 - lo).days


def indep_window(u, now_i, off, cols):
    """independent of bt: boolean mask on the raw data; returns 2-D array (rows, len(cols)) with NaN"""
    now, t0, lo, _, _ = window_bounds(u, now_i, off)
    out = []
    for ds, row in zip(u["dates"], u["rows"]):
        dt = pd.Timestamp(ds)
        if lo <= dt <= t0 and dt <= now:
            out.append([np.nan if row[u["cols"].index(k)] is None else row[u["cols"].index(k)] for k in cols])
    return np.array(out, dtype=float).reshape(len(out), len(cols))


def indep_returns(win):
    if win.shape[0] < 2:
        return np.zeros((0, win.shape[1]))
    return win[1:] / win[:-1] - 1.0


def indep_cov(rets):
    n = rets.shape[1]
    cov = np.full((n, n), np.nan)
    for i in range(n):
        for j in range(n):
            m = ~np.isnan(rets[:, i]) & ~np.isnan(rets[:, j])
            if m.sum() >= 2:
                x = rets[m, i]
                y = rets[m, j]
                cov[i, j] = float(((x - x.mean()) * (y - y.mean())).sum() / (m.sum() - 1))
    return cov


def indep_vol(u, now_i, off, keys, wvec, af):
    """sqrt(w' C w * af) from the raw data; None when undefined"""
    if not keys:
        return None
    rets = indep_returns(indep_window(u, now_i, off, keys))
    cov = indep_cov(rets)
    w = np.array(wvec, dtype=float)
    if np.isnan(cov).any() or np.isnan(w).any():
        return None
    q = float(w @ (cov @ w)) * af
    if q < 0:
        return None
    return math.sqrt(q)


def table_tokens(u, names):
    return tTable(names, u["cols"], u["days"], u["rows"])


def window_class(u, now_i, off, cols):
    win = indep_window(u, now_i, off, cols) if cols else np.zeros((0, 0))
    r = win.shape[0]
    rc = "rows0" if r == 0 else "rows1" if r == 1 else "rows2" if r == 2 else "rows3+"
    nanc = "nan" if (r and np.isnan(win).any()) else "full"
    future = "future-rows" if now_i < len(u["days"]) - 1 else "last-date"
    return rc, nanc, future


# ================================================================== WeighInvVol / WeighERC / WeighMeanVar
def monitor_front(c, who, sel, ret, real):
    """the 0 / 1 asset shortcuts"""
    if ret is not True:
        viol(c, who + "-return", "returned %r" % (ret,))
    if len(sel) == 0 and real != []:
        viol(c, who + "-empty-selection", "empty selection gave %r" % (real,))
    if len(sel) == 1 and not same_dict(real, [(sel[0], 1.0)]):
        viol(c, who + "-single-selection", "selection %r gave %r" % (sel, real))


@kind("invvol", 2)
def _invvol():
    def gen(rng):
        if rng.random() < 0.25:
            u, now, off = gen_month_edge(rng)
            return {"u": u, "now": now, "sel": gen_selection(rng, u), "off": off}
        u = gen_universe(rng, min_dates=3, max_dates=30, min_cols=2, nan_ok=rng.random() < 0.6)
        return {"u": u, "now": rng.randrange(len(u["days"])), "sel": gen_selection(rng, u), "off": gen_offsets(rng)}

    def ex(bt, c):
        d = c.case
        u, now_i, sel, off = d["u"], d["now"], list(d["sel"]), d["off"]
        s, _ = make_strategy(bt, u, now_i)
        s.temp["selected"] = sel
        ret = bt.algos.WeighInvVol(lookback=offset_of(off["lookback"]), lag=offset_of(off["lag"]))(s)
        real = items_of(s.temp["weights"])
        _, _, _, lag_d, lb_d = window_bounds(u, now_i, off)
        wc = window_class(u, now_i, off, sel)
        monitor_front(c, "invvol", sel, ret, real)
        excluded = 0
        if len(sel) >= 2:
            rets = indep_returns(indep_window(u, now_i, off, sel))
            rets = rets[~np.isnan(rets).any(axis=1)]
            sig = {}
            for j, k in enumerate(sel):
                if rets.shape[0] >= 2:
                    x = rets[:, j]
                    sd = math.sqrt(float(((x - x.mean()) ** 2).sum() / (len(x) - 1)))
                    if sd > 0:
                        sig[k] = sd
            excluded = len(sel) - len(sig)
            keys = [k for k in sel if k in sig]
            if [k for k, _ in real] != keys:
                viol(c, "invvol-keys", "selection %r, names with positive volatility %r, got %r" % (sel, keys, real))
            elif keys:
                ws = [v for _, v in real]
                if any(v is None or v < 0 for v in ws) or abs(sum(ws) - 1.0) > tol():
                    viol(c, "invvol-simplex", "weights %r" % (real,))
                else:
                    prod = [v * sig[k] for k, v in real]
                    if max(prod) - min(prod) > 1e-9 * max(prod):
                        viol(c, "invvol-risk-relation", "weight*volatility not constant: %r (vols %r weights %r)" % (prod, sig, real))
        c.cls = (size_class(len(sel)),) + wc + ("excl" if excluded else "all", off["lookback"][0], "lag0" if off["lag"][1] == 0 else "lag+" if off["lag"][1] > 0 else "lag-")
        c.tags += ["n=" + size_class(len(sel)), "window:" + wc[0], "window:" + wc[1], wc[2], "lag:" + c.cls[-1]] + (["zero-or-nan-vol-excluded"] if excluded else [])
        names = sorted(set(u["cols"]))
        expect(c, "invvol %s %d %d %d %s" % (table_tokens(u, names), u["days"][now_i], lag_d, lb_d, tSel(names, sel)),
               lambda a: None if same_dict(Rd(a[3:]).dict(names), real) else {"model": Rd(a[3:]).dict(names), "real": real})
    return gen, ex


def kernel_case(which):
    fname = "calc_erc_weights" if which == "erc" else "calc_mean_var_weights"

    def gen(rng):
        easy = rng.random() < 0.7
        u = gen_universe(rng, min_dates=12 if easy else 4, max_dates=30, min_cols=2, nan_ok=rng.random() < (0.3 if easy else 0.7))
        off = gen_offsets(rng)
        now = rng.randrange(len(u["days"]))
        if easy:   # enough history for the optimisers to have something to solve
            off["lookback"] = list(rng.choice([("days", rng.randint(15, 90)), ("months", rng.randint(1, 3))]))
            now = rng.randrange(len(u["days"]) * 2 // 3, len(u["days"]))
        if rng.random() < 0.2:
            u, now, off = gen_month_edge(rng)
        d = {"u": u, "now": now, "sel": gen_selection(rng, u), "off": off,
             "stub": rng.random() < 0.35}
        n = len(d["sel"])
        if which == "erc":
            d["p"] = {"covar_method": rng.choice(["ledoit-wolf", "standard", "standard"]), "risk_parity_method": rng.choice(["ccd", "ccd", "slsqp"]),
                      "maximum_iterations": rng.choice([100, 1000]), "tolerance": rng.choice([1e-8, 1e-10]),
                      "risk_weights": None if (rng.random() < 0.6 or n < 2) else [x for _, x in gen_weights(rng, list(range(n)), "simplex")],
                      "initial_weights": None if (rng.random() < 0.7 or n < 2) else [1.0 / n] * n}
        else:
            lo = rng.choice([0.0, 0.0, 0.05, -0.5])
            d["p"] = {"covar_method": rng.choice(["ledoit-wolf", "standard"]), "rf": rng.choice([0.0, 0.0, 0.0001, -0.001]),
                      "bounds": [lo, rng.choice([1.0, 1.0, 0.8, 2.0])]}
        if d["stub"]:
            d["stubout"] = [None if rng.random() < 0.25 else rng.randint(-8, 24) / 16.0 for _ in range(n)]
        return d

    def ex(bt, c):
        d = c.case
        u, now_i, sel, off, p = d["u"], d["now"], list(d["sel"]), d["off"], d["p"]
        s, _ = make_strategy(bt, u, now_i)
        s.temp["selected"] = sel
        cap = {}
        orig = getattr(bt.ffn, fname)

        def wrapper(returns, **kw):
            cap["returns"] = returns.copy()
            cap["kw"] = kw
            cap["calls"] = cap.get("calls", 0) + 1
            if d["stub"]:
                out = pd.Series([np.nan if v is None else v for v in d["stubout"]], index=returns.columns)
            else:
                out = orig(returns, **kw)
            cap["out"] = out.copy()
            return out
        if which == "erc":
            algo = bt.algos.WeighERC(lookback=offset_of(off["lookback"]), lag=offset_of(off["lag"]), covar_method=p["covar_method"],
                                     risk_parity_method=p["risk_parity_method"], maximum_iterations=p["maximum_iterations"],
                                     tolerance=p["tolerance"], risk_weights=None if p["risk_weights"] is None else np.array(p["risk_weights"]),
                                     initial_weights=None if p["initial_weights"] is None else np.array(p["initial_weights"]))
        else:
            algo = bt.algos.WeighMeanVar(lookback=offset_of(off["lookback"]), lag=offset_of(off["lag"]), covar_method=p["covar_method"],
                                         rf=p["rf"], bounds=tuple(p["bounds"]))
        setattr(bt.ffn, fname, wrapper)
        exc = None
        try:
            ret = algo(s)
        except Exception as e:
            exc = e
            ret = None
        finally:
            setattr(bt.ffn, fname, orig)
        real = items_of(s.temp["weights"]) if "weights" in s.temp else None
        _, _, _, lag_d, lb_d = window_bounds(u, now_i, off)
        wc = window_class(u, now_i, off, sel)
        names = sorted(set(u["cols"]))
        n = len(sel)
        outcome = "shortcut" if n < 2 else ("kernel-raised:" + type(exc).__name__ if exc is not None else "stub" if d["stub"] else "solved")
        c.cls = (size_class(n),) + wc + (outcome, p.get("covar_method"), p.get("risk_parity_method"))
        c.tags += ["n=" + size_class(n), "window:" + wc[0], "window:" + wc[1], wc[2], "outcome:" + outcome]
        if n < 2:
            monitor_front(c, which, sel, ret, real)
            if cap.get("calls"):
                viol(c, which + "-shortcut", "optimiser called for a selection of %d" % n)
            expect(c, "kernel %s 0" % tSel(names, sel), lambda a: None if same_dict(Rd(a[3:]).dict(names), real) else {"model": a, "real": real})
            return
        if "returns" not in cap:
            viol(c, which + "-not-called", "optimiser not called for %r (%r)" % (sel, exc))
            return
        # what bt handed over: to_returns().dropna() of the window of data up to now (independent recomputation)
        got = cap["returns"]
        rets = indep_returns(indep_window(u, now_i, off, sel))
        rets = rets[~np.isnan(rets).any(axis=1)]
        gv = np.asarray(got.values, dtype=float).reshape(len(got), n)
        if list(got.columns) != sel or gv.shape != rets.shape or (gv.size and not np.allclose(gv, rets, rtol=1e-9, atol=1e-12)):
            viol(c, which + "-kernel-argument", "returns handed to the optimiser differ from to_returns().dropna() of the window: shape %r vs %r" % (gv.shape, rets.shape))
        # argument passing
        kw = cap["kw"]
        if which == "erc":
            want = {"covar_method": p["covar_method"], "risk_parity_method": p["risk_parity_method"], "maximum_iterations": p["maximum_iterations"],
                    "tolerance": p["tolerance"]}
            bad = [k for k, v in want.items() if kw.get(k) != v]
            for k in ("risk_weights", "initial_weights"):
                a, b = kw.get(k), p[k]
                if (a is None) != (b is None) or (a is not None and list(map(float, a)) != list(map(float, b))):
                    bad.append(k)
        else:
            want = {"covar_method": p["covar_method"], "rf": p["rf"], "weight_bounds": tuple(p["bounds"])}
            bad = [k for k, v in want.items() if kw.get(k) != v]
        if bad or set(kw) - set(want) - {"risk_weights", "initial_weights"}:
            viol(c, which + "-kernel-kwargs", "parameters not passed through: %r (got %r)" % (bad, {k: kw[k] for k in kw if k in bad}))
        expect(c, "returns %s %d %d %d %s" % (table_tokens(u, names), u["days"][now_i], lag_d, lb_d, tSel(names, sel)),
               lambda a: None if _same_matrix(Rd(a[3:]).matrix(), gv) else {"model-returns": a[:200], "real-shape": gv.shape})
        if exc is not None:
            if "out" in cap:
                viol(c, which + "-raised-after-kernel", "%s: %s" % (type(exc).__name__, str(exc)[:100]))
            return
        out = [clean(v) for v in cap["out"].values]
        want_w = [(k, v) for k, v in zip(sel, out) if v is not None]
        if ret is not True or not same_dict(real, want_w):
            viol(c, which + "-result", "optimiser returned %r, temp weights %r" % (list(zip(sel, out)), real))
        expect(c, "kernel %s %s" % (tSel(names, sel), tL(out, tO)), lambda a: None if same_dict(Rd(a[3:]).dict(names), real) else {"model": a, "real": real})
        if d["stub"] or any(v is None for v in out):
            return
        # runtime verification of the external optimiser's answer (Lean predicate + the same relation in numpy)
        import sklearn.covariance
        C = sklearn.covariance.ledoit_wolf(got)[0] if p["covar_method"] == "ledoit-wolf" else got.cov().values
        w = np.array(out)
        ev = np.linalg.eigvalsh(np.asarray(C, dtype=float))
        if not (ev.min() > 1e-6 * ev.max() > 0):
            c.tags.append("relation-not-checked:ill-conditioned-covariance")
            return
        c.tags.append("relation-checked")
        if which == "erc":
            b = np.array(p["risk_weights"]) if p["risk_weights"] is not None else np.ones(n) / n
            rc = w * (C @ w)
            rel = float(np.max(np.abs(rc - b * rc.sum())) / rc.sum()) if rc.sum() > 0 else float("inf")
            okpy = bool((w >= -2e-2).all() and abs(w.sum() - 1) <= 2e-2 and rel <= 2e-2)
            c.tags.append("erc-relation-residual<1e-4" if rel < 1e-4 else "erc-relation-residual<2e-2" if rel <= 2e-2 else "erc-relation-residual>=2e-2")
            if not okpy:
                viol(c, "erc-relation:" + p["risk_parity_method"], "weights %r budget %r risk contributions %r (relative residual %r)" % (out, list(b), list(rc), rel))
            expect(c, "ercspec %s %s %s %s" % (tF(2e-2), tL([list(r) for r in C], lambda r: tL(r, tF)), tL(list(b), tF), tL(out, tF)),
                   lambda a: None if (a.strip() == "ok 1") == okpy else {"lean-ercSpec": a, "numpy": okpy, "w": out})
        else:
            lo, hi = p["bounds"]
            mu = got.mean().values

            def util(x):
                return float((mu @ x - p["rf"]) / math.sqrt(float(x @ C @ x)))
            okpy = bool((w >= lo - 1e-6).all() and (w <= hi + 1e-6).all() and abs(w.sum() - 1) <= 1e-6 and util(np.ones(n) / n) - 1e-6 <= util(w))
            if not okpy:
                viol(c, "meanvar-relation", "weights %r bounds %r sum %r utility %r vs equal-weight %r" % (out, p["bounds"], w.sum(), util(w), util(np.ones(n) / n)))
            expect(c, "mvspec %s %s %s %s %s %s %s" % (tF(1e-6), tF(lo), tF(hi), tF(p["rf"]), tL(list(mu), tF), tL([list(r) for r in np.asarray(C)], lambda r: tL(r, tF)), tL(out, tF)),
                   lambda a: None if (a.strip() == "ok 1") == okpy else {"lean-meanVarSpec": a, "numpy": okpy, "w": out})
    return gen, ex


def _same_matrix(m, gv):
    if len(m) != gv.shape[0]:
        return False
    for r, g in zip(m, gv):
        if len(r) != len(g) or any(not close(x, float(y)) for x, y in zip(r, g)):
            return False
    return True


@kind("erc")
def _erc():
    return kernel_case("erc")


@kind("meanvar")
def _meanvar():
    return kernel_case("meanvar")


# ================================================================== TargetVol
METHODS = {"standard": 0, "ledoit-wolf": 1, "other": 2}


@kind("tvol", 2)
def _tvol():
    def gen(rng):
        u = gen_universe(rng, min_dates=6, max_dates=30, min_cols=2, nan_ok=rng.random() < 0.4)
        n = len(u["days"])
        off = gen_offsets(rng)
        if rng.random() < 0.6:
            off["lookback"] = list(rng.choice([("days", rng.randint(10, 90)), ("months", rng.randint(1, 3))]))
        tkind = rng.choice(["float", "float", "int", "dict", "zero"])
        if tkind == "float":
            target = rng.choice([0.1, 0.05, 0.2, rng.random()])
        elif tkind == "int":
            target = 1
        elif tkind == "zero":
            target = 0.0
        else:
            ks = [k for k in u["cols"] if rng.random() < 0.7]
            same = rng.random() < 0.5
            target = {k: (0.1 if same else rng.choice([0.05, 0.1, 0.2])) for k in ks}
        calls = []
        i = rng.randrange(n // 2, n)
        for _ in range(rng.choice([1, 2, 2, 3])):
            keys = [k for k in u["cols"] if rng.random() < 0.65] or [rng.choice(u["cols"])]
            if rng.random() < 0.06:
                keys = []
            rng.shuffle(keys)
            calls.append({"now": i, "w": gen_weights(rng, keys, rng.choice(["simplex", "simplex-dyadic", "longshort", "free"])), "series": rng.random() < 0.25})
            i = min(n - 1, i + rng.randint(0, 3))
        return {"u": u, "off": off, "target": target, "calls": calls, "method": rng.choices(["standard", "ledoit-wolf", "other"], [18, 1, 1])[0],
                "af": rng.choice([252, 252, 12, 1, 52.0])}

    def ex(bt, c):
        d = c.case
        u, off = d["u"], d["off"]
        target = d["target"]
        names = sorted(set(u["cols"]))
        algo = bt.algos.TargetVol(dict(target) if isinstance(target, dict) else target, lookback=offset_of(off["lookback"]),
                                  lag=offset_of(off["lag"]), covar_method=d["method"], annualization_factor=d["af"])
        data = frame_of(u)
        s = bt.Strategy("s", [])
        s.setup(data)
        first_keys = None
        outcomes = []
        for ci, call in enumerate(d["calls"]):
            now_i = call["now"]
            s.update(data.index[now_i])
            w = [(k, float(v)) for k, v in call["w"]]
            keys = [k for k, _ in w]
            pre = algo.target_volatility
            pre_tok = ("1 " + tDict(names, [(k, float(v)) for k, v in pre.items()])) if isinstance(pre, dict) else ("0 " + tF(float(pre)))
            s.temp = {"weights": as_temp(call["series"], w)}
            exc = None
            try:
                ret = algo(s)
            except Exception as e:
                exc = e
                ret = None
            real = items_of(s.temp["weights"])
            post = algo.target_volatility
            _, _, _, lag_d, lb_d = window_bounds(u, now_i, off)
            vol0 = indep_vol(u, now_i, off, keys, [v for _, v in w], float(d["af"]))
            scalar_user = not isinstance(target, dict)
            if not w:
                oc = "empty"
            elif exc is not None:
                oc = "raised:" + type(exc).__name__
            elif vol0 is None or vol0 <= 1e-13:
                oc = "vol-undefined"
            else:
                oc = "scaled"
            outcomes.append(oc)
            c.tags.append("outcome:" + oc)
            new_key = first_keys is not None and any(k not in first_keys for k in keys)
            # ---- monitor: ex-ante volatility of the new weights equals the target
            if exc is not None:
                if d["method"] == "other" and isinstance(exc, NotImplementedError):
                    c.tags.append("unknown-covar_method-rejected")
                else:
                    viol(c, "targetVol-raises:covar_method=%s" % d["method"], "%s: %s" % (type(exc).__name__, str(exc)[:80]))
            elif not w:
                if ret is not True or real != []:
                    viol(c, "targetVol-empty", "no weights: returned %r %r" % (ret, real))
            else:
                if ret is not True or [k for k, _ in real] != keys:
                    viol(c, "targetVol-keys", "weights %r -> %r (returned %r)" % (w, real, ret))
                elif oc == "scaled":
                    tv = target if scalar_user else (target[keys[0]] if all(k in target and target[k] == target.get(keys[0]) for k in keys) else None)
                    if tv is None:
                        c.tags.append("per-key-targets-differ-or-partial:not-checked")
                    else:
                        where = "call%s" % ("1" if first_keys is None else "N") + (":name-not-in-first-call" if (new_key and scalar_user) else "")
                        if any(v is None for _, v in real):
                            viol(c, "targetVol-nonfinite:" + where, "vol %r target %r: %r -> %r" % (vol0, tv, w, real))
                        else:
                            vol1 = indep_vol(u, now_i, off, keys, [v for _, v in real], float(d["af"]))
                            if vol1 is None or abs(vol1 - float(tv)) > 1e-9 * max(1.0, float(tv)):
                                viol(c, "targetVol-exante:" + where, "target %r, weights %r (ex-ante vol %r) -> %r (ex-ante vol %r)" % (tv, w, vol0, real, vol1))
                            else:
                                c.tags.append("exante-vol-equals-target")
            if new_key:
                c.tags.append("later-call-with-new-name")
            if w and first_keys is None and exc is None:
                first_keys = set(keys)
            # ---- model
            line = "tvol %s %d %s %s %d %d %d %s" % (pre_tok, METHODS[d["method"]], tF(float(d["af"])), table_tokens(u, names), u["days"][now_i], lag_d, lb_d, tDict(names, w))

            def cmp(a, exc=exc, real=real, post=post, w=w, vol0=vol0):
                if a.startswith("err "):
                    nm = a[4:].strip()
                    ok = exc is not None and ((nm == "NotImplemented" and isinstance(exc, NotImplementedError)) or (nm == "LedoitWolfRaises" and isinstance(exc, ValueError)))
                    return None if ok else {"model": a, "real-exc": repr(exc)[:100]}
                if exc is not None:
                    return {"model": a[:100], "real-exc": repr(exc)[:100]}
                r = Rd(a[3:])
                if r.nat() == 0:
                    mp = r.flt()
                    okp = not isinstance(post, dict) and close(mp, float(post))
                else:
                    mp = r.dict(names)
                    okp = isinstance(post, dict) and same_dict(mp, [(k, float(v)) for k, v in post.items()], ordered=False)
                mw = r.dict(names, opt=True)
                mv = r.oflt()
                okw = same_dict(mw, real)
                okv = (mv is None and (vol0 is None)) or (mv is not None and vol0 is not None and close(mv, vol0, 1e-6)) or not w
                return None if (okp and okw and okv) else {"model": {"param": mp, "weights": mw, "vol": mv}, "real": {"param": repr(post), "weights": real, "indep-vol": vol0}}
            expect(c, line, cmp)
        wc = window_class(u, d["calls"][0]["now"], off, [k for k, _ in d["calls"][0]["w"]])
        c.cls = ("dict" if isinstance(target, dict) else type(target).__name__, d["method"], len(d["calls"]), tuple(outcomes)) + wc[:2]
    return gen, ex


# ================================================================== PTE_Rebalance
@kind("pte", 2)
def _pte():
    def gen(rng):
        u = gen_universe(rng, min_dates=6, max_dates=30, min_cols=2, nan_ok=rng.random() < 0.4)
        n = len(u["days"])
        now = rng.randrange(n // 2, n)
        off = gen_offsets(rng)
        if rng.random() < 0.6:
            off["lookback"] = list(rng.choice([("days", rng.randint(10, 90)), ("months", rng.randint(1, 3))]))
        hold = None
        if rng.random() < 0.93:
            for _ in range(4):
                hold = hold or gen_holdings(rng, u, now)
        cols = [k for k in u["cols"] if rng.random() < 0.7] or [u["cols"][0]]
        rng.shuffle(cols)
        tw = gen_weights(rng, cols, rng.choice(["simplex", "simplex-dyadic", "longshort"]))
        row = [None if rng.random() < 0.05 else v for _, v in tw]
        return {"u": u, "now": now, "off": off, "hold": hold, "cols": cols, "row": row, "row_missing": rng.random() < 0.04,
                "cap": rng.choice([["abs", 0.0], ["abs", 0.01], ["abs", 0.1], ["abs", 1.0], ["rel", 0.5], ["rel", 0.999], ["rel", 1.001], ["rel", 2.0]]),
                "method": rng.choices(["standard", "ledoit-wolf", "other"], [18, 1, 1])[0], "af": rng.choice([252, 252, 12, 1])}

    def ex(bt, c):
        d = c.case
        u, now_i, off = d["u"], d["now"], d["off"]
        names = sorted(set(u["cols"]))
        s, data = make_strategy(bt, u, now_i, holdings=d["hold"])
        idx = [i for i in range(len(u["days"])) if not (d["row_missing"] and i == now_i)]
        tw = pd.DataFrame([[np.nan if v is None else v for v in d["row"]] for _ in idx], index=data.index[idx], columns=d["cols"], dtype=float)
        # the current portfolio as the algo will see it (public getters)
        posf = s.positions
        has_pos = posf.shape != (0, 0)
        pos = [(k, float(v)) for k, v in posf.loc[s.now].items()] if has_pos else None
        value = float(s.value)
        # independent tracking-error volatility
        vol = None
        cur = {}
        if has_pos:
            prow = u["rows"][now_i]
            cur = {k: (None if (prow[u["cols"].index(k)] is None or value == 0) else q * prow[u["cols"].index(k)] / value) for k, q in pos}
            cols = list(cur) + [k for k in d["cols"] if k not in cur]
            tgt = dict(zip(d["cols"], d["row"]))
            diff = []
            for k in cols:
                a = cur.get(k, 0.0)
                b = tgt.get(k, 0.0) if k in tgt else 0.0
                diff.append(None if (a is None or b is None) else a - b)
            if all(x is not None for x in diff):
                vol = indep_vol(u, now_i, off, cols, diff, float(d["af"]))
        cap = d["cap"][1] if d["cap"][0] == "abs" else (d["cap"][1] * vol if vol is not None else 0.05)
        d["cap_value"] = cap
        algo = bt.algos.PTE_Rebalance(cap, tw, lookback=offset_of(off["lookback"]), lag=offset_of(off["lag"]), covar_method=d["method"],
                                      annualization_factor=d["af"])
        exc = None
        try:
            ret = algo(s)
        except Exception as e:
            exc = e
            ret = None
        _, _, _, lag_d, lb_d = window_bounds(u, now_i, off)
        if not has_pos:
            oc = "no-positions"
        elif exc is not None:
            oc = "raised:" + type(exc).__name__
        elif vol is None:
            oc = "vol-undefined"
        else:
            oc = "above-cap" if vol > cap else "within-cap"
        c.cls = (oc, d["method"], d["cap"][0] + str(d["cap"][1]), size_class(len(cur)), size_class(len(d["cols"])))
        c.tags.append("outcome:" + oc)
        # ---- monitor: True exactly when the tracking-error volatility exceeds the cap
        if not has_pos:
            if ret is not True:
                viol(c, "pte-no-positions", "no positions yet: returned %r (%r)" % (ret, exc))
        elif exc is not None:
            if d["row_missing"] and isinstance(exc, KeyError):
                c.tags.append("ill-formed:target-row-missing")
            elif d["method"] == "other" and isinstance(exc, NotImplementedError):
                c.tags.append("unknown-covar_method-rejected")
            else:
                viol(c, "pte-raises:covar_method=%s" % d["method"], "%s: %s" % (type(exc).__name__, str(exc)[:80]))
        elif value == 0:
            c.tags.append("zero-value:current-weights-undefined:not-judged")
        elif vol is None:
            if ret is not False:
                viol(c, "pte-nan", "tracking-error volatility undefined but returned %r" % (ret,))
        elif abs(vol - cap) > 1e-9 * max(1.0, vol, cap):
            if ret is not (vol > cap):
                viol(c, "pte-iff:" + ("above-cap" if vol > cap else "within-cap"), "tracking-error vol %r cap %r returned %r" % (vol, cap, ret))
        else:
            c.tags.append("vol-within-rounding-of-cap:not-judged")
        twdays = [u["days"][i] for i in idx]
        line = "pte %s %s %d %s %d %d %d %s %s %s" % (tF(float(cap)), tF(float(d["af"])), METHODS[d["method"]], table_tokens(u, names), u["days"][now_i], lag_d, lb_d,
                                                    "N" if pos is None else tDict(names, pos), tF(value), tTable(names, d["cols"], twdays, [d["row"]] * len(idx)))

        def cmp(a):
            if a.startswith("err "):
                nm = a[4:].strip()
                ok = exc is not None and ((nm == "NotImplemented" and isinstance(exc, NotImplementedError)) or (nm == "LedoitWolfRaises" and isinstance(exc, ValueError))
                                          or (nm == "TargetRowMissing" and isinstance(exc, KeyError)))
                return None if ok else {"model": a, "real-exc": repr(exc)[:100]}
            if exc is not None:
                return {"model": a[:100], "real-exc": repr(exc)[:100]}
            r = Rd(a[3:])
            mb = r.nat() == 1
            mv = r.oflt()
            if mv is not None and (mv != mv or value == 0):
                mv = None         # NaN / built on x/0: undefined, like the oracle's None
            near = vol is not None and abs(vol - cap) <= 1e-9 * max(1.0, vol, cap)
            okb = (mb == bool(ret)) or near
            okv = not has_pos or (mv is None and vol is None) or (mv is not None and vol is not None and close(mv, vol, 1e-6))
            return None if okb and okv else {"model": [mb, mv], "real": ret, "indep-vol": vol, "cap": cap}
        expect(c, line, cmp)
    return gen, ex
