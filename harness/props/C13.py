"""C13 control flow: AlgoStack (both modes), run_always, Or, Not, Require, RunIfOutOfBounds, Strategy.run.

Three things per generated case:
  real     the bt objects are built through the public API (bt.AlgoStack, bt.algos.Or/Not/Require/RunIfOutOfBounds,
           bt.algos.run_always, bt.Strategy(...).run()) around scripted mock algos that record every call;
  model    the same case is sent to the Lean model (`stack call` / `stack run` requests) and compared exactly;
  monitor  an oracle written from the property text (single loop, no execution modes) predicts result, call log,
           temp and perm; any difference on the real code is a violation.
"""
import itertools
import json

import numpy as np
import pandas as pd

from .. import leanrun
from ..engine import f2b, b2f

RULE = ("algo programs over scripted mocks (return script, run_always attribute absent/True/False, temp/perm writes, plain "
        "functions or Algo instances, shared objects) combined by AlgoStack / Or / Not / Require / RunIfOutOfBounds, nested to "
        "depth 3; exhaustive truth tables of flat stacks over (return, attribute) up to a length; RunIfOutOfBounds on real "
        "strategies with targets placed around the tolerance boundary; trees of strategies (depth <= 3, securities and "
        "sub-strategies interleaved) run several times with garbage left in temp.  distinct = structural signature of the "
        "program with each mock reduced to (next return, attribute) / tree shape with stack signatures, plus outcome")
ASSUMPTIONS = [
    "mock algos return Python bools (the property speaks of True/False returns); truthiness of other values is not exercised",
    "RunIfOutOfBounds: tolerance and weights finite; a zero target weight is treated as ill-formed input (not judged by the monitor, "
    "still compared with the model: ZeroDivisionError on Python floats, IEEE inf/nan when a numpy float is involved)",
    "the call log is produced by the mocks and by a Strategy subclass whose run() records the visit and calls super().run()",
]

KEYS = ["k0", "k1", "k2", "selected", "weights", "cash"]
RA_NAMES = {0: "absent", 1: "True", 2: "False"}


# ---------------------------------------------------------------- values (spec form <-> real <-> canonical)
def mk_val(v):
    """spec form -> the Python object put into temp/perm"""
    if v is None:
        return None
    t = v[0]
    if t == "I":
        return int(v[1])
    if t == "F":
        return float(v[1])
    if t == "D":
        np_kind, items = v[1], v[2]
        if np_kind == 0:
            return {k: float(x) for k, x in items}
        if np_kind == 1:
            return {k: np.float64(x) for k, x in items}
        return pd.Series({k: float(x) for k, x in items}, dtype=float)
    raise ValueError(v)


def mk_dict(d):
    return {k: mk_val(v) for k, v in d}


def snap_val(v):
    """canonical comparable form of a real (or oracle) value"""
    if v is None:
        return ("N",)
    if isinstance(v, bool):
        return ("?", "bool")
    if isinstance(v, (int, np.integer)):
        return ("I", int(v))
    if isinstance(v, (float, np.floating)):
        return ("F", f2b(v))
    if isinstance(v, dict):
        return ("D", tuple(sorted((str(k), f2b(x)) for k, x in v.items())))
    if isinstance(v, pd.Series):
        return ("D", tuple(sorted((str(k), f2b(x)) for k, x in v.items())))
    return ("?", type(v).__name__)


def snap_dict(d):
    return tuple(sorted((str(k), snap_val(v)) for k, v in d.items()))


def tok_val(v):
    if v is None:
        return ["N"]
    t = v[0]
    if t == "I":
        return ["I", str(int(v[1]))]
    if t == "F":
        return ["F", str(f2b(v[1]))]
    if t == "D":
        out = ["D", "1" if v[1] else "0", str(len(v[2]))]
        for k, x in v[2]:
            out += [k, str(f2b(x))]
        return out
    raise ValueError(v)


def tok_dict(d):
    out = [str(len(d))]
    for k, v in d:
        out.append(k)
        out += tok_val(v)
    return out


def real_to_spec_val(v):
    """real value found in a node's temp/perm -> spec form (pre-state of a run segment)"""
    if v is None:
        return None
    if isinstance(v, (int, np.integer)) and not isinstance(v, bool):
        return ["I", int(v)]
    if isinstance(v, (float, np.floating)):
        return ["F", float(v)]
    if isinstance(v, dict):
        npk = 1 if any(isinstance(x, np.floating) for x in v.values()) else 0
        return ["D", npk, [[k, float(x)] for k, x in v.items()]]
    if isinstance(v, pd.Series):
        return ["D", 2, [[k, float(x)] for k, x in v.items()]]
    raise ValueError("unsupported value in temp/perm: %r" % (v,))


def real_to_spec_dict(d):
    return [[k, real_to_spec_val(v)] for k, v in d.items()]


# ---------------------------------------------------------------- programs -> tokens
def tok_prog(p, calls):
    k = p["k"]
    ra = str(p["ra"])
    if k == "M":
        done = calls.get(p["id"], 0)
        script = p["script"][done:]
        return (["M", ra, str(p["id"]), str(len(script))] + ["1" if b else "0" for b in script] +
                ["1" if p["dflt"] else "0"] + tok_dict(p["wt"]) + tok_dict(p["wp"]))
    if k in ("S", "O"):
        out = [k, ra, str(len(p["ps"]))]
        for q in p["ps"]:
            out += tok_prog(q, calls)
        return out
    if k == "X":
        return ["X", ra] + tok_prog(p["p"], calls)
    if k == "R":
        pr = p["pred"]
        if pr[0] == "c":
            pt = ["c", "1" if pr[1] else "0"]
        elif pr[0] == "g":
            pt = ["g", str(int(pr[1]))]
        else:
            pt = [pr[0]]
        return ["R", ra] + pt + [p["item"], "1" if p["ifn"] else "0"]
    if k == "B":
        return ["B", ra, str(f2b(p["tol"]))]
    raise ValueError(k)


class Toks:
    def __init__(self, line):
        self.t = line.split()
        self.i = 0

    def next(self):
        x = self.t[self.i]
        self.i += 1
        return x

    def nat(self):
        return int(self.next())

    def val(self):
        t = self.next()
        if t == "N":
            return ("N",)
        if t == "I":
            return ("I", int(self.next()))
        if t == "F":
            return ("F", int(self.next()))
        if t == "D":
            self.next()
            n = self.nat()
            items = []
            for _ in range(n):
                k = self.next()
                items.append((k, int(self.next())))
            return ("D", tuple(sorted(items)))
        raise ValueError("bad value tag " + t)

    def dict(self):
        n = self.nat()
        out = []
        for _ in range(n):
            k = self.next()
            out.append((k, self.val()))
        return tuple(sorted(out))

    def log(self):
        n = self.nat()
        out = []
        for _ in range(n):
            t = self.next()
            if t == "V":
                out.append(("V", self.next()))
            else:
                s = self.next()
                i = self.nat()
                out.append(("C", s, i, self.dict(), self.dict()))
        return out

    def node(self):
        t = self.next()
        name = self.next()
        if t == "S":
            return None
        temp = self.dict()
        perm = self.dict()
        n = self.nat()
        out = {"name": name, "temp": temp, "perm": perm, "kids": []}
        for _ in range(n):
            k = self.node()
            if k is not None:
                out["kids"].append(k)
        return out


# ---------------------------------------------------------------- real objects
class Rec:
    """what the mocks record; survives the deepcopy bt makes of children"""

    def __init__(self):
        self.log = []
        self.calls = {}

    def __deepcopy__(self, memo):
        return self


PREDS = {
    "c": lambda b: (lambda x: b),
    "g": lambda n: (lambda x: type(x) is int and x > n),
    "ne": lambda: (lambda x: isinstance(x, (dict, pd.Series)) and len(x) > 0),
    "num": lambda: (lambda x: type(x) is float),
}

_CLASSES = {}


def classes(bt):
    key = id(bt)
    if key in _CLASSES:
        return _CLASSES[key]

    def mock_body(rec, spec, target):
        mid = spec["id"]
        n = rec.calls.get(mid, 0)
        rec.calls[mid] = n + 1
        rec.log.append(("C", target.name, mid, snap_dict(target.temp), snap_dict(target.perm)))
        for k, v in spec["wt"]:
            target.temp[k] = mk_val(v)
        for k, v in spec["wp"]:
            target.perm[k] = mk_val(v)
        s = spec["script"]
        return s[n] if n < len(s) else spec["dflt"]

    class MockAlgo(bt.Algo):
        def __init__(self, rec, spec):
            super(MockAlgo, self).__init__(name="mock%d" % spec["id"])
            self.rec = rec
            self.spec = spec

        def __call__(self, target):
            return mock_body(self.rec, self.spec, target)

    def mock_fn(rec, spec):
        def algo(target):
            return mock_body(rec, spec, target)
        return algo

    class VStrategy(bt.Strategy):
        """user-level subclass: records that run() was entered, then does what Strategy.run does"""
        _rec = None

        def run(self):
            self._rec.log.append(("V", self.name))
            super(VStrategy, self).run()

    _CLASSES.clear()
    _CLASSES[key] = (MockAlgo, mock_fn, VStrategy)
    return _CLASSES[key]


def build_algo(bt, p, rec, cache):
    """spec -> the real algo object (same mock id -> same object)"""
    MockAlgo, mock_fn, _ = classes(bt)
    k = p["k"]
    if k == "M":
        if p["id"] in cache:
            return cache[p["id"]]
        a = mock_fn(rec, p) if p.get("fn") else MockAlgo(rec, p)
        cache[p["id"]] = a
    elif k == "S":
        a = bt.AlgoStack(*[build_algo(bt, q, rec, cache) for q in p["ps"]])
    elif k == "O":
        lst = [build_algo(bt, q, rec, cache) for q in p["ps"]]
        a = bt.algos.Or(tuple(lst) if p.get("tuple") else lst)
    elif k == "X":
        a = bt.algos.Not(build_algo(bt, p["p"], rec, cache))
    elif k == "R":
        pr = p["pred"]
        a = bt.algos.Require(PREDS[pr[0]](*pr[1:]), p["item"], p["ifn"])
    elif k == "B":
        a = bt.algos.RunIfOutOfBounds(p["tol"])
    else:
        raise ValueError(k)
    if p["ra"] == 1:
        a = bt.algos.run_always(a)
    elif p["ra"] == 2:
        a.run_always = False
    return a


def build_target(bt, ts):
    """a real strategy for `call` cases; ts["bare"]: never set up (mocks only touch name/temp/perm)"""
    if ts.get("bare"):
        return bt.Strategy(ts.get("name", "tgt"))
    kids = []
    for kd in ts["kids"]:
        if kd["t"] == "lazy":
            kids.append(kd["name"])
        elif kd["t"] == "sec":
            kids.append(bt.Security(kd["name"]))
        else:
            kids.append(bt.Strategy(kd["name"], [], [bt.Security(x) for x in kd["secs"]]))
    s = bt.Strategy(ts.get("name", "tgt"), [], kids)
    dates = pd.date_range("2021-01-04", periods=len(ts["prices"]))
    data = pd.DataFrame(ts["prices"], index=dates, columns=ts["cols"], dtype=float)
    s.setup(data)
    if ts["capital"]:
        s.adjust(float(ts["capital"]))
    s.update(dates[0])
    for name, w in ts["alloc"]:
        try:
            s.rebalance(w, name)
            c = s.children[name]
            if isinstance(c, bt.core.StrategyBase):
                for x in list(c.children)[:2]:
                    c.rebalance(0.4, x)
        except Exception:
            pass
    if ts["advance"]:
        s.update(dates[1])
    return s


def read_kids(node):
    out = []
    for c in node.children.values():
        w = c.weight
        out.append([c.name, float(w), bool(isinstance(w, np.floating))])
    return out


def exc_kind(e):
    return type(e).__name__


# ---------------------------------------------------------------- the oracle (from the property text)
class NotJudged(Exception):
    pass


class OTarget:
    def __init__(self, name, kids, temp, perm):
        self.name = name
        self.kids = kids
        self.temp = temp
        self.perm = perm


class Oracle:
    """Expected behaviour, read off the property statement:
       a stack runs its algos in order; once one has returned False only algos marked run_always are still executed; it
       reports True iff none returned False.  Or runs every branch, any().  Not inverts.  Require: predicate on the temp entry,
       default when absent/None.  RunIfOutOfBounds: True iff some child named in the targets is off by more than the tolerance
       (no targets at all: True).  Strategy.run: temp starts empty, perm is kept, own stack, then each child once, in order."""

    def __init__(self, calls=None):
        self.log = []
        self.calls = dict(calls or {})
        self.cash_branch = False   # a RunIfOutOfBounds was evaluated with a cash entry and nothing out of bounds

    def call(self, p, o):
        k = p["k"]
        if k == "M":
            n = self.calls.get(p["id"], 0)
            self.calls[p["id"]] = n + 1
            self.log.append(("C", o.name, p["id"], snap_dict(o.temp), snap_dict(o.perm)))
            for key, v in p["wt"]:
                o.temp[key] = mk_val(v)
            for key, v in p["wp"]:
                o.perm[key] = mk_val(v)
            return p["script"][n] if n < len(p["script"]) else p["dflt"]
        if k == "S":
            failed = False
            for q in p["ps"]:
                if not failed:
                    if not self.call(q, o):
                        failed = True
                elif q["ra"] == 1:
                    self.call(q, o)
            return not failed
        if k == "O":
            return any([self.call(q, o) for q in p["ps"]])
        if k == "X":
            return not self.call(p["p"], o)
        if k == "R":
            v = o.temp.get(p["item"])
            if v is None:
                return p["ifn"]
            return PREDS[p["pred"][0]](*p["pred"][1:])(v)
        if k == "B":
            if "weights" not in o.temp:
                return True
            tg = o.temp["weights"]
            if not isinstance(tg, (dict, pd.Series)):
                raise NotJudged("weights entry is not a mapping")
            off = []
            for name, w, _ in o.kids:
                if name in tg:
                    t = float(tg[name])
                    if t == 0.0:
                        raise NotJudged("zero target weight")
                    off.append(abs(w - t) / abs(t) > p["tol"])
            if "cash" in o.temp and not any(off):
                self.cash_branch = True
            return any(off)
        raise ValueError(k)

    def run_tree(self, t, state, kidsw):
        """state: path -> {"temp", "perm"} carried by the oracle itself across runs"""
        def rec(n, path):
            if "sec" in n:
                return
            st = state[path]
            st["temp"] = {}
            self.log.append(("V", n["name"]))
            o = OTarget(n["name"], kidsw[path], st["temp"], st["perm"])
            self.call({"k": "S", "ra": 0, "ps": n["algos"]}, o)
            for i, kd in enumerate(n["kids"]):
                rec(kd, path + (i,))
        rec(t, ())


# ---------------------------------------------------------------- signatures (classes / counters)
def sig(p, calls=None):
    k = p["k"]
    r = ("", "!", "~")[p["ra"]]   # attribute absent / True / False
    if k == "M":
        n = (calls or {}).get(p["id"], 0)
        b = p["script"][n] if n < len(p["script"]) else p["dflt"]
        return r + ("T" if b else "F") + ("w" if p["wt"] or p["wp"] else "")
    if k == "S":
        return r + "[" + "".join(sig(q, calls) for q in p["ps"]) + "]"
    if k == "O":
        return r + "{" + "".join(sig(q, calls) for q in p["ps"]) + "}"
    if k == "X":
        return r + "-" + sig(p["p"], calls)
    if k == "R":
        return r + "R" + p["pred"][0] + ("1" if p["ifn"] else "0")
    return r + "B"


def depth(p):
    k = p["k"]
    if k in ("S", "O"):
        return 1 + max([depth(q) for q in p["ps"]] + [0])
    if k == "X":
        return 1 + depth(p["p"])
    return 0


def kinds_in(p, acc):
    acc.add(p["k"])
    if p["k"] in ("S", "O"):
        for q in p["ps"]:
            kinds_in(q, acc)
    elif p["k"] == "X":
        kinds_in(p["p"], acc)
    return acc


def count_stack(ctx, p, real_log_ids=None):
    """distribution counters for a top-level stack of mocks"""
    ps = p["ps"]
    ctx.count("stack:length:%s" % (len(ps) if len(ps) < 8 else "8+"))
    mode = "run-always-mode" if any(q["ra"] != 0 for q in ps) else "plain-mode"
    ctx.count("stack:" + mode)
    for q in ps:
        ctx.count("stack:member:%s:run_always-%s" % (top_name(q), RA_NAMES[q["ra"]]))
    if all(q["k"] == "M" for q in ps):
        rets = [q["script"][0] if q["script"] else q["dflt"] for q in ps]
        if all(rets):
            ctx.count("stack:flat:all-true")
        else:
            i = rets.index(False)
            ctx.count("stack:flat:first-false-at:%s" % (i if i < 6 else "6+"))
            ctx.count("stack:flat:failing-algo-run_always-" + RA_NAMES[ps[i]["ra"]])
            after = ps[i + 1:]
            ctx.count("stack:flat:after-failure:marked-True=%s" % min(sum(1 for q in after if q["ra"] == 1), 3))
            if any(q["ra"] == 2 for q in after):
                ctx.count("stack:flat:after-failure:has-attribute-False")
            if any(q["ra"] == 1 and not r for q, r in zip(after, rets[i + 1:])):
                ctx.count("stack:flat:after-failure:marked-algo-returns-False")


# ---------------------------------------------------------------- generators
def gen_val(rng, key=None):
    if key == "weights":
        if rng.random() < 0.9:
            names = rng.sample(["a", "b", "c", "d", "zz"], rng.randint(0, 3))
            return ["D", rng.choice([0, 0, 1, 2]), [[n, rng.choice([0.1, 0.25, 0.3, 0.5, -0.2, round(rng.uniform(0.01, 0.9), 3)])] for n in names]]
    if key == "cash":
        return ["F", rng.choice([0.0, 0.1, 0.5])]
    r = rng.random()
    if r < 0.15:
        return None
    if r < 0.6:
        return ["I", rng.randint(-2, 5)]
    if r < 0.75:
        return ["F", rng.choice([0.0, 0.5, -1.25, 3.0])]
    names = rng.sample(["a", "b", "c"], rng.randint(0, 2))
    return ["D", rng.choice([0, 1, 2]), [[n, rng.choice([0.1, 0.5, 1.0])] for n in names]]


def gen_key(rng, allow_cash):
    r = rng.random()
    if r < 0.7:
        return rng.choice(["k0", "k1", "k2", "selected"])
    if r < 0.93 or not allow_cash:
        return "weights"
    return "cash"


def gen_writes(rng, n, allow_cash):
    out = []
    for _ in range(n):
        k = gen_key(rng, allow_cash)
        out.append([k, gen_val(rng, k)])
    return out


class GenState:
    def __init__(self, rng, script_len=(1, 1), allow_cash=True, p_true=0.72, max_depth=3):
        self.rng = rng
        self.next_id = 1
        self.mocks = []
        self.script_len = script_len
        self.allow_cash = allow_cash
        self.p_true = p_true
        self.max_depth = max_depth

    def ra(self):
        r = self.rng.random()
        return 0 if r < 0.58 else (1 if r < 0.85 else 2)

    def mock(self):
        rng = self.rng
        if self.mocks and rng.random() < 0.06:
            return json.loads(json.dumps(rng.choice(self.mocks)))   # the same object again
        n = rng.randint(*self.script_len)
        m = {"k": "M", "ra": self.ra(), "id": self.next_id, "script": [rng.random() < self.p_true for _ in range(n)],
             "dflt": rng.random() < 0.5, "fn": rng.random() < 0.3,
             "wt": gen_writes(rng, rng.choice([0, 0, 0, 1, 1, 2]), self.allow_cash),
             "wp": gen_writes(rng, rng.choice([0, 0, 0, 1]), False)}
        self.next_id += 1
        self.mocks.append(m)
        return m

    def require(self):
        rng = self.rng
        pred = rng.choice([["c", True], ["c", False], ["g", rng.randint(-1, 3)], ["ne"], ["num"]])
        return {"k": "R", "ra": self.ra(), "pred": pred, "item": rng.choice(KEYS), "ifn": rng.random() < 0.5}

    def oob(self):
        return {"k": "B", "ra": self.ra(), "tol": self.rng.choice([0.0, 0.01, 0.05, 0.1, 0.2, 0.5, 1.0, 2.5])}

    def prog(self, d=0):
        rng = self.rng
        r = rng.random()
        if d >= self.max_depth:
            r = r * 0.62
        if r < 0.48:
            return self.mock()
        if r < 0.56:
            return self.require()
        if r < 0.62:
            return self.oob()
        if r < 0.76:
            return {"k": "S", "ra": self.ra(), "ps": [self.prog(d + 1) for _ in range(rng.choice([0, 1, 2, 2, 3, 3, 4]))]}
        if r < 0.90:
            return {"k": "O", "ra": self.ra(), "tuple": rng.random() < 0.3,
                    "ps": [self.prog(d + 1) for _ in range(rng.choice([0, 1, 2, 2, 3, 3, 4]))]}
        return {"k": "X", "ra": self.ra(), "p": self.prog(d + 1)}

    def stack(self, lo=0, hi=7, d=0):
        n = self.rng.randint(lo, hi)
        return {"k": "S", "ra": 0, "ps": [self.prog(d + 1) for _ in range(n)]}


def gen_target_spec(rng):
    names = rng.sample(["a", "b", "c", "d"], rng.randint(0, 4))
    kids = []
    cols = []
    for n in names:
        r = rng.random()
        if r < 0.65:
            kids.append({"t": "sec", "name": n})
            cols.append(n)
        elif r < 0.85:
            kids.append({"t": "lazy", "name": n})
            cols.append(n)
        else:
            secs = ["x" + n, "y" + n]
            kids.append({"t": "strat", "name": n, "secs": secs})
            cols += secs
    if not cols:
        cols = ["q"]
    prices = [[round(rng.uniform(5, 200), 2) for _ in cols] for _ in range(3)]
    capital = rng.choice([0, 1000.0, 100000.0, 1e6])
    alloc = [[n, rng.choice([0.1, 0.2, 0.25, 0.3, round(rng.uniform(0.01, 0.35), 3)])] for n in names if rng.random() < 0.8]
    return {"kids": kids, "cols": cols, "prices": prices, "capital": capital, "alloc": alloc,
            "advance": rng.random() < 0.6}


def gen_targets_around(rng, kids, tol):
    """target weights placed around the tolerance boundary of the real weights"""
    items = []
    for name, w, _ in kids:
        if rng.random() < 0.2:
            continue
        f = rng.choice([0.0, 0.5, 0.9, 0.999, 1.0, 1.001, 1.1, 2.0, 5.0])
        d = tol * f if tol > 0 else rng.choice([0.0, 1e-12, 0.3])
        if w == 0.0:
            t = rng.choice([0.1, 0.25, -0.3])
        else:
            den = (1 + d) if rng.random() < 0.5 or d >= 1 else (1 - d)
            t = w / den
            if rng.random() < 0.05:
                t = -t
        items.append([name, t])
    if rng.random() < 0.3:
        items.append(["zz", 0.2])
    rng.shuffle(items)
    return items


# ---------------------------------------------------------------- execution of a `call` case
TARGET_CACHE = {}


def get_target(bt, ts):
    key = (id(bt), json.dumps(ts, sort_keys=True))
    if key not in TARGET_CACHE:
        TARGET_CACHE[key] = build_target(bt, ts)
    return TARGET_CACHE[key]


def exec_call(bt, case):
    """real execution; returns dict(out, temp, perm, log, kids)"""
    rec = Rec()
    target = get_target(bt, case["target"])
    stale_amt = case.get("stale")
    if stale_amt:
        # the algo is called on a tree with pending changes (a capital flow just moved every weight) and nothing has read a
        # refreshing getter since: the expected answer is computed from the weights read AFTER the call
        import copy as _copy
        target = _copy.deepcopy(target)
        target.adjust(float(stale_amt))
        kids = None
    else:
        kids = read_kids(target)
    algo = build_algo(bt, case["prog"], rec, {})
    target.temp = mk_dict(case["temp"])
    target.perm = mk_dict(case["perm"])
    try:
        r = algo(target)
        out = ("ok", bool(r)) if isinstance(r, (bool, np.bool_)) else ("ok", "non-bool:" + type(r).__name__)
    except Exception as e:
        out = ("err", exc_kind(e))
    if kids is None:
        kids = read_kids(target)
    res = {"out": out, "temp": snap_dict(target.temp), "perm": snap_dict(target.perm), "log": list(rec.log), "kids": kids,
           "name": target.name}
    target.temp = {}
    target.perm = {}
    return res


def oracle_call(case, kids, name):
    orc = Oracle()
    o = OTarget(name, kids, mk_dict(case["temp"]), mk_dict(case["perm"]))
    try:
        r = orc.call(case["prog"], o)
    except NotJudged as e:
        return None, str(e)
    return {"out": ("ok", bool(r)), "temp": snap_dict(o.temp), "perm": snap_dict(o.perm), "log": orc.log,
            "cash_branch": orc.cash_branch}, None


def call_request(case, kids, name):
    toks = ["stack", "call"] + tok_prog(case["prog"], {}) + [name, str(len(kids))]
    for n, w, npf in kids:
        toks += [n, str(f2b(w)), "1" if npf else "0"]
    toks += tok_dict(case["temp"]) + tok_dict(case["perm"])
    return " ".join(toks)


def parse_call_answer(line):
    t = Toks(line)
    h = t.next()
    if h == "ok":
        out = ("ok", t.next() == "1")
    elif h == "err":
        out = ("err", t.next())
    else:
        return {"bad": line[:200]}
    return {"out": out, "temp": t.dict(), "perm": t.dict(), "log": t.log()}


CASH_KEY = "C13/oob:cash-entry:AttributeError"


def top_name(p):
    return {"S": "stack", "O": "or", "X": "not", "R": "require", "B": "oob", "M": "mock"}[p["k"]]


def diff_fields(a, b):
    return [f for f in ("out", "log", "temp", "perm") if a.get(f) != b.get(f)]


def judge_call(ctx, case, real, exp, why):
    """monitor: real result against the oracle"""
    p = case["prog"]
    if exp is None:
        ctx.count("monitor:not-judged:" + why)
        return
    ctx.count("monitor:judged:" + top_name(p))
    d = diff_fields(real, exp)
    if not d:
        return
    kinds = kinds_in(p, set())
    if real["out"][0] == "err":
        if real["out"][1] == "AttributeError" and exp["cash_branch"]:
            key = CASH_KEY
        else:
            key = "C13/raises:%s:%s" % (real["out"][1], "+".join(sorted(kinds)))
    else:
        what = "result" if "out" in d else ("trace" if "log" in d else d[0])
        mode = ""
        if p["k"] == "S":
            mode = ":run-always-mode" if any(q["ra"] != 0 for q in p["ps"]) else ":plain-mode"
        key = "C13/%s:%s%s" % (top_name(p), what, mode)
    ctx.violation(key, "%s %s: real %s / expected %s (differs in %s); real log ids %s, expected %s" % (
        top_name(p), sig(p), real["out"], exp["out"], d, [e[2] for e in real["log"] if e[0] == "C"],
        [e[2] for e in exp["log"] if e[0] == "C"]), case)


def run_call_cases(ctx, bt, cases, corr):
    """execute, judge, and compare with the model"""
    reqs = []
    reals = []
    for case in cases:
        ctx.evaluations += 1
        real = exec_call(bt, case)
        exp, why = oracle_call(case, real["kids"], real["name"])
        judge_call(ctx, case, real, exp, why)
        reals.append(real)
        reqs.append(call_request(case, real["kids"], real["name"]))
        p = case["prog"]
        ctx.classes.add(("call", case.get("gen", ""), sig(p)[:60], real["out"]))
        ctx.count("call:top:" + top_name(p))
        ctx.count("call:outcome:%s" % (real["out"],))
        ctx.count("call:depth:%d" % depth(p))
        if p["k"] == "S":
            count_stack(ctx, p)
    answers = leanrun.run_lines(reqs)
    nd = 0
    for case, real, ans in zip(cases, reals, answers):
        m = parse_call_answer(ans)
        if "bad" in m:
            nd += 1
            ctx.disagreement(corr, {"driver": m["bad"]}, case)
            continue
        d = diff_fields(real, m)
        if d:
            nd += 1
            ctx.disagreement(corr + ":" + top_name(case["prog"]) + ":" + d[0],
                             {"fields": d, "real": str(real["out"]), "model": str(m["out"]), "sig": sig(case["prog"])[:80]}, case)
    return len(cases), nd


# ---------------------------------------------------------------- case families
BARE = {"bare": True}


def truth_table_cases(n):
    """all flat stacks of length n over (return, attribute)"""
    opts = [(b, ra) for b in (True, False) for ra in (0, 1, 2)]
    for pat in itertools.product(opts, repeat=n):
        ps = [{"k": "M", "ra": ra, "id": i + 1, "script": [b], "dflt": b, "fn": (i % 3 == 2), "wt": [], "wp": []}
              for i, (b, ra) in enumerate(pat)]
        yield {"kind": "call", "gen": "truth-table", "prog": {"k": "S", "ra": 0, "ps": ps}, "target": BARE, "temp": [], "perm": []}


def random_flat_stack(rng, n):
    first_false = rng.randint(0, n)     # position of the first False (n: none), uniform so that late failures are covered
    pat = [(True if i < first_false else (False if i == first_false else rng.random() < 0.5), rng.choice([0, 0, 1, 1, 2]))
           for i in range(n)]
    ps = [{"k": "M", "ra": ra, "id": i + 1, "script": [b], "dflt": b, "fn": rng.random() < 0.3, "wt": [], "wp": []}
          for i, (b, ra) in enumerate(pat)]
    return {"kind": "call", "gen": "long-flat", "prog": {"k": "S", "ra": 0, "ps": ps}, "target": BARE, "temp": [], "perm": []}


def gen_prog_case(rng):
    gs = GenState(rng)
    r = rng.random()
    if r < 0.6:
        p = gs.stack(0, 7)
    elif r < 0.75:
        p = {"k": "O", "ra": 0, "tuple": rng.random() < 0.3, "ps": [gs.prog(1) for _ in range(rng.randint(0, 5))]}
    elif r < 0.85:
        p = {"k": "X", "ra": gs.ra(), "p": gs.prog(1)}
    else:
        p = gs.require()
    temp = gen_writes(rng, rng.choice([0, 0, 1, 2, 3]), True)
    # de-duplicate keys (a dict literal)
    temp = list({k: [k, v] for k, v in temp}.values())
    perm = gen_writes(rng, rng.choice([0, 0, 1]), False)
    perm = list({k: [k, v] for k, v in perm}.values())
    return {"kind": "call", "gen": "program", "prog": p, "target": BARE, "temp": temp, "perm": perm}


def gen_require_case(rng):
    gs = GenState(rng)
    p = gs.require()
    p["ra"] = 0
    mode = rng.choice(["absent", "none", "present", "present"])
    temp = gen_writes(rng, rng.choice([0, 1, 2]), False)
    temp = [kv for kv in {k: [k, v] for k, v in temp}.values() if kv[0] != p["item"]]
    if mode == "none":
        temp.append([p["item"], None])
    elif mode == "present":
        v = gen_val(rng, p["item"] if p["item"] == "weights" else None)
        temp.append([p["item"], v])
    return {"kind": "call", "gen": "require:" + mode, "prog": p, "target": BARE, "temp": temp, "perm": []}


def gen_oob_case(rng, bt, pool):
    ts = rng.choice(pool)
    target = get_target(bt, ts)
    kids = read_kids(target)
    tol = rng.choice([0.0, 0.01, 0.05, 0.1, 0.2, 0.5, 1.0, 2.5, round(rng.uniform(0.001, 0.6), 4)])
    r = rng.random()
    gen = "oob"
    temp = []
    if r < 0.08:
        gen = "oob:no-weights"
    else:
        items = gen_targets_around(rng, kids, tol)
        npk = rng.choice([0, 0, 1, 2])
        if r < 0.16 and items:
            gen = "oob:zero-target(ill-formed)"
            items[rng.randrange(len(items))][1] = 0.0
        if r > 0.96:
            gen = "oob:weights-not-a-mapping(ill-formed)"
            temp.append(["weights", rng.choice([None, ["I", 3], ["F", 0.5]])])
        else:
            temp.append(["weights", ["D", npk, items]])
    if rng.random() < 0.15:
        temp.append(["cash", ["F", rng.choice([0.0, 0.1, 0.5])]])
        gen += "+cash"
    if rng.random() < 0.3:
        temp.append(["k0", ["I", 1]])
    rng.shuffle(temp)
    case = {"kind": "call", "gen": gen, "prog": {"k": "B", "ra": 0, "tol": tol}, "target": ts, "temp": temp, "perm": []}
    if gen == "oob" and rng.random() < 0.3 and ts.get("capital"):
        # a deposit / withdrawal right before the call: the tree is stale when the algo reads the weights
        case["stale"] = float(ts["capital"]) * rng.choice([1.0, 0.5, 3.0, -0.4])
        case["gen"] = "oob:stale-tree"
    return case


# ---------------------------------------------------------------- trees: Strategy.run
def gen_tree(rng, gs, d, names):
    name = "s%d" % len(names)
    names.append(name)
    kids = []
    nk = rng.choice([0, 1, 2, 2, 3]) if d < 2 else rng.choice([0, 1, 2])
    used = set()
    for _ in range(nk):
        if d < 2 and rng.random() < 0.45:
            kids.append(gen_tree(rng, gs, d + 1, names))
        else:
            s = rng.choice([x for x in "abcdef" if x not in used])
            used.add(s)
            kids.append({"sec": s})
    algos = [gs.prog(1) for _ in range(rng.choice([0, 1, 2, 3, 4]))]
    perm0 = gen_writes(rng, rng.choice([0, 0, 1]), False)
    perm0 = list({k: [k, v] for k, v in perm0}.values())
    return {"name": name, "cls": "V" if rng.random() < 0.8 else "P", "algos": algos, "kids": kids, "perm0": perm0}


def tree_nodes(t, path=()):
    """strategy nodes in depth-first order with their paths"""
    if "sec" in t:
        return
    yield path, t
    for i, k in enumerate(t["kids"]):
        for x in tree_nodes(k, path + (i,)):
            yield x


def gen_run_case(rng):
    gs = GenState(rng, script_len=(1, 4), allow_cash=rng.random() < 0.1, max_depth=2)
    tree = gen_tree(rng, gs, 0, [])
    T = 4
    prices = [[round(rng.uniform(5, 200), 2) for _ in "abcdef"] for _ in range(T)]
    setup_ops = []
    for path, n in tree_nodes(tree):
        for k in n["kids"]:
            if rng.random() < 0.75:
                setup_ops.append([list(path), k["sec"] if "sec" in k else k["name"], rng.choice([0.1, 0.2, 0.3, 0.15])])
    segs = []
    paths = [list(p) for p, _ in tree_nodes(tree)]
    for _ in range(rng.choice([1, 1, 2, 3])):
        garbage = []
        for p in paths:
            if rng.random() < 0.5:
                g = gen_writes(rng, rng.choice([1, 2]), False)
                garbage.append([p, list({k: [k, v] for k, v in g}.values())])
        segs.append({"advance": rng.random() < 0.4 and len(segs) < T - 2, "garbage": garbage, "n": rng.choice([1, 1, 2, 3, 4])})
    return {"kind": "run", "gen": "tree", "tree": tree, "prices": prices, "capital": rng.choice([0.0, 1e5, 1e6]),
            "setup_ops": setup_ops, "segs": segs}


def build_tree(bt, t, rec):
    _, _, VStrategy = classes(bt)

    def mk(n, cache):
        if "sec" in n:
            return bt.Security(n["sec"])
        algos = [build_algo(bt, p, rec, cache) for p in n["algos"]]
        kids = [mk(k, cache) for k in n["kids"]]
        cls = VStrategy if n["cls"] == "V" else bt.Strategy
        s = cls(n["name"], algos, kids)
        if n["cls"] == "V":
            s._rec = rec
        return s

    return mk(t, {})


def node_at(root, t, path):
    n, sp = root, t
    for i in path:
        sp = sp["kids"][i]
        n = n.children[sp["sec"] if "sec" in sp else sp["name"]]
    return n


def tok_tree(t, pre, path, calls):
    if "sec" in t:
        w, npf = pre["w"][path]
        return ["S", t["sec"], str(f2b(w)), "1" if npf else "0"]
    st = pre["nodes"][path]
    w, npf = pre["w"][path]
    out = ["T", t["name"], str(f2b(w)), "1" if npf else "0", str(len(t["algos"]))]
    for p in t["algos"]:
        out += tok_prog(p, calls)
    out += tok_dict(st["temp"]) + tok_dict(st["perm"]) + [str(len(t["kids"]))]
    for i, k in enumerate(t["kids"]):
        out += tok_tree(k, pre, path + (i,), calls)
    return out


def tree_sig(t):
    if "sec" in t:
        return "."
    return "(" + ("" if t["cls"] == "V" else "p") + "".join(sig(p)[:12] for p in t["algos"])[:30] + "|" + "".join(tree_sig(k) for k in t["kids"]) + ")"


def tree_shape(t):
    if "sec" in t:
        return "."
    return "(" + "".join(tree_shape(k) for k in t["kids"]) + ")"


def tree_depth(t):
    if "sec" in t:
        return 0
    return 1 + max([tree_depth(k) for k in t["kids"]] + [0])


def exec_run_case(ctx, bt, case, corr, reqs_out):
    """runs the whole case on the real tree; judges every segment against the oracle; appends
    (request, real segment result, case, segment index) for the model comparison"""
    ctx.evaluations += 1
    tree = case["tree"]
    rec = Rec()
    try:
        root = build_tree(bt, tree, rec)
        dates = pd.date_range("2021-01-04", periods=len(case["prices"]))
        data = pd.DataFrame(case["prices"], index=dates, columns=list("abcdef"), dtype=float)
        root.setup(data)
        if case["capital"]:
            root.adjust(case["capital"])
        root.update(dates[0])
        for path, child, w in case["setup_ops"]:
            try:
                node_at(root, tree, tuple(path)).rebalance(w, child)
            except Exception:
                ctx.count("run:setup-op-raised")
        root.update(dates[0])
    except Exception as e:
        ctx.count("run:setup-raised:" + exc_kind(e))   # a raising algo inside a child's paper run: no run() to observe
        return
    plain = set(n["name"] for _, n in tree_nodes(tree) if n["cls"] != "V")
    nodes = [(p, n) for p, n in tree_nodes(tree)]
    # every strategy starts with a perm of its own, and an empty one (a strategy built now, after everything run so far in this
    # process, too): perm is per-strategy state
    objs = [node_at(root, tree, p) for p, n in nodes] + [bt.Strategy("fresh_%d" % ctx.evaluations)]
    ctx.count("run:perm-ownership-checked", len(objs))
    if len({id(o.perm) for o in objs}) != len(objs) or any(len(o.perm) for o in objs):
        shared = [o.name for o in objs if sum(1 for q in objs if q.perm is o.perm) > 1]
        ctx.violation("C13/perm-not-own-and-empty-at-construction", "strategies %r share a perm object / start with %r" % (shared, [dict(o.perm) for o in objs if len(o.perm)][:2]),
                      {"case": case})
        return
    for p, n in nodes:
        o_ = node_at(root, tree, p)
        o_.perm.update(mk_dict(n["perm0"]))      # (written into the strategy's own dict, not a replacement of it)
    ostate = {p: {"temp": {}, "perm": mk_dict(n["perm0"])} for p, n in nodes}
    ctx.classes.add(("run", tree_shape(tree), tree_sig(tree)[:80], len(case["segs"])))
    ctx.count("run:tree-depth:%d" % tree_depth(tree))
    ctx.count("run:kids-mix:" + "".join(sorted(set("sec" if "sec" in k else "strat" for _, n in nodes for k in n["kids"]))) )
    ctx.count("run:strategies:%d" % len(nodes))
    d = 0
    for si, seg in enumerate(case["segs"]):
        if seg["advance"] and d + 1 < len(dates):
            d += 1
            try:
                root.update(dates[d])
            except Exception as e:
                ctx.count("run:update-raised:" + exc_kind(e))
                return
        for path, g in seg["garbage"]:
            node_at(root, tree, tuple(path)).temp = mk_dict(g)
        # pre-state of the segment, read from the real tree
        pre = {"nodes": {}, "w": {}}
        kidsw = {}

        def walk(sp, path):
            n = node_at(root, tree, path)
            w = n.weight
            pre["w"][path] = (float(w), bool(isinstance(w, np.floating)))
            if "sec" in sp:
                return
            pre["nodes"][path] = {"temp": real_to_spec_dict(n.temp), "perm": real_to_spec_dict(n.perm)}
            kidsw[path] = read_kids(n)
            for i, k in enumerate(sp["kids"]):
                walk(k, path + (i,))
        walk(tree, ())
        calls0 = dict(rec.calls)
        del rec.log[:]
        err = None
        for _ in range(seg["n"]):
            try:
                root.run()
            except Exception as e:
                err = exc_kind(e)
                break
        real_log = list(rec.log)
        real_nodes = {p: {"temp": snap_dict(node_at(root, tree, p).temp), "perm": snap_dict(node_at(root, tree, p).perm)} for p, _ in nodes}
        ctx.count("run:segment-runs:%d" % seg["n"])
        ctx.count("run:segment-outcome:" + (err or "ok"))
        # ---- monitor
        orc = Oracle(calls0)
        judged = True
        try:
            for _ in range(seg["n"]):
                orc.run_tree(tree, ostate, kidsw)
        except NotJudged as e:
            judged = False
            ctx.count("monitor:not-judged:" + str(e))
        if judged:
            ctx.count("monitor:judged:run-segment")
            exp_log = [e for e in orc.log if not (e[0] == "V" and e[1] in plain)]
            key = None
            if err is not None:
                key = CASH_KEY if (err == "AttributeError" and orc.cash_branch) else "C13/raises:%s:run" % err
                what = "root.run() raised %s" % err
            else:
                rv = [e[1] for e in real_log if e[0] == "V"]
                ev = [e[1] for e in exp_log if e[0] == "V"]
                if rv != ev:
                    key, what = "C13/run:visits", "strategies entered %s, expected %s" % (rv, ev)
                elif [e[:3] for e in real_log] != [e[:3] for e in exp_log]:
                    key, what = "C13/run:trace", "calls %s, expected %s" % ([e[1:3] for e in real_log], [e[1:3] for e in exp_log])
                elif [e[3] for e in real_log if e[0] == "C"] != [e[3] for e in exp_log if e[0] == "C"]:
                    key, what = "C13/run:temp-seen", "temp seen by the algos differs from a run started with empty temp"
                elif [e[4] for e in real_log if e[0] == "C"] != [e[4] for e in exp_log if e[0] == "C"]:
                    key, what = "C13/run:perm-seen", "perm seen by the algos differs from the perm kept from earlier runs"
                else:
                    for p, _ in nodes:
                        if real_nodes[p]["temp"] != snap_dict(ostate[p]["temp"]):
                            key, what = "C13/run:temp-after", "temp of %s after the run: %s expected %s" % (list(p), real_nodes[p]["temp"], snap_dict(ostate[p]["temp"]))
                        elif real_nodes[p]["perm"] != snap_dict(ostate[p]["perm"]):
                            key, what = "C13/run:perm-after", "perm of %s after the run: %s expected %s" % (list(p), real_nodes[p]["perm"], snap_dict(ostate[p]["perm"]))
            if key:
                ctx.violation(key, "tree %s segment %d (%d runs): %s" % (tree_sig(tree)[:80], si, seg["n"], what), dict(case, upto=si))
        # the oracle carries its own perm; after an exception or an unjudged segment, resynchronise from the real tree
        if err is not None or not judged:
            for p, _ in nodes:
                n = node_at(root, tree, p)
                ostate[p] = {"temp": dict(n.temp), "perm": dict(n.perm)}
        # ---- model request
        req = " ".join(["stack", "run", str(seg["n"])] + tok_tree(tree, pre, (), calls0))
        reqs_out.append((req, {"err": err, "log": real_log, "nodes": real_nodes, "plain": plain, "order": [p for p, _ in nodes]}, case, si))
        if err is not None:
            return


def compare_run_segments(ctx, items, corr):
    answers = leanrun.run_lines([it[0] for it in items])
    nd = 0
    for (req, real, case, si), ans in zip(items, answers):
        t = Toks(ans)
        h = t.next()
        detail = None
        if h == "ok":
            mnode = t.node()
            mlog = [e for e in t.log() if not (e[0] == "V" and e[1] in real["plain"])]
            flat = []

            def fl(n):
                flat.append(n)
                for k in n["kids"]:
                    fl(k)
            fl(mnode)
            if real["err"] is not None:
                detail = {"field": "outcome", "real": real["err"], "model": "ok"}
            elif mlog != real["log"]:
                detail = {"field": "log", "real": [e[:3] for e in real["log"]][:30], "model": [e[:3] for e in mlog][:30]}
            else:
                for p, mn in zip(real["order"], flat):
                    if mn["temp"] != real["nodes"][p]["temp"] or mn["perm"] != real["nodes"][p]["perm"]:
                        detail = {"field": "temp/perm", "node": mn["name"], "real": str(real["nodes"][p]), "model": str((mn["temp"], mn["perm"]))}
                        break
        elif h == "err":
            kind = t.next()
            mlog = [e for e in t.log() if not (e[0] == "V" and e[1] in real["plain"])]
            if real["err"] != kind:
                detail = {"field": "outcome", "real": real["err"] or "ok", "model": kind}
            elif mlog != real["log"]:
                detail = {"field": "log-at-raise", "real": [e[:3] for e in real["log"]][:30], "model": [e[:3] for e in mlog][:30]}
        else:
            detail = {"driver": ans[:200]}
        if detail is not None:
            nd += 1
            ctx.disagreement(corr + ":" + str(detail.get("field", "driver")), detail, dict(case, upto=si))
    return len(items), nd


# ---------------------------------------------------------------- whole backtests (monitor only)
def backtest_case(ctx, bt, rng):
    """bt.Backtest drives Strategy.run once per date after the first: the log must be that many oracle runs"""
    gs = GenState(rng, script_len=(2, 6), allow_cash=False, max_depth=2)
    algos = [gs.prog(1) for _ in range(rng.randint(1, 4))]
    T = rng.randint(3, 6)
    prices = [[round(rng.uniform(20, 100), 2) for _ in "ab"] for _ in range(T)]
    case = {"kind": "backtest", "gen": "backtest", "algos": algos, "prices": prices}
    return case


def exec_backtest_case(ctx, bt, case):
    ctx.evaluations += 1
    rec = Rec()
    _, _, VStrategy = classes(bt)
    cache = {}
    algos = [build_algo(bt, p, rec, cache) for p in case["algos"]]
    s = VStrategy("root", algos, ["a", "b"])
    s._rec = rec
    dates = pd.date_range("2021-01-04", periods=len(case["prices"]))
    data = pd.DataFrame(case["prices"], index=dates, columns=["a", "b"], dtype=float)
    t = bt.Backtest(s, data, progress_bar=False)
    rs = t.strategy
    try:
        t.run()
    except Exception as e:
        ctx.count("backtest:raised:" + exc_kind(e))
        ctx.violation("C13/raises:%s:backtest" % exc_kind(e), "Backtest.run raised %r" % (e,), case)
        return
    orc = Oracle()
    tree = {"name": "root", "cls": "V", "algos": case["algos"], "kids": []}
    ostate = {(): {"temp": {}, "perm": {}}}
    n_runs = len(dates)   # Backtest prepends a synthetic first row: one run per supplied date
    try:
        for _ in range(n_runs):
            orc.run_tree(tree, ostate, {(): []})
    except NotJudged as e:
        ctx.count("monitor:not-judged:" + str(e))
        return
    ctx.count("monitor:judged:backtest")
    ctx.classes.add(("backtest", "".join(sig(p)[:10] for p in case["algos"])[:40], n_runs))
    if list(rec.log) != orc.log:
        rv = sum(1 for e in rec.log if e[0] == "V")
        key = "C13/backtest:runs" if rv != n_runs else "C13/backtest:trace"
        ctx.violation(key, "backtest over %d dates: %d runs (expected %d); calls %s expected %s" % (
            len(dates), rv, n_runs, [e[2] for e in rec.log if e[0] == "C"], [e[2] for e in orc.log if e[0] == "C"]), case)
    elif snap_dict(rs.perm) != snap_dict(ostate[()]["perm"]):
        ctx.violation("C13/backtest:perm-after", "perm after the backtest differs", case)


# ---------------------------------------------------------------- entry points
def target_pool(rng, n):
    return [gen_target_spec(rng) for _ in range(n)]


def chunks(it, n):
    buf = []
    for x in it:
        buf.append(x)
        if len(buf) >= n:
            yield buf
            buf = []
    if buf:
        yield buf


def corpus_cases():
    import glob
    import os
    here = os.path.dirname(os.path.dirname(os.path.dirname(os.path.abspath(__file__))))
    out = []
    for f in sorted(glob.glob(os.path.join(here, "corpus", "C13_*.json"))):
        out += json.load(open(f))["cases"]
    return out


def run_all(ctx, bt, mult=1.0, tag=""):
    rng = ctx.rng
    corr = "stack" + tag
    ncmp = ndis = 0
    # 0. corpus (known-finding witnesses, past disagreements)
    cc = [c for c in corpus_cases() if c["kind"] == "call"]
    if cc:
        a, b = run_call_cases(ctx, bt, cc, corr + ":call")
        ncmp += a
        ndis += b
        ctx.count("corpus-cases", len(cc))
    # 1. exhaustive truth tables
    L = ctx.scale(5, 6)
    for n in range(0, L + 1):
        for chunk in chunks(truth_table_cases(n), 4000):
            a, b = run_call_cases(ctx, bt, chunk, corr + ":call")
            ncmp += a
            ndis += b
    ctx.notes.append("flat stacks over (return in {T,F}) x (run_always in {absent,True,False}) enumerated exhaustively up to length %d" % L)
    # 2. longer flat stacks, sampled
    cases = [random_flat_stack(rng, rng.randint(L + 1, 14)) for _ in range(int(ctx.scale(400, 4000) * mult))]
    # 3. programs
    cases += [gen_prog_case(rng) for _ in range(int(ctx.scale(5000, 80000) * mult))]
    cases += [gen_require_case(rng) for _ in range(int(ctx.scale(600, 4000) * mult))]
    for chunk in chunks(cases, 4000):
        a, b = run_call_cases(ctx, bt, chunk, corr + ":call")
        ncmp += a
        ndis += b
    # 4. RunIfOutOfBounds on real strategies
    pool = target_pool(rng, int(ctx.scale(25, 120) * min(mult, 2)))
    cases = [gen_oob_case(rng, bt, pool) for _ in range(int(ctx.scale(2500, 40000) * mult))]
    for c in cases:
        ctx.count("oob:gen:" + c["gen"])
    for chunk in chunks(cases, 4000):
        a, b = run_call_cases(ctx, bt, chunk, corr + ":call")
        ncmp += a
        ndis += b
    TARGET_CACHE.clear()
    ctx.protocols.append((corr + ":call", ncmp, ndis))
    # 5. trees
    items = []
    for _ in range(int(ctx.scale(220, 3000) * mult)):
        exec_run_case(ctx, bt, gen_run_case(rng), corr + ":run", items)
    a, b = compare_run_segments(ctx, items, corr + ":run")
    ctx.protocols.append((corr + ":run", a, b))
    # 6. whole backtests (monitor only)
    for _ in range(int(ctx.scale(40, 300) * mult)):
        exec_backtest_case(ctx, bt, backtest_case(ctx, bt, rng))
    ctx.sample({"example-call-case": gen_prog_case(rng)})


def dynamic_attach_cases(ctx, bt, n):
    """a sub-strategy booked by the parent's OWN stack while it runs (`Strategy(name, algos, parent=target)`, `setup_from_parent()`):
    `run` = own stack first, then every child once - the child that the stack just attached included, on that very run"""
    for _ in range(n):
        T = ctx.rng.randint(4, 9)
        dates = pd.date_range("2021-02-01", periods=T)
        data = pd.DataFrame({"a": [10.0 + i for i in range(T)], "b": [20.0 - i for i in range(T)]}, index=dates)
        k = ctx.rng.randint(0, T - 2)
        n_static = ctx.rng.randint(0, 2)
        calls = []

        class Rec(bt.Algo):
            def __call__(self, target):
                if target.root.name == "top":        # (not the runs of a shadow copy, which is a tree of its own)
                    calls.append((target.root.now, target.name))
                return True

        class Attach(bt.Algo):
            def __init__(self):
                super(Attach, self).__init__()
                self.done = False

            def __call__(self, target):
                calls.append((target.now, target.name))
                if not self.done and target.now >= dates[k]:
                    self.done = True
                    kid = bt.Strategy("dyn", [Rec()], children=["a"], parent=target)
                    kid.setup_from_parent()
                    kid.update(target.now)
                return True
        kids = [bt.Strategy("st%d" % j, [Rec()], children=["b"]) for j in range(n_static)]
        top = bt.Strategy("top", [Attach()], children=kids + ["a"])
        ctx.evaluations += 1
        ctx.count("run:dynamic-attach-cases")
        try:
            top.setup(data)
            top.adjust(1000.0)
            for d in dates:
                top.update(d)
                top.run()
                top.update(d)
        except Exception as e:  # noqa
            ctx.count("run:dynamic-attach-raised:" + exc_kind(e))
            continue
        want = []
        for i, d in enumerate(dates):
            want.append((d, "top"))
            want += [(d, "st%d" % j) for j in range(n_static)]
            if i >= k:
                want.append((d, "dyn"))
        if calls != want:
            first = next((x for x in zip(calls + [None] * len(want), want + [None] * len(calls)) if x[0] != x[1]), None)
            ctx.violation("C13/run:child-attached-by-the-stack-not-run-once", "attach on %s under top (+%d declared sub-strategies): run order differs, first difference (real, expected) %r"
                          % (dates[k].date(), n_static, first), {"case": {"dynamic_attach": [T, k, n_static]}})


def run(ctx, bt):
    run_all(ctx, bt)
    dynamic_attach_cases(ctx, bt, ctx.scale(40, 500))


def search(ctx, bt):
    run_all(ctx, bt, mult=ctx.scale(6.0, 3.0), tag=":search")


def replay(bt, data, ctx):
    case = data["case"]
    if "dynamic_attach" in case:
        dynamic_attach_cases(ctx, bt, 200)      # regenerated from the seed of the run
        return
    if case["kind"] == "call":
        a, b = run_call_cases(ctx, bt, [case], "stack:call")
    elif case["kind"] == "run":
        items = []
        exec_run_case(ctx, bt, case, "stack:run", items)
        compare_run_segments(ctx, items, "stack:run")
    else:
        exec_backtest_case(ctx, bt, case)
