"""C03 price index: flow-neutral recurrence on every closed date (engine histories + whole backtests), index start,
cash-only strategies under arbitrary flows stay at 100, capital-scale twins."""
import copy

from .. import engine as E
from .. import gen_runs as R
from .. import monitors as M
from ..engine_run import Observer, run_engine_protocol, run_history_observed, model_compare, continuation_search
from ..runs_run import run_programs, run_one

RULE = ("engine histories with flow / non-flow adjustments, trades and date changes + generated backtests with CapitalFlow; recurrence "
        "price[t]*(value[t-1]+flows[t]) = price[t-1]*value[t] (additive form for fixed income) on every closed date; cash-only "
        "strategies under random flows; scaled-capital twins (fractional positions, size-proportional costs). "
        "distinct = (tree shape, op, outcome, integer, commission) / program shape")
ASSUMPTIONS = ["scale twins compared at 1e-7 relative: the sizing search stops at an absolute 1e-8 (np.isclose atol)",
               "dates are closed by an update before the clock moves"]

FOOT_FIELDS = {"price", "lastPrice", "lastValue", "lastNotl", "netFlows", "value", "notl", "rPrice", "rFlows", "rValue",
               "capital", "stale", "now"}


class Monitor(Observer):
    def __init__(self, ctx):
        self.ctx = ctx

    def finish(self, bt, spec, root, dates, steps):
        ok_steps = [s for s in steps if "err" not in s]
        if not ok_steps:
            return
        last = ok_steps[-1]["post"]
        now = last["root"]["now"]
        if now is None:
            return
        fresh = (not last["stale"]) and (not ok_steps[-1]["pending"]) and ("err" not in steps[-1])
        n = now + 1 if fresh else now
        self.ctx.count("index-dates-checked", n)
        for key, msg in M.index_check(bt, root, n, bt.core.PAR):
            self.ctx.violation("C03/" + key, msg, {"spec": spec, "mode": "history"})
        # the flows the recurrence is evaluated with are the flows the driver injected into the root - nothing the engine moves
        # around by itself (carry swept from securities, capital passed between parent and child) is a flow of the root
        if not any("err" in s for s in steps):
            user = M.user_log_from_ops(spec, steps)
            rec = [float(x) for x in root._all_flows.values]
            for k in range(min(n, len(rec))):
                w = user.get((spec["tree"]["name"], k), (0.0, 0.0))[0]
                self.ctx.count("history-flow-rows-checked")
                if abs(rec[k] - w) > 1e-9 * max(1.0, abs(rec[k]), abs(w)):
                    self.ctx.violation("C03/flows-row", "date#%d: root's recorded flows %r, injected as flows on that date %r" % (k, rec[k], w),
                                       {"spec": spec, "mode": "history"})
                    break


def check_program(ctx, bt, spec, b, log):
    for key, msg in M.index_check(bt, b.strategy, len(b.dates), bt.core.PAR):
        ctx.violation("C03/" + key, msg, {"spec": spec, "mode": "program"})
    # "fees do move the index": the schedule handed to the Backtest is charged on every trade anywhere in its tree, at any depth
    # (the harness' own view of each trade: quantity, execution price x multiplier, the fee the parent booked for it)
    if spec.get("comm") and log:
        fn = E.make_comm(*spec["comm"])
        top = id(b.strategy)
        for t in log:
            if t["paper"] != top or t["after"][0] == t["before"][0]:
                continue          # (another tree; or nothing was traded: a zero quantity is not charged)
            px = t["custom"] if t["custom"] is not None else t["price"]
            if px != px:
                continue
            want = float(fn(t["q"], px * t["mult"]))
            got = float(t["after"][2] - t["before"][2])
            ctx.count("trade-fees-checked")
            if abs(got - want) > 1e-9 * max(1.0, abs(want), abs(t["after"][2])):
                ctx.violation("C03/fee-not-charged", "%s on %s: trade of %r at %r x %r booked a fee of %r on %s, the backtest's commission schedule gives %r"
                              % (t["sec"], t["now"], t["q"], px, t["mult"], got, t["parent"], want), {"spec": spec, "mode": "program"})
                break
    # the flows the recurrence is evaluated with must be the flows that were really injected: every external `adjust(flow=True)`
    # on the root (initial capital, CapitalFlow, user algos - also those issued with update=False) is in the row of its date
    flows = getattr(b, "_verif_flow_log", None)
    if flows is not None and hasattr(b.strategy, "data"):
        root = b.strategy
        idx = list(root.data.index)
        want = {}
        for name, now, amount, is_flow, is_root in flows:
            if is_flow:
                # the initial capital is injected before the first update: it belongs to the first row
                k = 0 if (isinstance(now, int) and now == 0) else idx.index(now)
                want[k] = want.get(k, 0.0) + amount
        rec = [float(x) for x in root._all_flows.values]
        ctx.count("flow-rows-checked", len(rec))
        for k in range(len(rec)):
            w = want.get(k, 0.0)
            if abs(rec[k] - w) > 1e-9 * max(1.0, abs(rec[k]), abs(w)):
                ctx.violation("C03/flows-row", "date#%d: recorded flows %r, injected as flows on that date %r" % (k, rec[k], w), {"spec": spec, "mode": "program"})
                break


def cash_only(ctx, bt, n):
    """a strategy that never trades: any schedule of flows leaves the index at 100"""
    for _ in range(n):
        T = ctx.rng.randint(4, 12)
        dates, kind = R.gen_index(ctx.rng, T)
        flows = [float(ctx.rng.choice([0, 0, 1000, -500, 250000, -9999, 5, 0.5])) for _ in dates]
        spec = {"mode": "cash-only", "dates": dates, "flows": flows, "capital": float(ctx.rng.choice([1000, 1000000]))}
        ctx.evaluations += 1
        run_cash_only(ctx, bt, spec)


class _FlowByDate:
    def __init__(self, m):
        self.m = m

    def __call__(self, target):
        a = self.m.get(str(target.now.date()), 0.0)
        if a:
            target.adjust(a)
            if a > 1000:   # several flows on one date
                target.adjust(-a / 4)
        return True


def run_cash_only(ctx, bt, spec):
    import pandas as pd
    dates = spec["dates"]
    data = R.frame({"aa": [10.0 + i for i in range(len(dates))]}, dates)
    s = bt.Strategy("cashonly", [_FlowByDate(dict(zip(dates, spec["flows"])))])
    b = bt.Backtest(s, data, initial_capital=spec["capital"], progress_bar=False)
    b.run()
    pr = b.strategy.prices
    ctx.classes.add(("cash-only", len(dates), sum(1 for f in spec["flows"] if f)))
    bad = [(str(i), float(v)) for i, v in pr.items() if abs(v - bt.core.PAR) > 1e-9 * bt.core.PAR]
    if bad:
        ctx.violation("C03/flow-moves-index", "cash-only strategy under flows %r: index leaves 100 at %r" % (spec["flows"], bad[:3]), spec)
    for key, msg in M.index_check(bt, b.strategy, len(b.dates), bt.core.PAR):
        ctx.violation("C03/" + key, "cash-only: " + msg, spec)


def scale_twins(ctx, bt, n):
    done = 0
    tries = 0
    while done < n and tries < 6 * n:
        tries += 1
        spec = R.gen_run_spec(ctx.rng, nested=False)
        spec["integer"] = False
        spec["comm"] = ctx.rng.choice([[0, 0, 0], [3, 0, 0.001], [2, 0, 0.0078125]])
        spec["mode"] = "scale"
        spec["k"] = ctx.rng.choice([2.0, 0.5, 4.0, 8.0, 3.0, 10.0])
        if ctx.rng.random() < 0.5:
            # a small fund against a large one: at a unit of capital every trade's costs are fractions of a cent, so any absolute
            # (currency-unit) tolerance in the sizing shows as a dependence of the index on the amount of capital
            small = float(ctx.rng.choice([1.0, 2.0, 10.0, 100.0]))
            f = small / spec["capital"]
            spec["capital"] = small
            for d in spec["tree"]["stack"]:
                if d[0] == "CapitalFlow":
                    d[1] = d[1] * f
            spec["k"] = ctx.rng.choice([1e3, 1e6, 1024.0, 65536.0])
            ctx.count("scale-twins:small-fund-vs-large")
        ctx.evaluations += 1
        if run_scale_twin(ctx, bt, spec):
            done += 1


def _scaled(spec):
    s2 = copy.deepcopy(spec)
    k = spec["k"]
    s2["capital"] = spec["capital"] * k
    for d in s2["tree"]["stack"]:
        if d[0] == "CapitalFlow":
            d[1] = d[1] * k
    return s2


def run_scale_twin(ctx, bt, spec):
    try:
        b1, _, _ = R.build_backtest(bt, spec)
        b1.run()
        b2, _, _ = R.build_backtest(bt, _scaled(spec))
        b2.run()
    except Exception as e:  # noqa
        ctx.count("scale-twin-raised:" + E.classify_exc(e))
        return False
    if b1.strategy.bankrupt or b2.strategy.bankrupt:
        return False
    p1 = b1.strategy.prices.values
    p2 = b2.strategy.prices.values
    ctx.classes.add(("scale", spec["k"], spec["comm"][0], tuple(d[0] for d in spec["tree"]["stack"])))
    ctx.count("scale-twins")
    for i, (x, y) in enumerate(zip(p1, p2)):
        if not (abs(x - y) <= 1e-7 * max(1.0, abs(x), abs(y))):
            ctx.violation("C03/scale-dependence", "capital x%r: index differs on date#%d: %r vs %r" % (spec["k"], i, x, y), spec)
            break
    return True


def run(ctx, bt):
    run_engine_protocol(ctx, bt, ctx.scale(100, 1200), [Monitor(ctx)], FOOT_FIELDS, None, corr_name="step[C03]")
    # coupon income and holding costs under a market-value root: swept carry is performance, not a flow
    from .. import gen_engine as _G
    run_engine_protocol(ctx, bt, ctx.scale(25, 400), [Monitor(ctx)], FOOT_FIELDS, None, spec_kwargs={"fi_tree": False},
                        spec_mutator=_G.carry_tree, corr_name="step[C03]:carry-under-market-value-root")
    # flows consumed by an update, then a trade that leaves the tree stale when the clock moves
    run_engine_protocol(ctx, bt, ctx.scale(25, 400), [Monitor(ctx)], FOOT_FIELDS, None,
                        spec_mutator=_G.unclosed_trades, corr_name="step[C03]:trade-after-the-flow-was-consumed")
    run_programs(ctx, bt, ctx.scale(70, 1500), check_program)
    # three strategy levels with a commission schedule given at the top
    from .. import whole_run as _W
    for _ in range(ctx.scale(20, 400)):
        sp3 = _W.gen_spec(ctx.rng, nested=True, depth3=True)
        if sp3["comm"][0] == 0:
            sp3["comm"] = ctx.rng.choice([[3, 0, 0.001], [2, 0, 0.0078125], [1, 2.0, 0], [5, 1.0, 0.001]])
        ctx.evaluations += 1
        ctx.count("programs:three-levels-with-commissions")
        run_one(ctx, bt, sp3, check_program)
    cash_only(ctx, bt, ctx.scale(15, 300))
    scale_twins(ctx, bt, ctx.scale(25, 500))
    from ..runs_run import run_steps_protocol
    run_steps_protocol(ctx, bt, ctx.scale(12, 300), FOOT_FIELDS, "run-steps[C03]")
    from .. import whole_run as W
    # complete backtests of program trees (flat and nested, shadow copies included) executed end to end by the model
    W.whole_run_protocol(ctx, bt, ctx.scale(15, 300), "whole-run[C03]", footprint_fields=FOOT_FIELDS)
    # ... and programs with CapitalFlow at the head of the stack, counting schedulers and selection sequences
    W.whole_run_protocol(ctx, bt, ctx.scale(20, 400), "whole-run-x[C03]:capital-flows", footprint_fields=FOOT_FIELDS, extended=True)


def search(ctx, bt):
    continuation_search(ctx, bt, lambda: [Monitor(ctx)])
    if ctx.violations:
        return
    run_engine_protocol(ctx, bt, ctx.scale(500, 3000), [Monitor(ctx)], FOOT_FIELDS, None, corr_name="step[C03]:search")
    run_programs(ctx, bt, ctx.scale(300, 3000), check_program)


def replay(bt, data, ctx):
    case = data["case"]
    if case.get("mode") == "cash-only":
        return run_cash_only(ctx, bt, case)
    if case.get("mode") == "scale":
        return run_scale_twin(ctx, bt, case)
    spec = case["spec"]
    if case.get("mode") == "program":
        run_one(ctx, bt, spec, check_program)
    else:
        steps, root, dates = run_history_observed(bt, spec, ctx.rng, len(spec["ops"]), [Monitor(ctx)], ctx)
        model_compare(ctx, bt, [(spec, i, st) for i, st in enumerate(steps)], FOOT_FIELDS, None, "step[C03]")
