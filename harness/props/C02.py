"""C02 value conservation: day-by-day P&L attribution of the root from recorded series (engine histories and whole
backtests), step-wise correspondence inside the C02 footprint."""
from .. import engine as E
from .. import monitors as M
from ..engine_run import Observer, run_engine_protocol, run_history_observed, model_compare, continuation_search
from ..runs_run import run_programs, run_one

RULE = ("engine histories (all op kinds, fixed-income trees with coupons and holding costs included) and generated backtests; for every "
        "closed date value[t]-value[t-1] = MTM + flows + non-flow adjustments + carry(t-1) - fees - bid/offer; steps re-executed "
        "by the Lean model. distinct = (tree shape, op, outcome, integer, commission) / program shape")
ASSUMPTIONS = ["dates are closed by an update before the clock moves", "dates on which a held security has a missing price are skipped (ill-formed, C10)"]

FOOT_FIELDS = {"capital", "position", "value", "price", "rValue", "rCash", "rPosition", "netFlows", "lastFee", "rFees", "rFlows",
               "bidofferPaid", "rBidofferPaid", "coupon", "holdingCost", "rCoupon", "rHolding", "stale", "now", "bankrupt"}


class Monitor(Observer):
    def __init__(self, ctx):
        self.ctx = ctx

    def after(self, bt, spec, root, dates, step, i):
        # conservation at the level of a single operation (theorem C02.step_total evaluated on the real state)
        for key, msg in M.live_total_check(step):
            self.ctx.violation("C02/" + key, "op %d: %s" % (i, msg), {"spec": spec, "mode": "history", "upto": i})
        self.ctx.count("total-conservation-steps")

    def finish(self, bt, spec, root, dates, steps):
        ok_steps = [s for s in steps if "err" not in s]
        if not ok_steps:
            return
        last = ok_steps[-1]["post"]
        now = last["root"]["now"]
        if now is None:
            return
        fresh = (not last["stale"]) and (not ok_steps[-1]["pending"]) and ("err" not in steps[-1])
        n = now + 1 if fresh else now
        user = M.user_log_from_ops(spec, steps)
        self.ctx.count("pnl-dates-checked", max(0, n - 1))
        for key, msg in M.pnl_check(bt, root, n, user):
            self.ctx.violation("C02/" + key, msg, {"spec": spec, "mode": "history"})
        # "coupons less holding costs": from the frames that were supplied, each side of the cost schedule on its own
        for key, msg in M.carry_inputs_check(bt, root, spec):
            self.ctx.violation("C02/" + key, msg, {"spec": spec, "mode": "history"})
            break


def check_program(ctx, bt, spec, b, log):
    for key, msg in M.pnl_check(bt, b.strategy, len(b.dates), None):
        ctx.violation("C02/" + key, msg, {"spec": spec, "mode": "program"})


def dynamic_substrategy_cases(ctx, bt, n):
    """a sub-strategy booked while the run is going on (`Strategy(name, parent=p)`, `setup_from_parent()`, `update(p.now)`), funded by
    its parent, and trading on LATER dates in securities it creates then (children given as strings) or wakes from idle, after prices
    have moved: every date closed by an update, judged by the day-by-day attribution"""
    import pandas as pd
    from .. import gen_runs as R
    for _ in range(n):
        T = ctx.rng.randint(6, 10)
        dates, _k = R.gen_index(ctx.rng, T)
        idx = pd.DatetimeIndex(dates)
        names = R.TICKERS[:ctx.rng.randint(2, 4)]
        px = {t: [float(20 + 7 * j + ctx.rng.randint(-3, 6) * i) for i in range(T)] for j, t in enumerate(names)}
        for t in names:
            px[t] = [max(1.0, x) for x in px[t]]
        data = pd.DataFrame(px, index=idx)
        cap = 1000000.0
        root = bt.Strategy("top", children=list(names))
        root.setup(data)
        root.adjust(cap)
        root.update(idx[0])
        case = {"dyn": {"dates": dates, "names": names, "prices": px}}
        ctx.evaluations += 1
        ctx.count("dynamic-substrategy-cases")
        kb = ctx.rng.randint(1, T - 3)
        kid = None
        try:
            for i in range(1, T):
                root.update(idx[i])
                if i == kb:
                    kid = bt.Strategy("dyn", children=list(names), parent=root)
                    kid.setup_from_parent()
                    kid.update(root.now)
                    root.allocate(cap * ctx.rng.choice([0.1, 0.25, 0.5]), "dyn")
                    if ctx.rng.random() < 0.5:
                        kid.allocate(1000.0 * ctx.rng.randint(5, 40), names[0])
                elif kid is not None and ctx.rng.random() < 0.7:
                    nm = ctx.rng.choice(names)
                    if ctx.rng.random() < 0.5:
                        kid.allocate(1000.0 * ctx.rng.randint(5, 40), nm)
                    else:
                        kid.transact(float(ctx.rng.randint(10, 400)), nm)
                    if ctx.rng.random() < 0.3 and nm in kid.children and kid.children[nm]._position != 0:
                        kid.close(nm)
                if ctx.rng.random() < 0.5:
                    root.allocate(1000.0 * ctx.rng.randint(5, 40), ctx.rng.choice(names))
                root.update(idx[i])
        except Exception as e:  # noqa
            ctx.count("dynamic-substrategy:raised:" + E.classify_exc(e))
            continue
        ctx.classes.add(("dynamic-substrategy", len(names), kb))
        user = {("top", 0): (cap, 0.0)}
        for key, msg in M.pnl_check(bt, root, T, user):
            ctx.violation("C02/" + key + ":dynamic-substrategy", msg, case)
            break


def run(ctx, bt):
    dynamic_substrategy_cases(ctx, bt, ctx.scale(40, 600))
    from .. import gen_engine as _G
    run_engine_protocol(ctx, bt, ctx.scale(25, 400), [Monitor(ctx)], FOOT_FIELDS, None, spec_kwargs={"fi_tree": True},
                        spec_mutator=_G.carry_open_close, corr_name="step[C02]:carry-open-close")
    run_engine_protocol(ctx, bt, ctx.scale(30, 400), [Monitor(ctx)], FOOT_FIELDS, None,
                        spec_mutator=_G.zero_spell_hold, corr_name="step[C02]:hold-through-zero-price-spells")
    # carry accrued on the eve of a liquidation: levered market-value roots holding coupon-paying securities through crashes
    run_engine_protocol(ctx, bt, ctx.scale(25, 400), [Monitor(ctx)], FOOT_FIELDS, None, spec_kwargs={"fi_tree": False},
                        spec_mutator=_G.carry_tree, corr_name="step[C02]:carry-into-liquidation")
    run_engine_protocol(ctx, bt, ctx.scale(110, 1200), [Monitor(ctx)], FOOT_FIELDS, None, corr_name="step[C02]")
    run_programs(ctx, bt, ctx.scale(90, 1500), check_program)
    from ..runs_run import run_steps_protocol
    run_steps_protocol(ctx, bt, ctx.scale(12, 300), FOOT_FIELDS, "run-steps[C02]")
    from .. import whole_run as W
    # complete backtests of program trees (flat and nested, shadow copies included) executed end to end by the model
    W.whole_run_protocol(ctx, bt, ctx.scale(15, 300), "whole-run[C02]", footprint_fields=FOOT_FIELDS)


def search(ctx, bt):
    continuation_search(ctx, bt, lambda: [Monitor(ctx)])
    if ctx.violations:
        return
    run_engine_protocol(ctx, bt, ctx.scale(500, 3000), [Monitor(ctx)], FOOT_FIELDS, None, corr_name="step[C02]:search")
    run_programs(ctx, bt, ctx.scale(300, 3000), check_program)


def replay(bt, data, ctx):
    case = data["case"]
    if "dyn" in case:
        dynamic_substrategy_cases(ctx, bt, 300)      # regenerated from the seed of the run
        return
    spec = case["spec"]
    if case.get("mode") == "program":
        run_one(ctx, bt, spec, check_program)
    else:
        steps, root, dates = run_history_observed(bt, spec, ctx.rng, len(spec["ops"]), [Monitor(ctx)], ctx)
        model_compare(ctx, bt, [(spec, i, st) for i, st in enumerate(steps)], FOOT_FIELDS, None, "step[C02]")
