"""C02 value conservation: day-by-day P&L attribution of the root from recorded series (engine histories and whole
backtests), step-wise correspondence inside the C02 footprint."""
from .. import engine as E
from .. import monitors as M
from ..engine_run import Observer, run_engine_protocol, run_history_observed, model_compare, continuation_search
from ..runs_run import run_programs, run_one

RULE = ("engine histories (all op kinds, fixed-income trees with coupons and holding costs included) and generated backtests; for every "
        "closed date value[t]-value[t-1] = MTM + flows + non-flow adjustments + carry(t-1) - fees - bid/offer; steps re-executed "
        "by the Lean model; sub-strategies booked during a run in both orders (bind-then-fund, fund-then-bind), re-bound while "
        "holding cash, funded and drawn down again. distinct = (tree shape, op, outcome, integer, commission) / program shape")
ASSUMPTIONS = ["dates are closed by an update before the clock moves", "dates on which a held security has a missing price are skipped (ill-formed, C10)"]

FOOT_FIELDS = {"capital", "position", "value", "price", "rValue", "rCash", "rPosition", "netFlows", "lastFee", "rFees", "rFlows",
               "bidofferPaid", "rBidofferPaid", "coupon", "holdingCost", "rCoupon", "rHolding", "stale", "now", "bankrupt"}


class Monitor(Observer):
    def __init__(self, ctx):
        self.ctx = ctx

    def after(self, bt, spec, root, dates, step, i):
        # conservation at the level of a single operation (theorem C02.step_total evaluated on the real state)
        for key, msg in M.live_total_check(step):
            self.ctx.violation("C02/" + key, "op %d: %s" % (i, msg), {"spec": spec, "mode": "history", "upto": i})
        self.ctx.count("total-conservation-steps")

    def finish(self, bt, spec, root, dates, steps):
        ok_steps = [s for s in steps if "err" not in s]
        if not ok_steps:
            return
        last = ok_steps[-1]["post"]
        now = last["root"]["now"]
        if now is None:
            return
        fresh = (not last["stale"]) and (not ok_steps[-1]["pending"]) and ("err" not in steps[-1])
        n = now + 1 if fresh else now
        user = M.user_log_from_ops(spec, steps)
        self.ctx.count("pnl-dates-checked", max(0, n - 1))
        for key, msg in M.pnl_check(bt, root, n, user):
            self.ctx.violation("C02/" + key, msg, {"spec": spec, "mode": "history"})
        # "coupons less holding costs": from the frames that were supplied, each side of the cost schedule on its own
        for key, msg in M.carry_inputs_check(bt, root, spec):
            self.ctx.violation("C02/" + key, msg, {"spec": spec, "mode": "history"})
            break


def check_program(ctx, bt, spec, b, log):
    for key, msg in M.pnl_check(bt, b.strategy, len(b.dates), None):
        ctx.violation("C02/" + key, msg, {"spec": spec, "mode": "program"})


def dynamic_substrategy_cases(ctx, bt, n):
    """a sub-strategy booked while the run is going on (`Strategy(name, parent=p)`, `setup_from_parent()`, `update(p.now)`), funded by
    its parent, and trading on LATER dates in securities it creates then (children given as strings) or wakes from idle, after prices
    have moved: every date closed by an update, judged by the day-by-day attribution"""
    import pandas as pd
    from .. import gen_runs as R
    for _ in range(n):
        T = ctx.rng.randint(6, 10)
        dates, _k = R.gen_index(ctx.rng, T)
        idx = pd.DatetimeIndex(dates)
        names = R.TICKERS[:ctx.rng.randint(2, 4)]
        px = {t: [float(20 + 7 * j + ctx.rng.randint(-3, 6) * i) for i in range(T)] for j, t in enumerate(names)}
        for t in names:
            px[t] = [max(1.0, x) for x in px[t]]
        data = pd.DataFrame(px, index=idx)
        cap = 1000000.0
        root = bt.Strategy("top", children=list(names))
        root.setup(data)
        root.adjust(cap)
        root.update(idx[0])
        case = {"dyn": {"dates": dates, "names": names, "prices": px}}
        ctx.evaluations += 1
        ctx.count("dynamic-substrategy-cases")
        kb = ctx.rng.randint(1, T - 3)
        kid = None
        try:
            for i in range(1, T):
                root.update(idx[i])
                if i == kb:
                    kid = bt.Strategy("dyn", children=list(names), parent=root)
                    kid.setup_from_parent()
                    kid.update(root.now)
                    root.allocate(cap * ctx.rng.choice([0.1, 0.25, 0.5]), "dyn")
                    if ctx.rng.random() < 0.5:
                        kid.allocate(1000.0 * ctx.rng.randint(5, 40), names[0])
                elif kid is not None and ctx.rng.random() < 0.7:
                    nm = ctx.rng.choice(names)
                    if ctx.rng.random() < 0.5:
                        kid.allocate(1000.0 * ctx.rng.randint(5, 40), nm)
                    else:
                        kid.transact(float(ctx.rng.randint(10, 400)), nm)
                    if ctx.rng.random() < 0.3 and nm in kid.children and kid.children[nm]._position != 0:
                        kid.close(nm)
                if ctx.rng.random() < 0.5:
                    root.allocate(1000.0 * ctx.rng.randint(5, 40), ctx.rng.choice(names))
                root.update(idx[i])
        except Exception as e:  # noqa
            ctx.count("dynamic-substrategy:raised:" + E.classify_exc(e))
            continue
        ctx.classes.add(("dynamic-substrategy", len(names), kb))
        user = {("top", 0): (cap, 0.0)}
        for key, msg in M.pnl_check(bt, root, T, user):
            ctx.violation("C02/" + key + ":dynamic-substrategy", msg, case)
            break


def gen_booking_script(rng):
    """one scripted life of a sub-strategy booked while the run is going on.  Everything the runner does is in the script (no PRNG at
    run time), so a failing script is its own replay.  Varied: where the child hangs (under the root or under a static sub-strategy),
    how its securities are declared, the order of the two steps of opening it (bind it to the data then fund it / fund it then bind
    it), how the freshly bound node is brought to the current date, a commission schedule, and afterwards any mix of: more capital
    pushed down, capital pulled back, external flows at the root, re-binding the child (new additional data) while all it has ever
    held is cash, trades of the child and of its host"""
    from .. import gen_runs as R
    T = rng.randint(6, 10)
    dates, _k = R.gen_index(rng, T)
    names = R.TICKERS[:rng.randint(2, 4)]
    px = {t: [max(1.0, float(20 + 7 * j + rng.randint(-3, 6) * i)) for i in range(T)] for j, t in enumerate(names)}
    cap = 1000000.0
    kb = rng.randint(1, T - 3)
    quiet = rng.randint(0, 2)          # dates after the booking on which the child only holds cash
    sc = {"dates": dates, "names": names, "prices": px, "cap": cap,
          "nested": rng.random() < 0.4,
          "kid_children": rng.choice(["strings", "strings", "none", "nodes"]),
          "comm_bps": rng.choice([0, 0, 5, 10]),
          "integer": rng.random() < 0.6,
          "kb": kb,
          "order": rng.choice(["fund-bind", "fund-bind", "bind-fund"]),
          "fund": cap * rng.choice([0.1, 0.25, 0.5]),
          "fund_update": rng.random() < 0.5,
          "wake": rng.choice(["kid", "root", "host"]),
          "core": [rng.choice(names), 1000.0 * rng.randint(50, 300)] if rng.random() < 0.6 else None,
          "days": {}}
    for i in range(kb, T):
        ops = []
        live = i - kb >= quiet
        if i > kb or rng.random() < 0.4:
            for _ in range(rng.randint(0, 3)):
                r = rng.random()
                if r < 0.2:
                    ops.append(["fund", 1000.0 * rng.randint(5, 60)])
                elif r < 0.35:
                    ops.append(["pull", 1000.0 * rng.randint(1, 20)])
                elif r < 0.45:
                    ops.append(["flow", 1000.0 * rng.randint(-30, 50)])
                elif r < 0.6:
                    ops.append(["rebind", rng.choice(["kid", "root", "host"])])
                elif r < 0.7:
                    ops.append(["host-alloc", rng.choice(names), 1000.0 * rng.randint(5, 40)])
                elif live and r < 0.85:
                    ops.append(["kid-alloc", rng.choice(names), 1000.0 * rng.randint(2, 15)])
                elif live and r < 0.95:
                    ops.append(["kid-transact", rng.choice(names), float(rng.randint(10, 300))])
                elif live:
                    ops.append(["kid-close", rng.choice(names)])
        sc["days"][str(i)] = ops
    return sc


def run_booking_script(ctx, bt, sc):
    """execute a booking script on the real code, every date closed by an update of the root; judged by the day-by-day attribution of
    the ROOT (pnl_check): moving capital between a parent and its sub-strategies never changes total value.
    A re-bind (`setup_from_parent` again) starts the recorded histories of the child and of its securities over, so it is only
    scripted while the child has never traded: the rows that are wiped are all zero and the attribution still has its inputs."""
    import pandas as pd
    idx = pd.DatetimeIndex(sc["dates"])
    names = list(sc["names"])
    data = pd.DataFrame({t: [float(x) for x in sc["prices"][t]] for t in names}, index=idx)
    T = len(idx)
    cap = float(sc["cap"])
    if sc["nested"]:
        root = bt.Strategy("top", children=[bt.Strategy("mid", children=list(names))] + [bt.Security(t) for t in names])
        host = root.children["mid"]           # the constructor works on copies of the nodes it is given
    else:
        root = host = bt.Strategy("top", children=list(names))
    bps = sc["comm_bps"]
    fee = (lambda q, p: abs(q) * p * bps / 10000.0) if bps else None
    root.setup(data)
    if fee is not None:
        root.set_commissions(fee)
    root.use_integer_positions(bool(sc["integer"]))
    root.adjust(cap)
    root.update(idx[0])
    if sc["nested"]:
        root.allocate(cap * 0.5, "mid")
        root.update(idx[0])
    kid = None
    traded = False
    kb = sc["kb"]

    def wake(how):
        if how == "kid":
            kid.update(root.now)
        elif how == "host":
            host.update(root.now)
        root.update(root.now)

    for i in range(1, T):
        root.update(idx[i])
        if i == 1 and sc["core"]:
            host.allocate(sc["core"][1], sc["core"][0])
        if i == kb:
            if sc["kid_children"] == "strings":
                kids = list(names)
            elif sc["kid_children"] == "nodes":
                kids = [bt.Security(t) for t in names]
            else:
                kids = None
            kid = bt.Strategy("dyn", children=kids, parent=host)
            if sc["order"] == "fund-bind":
                host.allocate(sc["fund"], "dyn", update=sc["fund_update"])
                kid.setup_from_parent()
                ctx.count("booking:fund-then-bind")
            else:
                kid.setup_from_parent()
                host.allocate(sc["fund"], "dyn", update=sc["fund_update"])
                ctx.count("booking:bind-then-fund")
            if fee is not None:
                kid.set_commissions(fee)
            kid.use_integer_positions(bool(sc["integer"]))
            wake(sc["wake"])
        if kid is not None:
            for op in sc["days"].get(str(i), []):
                k = op[0]
                if k == "fund":
                    host.allocate(op[1], "dyn")
                elif k == "pull":
                    if kid.capital >= op[1]:
                        host.allocate(-op[1], "dyn")
                        ctx.count("booking:capital-pulled-back")
                elif k == "flow":
                    if op[1] > 0 or root.capital > -op[1]:
                        root.adjust(op[1])
                elif k == "rebind":
                    if not traded:
                        held = kid.capital
                        kid.setup_from_parent(note=i)
                        if fee is not None:
                            kid.set_commissions(fee)
                        wake(op[1])
                        ctx.count("booking:rebind-holding-cash" if held else "booking:rebind-empty")
                elif k == "host-alloc":
                    host.allocate(op[2], op[1])
                elif k == "kid-alloc":
                    traded = True
                    kid.allocate(op[2], op[1])
                elif k == "kid-transact":
                    traded = True
                    kid.transact(op[2], op[1])
                elif k == "kid-close":
                    if op[1] in kid.children and kid.children[op[1]]._position != 0:
                        kid.close(op[1])
        root.update(idx[i])
    return root, T


def booking_order_cases(ctx, bt, n):
    """the two orders of opening a sub-strategy during a run, and re-binding one that holds cash (see gen_booking_script)"""
    for _ in range(n):
        sc = gen_booking_script(ctx.rng)
        check_booking_script(ctx, bt, sc)


def check_booking_script(ctx, bt, sc):
    ctx.evaluations += 1
    ctx.count("booking-order-cases")
    try:
        root, T = run_booking_script(ctx, bt, sc)
    except Exception as e:  # noqa
        ctx.count("booking-order:raised:" + E.classify_exc(e))
        return
    ctx.classes.add(("booking-order", sc["order"], sc["nested"], sc["kid_children"], sc["wake"], bool(sc["comm_bps"])))
    for key, msg in M.pnl_check(bt, root, T, None):
        ctx.violation("C02/" + key + ":booking-order", "%s, %s: %s" % (sc["order"], "under a sub-strategy" if sc["nested"] else "under the root", msg),
                      {"booking": sc})
        break


def run(ctx, bt):
    dynamic_substrategy_cases(ctx, bt, ctx.scale(40, 600))
    from .. import gen_engine as _G
    run_engine_protocol(ctx, bt, ctx.scale(25, 400), [Monitor(ctx)], FOOT_FIELDS, None, spec_kwargs={"fi_tree": True},
                        spec_mutator=_G.carry_open_close, corr_name="step[C02]:carry-open-close")
    run_engine_protocol(ctx, bt, ctx.scale(30, 400), [Monitor(ctx)], FOOT_FIELDS, None,
                        spec_mutator=_G.zero_spell_hold, corr_name="step[C02]:hold-through-zero-price-spells")
    # carry accrued on the eve of a liquidation: levered market-value roots holding coupon-paying securities through crashes
    run_engine_protocol(ctx, bt, ctx.scale(25, 400), [Monitor(ctx)], FOOT_FIELDS, None, spec_kwargs={"fi_tree": False},
                        spec_mutator=_G.carry_tree, corr_name="step[C02]:carry-into-liquidation")
    run_engine_protocol(ctx, bt, ctx.scale(110, 1200), [Monitor(ctx)], FOOT_FIELDS, None, corr_name="step[C02]")
    run_programs(ctx, bt, ctx.scale(90, 1500), check_program)
    from ..runs_run import run_steps_protocol
    run_steps_protocol(ctx, bt, ctx.scale(12, 300), FOOT_FIELDS, "run-steps[C02]")
    from .. import whole_run as W
    # complete backtests of program trees (flat and nested, shadow copies included) executed end to end by the model
    W.whole_run_protocol(ctx, bt, ctx.scale(15, 300), "whole-run[C02]", footprint_fields=FOOT_FIELDS)
    # last, so that the PRNG stream of the families above is the one their recorded replays were drawn from
    booking_order_cases(ctx, bt, ctx.scale(120, 1500))


def search(ctx, bt):
    continuation_search(ctx, bt, lambda: [Monitor(ctx)])
    if ctx.violations:
        return
    run_engine_protocol(ctx, bt, ctx.scale(500, 3000), [Monitor(ctx)], FOOT_FIELDS, None, corr_name="step[C02]:search")
    run_programs(ctx, bt, ctx.scale(300, 3000), check_program)


def replay(bt, data, ctx):
    case = data["case"]
    if "booking" in case:
        check_booking_script(ctx, bt, case["booking"])
        return
    if "dyn" in case:
        dynamic_substrategy_cases(ctx, bt, 300)      # regenerated from the seed of the run
        return
    spec = case["spec"]
    if case.get("mode") == "program":
        run_one(ctx, bt, spec, check_program)
    else:
        steps, root, dates = run_history_observed(bt, spec, ctx.rng, len(spec["ops"]), [Monitor(ctx)], ctx)
        model_compare(ctx, bt, [(spec, i, st) for i, st in enumerate(steps)], FOOT_FIELDS, None, "step[C02]")
