"""C20 risk / hedges / close / roll: the real algos (UpdateRisk, HedgeRisks, ClosePositionsAfterDates,
RollPositionsAfterDates, SelectActive) run inside the algo stacks of real strategies over several dates (manual
setup/update/run loop and whole bt.Backtest runs); every tapped call is re-executed by the Lean model from the
real pre-state (driver request `risk`) and judged by an independent monitor written from the property text."""
import copy
import glob
import json
import math
import os

import numpy as np
import pandas as pd

from .. import leanrun
from .. import risk_lib as R

RULE = ("generated programs = (tree: flat / nested to depth 3, Strategy or FixedIncomeStrategy roots, five security classes, lazy children, "
        "multipliers 1/10/0.5/100/2.5, integer or fractional positions) x (unit-risk tables: 1-3 measures, NaN holes, securities without a column) x "
        "(algo stacks over 4-8 dates: scripted real transactions, UpdateRisk history 0-3, HedgeRisks pseudo False/True with square / over- / under-determined "
        "instruments, ClosePositionsAfterDates, RollPositionsAfterDates with aggregation per target, SelectActive) run by the real engine "
        "(setup/update/run loop or bt.Backtest); every tapped algo call is replayed by the Lean model from the real pre-state (positions exact, "
        "hedge notionals and risks 1e-9 relative because numpy's matmul is external, bit-identical results counted) and judged by a monitor "
        "recomputing the property text from positions, tables and multipliers.  An ill-formed stream (singular / non-square Jacobian, hedge before "
        "UpdateRisk, no selection, NaN hedge notionals, missing date / measure, zero price) checks ok/which-error agreement; programs whose UpdateRisk "
        "calls use differing history depths (well-formed since the repair of UpdateRisk) are generated in the same stream.  "
        "distinct = (kind, root class, tree shape class, driver, algo, outcome class, parameter class)")
ASSUMPTIONS = [
    "np.linalg.inv / np.linalg.pinv / np.matmul are external: the (pseudo-)inverse numpy returned is handed to the model and is checked at run time "
    "(H*Hinv = 1 resp. the Penrose identities within 1e-8 relative) before the hedge clauses are judged; matmul's summation order (BLAS, FMA) is why "
    "hedge notionals are compared to 1e-9 relative instead of bit for bit",
    "hedge clauses are judged on Jacobians with condition number <= 1e6 and finite unit risks (a NaN unit risk or a singular square Jacobian is ill-formed)",
    "children of a strategy have distinct names (the code keeps them in a dict)",
    "prices of held securities are positive and finite on every date (a matured security must keep a price until it is closed, as the docstring demands); "
    "zero prices are generated in the ill-formed stream only",
    "roll chains (a target that is itself due to roll in the same call) are generated, replayed by the model and judged by the monitor: every matured position moves once, as it stood before the call; a roll target with a *close* date on the date it receives a position is not generated",
    "root.update(now) at the end of close / roll is the engine's (C01-C08), not re-modelled here; a security's own `now` is an input of each replayed call",
    "monitor tolerance 1e-9 * gross exposure for relations computed in doubles",
]

HERE = os.path.dirname(os.path.dirname(os.path.dirname(os.path.abspath(__file__))))
SEC_NAMES = ["b1", "b2", "b3", "b4", "b5", "g1", "g2", "g3", "g4", "x1", "x2"]
MULTS = [1.0, 1.0, 1.0, 10.0, 0.5, 100.0, 2.5]
FI_CLASSES = ["Security", "FixedIncomeSecurity", "HedgeSecurity", "CouponPayingSecurity", "CouponPayingHedgeSecurity"]
MV_CLASSES = ["Security", "Security", "Security", "HedgeSecurity"]


# ================================================================== generators
def gen_dates(rng, n=None):
    n = n or rng.randint(4, 8)
    start = pd.Timestamp(rng.choice(["2021-03-01", "2020-02-24", "2022-12-26", "2019-06-03"])) + pd.Timedelta(days=rng.randint(0, 20))
    kind = rng.choice(["D", "B", "7D"])
    if kind == "B":
        idx = pd.bdate_range(start, periods=n)
    else:
        idx = pd.date_range(start, periods=n, freq=kind)
    return [str(d.date()) for d in idx]


def gen_prices(rng, names, T, grid):
    out = {}
    for nm in names:
        if grid == "int":
            p = float(rng.randint(50, 150))
            col = []
            for _ in range(T):
                p = max(1.0, p + rng.randint(-3, 3))
                col.append(p)
        elif grid == "flat":
            col = [float(rng.randint(90, 110))] * T
        else:
            p = rng.uniform(60.0, 140.0)
            col = []
            for _ in range(T):
                p = p * math.exp(rng.gauss(0, 0.01))
                col.append(p)
        out[nm] = col
    return out


def gen_qty(rng, integer, big=False):
    s = rng.choice([-1, 1, 1, 1])
    if integer:
        return float(s * rng.randint(1, 400 if big else 60))
    return s * rng.choice([rng.randint(1, 400) / 8.0, rng.uniform(0.5, 300.0)])


def gen_unit(rng, grid):
    if grid == "int":
        return float(rng.randint(-9, 12)) or 1.0
    if grid == "dyadic":
        return (rng.randint(-40, 80) / 16.0) or 0.25
    return rng.uniform(-2.0, 6.0)


def gen_sec(rng, name, fi, lazy_ok=True, mult=None):
    cls = rng.choice(FI_CLASSES if fi else MV_CLASSES)
    return {"sec": name, "cls": cls, "mult": rng.choice(MULTS) if mult is None else mult, "lazy": bool(lazy_ok and rng.random() < 0.2)}


def gen_tree(rng, depth, fi, names, name="root"):
    """names: pool of security names (consumed); returns subtree"""
    kids = []
    nsec = rng.randint(1, 3) if depth > 0 else rng.randint(2, 4)
    for _ in range(nsec):
        if names:
            kids.append(gen_sec(rng, names.pop(), fi))
    if depth > 0:
        for j in range(rng.randint(1, 2)):
            sub_fi = fi and rng.random() < 0.7
            kids.append(gen_tree(rng, depth - 1, sub_fi, names, "%s%d" % ("s" if name == "root" else name + "_", j)))
        rng.shuffle(kids)
    return {"name": name, "fi": fi, "kids": kids, "stack": []}


def ensure_notional(t):
    """a fixed-income strategy made of hedges only has zero notional: the engine cannot compute its return (ill-formed)"""
    secs = [k for k in t["kids"] if "sec" in k]
    if t["fi"] and secs and not any(k["cls"] in ("Security", "FixedIncomeSecurity", "CouponPayingSecurity") and not k["lazy"] for k in secs):
        secs[0]["cls"] = "FixedIncomeSecurity"
        secs[0]["lazy"] = False
    for k in t["kids"]:
        if "sec" not in k:
            ensure_notional(k)


def tree_secs(t):
    out = []
    for k in t["kids"]:
        if "sec" in k:
            out.append(k)
        else:
            out += tree_secs(k)
    return out


def tree_strats(t, path=()):
    out = [(path, t)]
    for k in t["kids"]:
        if "sec" not in k:
            out += tree_strats(k, path + (k["name"],))
    return out


def tree_depth(t):
    return 1 + max([tree_depth(k) for k in t["kids"] if "sec" not in k] or [0])


def gen_tables(rng, measures, dates, names, grid, nan_rate=0.08, drop_rate=0.2, keep=()):
    """unit-risk tables: measure -> {cols: {name: [v|None]}}; `keep` names always get a full column"""
    out = {}
    for m in measures:
        cols = {}
        for nm in names:
            if nm not in keep and rng.random() < drop_rate:
                continue
            base = gen_unit(rng, grid)
            col = []
            for _ in dates:     # the tables move in time (a row read at the wrong date must show)
                if grid == "float":
                    v = base * (1 + rng.uniform(-0.05, 0.05))
                elif grid == "int":
                    v = base + rng.choice([0.0, 0.0, 1.0, -1.0, 2.0])
                else:
                    v = base + rng.choice([0.0, 0.0, 0.25, -0.25, 0.5])
                if nm not in keep and rng.random() < nan_rate:
                    v = None
                col.append(v)
            cols[nm] = col
        if rng.random() < 0.2:
            cols["zz_foreign"] = [1.0] * len(dates)
        if not cols:
            cols[names[0]] = [gen_unit(rng, grid) for _ in dates]
        out[m] = {"cols": cols}
    return out


def own_indices(rng, spec, first=None, share=0.7):
    """give the measures' tables their own indices (every data date stays a row): leading rows, in-between dates, trailing
    rows, with values far from the neighbouring data rows; `first` (a hedged measure) always differs from the others"""
    if rng.random() > share:
        return
    ms = list(spec["unit_risk"])
    for m in ms:
        force = m == first and len(ms) > 1
        if not (force or rng.random() < 0.6):
            continue
        tab = spec["unit_risk"][m]
        ds = R.gen_extra_dates(rng, spec["dates"], force=force)
        if ds:
            tab["extra_rows"] = [[d, {c: (None if rng.random() < 0.05 else float(rng.randint(-30, 45)) + rng.choice([0.0, 0.5]))
                                      for c in tab["cols"]}] for d in ds]
    spec["own_indices"] = sorted(m for m in ms if spec["unit_risk"][m].get("extra_rows"))


def base_spec(rng, kind, fi, tree, dates, grid=None):
    grid = grid or rng.choice(["int", "dyadic", "float"])
    names = [s["sec"] for s in tree_secs(tree)]
    return {"kind": kind, "driver": rng.choice(["loop", "loop", "backtest"]), "integer": rng.random() < 0.5, "grid": grid,
            "tree": tree, "dates": dates, "prices": gen_prices(rng, names, len(dates), "int" if grid == "int" else rng.choice(["float", "flat"])),
            "capital": 1e7, "measures": [], "unit_risk": {}, "close": None, "roll": None, "ill": None}


def trade_plan(rng, spec, strat, names, p=0.5, first=True):
    """scripted transactions per date for one strategy: {date: [[op, name, q]]}"""
    plan = {}
    for i, d in enumerate(spec["dates"]):
        ops = []
        if i == 0 and first:
            for k in strat["kids"]:
                if "sec" not in k:
                    ops.append(["a", k["name"], 1e6])
        for nm in names:
            if rng.random() < (0.9 if i == 0 else p * 0.5):
                if i > 0 and rng.random() < 0.2:
                    ops.append(["c", nm, 0.0])
                else:
                    ops.append(["t", nm, gen_qty(rng, spec["integer"])])
        if ops:
            plan[d] = ops
    return plan


def gen_risk_case(rng):
    fi = rng.random() < 0.6
    depth = rng.choice([0, 1, 1, 2])
    names = SEC_NAMES[:]
    rng.shuffle(names)
    tree = gen_tree(rng, depth, fi, names)
    ensure_notional(tree)
    dates = gen_dates(rng)
    spec = base_spec(rng, "risk", fi, tree, dates)
    measures = ["m%d" % i for i in range(rng.randint(1, 3))]
    secs = [s["sec"] for s in tree_secs(tree)]
    spec["measures"] = measures
    spec["unit_risk"] = gen_tables(rng, measures, dates, secs, spec["grid"])
    own_indices(rng, spec, share=0.5)
    h = rng.choice([0, 1, 2, 2, 3])
    spec["history"] = h
    strats = tree_strats(tree)
    # where UpdateRisk runs: the root, one sub-strategy, or every strategy (the same measure is then recorded from
    # several targets at different depths: the frames are created on demand)
    targets = [strats[0]] if rng.random() < 0.7 or len(strats) == 1 else [rng.choice(strats[1:])]
    if len(strats) > 1 and rng.random() < (0.5 if h == 0 else 0.3):
        targets = strats[:]
        if h > 0:
            spec["history"] = None      # depth is relative to each target: "no column deeper than requested" is not judged
    for path, t in strats:
        own = [k["sec"] for k in t["kids"] if "sec" in k]
        t["stack"].append({"k": "trade", "plan": trade_plan(rng, spec, t, own)})
    for path, t in targets:
        for m in measures:
            t["stack"].append({"k": "update_risk", "m": m, "history": h})
        if rng.random() < 0.3:     # a second pass in the same stack (as the docs do after hedging)
            t["stack"].append({"k": "trade", "plan": trade_plan(rng, spec, t, [k["sec"] for k in t["kids"] if "sec" in k], p=0.3, first=False)})
            for m in measures:
                t["stack"].append({"k": "update_risk", "m": m, "history": h})
    tree["stack"].append({"k": "eod"})
    return spec


def well_conditioned(rng, n, k, grid):
    """n x k unit-risk matrix of the instruments, rows independent when n <= k, columns when n >= k"""
    for _ in range(200):
        U = [[gen_unit(rng, grid) * (0.3 if i != j else 1.0) + (2.0 if i == j else 0.0) for j in range(k)] for i in range(n)]
        s = np.linalg.svd(np.array(U), compute_uv=False)
        if s[-1] > 1e-3 * s[0]:
            return U
    return [[3.0 if i == j else 1.0 for j in range(k)] for i in range(n)]


def gen_hedge_case(rng, mult_one=None):
    fi = rng.random() < 0.7
    nested = rng.random() < 0.3
    names = ["b1", "b2", "b3", "b4", "b5"]
    rng.shuffle(names)
    dates = gen_dates(rng)
    k = rng.choice([1, 1, 2, 2, 3])
    shape = rng.choice(["square", "square", "square", "over", "under"])
    n = k if shape == "square" else (k + rng.randint(1, 2) if shape == "over" else max(1, k - 1))
    if shape == "under" and n == k:
        shape = "square"
    pseudo = shape != "square" or rng.random() < 0.35
    if mult_one is None:
        mult_one = rng.random() < 0.7
    instr = ["g%d" % (i + 1) for i in range(n)]
    declared = rng.random() < 0.75      # children declared (some lazy) or none declared at all (default securities)
    bonds = [gen_sec(rng, nm, fi, lazy_ok=False) for nm in names[:rng.randint(1, 3)]]
    if not declared:
        for b in bonds:
            b["mult"] = 1.0
            b["cls"] = "Security"
    hedges = []
    for i, g in enumerate(instr):
        m = 1.0 if (mult_one or not declared) else rng.choice([10.0, 0.5, 100.0, 2.5, 1.0])
        cls = rng.choice(["HedgeSecurity", "CouponPayingHedgeSecurity", "Security"] if fi else ["Security", "HedgeSecurity"])
        hedges.append({"sec": g, "cls": cls, "mult": m, "lazy": rng.random() < 0.4})
    if declared and not mult_one and all(h["mult"] == 1.0 for h in hedges):
        hedges[rng.randrange(n)]["mult"] = rng.choice([10.0, 0.5, 100.0])
    tree = {"name": "root", "fi": fi, "kids": [], "stack": [], "declared": declared}
    if nested and declared:
        sub = {"name": "core", "fi": fi and rng.random() < 0.8, "kids": bonds, "stack": []}
        tree["kids"] = [sub] + hedges
    else:
        tree["kids"] = bonds + hedges
        rng.shuffle(tree["kids"])
    if declared and fi and not any(b["cls"] in ("Security", "FixedIncomeSecurity", "CouponPayingSecurity") for b in bonds):
        bonds[0]["cls"] = "FixedIncomeSecurity"
    spec = base_spec(rng, "hedge", fi, tree, dates)
    spec["prices"] = gen_prices(rng, [b["sec"] for b in bonds] + instr, len(dates), "float")
    all_meas = ["m%d" % i for i in range(k + rng.randint(0, 1))]
    hedged = all_meas[:]
    rng.shuffle(hedged)
    hedged = hedged[:k]
    spec["measures"] = all_meas
    secs = [b["sec"] for b in bonds] + instr
    tabs = gen_tables(rng, all_meas, dates, secs, spec["grid"], nan_rate=0.0, drop_rate=0.1, keep=instr)
    U = well_conditioned(rng, n, k, spec["grid"])
    scale_t = [rng.choice([1.0, 1.0, 1.25, 0.75, 1.5, 2.0]) for _ in dates]     # the instruments' unit risks move in time (same conditioning)
    for i, g in enumerate(instr):
        for j, m in enumerate(hedged):
            tabs[m]["cols"][g] = [U[i][j] * f for f in scale_t]
    spec["unit_risk"] = tabs
    own_indices(rng, spec, first=hedged[0])
    h = rng.choice([0, 1, 2])
    spec["history"] = h
    spec["hedge"] = {"measures": hedged, "instruments": instr, "pseudo": pseudo, "shape": shape, "mult_one": all(x["mult"] == 1.0 for x in hedges)}
    on = sorted(rng.sample(range(len(dates)), rng.randint(1, min(3, len(dates)))))
    bond_owner = tree["kids"][0] if (nested and declared) else tree
    bond_owner["stack"].append({"k": "trade", "plan": trade_plan(rng, spec, bond_owner, [b["sec"] for b in bonds], first=False)})
    if nested and declared:
        # (the sub-strategy's stack runs after the root's: the root sees its trades on the next date)
        tree["stack"].append({"k": "trade", "plan": {dates[0]: [["a", "core", 1e6]]}})
    st = tree["stack"]
    for m in all_meas:
        st.append({"k": "update_risk", "m": m, "history": h})
    st.append({"k": "select_these", "names": instr, "on": on})
    st.append({"k": "hedge", "measures": hedged, "pseudo": pseudo, "throw_nan": True, "on": on})
    for m in all_meas:
        st.append({"k": "update_risk", "m": m, "history": h})
    st.append({"k": "eod"})
    return spec


def gen_hedge_extra_case(rng):
    """HedgeRisks(strategy=core) inside a sibling sub-strategy: the hedges live apart from the book they hedge"""
    dates = gen_dates(rng)
    k = rng.choice([1, 2])
    pseudo = rng.random() < 0.3
    grid = rng.choice(["int", "dyadic", "float"])
    bonds = [{"sec": nm, "cls": rng.choice(["FixedIncomeSecurity", "Security", "CouponPayingSecurity"]), "mult": rng.choice(MULTS), "lazy": False}
             for nm in rng.sample(["b1", "b2", "b3", "b4"], rng.randint(1, 3))]
    instr = ["g%d" % (i + 1) for i in range(k)]
    hedges = [{"sec": g, "cls": rng.choice(["HedgeSecurity", "CouponPayingHedgeSecurity"]), "mult": 1.0, "lazy": rng.random() < 0.4} for g in instr]
    own = {"sec": "b5", "cls": "FixedIncomeSecurity", "mult": 1.0, "lazy": False}
    measures = ["m%d" % i for i in range(k)]
    spec = {"kind": "hedge", "driver": rng.choice(["loop", "backtest"]), "integer": rng.random() < 0.5, "grid": grid, "dates": dates,
            "capital": 1e7, "measures": measures, "close": None, "roll": None, "ill": None, "history": 0}
    core = {"name": "core", "fi": True, "kids": bonds, "stack": []}
    hs = {"name": "hs", "fi": True, "kids": [own] + hedges, "stack": []}
    root = {"name": "root", "fi": True, "kids": [core, hs], "stack": [{"k": "trade", "plan": {dates[0]: [["a", "core", 2e6], ["a", "hs", 2e6]]}}, {"k": "eod"}]}
    spec["tree"] = root
    names = [b["sec"] for b in bonds] + ["b5"] + instr
    spec["prices"] = gen_prices(rng, names, len(dates), "float")
    tabs = gen_tables(rng, measures, dates, names, grid, nan_rate=0.0, drop_rate=0.1, keep=instr)
    U = well_conditioned(rng, k, k, grid)
    scale_t = [rng.choice([1.0, 1.0, 1.25, 0.75, 1.5, 2.0]) for _ in dates]
    for i, g in enumerate(instr):
        for j, m in enumerate(measures):
            tabs[m]["cols"][g] = [U[i][j] * f for f in scale_t]
    spec["unit_risk"] = tabs
    own_indices(rng, spec, first=measures[0])
    core["stack"].append({"k": "trade", "plan": trade_plan(rng, spec, core, [b["sec"] for b in bonds], first=False)})
    for m in measures:
        core["stack"].append({"k": "update_risk", "m": m, "history": 0})
    hs["stack"].append({"k": "trade", "plan": {dates[0]: [["t", "b5", gen_qty(rng, spec["integer"])]]}})
    on = sorted(rng.sample(range(len(dates)), rng.randint(1, min(3, len(dates)))))
    for m in measures:
        hs["stack"].append({"k": "update_risk", "m": m, "history": 0})
    hs["stack"].append({"k": "select_these", "names": instr, "on": on})
    hs["stack"].append({"k": "hedge", "measures": measures, "pseudo": pseudo, "throw_nan": True, "on": on, "extra": "core"})
    for m in measures:
        hs["stack"].append({"k": "update_risk", "m": m, "history": 0})
    spec["hedge"] = {"measures": measures, "instruments": instr, "pseudo": pseudo, "shape": "square", "mult_one": True, "extra": "core"}
    return spec


def gen_life_case(rng, lazy_mode=None, reopen=None, fi=None, mode=None):
    fi = (rng.random() < 0.6) if fi is None else fi
    dates = gen_dates(rng, rng.randint(5, 8))
    T = len(dates)
    names = ["b1", "b2", "b3", "b4", "b5", "g1", "g2"]
    rng.shuffle(names)
    n = rng.randint(3, 6)
    names = names[:n]
    declared = rng.random() < 0.75
    if lazy_mode is None:
        lazy_mode = rng.choice(["none", "none", "some", "all"])
    kids = []
    for nm in names:
        s = gen_sec(rng, nm, fi, lazy_ok=False)
        s["lazy"] = lazy_mode == "all" or (lazy_mode == "some" and rng.random() < 0.4)
        if not declared:
            s.update({"cls": "Security", "mult": 1.0, "lazy": True})
        kids.append(s)
    tree = {"name": "root", "fi": fi, "kids": kids, "stack": [], "declared": declared}
    if declared:
        ensure_notional(tree)
    spec = base_spec(rng, "life", fi, tree, dates)
    # close dates: some names, some never, some NaT, one name outside the tree
    close = {}
    for nm in names:
        if rng.random() < 0.45:
            close[nm] = rng.choice([None] + list(range(T)) * 2)
    if rng.random() < 0.3:
        close["zz_other"] = 1
    # roll table: sources -> targets (targets never close or roll)
    roll = {}
    free = [nm for nm in names if nm not in close]
    rng.shuffle(free)
    n_tgt = 1 if len(free) <= 2 else rng.randint(1, 2)
    tgts = free[:n_tgt] if len(free) > 1 else []
    srcs = free[n_tgt:] if tgts else []
    for s in srcs:
        if rng.random() < 0.75:
            f = rng.choice([1.0, 2.0, 0.5, 1.25, rng.uniform(0.2, 3.0)])
            roll[s] = [rng.choice([None] + list(range(1, T)) * 3), rng.choice(tgts), f]
    if rng.random() < 0.5 and roll:
        # a chain: a roll target that is itself due to roll, mostly in the same call as one of its sources (every matured position
        # moves once, at its own factor, as it stood before the call - whatever the order of the children)
        s = rng.choice(sorted(roll))
        # (mostly a feeder listed before the name it rolls into: the order in which the children are visited is part of the case)
        before = [k for k in sorted(roll) if names.index(k) < names.index(roll[k][1])]
        if before and rng.random() < 0.7:
            s = rng.choice(before)
        x = roll[s][1]
        ys = [n for n in free if n != x and roll.get(n, [None, None])[1] != x]
        if ys:
            roll[x] = [roll[s][0] if rng.random() < 0.9 else rng.choice([None] + list(range(1, T)) * 3), rng.choice(ys),
                       rng.choice([1.0, 2.0, 0.5, 1.25, rng.uniform(0.2, 3.0)])]
    if rng.random() < 0.15 and roll:      # a source that also has a close date (never a name that something rolls into)
        cands = sorted(k for k in roll if k not in {v[1] for v in roll.values()})
        s = rng.choice(cands) if cands else None
        if s is not None:
            close[s] = rng.choice(range(T))
    spec["close"] = close
    spec["roll"] = roll
    st = tree["stack"]
    if reopen is None:
        reopen = rng.random() < 0.15
    if mode is None:
        mode = rng.choice(["scripted", "scripted", "rebalance"]) if not fi else "scripted"
    sel = {"k": "select_all"} if rng.random() < 0.5 else {"k": "select_these", "names": [nm for nm in names if rng.random() < 0.8] or names[:1]}
    lazy_start = 0
    if lazy_mode != "none" and rng.random() < 0.5:
        lazy_start = rng.randint(1, T - 2)      # nothing is bought before this date: lazy children appear late
    spec["life"] = {"mode": mode, "reopen": reopen, "lazy_mode": lazy_mode, "lazy_start": lazy_start}
    if rng.random() < 0.3 and mode == "scripted":
        # a top-up booked earlier in the same stack, on the very date a name matures (nothing refreshes the tree in between): the
        # close / roll that follows acts on the position as it stands then
        early = {}
        for nm in names:
            i = close.get(nm) if nm in close else (roll[nm][0] if nm in roll else None)
            if i is not None and i >= max(1, lazy_start) and rng.random() < 0.7:
                early.setdefault(dates[i], []).append(["t", nm, gen_qty(rng, spec["integer"])])
        if early:
            st.append({"k": "trade", "plan": early})
            spec["life"]["early_topup"] = True
    st.append({"k": "close"})
    st.append({"k": "roll"})
    st.append(sel)
    st.append({"k": "select_active"})
    if mode == "scripted":
        plan = {}
        for i, d in enumerate(dates):
            if i < lazy_start:
                continue
            day = {}
            for nm in names:
                if rng.random() < (0.8 if i == lazy_start else 0.3):
                    day[nm] = gen_qty(rng, spec["integer"])
            if day:
                plan[d] = day
        st.append({"k": "trade_selected", "plan": plan})
    else:
        st.append({"k": "run_after", "i": lazy_start})
        st.append({"k": "weigh_equally"})
        st.append({"k": "rebalance"})
    if reopen and [x for x in roll if x not in close]:
        s = rng.choice(sorted(x for x in roll if x not in close))
        when = {d: [["t", s, gen_qty(rng, spec["integer"])]] for i, d in enumerate(dates) if i >= 2 and rng.random() < 0.5}
        st.append({"k": "trade", "plan": when})
        spec["life"]["reopened"] = s
    st.append({"k": "eod"})
    if not spec["integer"] and mode == "scripted" and rng.random() < 0.3:
        # a book kept in very large units (billions of notional per unit, satoshi-sized lots): every quantity is of the order of 1e-9 -
        # far above the engine's own zero tolerance (1e-16), so these are trades, closes and rolls like any other
        for a in st:
            if a["k"] == "trade_selected":
                for day in a["plan"].values():
                    for nm in day:
                        day[nm] = day[nm] * 1e-9
            elif a["k"] == "trade":
                for ops_ in a["plan"].values():
                    for o_ in ops_:
                        o_[2] = o_[2] * 1e-9
        spec["life"]["tiny_units"] = True
    return spec


ILL_KINDS = ["singular", "nonsquare", "hedge-before-update", "no-selected", "nan-unit-throw", "nan-unit-nothrow", "date-missing",
             "measure-missing", "hedge-measure-missing", "mixed-history", "mixed-history-targets", "zero-price-close"]


def gen_ill_case(rng, sub=None):
    sub = sub or rng.choice(ILL_KINDS)
    if sub == "zero-price-close":
        spec = gen_life_case(rng, lazy_mode="none", reopen=False, fi=False, mode="scripted")
        nm = rng.choice([k["sec"] for k in spec["tree"]["kids"]])
        i = rng.randint(1, len(spec["dates"]) - 1)
        spec["close"] = {nm: i}
        spec["roll"] = {}
        spec["prices"][nm] = [p if j < i else 0.0 for j, p in enumerate(spec["prices"][nm])]
        for st in spec["tree"]["stack"]:       # held from the first date on, not traded afterwards
            if st["k"] == "trade_selected":
                st["plan"].setdefault(spec["dates"][0], {})[nm] = 25.0
                for d in spec["dates"][1:]:
                    st["plan"].get(d, {}).pop(nm, None)
            if st["k"] == "select_these" and nm not in st["names"]:
                st["names"].append(nm)
        spec["life"]["lazy_start"] = 0
        spec.update({"kind": "ill", "ill": sub, "driver": "loop"})
        return spec
    if sub in ("mixed-history", "mixed-history-targets", "date-missing", "measure-missing"):
        spec = gen_risk_case(rng)
        while sub == "mixed-history-targets" and len(tree_strats(spec["tree"])) < 2:
            spec = gen_risk_case(rng)
        spec["kind"] = "ill"
        spec["ill"] = sub
        ups = [a for a in spec["tree"]["stack"] if a["k"] == "update_risk"]
        for _, t in tree_strats(spec["tree"]):
            t["stack"] = [a for a in t["stack"] if a["k"] != "update_risk"]
        root = spec["tree"]
        eod = root["stack"].pop() if root["stack"] and root["stack"][-1]["k"] == "eod" else {"k": "eod"}
        ms = spec["measures"]
        if sub == "mixed-history":
            if len(ms) < 2:
                ms.append("m9")
                spec["unit_risk"]["m9"] = copy.deepcopy(spec["unit_risk"][ms[0]])
            h1, h2 = rng.choice([(0, 1), (1, 2), (0, 2), (1, 0), (2, 1), (2, 0)])
            same_measure = rng.random() < 0.3
            root["stack"].append({"k": "update_risk", "m": ms[0], "history": h1})
            root["stack"].append({"k": "update_risk", "m": ms[0] if same_measure else ms[1], "history": h2})
            spec["mixed"] = [h1, h2, same_measure]
        elif sub == "mixed-history-targets":
            h = rng.choice([1, 2])
            root["stack"].append({"k": "update_risk", "m": ms[0], "history": h})
            path, t = rng.choice(tree_strats(root)[1:])
            t["stack"].append({"k": "update_risk", "m": ms[0], "history": h})
            spec["mixed"] = [h, h, True]
        elif sub == "date-missing":
            root["stack"].append({"k": "update_risk", "m": ms[0], "history": rng.choice([0, 1])})
            spec["unit_risk"][ms[0]]["drop_dates"] = sorted(rng.sample(range(len(spec["dates"])), rng.randint(1, 2)))
        else:
            root["stack"].append({"k": "update_risk", "m": "m_absent", "history": 0})
        root["stack"].append(eod)
        spec["history"] = None
        return spec
    spec = gen_hedge_case(rng, mult_one=True)
    spec["kind"] = "ill"
    spec["ill"] = sub
    hd = spec["hedge"]
    st = spec["tree"]["stack"]
    instr = hd["instruments"]
    if sub == "singular":
        while len(instr) < 2 or hd["shape"] != "square":
            spec = gen_hedge_case(rng, mult_one=True)
            hd, st, instr = spec["hedge"], spec["tree"]["stack"], spec["hedge"]["instruments"]
        spec["kind"], spec["ill"] = "ill", sub
        how = rng.choice(["dup", "zero", "nocol"])
        for m in hd["measures"]:
            cols = spec["unit_risk"][m]["cols"]
            if how == "dup":
                cols[instr[1]] = list(cols[instr[0]])
            elif how == "zero":
                cols[instr[0]] = [0.0] * len(spec["dates"])
            else:
                cols.pop(instr[0], None)
        for a in st:
            if a["k"] == "hedge":
                a["pseudo"] = rng.random() < 0.3
        hd["pseudo"] = [a for a in st if a["k"] == "hedge"][0]["pseudo"]
        hd["singular"] = how
    elif sub == "nonsquare":
        while hd["shape"] == "square":
            spec = gen_hedge_case(rng, mult_one=True)
            hd, st = spec["hedge"], spec["tree"]["stack"]
        spec["kind"], spec["ill"] = "ill", sub
        for a in st:
            if a["k"] == "hedge":
                a["pseudo"] = False
        hd["pseudo"] = False
    elif sub == "hedge-before-update":
        i = [j for j, a in enumerate(st) if a["k"] == "hedge"][0]
        first_up = [j for j, a in enumerate(st) if a["k"] == "update_risk"]
        keep = rng.choice(["none", "some"]) if len(hd["measures"]) > 1 else "none"
        drop = [j for j in first_up if j < i and (keep == "none" or st[j]["m"] == hd["measures"][-1])]
        spec["tree"]["stack"] = [a for j, a in enumerate(st) if j not in drop]
        for a in spec["tree"]["stack"]:
            if a["k"] in ("hedge", "select_these"):
                a["on"] = [0]
    elif sub == "no-selected":
        spec["tree"]["stack"] = [a for a in st if a["k"] != "select_these"]
    elif sub in ("nan-unit-throw", "nan-unit-nothrow"):
        m = rng.choice(hd["measures"])
        g = rng.choice(instr)
        spec["unit_risk"][m]["cols"][g] = [None] * len(spec["dates"])
        for a in st:
            if a["k"] == "hedge":
                a["throw_nan"] = sub == "nan-unit-throw"
    elif sub == "hedge-measure-missing":
        for a in st:
            if a["k"] == "hedge":
                a["drop_frame"] = hd["measures"][0]
    return spec


GEN = {"risk": gen_risk_case, "hedge": lambda rng: gen_hedge_extra_case(rng) if rng.random() < 0.12 else gen_hedge_case(rng),
       "life": gen_life_case, "ill": gen_ill_case}
KINDS = ["risk", "hedge", "life", "hedge", "life", "risk", "ill"]


# ================================================================== execution on the real code
class Log(list):
    def __deepcopy__(self, memo):
        return self


class _Stop(Exception):
    pass


def frames_of(spec):
    dates = pd.DatetimeIndex(spec["dates"])
    out = {}
    for m, tab in spec["unit_risk"].items():
        df = R.table_frame(spec["dates"], tab["cols"], tab.get("extra_rows"))
        if tab.get("drop_dates"):
            df = df.drop(index=[dates[i] for i in tab["drop_dates"]])
        out[m] = df
    return out


def table_frames(spec):
    dates = pd.DatetimeIndex(spec["dates"])
    add = {}
    if spec.get("close") is not None:
        names = list(spec["close"])
        add["cd"] = pd.DataFrame({"date": [pd.NaT if spec["close"][n] is None else dates[spec["close"][n]] for n in names]}, index=names)
        if not names:
            add["cd"] = pd.DataFrame({"date": pd.Series([], dtype="datetime64[ns]")})
    if spec.get("roll") is not None:
        names = list(spec["roll"])
        add["rd"] = pd.DataFrame({"date": [pd.NaT if spec["roll"][n][0] is None else dates[spec["roll"][n][0]] for n in names],
                                  "target": [spec["roll"][n][1] for n in names],
                                  "factor": [float(spec["roll"][n][2]) for n in names]}, index=names)
        if not names:
            add["rd"] = pd.DataFrame({"date": pd.Series([], dtype="datetime64[ns]"), "target": pd.Series([], dtype=object), "factor": pd.Series([], dtype=float)})
    return add


class NumpyTap:
    """records what the real HedgeRisks hands to / gets from np.linalg.inv / pinv"""

    def __init__(self):
        self.calls = []

    def __enter__(self):
        self.inv, self.pinv = np.linalg.inv, np.linalg.pinv

        def wrap(f, name):
            def g(a, *args, **kw):
                rec = {"fn": name, "arg": np.array(a, dtype=float).copy(), "out": None, "err": None}
                self.calls.append(rec)
                try:
                    out = f(a, *args, **kw)
                except Exception as e:
                    rec["err"] = type(e).__name__
                    raise
                rec["out"] = np.array(out, dtype=float).copy()
                return out
            return g
        np.linalg.inv = wrap(self.inv, "inv")
        np.linalg.pinv = wrap(self.pinv, "pinv")
        return self

    def __exit__(self, *a):
        np.linalg.inv, np.linalg.pinv = self.inv, self.pinv


def make_algos(bt, spec, log, frames):
    """factory of the algo objects named in the stacks"""
    didx = {pd.Timestamp(d): i for i, d in enumerate(spec["dates"])}

    def real(target):
        # (not target.root: inside a sub-strategy's shadow copy the grandchildren's `root` still points to a stale copy of the real root)
        n = target
        while n.parent is not n:
            n = n.parent
        return getattr(n, "_c20_real", False)

    def path_of(target):
        p = []
        n = target
        while n.parent is not n:
            p.append(n.name)
            n = n.parent
        return tuple(reversed(p))

    class Tap(bt.Algo):
        def __init__(self, kind, algo, desc):
            super(Tap, self).__init__(name="Tap>" + kind)
            self.kind, self.algo, self.desc = kind, algo, desc

        def __call__(self, target):
            on = self.desc.get("on")
            i = didx.get(target.now)
            if on is not None and i not in on:
                return True
            if not real(target):
                try:
                    return self.algo(target)
                except Exception:     # a shadow (paper) copy of a sub-strategy: its failures are not this property's
                    return False
            e = {"k": self.kind, "desc": self.desc, "path": path_of(target), "i": i, "date": target.now, "rootnow": target.root.now,
                 "pre": R.snap_node(bt, target), "perm0": R.snap_perm(target), "sel0": copy.deepcopy(target.temp.get("selected")),
                 "has_sel": "selected" in target.temp, "env": R.env_of(bt, target), "err": None, "fi": bool(target.fixed_income)}
            if self.kind == "hedge":
                x = self.algo.strategy
                e["extra"] = None if x is None else R.snap_node(bt, x)
            log.append(e)
            try:
                if self.kind == "hedge":
                    kw = target._setup_kwargs
                    full = kw.get("unit_risk")
                    if self.desc.get("drop_frame"):     # ill-formed stream: the measure has no frame
                        kw["unit_risk"] = {m: f for m, f in full.items() if m != self.desc["drop_frame"]}
                    with NumpyTap() as nt:
                        try:
                            r = self.algo(target)
                        finally:
                            e["np"] = nt.calls
                            kw["unit_risk"] = full
                else:
                    r = self.algo(target)
            except Exception as ex:
                e["err"] = (type(ex).__name__, str(ex)[:160])
                # the closing root.update of close / roll (or a refresh) can be refused by the engine's fixed-income index
                # (zero notional with float-noise pnl): the engine's matter (C10 / C17), not a statement about these algos
                e["engine"] = isinstance(ex, ZeroDivisionError)
                raise _Stop()
            e["post"] = R.snap_node(bt, target)
            e["perm1"] = R.snap_perm(target)
            e["sel1"] = copy.deepcopy(target.temp.get("selected"))
            return r

    class Trade(bt.Algo):
        def __init__(self, plan):
            super(Trade, self).__init__()
            self.plan = plan

        def __call__(self, target):
            if target.now == 0:
                return True
            for op, nm, q in self.plan.get(str(pd.Timestamp(target.now).date()), []):
                if op == "a":
                    target.allocate(q, nm)
                elif op == "c":
                    if nm in target.children:
                        target.close(nm)
                else:
                    target.transact(q, nm)
            return True

    class TradeSelected(bt.Algo):
        def __init__(self, plan):
            super(TradeSelected, self).__init__()
            self.plan = plan

        def __call__(self, target):
            day = self.plan.get(str(pd.Timestamp(target.now).date()), {})
            done = []
            for nm in target.temp.get("selected", []):
                if nm in day:
                    target.transact(day[nm], nm)
                    done.append((nm, day[nm]))
            if real(target):
                log.append({"k": "trades", "path": path_of(target), "i": didx.get(target.now), "done": done})
            return True

    class Eod(bt.Algo):
        def __init__(self):
            super(Eod, self).__init__()

        @property
        def run_always(self):
            return True

        def __call__(self, target):
            if real(target):
                log.append({"k": "eod", "path": path_of(target), "i": didx.get(target.now), "snap": R.snap_node(bt, target), "perm": R.snap_perm(target)})
            return True

    def mk(a):
        k = a["k"]
        if k == "trade":
            return [Trade(a["plan"])]
        if k == "trade_selected":
            return [TradeSelected(a["plan"])]
        if k == "eod":
            return [Eod()]
        if k == "update_risk":
            return [Tap(k, bt.algos.UpdateRisk(a["m"], history=a["history"]), a)]
        if k == "hedge":
            return [Tap(k, bt.algos.HedgeRisks(a["measures"], pseudo=a["pseudo"], throw_nan=a.get("throw_nan", True)), a)]
        if k == "close":
            return [Tap(k, bt.algos.ClosePositionsAfterDates("cd"), a)]
        if k == "roll":
            return [Tap(k, bt.algos.RollPositionsAfterDates("rd"), a)]
        if k == "select_active":
            return [Tap(k, bt.algos.SelectActive(), a)]
        if k == "select_all":
            return [bt.algos.SelectAll()]
        if k == "select_these":
            return [Tap("select_these", bt.algos.SelectThese(list(a["names"])), a)]
        if k == "weigh_equally":
            return [bt.algos.WeighEqually()]
        if k == "rebalance":
            return [bt.algos.Rebalance()]
        if k == "run_after":
            return [bt.algos.RunAfterDate(spec["dates"][a["i"]])] if a["i"] > 0 else []
        raise ValueError(k)
    return mk


def build_tree(bt, t, mk):
    kids = []
    for k in t["kids"]:
        if "sec" in k:
            cls = getattr(bt.core, k["cls"])
            kids.append(cls(k["sec"], multiplier=k["mult"], lazy_add=bool(k.get("lazy"))))
        else:
            kids.append(build_tree(bt, k, mk))
    algos = []
    for a in t["stack"]:
        algos += mk(a)
    cls = bt.FixedIncomeStrategy if t["fi"] else bt.Strategy
    if t.get("declared", True) is False:
        return cls(t["name"], algos=algos)
    return cls(t["name"], algos=algos, children=kids)


def execute(bt, spec):
    """runs the program on the real code; returns (log, frames)"""
    log = Log()
    frames = frames_of(spec)
    mk = make_algos(bt, spec, log, frames)
    root = build_tree(bt, spec["tree"], mk)
    root._c20_real = True
    for n in root.members:      # HedgeRisks(strategy=<sibling>): the reference must point into the tree that runs
        for a in getattr(getattr(n, "stack", None), "algos", ()):
            if getattr(a, "kind", None) == "hedge" and a.desc.get("extra"):
                a.algo.strategy = root[a.desc["extra"]]
    dates = pd.DatetimeIndex(spec["dates"])
    names = list(spec["prices"])
    data = pd.DataFrame({n: spec["prices"][n] for n in names}, index=dates, dtype=float)
    add = {"unit_risk": frames, "coupons": pd.DataFrame(0.0, index=dates, columns=names)}
    add.update(table_frames(spec))
    outcome = {"raised": None}
    try:
        if spec["driver"] == "backtest":
            b = bt.Backtest(root, data, additional_data=add, integer_positions=spec["integer"], progress_bar=False, initial_capital=spec["capital"])
            b.run()
        else:
            root.use_integer_positions(spec["integer"])
            root.setup(data, **add)
            root.adjust(spec["capital"])
            for d in dates:
                root.update(d)
                if not root.bankrupt:
                    root.run()
                    root.update(d)
    except _Stop:
        outcome["raised"] = "algo"
    except Exception as ex:      # the engine refused the program (not an algo of this property)
        outcome["raised"] = "%s: %s" % (type(ex).__name__, str(ex)[:200])
    return log, frames, outcome


# ================================================================== model requests
ERRMAP = {
    "DateMissing": {"KeyError"}, "MeasureMissing": {"KeyError", "AttributeError", "ValueError"}, "NoRisksAttr": {"AttributeError"},
    "RiskNotSet": {"ValueError"}, "NoSelected": {"KeyError"}, "LinAlg": {"LinAlgError"}, "NanNotional": {"ValueError"},
    "NanPrice": {"Exception"}, "ZeroPrice": {"Exception"}, "NotASecurity": set(),
}


def requests_for(bt, spec, e, frames, N):
    """-> list of (request line, callback(answer) -> None | detail)"""
    k = e["k"]
    tol, lazy, prices = e["env"]
    out = []
    if e.get("engine"):
        return out

    def err_check(ans_err):
        if e["err"] is None:
            return {"kind": "model-raises", "model": ans_err}
        if e["err"][0] not in ERRMAP.get(ans_err, set()):
            return {"kind": "error-kind", "real": e["err"], "model": ans_err}
        return None

    def real_raised(what="ok"):
        return {"kind": "real-raises", "real": e["err"], "model": what}

    if k == "update_risk":
        d = e["desc"]
        fr = {m: f for m, f in e["frames"].items()}
        line = "risk update %s %d %d %s %d %s" % (R.tF(tol), N(d["m"]), d["history"], R.t_frames(N, fr), R.day(e["rootnow"]), R.t_node(N, e["pre"]))

        def cb(ans, e=e):
            t = ans.split()
            if t[0] == "err":
                return err_check(t[1])
            if t[0] != "ok":
                return {"kind": "bad-answer", "answer": ans[:200]}
            if e["err"] is not None:
                return real_raised()
            node = R.Rd(t, 1).node(N)
            c = R.Cmp()
            c.node("", e["post"], node)
            e["cmp"] = c
            return {"kind": "state", "diffs": c.diffs[:4]} if c.diffs else None
        out.append((line, cb))
    elif k == "hedge":
        d = e["desc"]
        calls = e.get("np", [])
        inv = None
        if calls and calls[-1]["out"] is not None:
            inv = calls[-1]["out"].T
        fr = dict(e["frames"])
        if d.get("drop_frame"):
            fr.pop(d["drop_frame"], None)
        inv_t = "N" if inv is None else R.tL([list(r) for r in inv], lambda r: R.tL(r, lambda x: R.tO(R.fnum(x))))
        extra = "N" if e.get("extra") is None else R.t_node(N, e["extra"])
        sel = "N" if not e["has_sel"] else R.tL(list(e["sel0"]), lambda n: str(N(n)))
        line = "risk hedge %s %s %s %s %s %s %s %s" % (R.t_env(N, tol, lazy, prices), R.tL(d["measures"], lambda m: str(N(m))), R.t_frames(N, fr),
                                                       R.tB(d.get("throw_nan", True)), extra, sel, inv_t, R.t_node(N, e["pre"]))

        def cb(ans, e=e, calls=calls, inv=inv):
            t = ans.split()
            rd = R.Rd(t, 0)
            assert rd.next() == "inp"
            c = R.Cmp()
            if rd.next() == "ok":
                r = rd.lst(rd.oflt)
                J = rd.lst(lambda: rd.lst(rd.oflt))
                if calls:
                    A = calls[-1]["arg"]
                    real_j = [[R.fnum(x) for x in row] for row in (A.tolist() if A.ndim == 2 else [])]
                    if A.ndim == 2 and [len(x) for x in real_j] == [len(x) for x in J]:
                        for i, (ra, rb) in enumerate(zip(real_j, J)):
                            for j, (x, y) in enumerate(zip(ra, rb)):
                                c.num("jacobian[%d,%d]" % (i, j), x, y, exact=True)
                    elif J and A.size:
                        c.diffs.append(("jacobian.shape", list(A.shape), [len(J), len(J[0]) if J else 0]))
                e["model_r"] = r
            else:
                ie = rd.next()
                if calls:      # the real code got as far as numpy
                    return {"kind": "model-raises-before-numpy", "model": ie}
            assert rd.next() == "res"
            if rd.next() == "err":
                ee = rd.next()
                bad = err_check(ee)
                if bad:
                    return bad
                return {"kind": "jacobian", "diffs": c.diffs[:4]} if c.diffs else None
            if e["err"] is not None:
                return real_raised()
            node = rd.node(N)
            scale = 1.0
            if inv is not None and e.get("model_r"):
                rr = [abs(x) if x is not None else 0.0 for x in e["model_r"]]
                scale = max([sum(abs(a) * b for a, b in zip(row, rr)) for row in np.nan_to_num(inv).tolist()] + [1.0])
            c.node("", e["post"], node, pos_exact=False, pos_scale=scale)
            e["cmp"] = c
            return {"kind": "state", "diffs": c.diffs[:4]} if c.diffs else None
        out.append((line, cb))
    elif k in ("close", "roll"):
        if k == "close":
            tab = "N"
            cd = spec["close"]
            dd = pd.DatetimeIndex(spec["dates"])
            tab = R.tL(list(cd.items()), lambda p: "%d %s" % (N(p[0]), "N" if p[1] is None else str(R.day(dd[p[1]]))))
            line = "risk close %s %s %s %d %s %s" % (R.tF(tol), R.tB(e["fi"]), tab, R.day(e["date"]),
                                                     R.tL(e["pre"]["kids"], lambda n: R.t_node(N, n)), R.t_perm(N, e["perm0"]))
        else:
            rd_ = spec["roll"]
            dd = pd.DatetimeIndex(spec["dates"])
            tab = R.tL(list(rd_.items()), lambda p: "%d %s %d %s" % (N(p[0]), "N" if p[1][0] is None else str(R.day(dd[p[1][0]])), N(p[1][1]), R.tF(p[1][2])))
            line = "risk roll %s %s %s %d %s %s" % (R.t_env(N, tol, lazy, prices), R.tB(e["fi"]), tab, R.day(e["date"]),
                                                    R.tL(e["pre"]["kids"], lambda n: R.t_node(N, n)), R.t_perm(N, e["perm0"]))

        def cb(ans, e=e):
            t = ans.split()
            if t[0] == "err":
                return err_check(t[1])
            if e["err"] is not None:
                return real_raised()
            rd = R.Rd(t, 1)
            kids = rd.lst(lambda: rd.node(N))
            perm = rd.perm(N)
            c = R.Cmp()
            c.kids("", e["post"]["kids"], kids)
            c.perm("", e["perm1"], perm)
            e["cmp"] = c
            if e["k"] == "roll":
                e["model_txs"] = rd.lst(lambda: (N.name(rd.nat()), rd.oflt()))
            return {"kind": "state", "diffs": c.diffs[:4]} if c.diffs else None
        out.append((line, cb))
    elif k == "select_active":
        sel = "N" if not e["has_sel"] else R.tL(list(e["sel0"]), lambda n: str(N(n)))
        line = "risk select %s %s" % (R.t_perm(N, e["perm0"]), sel)

        def cb(ans, e=e):
            t = ans.split()
            if t[0] == "err":
                return err_check(t[1])
            if e["err"] is not None:
                return real_raised()
            rd = R.Rd(t, 1)
            got = rd.lst(lambda: N.name(rd.nat()))
            return {"kind": "selected", "real": e["sel1"], "model": got} if got != list(e["sel1"]) else None
        out.append((line, cb))
    return out


def run_request(bt, spec, log, N):
    """whole lifecycle of a scripted fixed-income life case through `lifecycleRun`"""
    if spec["kind"] != "life" or not spec["tree"]["fi"] or spec["life"]["mode"] != "scripted" or spec["life"].get("reopened") \
            or spec["life"].get("early_topup"):       # (the lifecycle model has the day's trades after SelectActive only; the single calls are still compared)
        return []
    closes = [e for e in log if e["k"] == "close"]
    sels = [e for e in log if e["k"] == "select_active"]
    trades = [e for e in log if e["k"] == "trades"]
    eods = [e for e in log if e["k"] == "eod"]
    if not closes or any(e.get("err") for e in log if "err" in e) or not (len(closes) == len(sels) == len(trades) == len(eods)):
        return []
    first = closes[0]
    tol, lazy, prices = first["env"]
    dd = pd.DatetimeIndex(spec["dates"])
    plan = [a for a in spec["tree"]["stack"] if a["k"] == "trade_selected"][0]["plan"]
    steps = []
    for c, s in zip(closes, sels):
        day = plan.get(spec["dates"][c["i"]], {})
        tr = [(nm, day[nm]) for nm in s["sel0"] if nm in day]
        steps.append("%d %s %s" % (R.day(c["date"]), R.tL(list(s["sel0"]), lambda n: str(N(n))), R.tL(tr, lambda p: "%d %s" % (N(p[0]), R.tF(p[1])))))
    ctab = R.tL(list(spec["close"].items()), lambda p: "%d %s" % (N(p[0]), "N" if p[1] is None else str(R.day(dd[p[1]]))))
    rtab = R.tL(list(spec["roll"].items()), lambda p: "%d %s %d %s" % (N(p[0]), "N" if p[1][0] is None else str(R.day(dd[p[1][0]])), N(p[1][1]), R.tF(p[1][2])))
    line = "risk run %s 1 %s %s %s %s %s" % (R.t_env(N, tol, lazy, prices), ctab, rtab, R.tL(first["pre"]["kids"], lambda n: R.t_node(N, n)),
                                            R.t_perm(N, first["perm0"]), "%d %s" % (len(steps), " ".join(steps)))

    def cb(ans):
        t = ans.split()
        if t[0] != "ok":
            return {"kind": "model-raises", "model": ans[:100]}
        rd = R.Rd(t, 1)
        kids = rd.lst(lambda: rd.node(N))
        perm = rd.perm(N)
        per = rd.lst(lambda: (rd.lst(lambda: N.name(rd.nat())), rd.lst(lambda: (N.name(rd.nat()), rd.oflt()))))
        c = R.Cmp()
        last = eods[-1]
        pa = {k["sec"]: k["pos"] for k in last["snap"]["kids"] if "sec" in k}
        pb = {k["sec"]: k["pos"] for k in kids if "sec" in k}
        c.same("run.children", list(pa), list(pb))
        for nm in pa:
            if nm in pb:
                c.num("run[%s].position" % nm, pa[nm], pb[nm], exact=True)
        c.perm("run", last["perm"], perm)
        c.same("run.selected", [list(s["sel1"]) for s in sels], [p[0] for p in per])
        return {"kind": "run", "diffs": c.diffs[:4]} if c.diffs else None
    return [(line, cb)]


# ================================================================== monitors (from the property text)
DUST = 1e-16     # core.TOL: the engine treats |position| below it as no position (is_zero)


def holds(pos):
    return abs(pos) >= DUST


def close_num(a, b, scale=1.0):
    if a is None or b is None:
        return a is None and b is None
    return abs(a - b) <= 1e-9 * max(1.0, abs(a), abs(b), scale)


def unit_of(df, date, name):
    """table lookup as the text reads it: no column = no sensitivity (0), NaN hole = unknown (None)"""
    if name not in df.columns:
        return 0.0
    return R.fnum(df.loc[date, name])


def exp_risk(df, date, sn):
    """-> (expected risk | None, gross)"""
    if "sec" in sn:
        u = unit_of(df, date, sn["sec"])
        if sn["pos"] == 0:
            return 0.0, 0.0
        if u is None:
            return None, 0.0
        v = u * sn["pos"] * sn["mult"]
        return v, abs(v)
    tot, gross, nan = 0.0, 0.0, False
    for k in sn["kids"]:
        v, g = exp_risk(df, date, k)
        gross += g
        if v is None:
            nan = True
        else:
            tot += v
    return (None if nan else tot), gross


def attr_risk(sn, m):
    r = sn["attrs"]["risk"]
    if r is None:
        return "absent"
    d = dict(r)
    return d[m] if m in d else "absent"


def hist_cell(sn, m, daynum):
    h = sn["attrs"]["risks"]
    if h is None:
        return "noframe"
    d = dict(h)
    if m not in d:
        return "nocol"
    return dict(d[m]).get(daynum)


def monitor(bt, spec, log, frames, V):
    """V(key, what): record a violation"""
    dates = pd.DatetimeIndex(spec["dates"])
    consistent_hist = spec.get("history") is not None
    shadow_closed, shadow_rolled = {}, {}      # path -> names the monitor itself saw closed / rolled
    close_ran = {}                              # (path, i) -> pre snapshot of the close call on that date
    for idx, e in enumerate(log):
        k = e["k"]
        if e.get("err") is not None:
            if e.get("engine"):
                continue
            if spec["kind"] != "ill":
                V("C20/%s-raised:%s" % (k, e["err"][0]), "%s raised %s on a well-formed program (date %s)" % (k, e["err"], e["date"]))
            continue
        if k == "update_risk":
            m, h = e["desc"]["m"], e["desc"]["history"]
            df = e["frames"][m]
            d = e["rootnow"]
            today = R.day(d)
            if d not in df.index:
                if R.leaves(e["post"]):
                    V("C20/risk:date-not-in-table-not-raised", "UpdateRisk(%s) returned on %s although the table has no row for that date" % (m, d.date()))
                continue
            for (sn, depth), (sn0, _) in zip(R.nodes_with_depth(e["post"]), R.nodes_with_depth(e["pre"])):
                exp, gross = exp_risk(df, d, sn)
                got = attr_risk(sn, m)
                nm = sn.get("sec", sn.get("strat"))
                if got == "absent":
                    V("C20/risk:not-set", "node %s has no risk[%s] after UpdateRisk" % (nm, m))
                    continue
                if "sec" in sn:
                    if not (close_num(got, exp, gross) or (got is None and exp == 0.0 and unit_of(df, d, nm) is None)):
                        V("C20/risk-security:not-unit-x-position-x-multiplier", "security %s risk[%s]=%r, unit x position x multiplier = %r (pos %r mult %r unit %r)"
                          % (nm, m, got, exp, sn["pos"], sn["mult"], unit_of(df, d, nm)))
                else:
                    kids_sum, nan = 0.0, False
                    for c in sn["kids"]:
                        v = attr_risk(c, m)
                        if v is None or v == "absent":
                            nan = True
                        else:
                            kids_sum += v
                    if not close_num(got, None if nan else kids_sum, gross):
                        V("C20/risk-sums:strategy-not-sum-of-children", "strategy %s risk[%s]=%r, sum over children = %r" % (nm, m, got, None if nan else kids_sum))
                    elif not close_num(got, exp, gross):
                        V("C20/risk-sums:strategy-not-sum-over-tree", "strategy %s risk[%s]=%r, sum over all securities below = %r" % (nm, m, got, exp))
                if depth < h:
                    cell = hist_cell(sn, m, today)
                    ok = cell not in ("noframe", "nocol") and close_num(cell, got if got != "absent" else None, gross)
                    if not ok:
                        quiet = "sec" in sn and abs(sn["pos"]) < float(bt.core.TOL) and sn["now"] != today     # flat as the engine sees it (is_zero)
                        V("C20/history:row-missing-at-current-date:%s" % ("quiet-flat-security" if quiet else "other"),
                          "node %s (depth %d < history %d): risks.loc[%s, %s] = %r but risk = %r (node.now = day %d, root day %d)" % (nm, depth, h, d.date(), m, cell, got, sn["now"], today))
                elif consistent_hist:
                    cell = hist_cell(sn, m, today)
                    if cell not in ("noframe", "nocol"):
                        V("C20/history:kept-deeper-than-requested", "node %s at depth %d >= history %d has a risks column %s" % (nm, depth, h, m))
                # earlier rows stay what they were
                h0, h1 = sn0["attrs"]["risks"], sn["attrs"]["risks"]
                if h0 is not None and h1 is not None and m in dict(h0) and m in dict(h1):
                    a, b = dict(dict(h0)[m]), dict(dict(h1)[m])
                    for dn in a:
                        if dn != today and not close_num(a[dn], b.get(dn)):
                            quiet = "sec" in sn and abs(sn["pos"]) < float(bt.core.TOL) and sn["now"] == dn
                            V("C20/history:past-row-rewritten:%s" % ("quiet-flat-security" if quiet else "other"),
                              "node %s: risks[%s] row of day %d changed from %r to %r on day %d (node.now = day %d)" % (nm, m, dn, a[dn], b.get(dn), today, sn["now"]))
        elif k == "hedge":
            mon_hedge(bt, spec, log, idx, e, V)
        elif k == "close":
            cd = spec["close"]
            close_ran[(e["path"], e["i"])] = e["pre"]
            seen = shadow_closed.setdefault(e["path"], set())
            for sn in e["pre"]["kids"]:
                if "sec" not in sn:
                    continue
                nm = sn["sec"]
                post = R.kid(e["post"], nm)
                due = cd.get(nm) is not None and dates[cd[nm]] <= e["date"]
                if due:
                    if nm not in (e["perm1"]["closed"] or []):
                        V("C20/close:name-not-recorded", "%s is past its close date %s on %s but is not in perm['closed']" % (nm, dates[cd[nm]].date(), e["date"].date()))
                    if nm not in seen and holds(post["pos"]):
                        if e["fi"]:
                            br = "fixed-income"
                        elif sn["price"] is not None and sn["price"] == 0:
                            br = "zero-price-non-fixed-income"
                        else:
                            br = "priced"
                        V("C20/close:position-left:%s" % br, "%s (close date %s) still holds %r after ClosePositionsAfterDates on %s (price %r)" % (nm, dates[cd[nm]].date(), post["pos"], e["date"].date(), sn["price"]))
                    seen.add(nm)
                elif post is None or post["pos"] != sn["pos"]:
                    V("C20/close:touched-undue", "%s is not due (close date %r) but its position went %r -> %r" % (nm, cd.get(nm), sn["pos"], post and post["pos"]))
        elif k == "roll":
            mon_roll(spec, e, shadow_rolled.setdefault(e["path"], set()), dates, V)
        elif k == "select_active":
            s0, s1 = list(e["sel0"]), list(e["sel1"])
            gone = set(e["perm0"]["closed"] or []) | set(e["perm0"]["rolled"] or []) | shadow_closed.get(e["path"], set()) | shadow_rolled.get(e["path"], set())
            cdt = spec.get("close") or {}
            matured = {s for s in s0 if cdt.get(s) is not None and dates[cdt[s]] <= e["date"]}
            bad = [s for s in s1 if s in gone]
            if bad:
                V("C20/select-active:returns-closed-or-rolled-name", "SelectActive(%r) with closed/rolled %r returned %r" % (s0, sorted(gone), s1))
            elif s1 != [s for s in s0 if s in s1] or [s for s in s0 if s not in s1 and s not in gone and s not in matured]:
                # (dropping a name whose close date has passed is what the property asks for, recorded or not)
                V("C20/select-active:wrong-selection", "SelectActive(%r) with closed/rolled %r returned %r" % (s0, sorted(gone), s1))
            if (e["path"], e["i"]) in close_ran and spec.get("close"):
                cd = spec["close"]
                late = [s for s in s1 if cd.get(s) is not None and dates[cd[s]] <= e["date"]]
                if late:
                    pre = close_ran[(e["path"], e["i"])]
                    never = [s for s in late if R.kid(pre, s) is None]
                    V("C20/select-active:name-past-close-date:%s" % ("never-a-child" if len(never) == len(late) else "was-a-child"),
                      "on %s SelectActive let %r through although their close dates have passed (perm closed %r)" % (e["date"].date(), late, e["perm0"]["closed"]))
        elif k == "eod":
            if spec.get("close") and (e["path"], e["i"]) in close_ran:
                cd = spec["close"]
                pre = close_ran[(e["path"], e["i"])]
                for sn in e["snap"]["kids"]:
                    if "sec" not in sn:
                        continue
                    nm = sn["sec"]
                    if cd.get(nm) is not None and dates[cd[nm]] <= dates[e["i"]] and holds(sn["pos"]):
                        was = R.kid(pre, nm)
                        if was is None:
                            br = "opened-when-not-yet-a-child"
                        elif not e_fi(spec) and was["price"] == 0:
                            br = "zero-price-non-fixed-income"
                        else:
                            br = "was-a-child"
                        key = "C20/close:position-left:zero-price-non-fixed-income" if br.startswith("zero-price") else "C20/close:position-after-close-date:%s" % br
                        V(key, "%s (close date %s) holds %r at the end of %s" % (nm, dates[cd[nm]].date(), sn["pos"], dates[e["i"]].date()))


def e_fi(spec):
    return spec["tree"]["fi"]


def mon_roll(spec, e, seen, dates, V):
    rd = spec["roll"]
    pre = {s["sec"]: s for s in e["pre"]["kids"] if "sec" in s}
    post = {s["sec"]: s for s in e["post"]["kids"] if "sec" in s}
    due = [nm for nm in pre if nm in rd and rd[nm][0] is not None and dates[rd[nm][0]] <= e["date"]]
    fresh = [nm for nm in due if nm not in seen]
    credit = {}
    for nm in fresh:
        credit[rd[nm][1]] = credit.get(rd[nm][1], 0.0) + float(rd[nm][2]) * pre[nm]["pos"]
    chain = set(credit) & set(fresh)
    for nm in fresh:
        if nm not in (e["perm1"]["rolled"] or []):
            V("C20/roll:name-not-recorded", "%s rolled on %s but is not in perm['rolled']" % (nm, e["date"].date()))
        if nm not in chain and holds(post[nm]["pos"]) and not (not e["fi"] and (pre[nm]["price"] is None or pre[nm]["price"] == 0)):
            V("C20/roll:source-left-open", "%s (roll date %s) still holds %r after the roll on %s" % (nm, dates[rd[nm][0]].date(), post[nm]["pos"], e["date"].date()))
    gross = sum(abs(float(rd[nm][2]) * pre[nm]["pos"]) for nm in fresh) + 1.0
    for nm in set(pre) | set(post):
        if nm in chain:
            # matured itself and credited in the same call: its own (pre-call) position has left, what its sources rolled in stays
            p1 = post[nm]["pos"] if nm in post else 0.0
            if not (not e["fi"] and (pre[nm]["price"] is None or pre[nm]["price"] == 0)) and not close_num(p1, credit[nm], gross):
                V("C20/roll:chain-moved-twice-or-lost", "%s matured in the same call as its sources %r: holds %r afterwards, expected %r (= sum factor x position "
                  "of the sources; its own %r moves on to %s)" % (nm, [s for s in fresh if rd[s][1] == nm], p1, credit[nm], pre[nm]["pos"], rd[nm][1]))
            continue
        if nm in fresh:
            continue
        p0 = pre[nm]["pos"] if nm in pre else 0.0
        p1 = post[nm]["pos"] if nm in post else 0.0
        want = p0 + credit.get(nm, 0.0)
        if not close_num(p1, want, gross):
            if nm in seen and nm in due and holds(p0) and close_num(p1, 0.0):
                V("C20/roll:rolled-twice", "%s was rolled before; reopened position %r was rolled again on %s" % (nm, p0, e["date"].date()))
            elif nm in credit:
                V("C20/roll:target-not-credited", "target %s: %r -> %r, expected %r (= old + sum factor x position over %r)" % (nm, p0, p1, want, [s for s in fresh if rd[s][1] == nm]))
            else:
                twice = [s for s in due if s in seen and rd[s][1] == nm and holds(pre[s]["pos"])]
                V("C20/roll:%s" % ("rolled-twice" if twice else "touched-unrelated"), "%s: %r -> %r on %s, expected %r (sources rolled again: %r)" % (nm, p0, p1, e["date"].date(), want, twice))
    for t in credit:
        if t not in post and t not in chain and credit[t] != 0:
            V("C20/roll:target-not-credited", "target %s was never created (expected %r)" % (t, credit[t]))
    seen.update(fresh)


def mon_hedge(bt, spec, log, idx, e, V):
    d = e["desc"]
    ms = d["measures"]
    date = e["date"]
    instr = list(e["sel0"] or [])
    if len(set(instr)) != len(instr) or not instr:
        return
    frames = e["frames"]
    post = e["post"]
    if any(date not in frames[m].index for m in ms if m in frames) or any(m not in frames for m in ms):
        return
    mult = {}
    for nm in instr:
        kn = R.kid(post, nm)
        if kn is None or "sec" not in kn:
            return
        mult[nm] = kn["mult"]
    U = np.array([[np.nan if unit_of(frames[m], date, nm) is None else unit_of(frames[m], date, nm) for m in ms] for nm in instr], dtype=float)
    if not np.isfinite(U).all():
        return
    r0 = [attr_risk(e["pre"], m) for m in ms]
    if any(x is None or x == "absent" for x in r0):
        return
    # HedgeRisks(strategy=x): x's risk is hedged as well (x itself is not touched by the hedge)
    xr = [0.0] * len(ms)
    if e.get("extra") is not None:
        for j, m in enumerate(ms):
            a = attr_risk(e["extra"], m)
            v, g = exp_risk(frames[m], date, e["extra"])
            if a is None or a == "absent" or v is None or not close_num(a, v, g):
                return      # the other strategy's stored risk is not fresh: nothing to judge
            xr[j] = a
        r0 = [a + b for a, b in zip(r0, xr)]
    # independent recomputation from positions
    r_pos, gross = [], 0.0
    for j, m in enumerate(ms):
        v, g = exp_risk(frames[m], date, post)
        if v is None:
            return
        r_pos.append(v + xr[j])
        gross = max(gross, g + abs(xr[j]))
    # the fresh UpdateRisk calls that follow in the stack
    fresh = {}
    for f in log[idx + 1:]:
        if f["k"] != "update_risk" or f["path"] != e["path"] or f["i"] != e["i"]:
            break
        if f.get("err") is None and f["desc"]["m"] in ms:
            v = attr_risk(f["post"], f["desc"]["m"])
            fresh[f["desc"]["m"]] = None if v in (None, "absent") else v + xr[ms.index(f["desc"]["m"])]
    sv = np.linalg.svd(U, compute_uv=False)
    cond = sv[0] / sv[-1] if sv[-1] > 0 else np.inf
    m1 = "multipliers-1" if all(x == 1.0 for x in mult.values()) else "instrument-multiplier-ne-1"
    scale = max(1.0, gross, max(abs(x) for x in r0))
    n, k = U.shape
    e["judged"] = []
    if n == k and cond <= 1e6:
        e["judged"].append("zero" + ("+strategy" if e.get("extra") is not None else ""))
        for j, m in enumerate(ms):
            if not abs(r_pos[j]) <= 1e-9 * scale * max(1.0, cond / 1e3):
                V("C20/hedge-zero:residual-risk:%s" % m1, "after HedgeRisks(%s) on %s the %s risk recomputed from positions is %r (before %r; instruments %r with multipliers %r)"
                  % (ms, date.date(), m, r_pos[j], r0[j], instr, [mult[x] for x in instr]))
            if m in fresh and (fresh[m] is None or not abs(fresh[m]) <= 1e-9 * scale * max(1.0, cond / 1e3)):
                V("C20/hedge-zero:residual-risk:%s" % m1, "after HedgeRisks(%s) a fresh UpdateRisk(%s) gives %r (before %r; multipliers %r)" % (ms, m, fresh[m], r0[j], [mult[x] for x in instr]))
    if d["pseudo"]:
        S = U * np.array([mult[nm] for nm in instr]).reshape(n, 1)
        rank = int(np.linalg.matrix_rank(U))
        rank_ok = rank >= 1 and sv[rank - 1] > 1e-6 * sv[0] and (rank == len(sv) or sv[rank] < 1e-12 * sv[0])     # a clear gap in the spectrum
        if rank_ok:
            e["judged"].append("least-squares")
            q, *_ = np.linalg.lstsq(S.T, -np.array(r0), rcond=None)
            best = float(np.linalg.norm(np.array(r0) + S.T @ q))
            got = float(np.linalg.norm(np.array(r_pos)))
            if not got <= best + 1e-9 * scale * max(1.0, cond / 1e3 if np.isfinite(cond) else 1.0):
                V("C20/hedge-pinv:not-least-squares:%s" % m1, "pseudo-inverse hedge leaves |risk| = %r, the least-squares minimum over notionals is %r (before %r, instruments %r multipliers %r)"
                  % (got, best, r0, instr, [mult[x] for x in instr]))


def certificate(e):
    """the numpy result is a certificate: H*Hinv = 1 (inv) / the four Penrose identities (pinv), checked at run time"""
    for c in e.get("np", []):
        if c["out"] is None:
            continue
        A, B = c["arg"], c["out"]
        if not (np.isfinite(A).all() and np.isfinite(B).all()):
            continue
        s = max(1.0, float(np.abs(A).max()) * float(np.abs(B).max()))
        if c["fn"] == "inv":
            ok = np.allclose(A @ B, np.eye(len(A)), atol=1e-8 * s) and np.allclose(B @ A, np.eye(len(A)), atol=1e-8 * s)
        else:
            ok = (np.allclose(A @ B @ A, A, atol=1e-8 * s * max(1.0, np.abs(A).max())) and np.allclose(B @ A @ B, B, atol=1e-8 * s * max(1.0, np.abs(B).max()))
                  and np.allclose((A @ B).T, A @ B, atol=1e-8 * s) and np.allclose((B @ A).T, B @ A, atol=1e-8 * s))
        if not ok:
            return False
    return True


# ================================================================== driving a case
def classify(spec, log, outcome):
    t = spec["tree"]
    shape = "d%d/%s" % (tree_depth(t), "n%d" % min(len(tree_secs(t)), 6))
    algos = tuple(sorted({e["k"] for e in log if e["k"] not in ("eod", "trades", "select_these")}))
    errs = tuple(sorted({e["err"][0] for e in log if e.get("err")}))
    extra = ()
    if spec["kind"] in ("hedge",) or spec.get("hedge"):
        h = spec["hedge"]
        extra = (h["shape"], h["pseudo"], h["mult_one"], len(h["measures"]))
    elif spec["kind"] == "life":
        extra = (spec["life"]["mode"], spec["life"]["lazy_mode"], bool(spec["roll"]), bool(spec["close"]))
    elif spec["kind"] == "risk":
        extra = (spec["history"], len(spec["measures"]))
    return (spec["kind"], spec.get("ill"), "fi" if t["fi"] else "mv", shape, spec["driver"], spec["integer"], algos, errs, extra)


def run_case(ctx, bt, spec, pending, tag=""):
    ctx.evaluations += 1
    log, frames, outcome = execute(bt, spec)
    for e in log:
        if e["k"] in ("update_risk", "hedge"):
            e["frames"] = frames
    ctx.classes.add(classify(spec, log, outcome))
    ctx.count("cases:%s%s" % (spec["kind"], ":" + spec["ill"] if spec.get("ill") else ""))
    ctx.count("driver:" + spec["driver"])
    if spec.get("own_indices"):
        ctx.count("tables-with-own-index:%s:%s" % (spec["kind"], spec["driver"]))
    if outcome["raised"] and outcome["raised"] != "algo":
        ctx.count("engine-refused:" + outcome["raised"].split(":")[0])
    for e in log:
        if e["k"] in ("eod", "trades"):
            continue
        ctx.count("call:%s:%s" % (e["k"], ("engine-refused:" if e.get("engine") else "raised:") + e["err"][0] if e.get("err") else "ok"))
        if e["k"] == "hedge" and not e.get("err"):
            h = spec.get("hedge", {})
            ctx.count("hedge:%s:%s:%s" % (h.get("shape"), "pinv" if e["desc"]["pseudo"] else "inv", "mult1" if h.get("mult_one") else "multx"))
            if not certificate(e):
                ctx.count("hedge:certificate-failed")
                e["skip_monitor"] = True
        if e["k"] == "update_risk" and not e.get("err"):
            ctx.count("update:history=%s" % e["desc"]["history"])

    def V(key, what):
        ctx.violation(key, what, {"spec": spec})
    mlog = [e for e in log if not e.get("skip_monitor")]
    monitor(bt, spec, mlog, frames, V)
    for e in mlog:
        for j in e.get("judged", ()):
            ctx.count("hedge-clause-judged:" + j)
    if spec["kind"] == "ill":
        expect_ill(ctx, spec, log, V)
    N = R.Namer()
    for e in log:
        if e["k"] in ("update_risk", "hedge", "close", "roll", "select_active"):
            for line, cb in requests_for(bt, spec, e, frames, N):
                pending.append((line, cb, spec, "risk:" + e["k"] + tag, e))
    for line, cb in run_request(bt, spec, log, N):
        pending.append((line, cb, spec, "risk:run" + tag, None))
    return log


def expect_ill(ctx, spec, log, V):
    """the ill-formed stream: what must raise raises, and the documented findings keep their keys"""
    sub = spec["ill"]
    errs = [(e["k"], e["err"][0]) for e in log if e.get("err")]
    if sub == "mixed-history" or sub == "mixed-history-targets":
        if errs and errs[0] == ("update_risk", "AttributeError"):
            V("C20/update-risk-raised:AttributeError:history-depth-differs-between-calls",
              "UpdateRisk raised AttributeError (no `risks` frame) because an earlier UpdateRisk call on the same tree used another history depth: %r" % (spec.get("mixed"),))
    want = {"singular": "LinAlgError", "nonsquare": "LinAlgError", "hedge-before-update": "ValueError", "no-selected": "KeyError", "nan-unit-throw": None,
            "date-missing": "KeyError", "measure-missing": "KeyError", "hedge-measure-missing": None}.get(sub)
    if sub == "singular" and spec["hedge"]["pseudo"]:
        want = None
    if want is not None:
        hit = [x for x in errs if x[1] == want]
        # (the program may end before the ill-formed call is reached, e.g. hedge dates without positions: counted)
        ctx.count("ill:%s:%s" % (sub, "raised-as-expected" if hit else ("other:" + errs[0][1] if errs else "not-reached-or-accepted")))


def settle(ctx, pending):
    lines = [p[0] for p in pending]
    answers = leanrun.run_lines(lines)
    per = {}
    nfl = nbit = 0
    for (line, cb, spec, name, e), ans in zip(pending, answers):
        st = per.setdefault(name, [0, 0])
        st[0] += 1
        try:
            detail = cb(ans)
        except Exception as ex:
            detail = {"parse": repr(ex), "answer": ans[:300]}
        if e is not None and e.get("cmp") is not None:
            nfl += e["cmp"].n
            nbit += e["cmp"].bit
        if detail is not None:
            st[1] += 1
            ctx.disagreement("corr:%s:%s" % (name, detail.get("kind", "parse")), detail, {"spec": spec})
    for name in sorted(per):
        ctx.protocols.append((name, per[name][0], per[name][1]))
    ctx.count("floats-compared", nfl)
    ctx.count("floats-bit-identical", nbit)


def corpus():
    out = []
    for f in sorted(glob.glob(os.path.join(HERE, "corpus", "C20_*.json"))):
        out += json.load(open(f))
    return out


def run(ctx, bt, n=None, kinds=None, tag=""):
    pending = []
    if not tag:
        for spec in corpus():
            run_case(ctx, bt, copy.deepcopy(spec), pending, ":corpus")
    kinds = kinds or KINDS
    for i in range(n or ctx.scale(330, 4000)):
        kind = kinds[i % len(kinds)]
        spec = GEN[kind](ctx.rng)
        log = run_case(ctx, bt, spec, pending, tag)
        if len(ctx.samples) < 4 and i % 2 == 0:
            ctx.sample({"kind": kind, "tree": spec["tree"]["name"], "fi": spec["tree"]["fi"], "driver": spec["driver"], "dates": len(spec["dates"]),
                        "measures": spec["measures"], "calls": [e["k"] for e in log if e["k"] != "eod"][:12]}, cap=4)
    settle(ctx, pending)


def search(ctx, bt):
    bad = sorted({d["replay_data"]["spec"]["kind"] for d in ctx.disagreements})
    ctx.notes.append("search biased to: %s" % bad)
    run(ctx, bt, ctx.scale(600, 6000), kinds=bad or None, tag=":search")


def replay(bt, data, ctx):
    case = data["case"]
    spec = case["spec"] if "spec" in case else case
    pending = []
    run_case(ctx, bt, copy.deepcopy(spec), pending)
    settle(ctx, pending)
