"""C16 bankruptcy: leveraged / short generated backtests on crashing and spiking paths (flat and nested trees);
flag, positions, value, cash from recorded series and a spy algo that records the flag at every call;
leveraged buy-and-hold engine histories compared step-wise with the Lean model."""
import copy

from .. import engine as E
from .. import gen_engine as G
from .. import gen_runs as R
from ..engine_run import Observer, run_engine_protocol, run_history_observed, model_compare, continuation_search
from ..runs_run import run_one

RULE = ("leveraged (1.5x-6x) and short WeighSpecified/WeighEqually+ScaleWeights programs on paths with a crash or spike, daily / weekly / once "
        "rebalancing, flat and nested, integer and fractional, commissions; values that cross, touch and stay above zero; fixed-income "
        "roots; per run: flag iff some recorded value < 0, positions zero from the bankruptcy date on, value and cash constant afterwards, "
        "no algo call while flagged, sub-strategies never flagged. distinct = (nested, schedule, integer, commission, bankrupt?, fi)")
ASSUMPTIONS = ["recorded end-of-date series are the observation (the flag is read at the end and inside a spy algo at every call)"]

FOOT_FIELDS = {"bankrupt", "position", "value", "capital", "rValue", "rCash", "rPosition", "stale", "now", "needupdate", "weight"}


class FlagSpy:
    def __init__(self):
        self.log = []

    def __call__(self, target):
        self.log.append((str(target.now), target.full_name, bool(target.root.bankrupt), bool(getattr(target, "bankrupt", False))))
        return True


def gen_spec(rng):
    nested = rng.random() < 0.35
    fi = (not nested) and rng.random() < 0.12
    spec = R.gen_run_spec(rng, nested=nested, crash=rng.random() < 0.85, T=rng.randint(6, 16))
    tick = spec["tickers"]
    lev = rng.choice([1.5, 2.0, 3.0, 4.0, 6.0, 1.0, 0.75])
    sched = rng.choice([["RunOnce"], ["RunDaily", True, False, False], ["RunWeekly", True, False, False], ["RunEveryNPeriods", 2, 0]])

    def lev_stack(names):
        ws = {}
        k = max(1, len(names))
        sign = rng.choice([1, 1, -1])
        for nm in names:
            ws[nm] = sign * lev / k if rng.random() < 0.85 else -lev / (2 * k)
        return [sched, ["WeighSpecified", ws], ["Rebalance"]]

    if nested:
        for kid in spec["tree"]["kids"]:
            kid["stack"] = [["RunDaily", True, False, False], ["SelectAll"], ["WeighEqually"], ["Rebalance"]]
        names = [k["name"] for k in spec["tree"]["kids"]] + list(spec["tree"]["tickers"] or [])
        spec["tree"]["stack"] = lev_stack(names)
    else:
        spec["tree"]["tickers"] = tick
        spec["tree"]["stack"] = lev_stack(tick)
    spec["fi"] = fi
    if fi:
        spec["tree"]["stack"].insert(2, ["SetNotionalConst", spec["capital"]])
    spec["lev"] = lev
    return spec


def check_run(ctx, bt, spec):
    try:
        s = R.build_strategy(bt, spec)
        # spies on every strategy of the tree
        for n in s.members:
            if hasattr(n, "stack"):
                n.stack.algos = (FlagSpy(),) + tuple(n.stack.algos)
        b, data, add = R.build_backtest(bt, spec, strategy=s)
        import contextlib, io
        with contextlib.redirect_stdout(io.StringIO()), contextlib.redirect_stderr(io.StringIO()):
            b.run()
    except Exception as e:  # noqa
        ctx.count("program-raised:" + E.classify_exc(e))
        return
    root = b.strategy
    n = len(b.dates)
    vals = [float(x) for x in root._values.values]
    cash = [float(x) for x in root._cash.values]
    flagged = bool(root.bankrupt)
    ctx.count("program-completed")
    ctx.count("bankrupt-runs" if flagged else "solvent-runs")
    minv = min(vals)
    ctx.classes.add((len(spec["tree"]["kids"]), spec["tree"]["stack"][0][0], spec["integer"], spec["comm"][0], flagged, bool(spec.get("fi")),
                     "touch" if abs(minv) < 1e-9 else ("neg" if minv < 0 else "pos")))
    rd = {"spec": spec}
    tolv = 1e-9 * max(1.0, spec["capital"])
    neg = [i for i, v in enumerate(vals) if v < -tolv]
    if root.fixed_income:
        if flagged:
            ctx.violation("C16/fi-flagged", "fixed-income root flagged bankrupt", rd)
        return
    for nd in root.members:
        if nd is not root and isinstance(nd, bt.core.StrategyBase) and nd.bankrupt:
            ctx.violation("C16/substrategy-flagged", "sub-strategy %s flagged bankrupt" % nd.full_name, rd)
    if neg and not flagged:
        ctx.violation("C16/negative-not-flagged", "root value %r on date#%d but not flagged bankrupt" % (vals[neg[0]], neg[0]), rd)
        return
    if flagged and not [i for i, v in enumerate(vals) if v < 0]:
        ctx.violation("C16/flagged-without-negative", "flagged bankrupt although no recorded value is negative (min %r)" % minv, rd)
        return
    spy = []
    for nd in root.members:
        if hasattr(nd, "stack"):
            for a in nd.stack.algos:
                if isinstance(a, FlagSpy):
                    spy += a.log
    # the backtest must not START the root's stack on a flagged root.  (A bankruptcy detected by an update issued from inside the
    # root's own stack - e.g. by its Rebalance - sets the flag in the middle of run(): the sub-strategies' stacks are then still
    # called on that same date, on a liquidated tree with no cash; that is not "running the algos after bankruptcy" - what matters,
    # and is checked below, is that positions are flat at the end of that date and that no stack is called on any later date.)
    root_name = root.full_name
    if any(x[2] for x in spy if x[1] == root_name):
        bad = [x for x in spy if x[2] and x[1] == root_name][0]
        ctx.violation("C16/algos-ran-while-bankrupt", "algo stack of %s called on %s with the root flagged bankrupt" % (bad[1], bad[0]), rd)
    if any(x[2] for x in spy if x[1] != root_name):
        ctx.count("sub-strategy-stack-called-on-the-bankruptcy-date-after-liquidation")
    if not flagged:
        return
    bidx = [i for i, v in enumerate(vals) if v < 0][0]
    for sec in root.members:
        if isinstance(sec, bt.core.SecurityBase):
            pos = [float(x) for x in sec._positions.values]
            for i in range(bidx, n):
                if pos[i] != 0.0:
                    ctx.violation("C16/position-after-bankruptcy", "%s holds %r on date#%d (bankrupt on date#%d)" % (sec.full_name, pos[i], i, bidx), rd)
                    return
            if sec._position != 0.0:
                ctx.violation("C16/position-after-bankruptcy", "%s ends with position %r" % (sec.full_name, sec._position), rd)
                return
    for i in range(bidx + 1, n):
        if abs(vals[i] - vals[bidx]) > 1e-9 * max(1.0, abs(vals[bidx])) or abs(cash[i] - cash[bidx]) > 1e-9 * max(1.0, abs(cash[bidx])):
            ctx.violation("C16/not-terminal", "after bankruptcy on date#%d value/cash move on date#%d: %r/%r -> %r/%r"
                          % (bidx, i, vals[bidx], cash[bidx], vals[i], cash[i]), rd)
            return
    late = [x for x in spy if x[0] > str(b.dates[bidx])]
    if late:
        ctx.violation("C16/algos-ran-after-bankruptcy", "algos called on %s after bankruptcy on %s" % (late[0][0], b.dates[bidx]), rd)


def levered_hold(rng, spec):
    """engine history: lever up on an early date, then walk the dates (prices crash/spike in gen_prices' zero spells and drifts)"""
    G.scripted_hold(rng, spec)
    cap = spec["capital"]
    for op in spec["ops"]:
        if op["op"] == "transact":
            col = None
            # scale the quantity so that exposure is a multiple of capital
            op["q"] = float(int(op["q"] * cap / 400.0)) or 1.0


class TriggerOracle(Observer):
    """engine histories: on every `update` of a not-yet-flagged market-value root the total is recomputed independently from the
    pre-state - all cash in the tree (strategies' capital and the coupon/carry parked on securities) plus position x new price x
    multiplier of every security - and the flag must be set exactly when that total is below zero; after a flagged update every
    position in the tree is zero"""

    def __init__(self, ctx):
        self.ctx = ctx

    def after(self, bt, spec, root, dates, step, i):
        ctx = self.ctx
        if step["op"]["op"] != "update" or "post" not in step:
            return
        pre, post = step["pre"]["root"], step["post"]["root"]
        if pre["bankrupt"] or pre["fixedIncome"]:
            if pre["fixedIncome"] and post["bankrupt"]:
                ctx.violation("C16/fi-flagged", "fixed-income root flagged bankrupt in an engine history", {"spec": spec, "upto": i})
            return
        d = step["op"]["d"]
        tot = [0.0]
        scale = [1.0]
        ok = [True]

        def rec(n):
            if n["t"] == "S":
                tot[0] += n["capital"]
                scale[0] = max(scale[0], abs(n["capital"]))
                if n["position"] != 0.0:
                    px = n["prices"][d] if d < len(n["prices"]) else None
                    if px is None:
                        ok[0] = False
                        return
                    v = n["position"] * px * n["mult"]
                    tot[0] += v
                    scale[0] = max(scale[0], abs(v))
            else:
                tot[0] += n["capital"]
                scale[0] = max(scale[0], abs(n["capital"]))
                for k in n["kids"]:
                    rec(k)
        rec(pre)
        if not ok[0]:
            return
        # a pending coupon accrual of the date itself (computed inside the update) cannot change the total of the old date's cash
        tolv = 1e-9 * scale[0]
        if abs(tot[0]) <= tolv:
            ctx.count("trigger-oracle:touches-zero")
            return
        ctx.count("trigger-oracle:updates-judged")
        exp = tot[0] < 0
        if exp:
            ctx.count("trigger-oracle:bankruptcies")
        if bool(post["bankrupt"]) != exp:
            ctx.violation("C16/flag-vs-total:" + ("missed" if exp else "spurious"),
                          "update to date#%d: cash in the tree + positions at the new prices = %r, flag %s" % (d, tot[0], post["bankrupt"]),
                          {"spec": spec, "upto": i})
            return
        if exp:
            def open_pos(n, w=""):
                if n["t"] == "S":
                    return [(w + "/" + n["name"], n["position"])] if n["position"] != 0.0 else []
                out = []
                for k in n["kids"]:
                    out += open_pos(k, w + "/" + n["name"])
                return out
            left = open_pos(post)
            zero_px = any(True for _ in [0] if False)
            if left:
                # the documented exclusion: a security marked at exactly zero keeps its position (known zero-value case)
                def zero_marked(n):
                    if n["t"] == "S":
                        return n["position"] != 0.0 and n["value"] == 0.0
                    return any(zero_marked(k) for k in n["kids"])
                if not zero_marked(post):
                    ctx.violation("C16/position-after-bankruptcy", "after the liquidating update to date#%d positions remain: %r" % (d, left[:3]),
                                  {"spec": spec, "upto": i})


carry_tree = G.carry_tree


def run(ctx, bt):
    run_engine_protocol(ctx, bt, ctx.scale(40, 600), [TriggerOracle(ctx)], FOOT_FIELDS, None, spec_kwargs={"fi_tree": False},
                        spec_mutator=carry_tree, corr_name="step[C16]:carry-securities-under-market-value-root")
    n = ctx.scale(120, 2500)
    for _ in range(n):
        spec = gen_spec(ctx.rng)
        # the loop of Backtest.run has a progress-bar branch of its own on the bankruptcy path
        spec["progress_bar"] = ctx.rng.random() < 0.3
        ctx.evaluations += 1
        if len(ctx.samples) < 2:
            ctx.sample({"tree": spec["tree"], "lev": spec["lev"], "integer": spec["integer"], "comm": spec["comm"]})
        check_run(ctx, bt, spec)
    run_engine_protocol(ctx, bt, ctx.scale(60, 600), [TriggerOracle(ctx)], FOOT_FIELDS, None, spec_kwargs={"fi_tree": False},
                        spec_mutator=levered_hold, corr_name="step[C16]")
    from ..runs_run import run_steps_protocol
    run_steps_protocol(ctx, bt, ctx.scale(25, 500), FOOT_FIELDS, "run-steps[C16]:leveraged-programs", make_spec=gen_spec)
    from .. import whole_run as W
    # complete levered backtests executed end to end by the model (liquidation and the terminal stretch included)
    W.whole_run_protocol(ctx, bt, ctx.scale(30, 500), "whole-run[C16]:levered-programs",
                         make_spec=lambda rng: W.gen_spec(rng, lev=True, crash=rng.random() < 0.8))
    from ..runs_run import run_days_protocol
    # the loop body of Backtest.run (and of shadow copies): does the model take the same run / no-run decision, day by day
    run_days_protocol(ctx, bt, ctx.scale(25, 500), None, "btday[C16]:leveraged-programs", make_spec=gen_spec)


def search(ctx, bt):
    for _ in range(ctx.scale(600, 4000)):
        spec = gen_spec(ctx.rng)
        spec["progress_bar"] = ctx.rng.random() < 0.3
        ctx.evaluations += 1
        check_run(ctx, bt, spec)
        if ctx.violations:
            return


def replay(bt, data, ctx):
    case = data["case"]
    spec = case["spec"]
    if "ops" in spec:
        steps, root, dates = run_history_observed(bt, spec, ctx.rng, len(spec["ops"]), [TriggerOracle(ctx)], ctx)
        model_compare(ctx, bt, [(spec, i, st) for i, st in enumerate(steps)], FOOT_FIELDS, None, "step[C16]")
    else:
        check_run(ctx, bt, spec)
