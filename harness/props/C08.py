"""C08 idempotent updates, fresh reads, append-only history: twin copies of the real tree inside generated histories
+ whole-snapshot step correspondence with the Lean model."""
import copy

import numpy as np

from .. import engine as E
from ..engine_run import Observer, run_engine_protocol, run_history_observed, model_compare, continuation_search

RULE = ("engine histories with redundant same-date updates and reads of every getter at random positions; after sampled steps: "
        "update;update on a deep copy leaves the full snapshot bit-identical; a getter read on one copy equals the read after an explicit "
        "update on another copy; rows before the current date never change between consecutive snapshots; no returned series ends after now; "
        "every step compared with the Lean model on the whole snapshot. distinct = (tree shape, op, outcome, integer, commission)")
ASSUMPTIONS = ["freshness is judged only when no update=False run is open (the caller then owes an update)"]

SERIES_STRAT = ["prices", "values", "notional_values", "cash", "fees", "flows", "positions", "outlays"]
SERIES_SEC = ["prices", "values", "notional_values", "positions", "outlays"]
SCALAR_STRAT = ["value", "weight", "notional_value", "price", "capital"]
SCALAR_SEC = ["value", "weight", "notional_value", "price", "position"]


def canon(v):
    if hasattr(v, "index") and hasattr(v, "values"):
        vals = np.asarray(v.values, dtype=float)
        return ("series", tuple(str(i) for i in v.index), tuple(E.f2b(x) if x == x else -1 for x in vals.ravel()),
                tuple(getattr(v, "columns", [])) if hasattr(v, "columns") else ())
    try:
        f = float(v)
        return ("scalar", E.f2b(f) if f == f else -1)
    except Exception:
        return ("other", repr(v))


def rows_prefix_equal(pre, post, upto, where=""):
    """rows of every node at indices < upto are identical in the two snapshots"""
    out = []
    w = where + "/" + pre["name"]
    if pre["t"] != post["t"]:
        return out
    keys = E.SEC_ROWS if pre["t"] == "S" else E.STRAT_ROWS
    for k in keys:
        a, b = pre[k], post[k]
        if len(a) != len(b):
            out.append("%s %s: length %d -> %d" % (w, k, len(a), len(b)))
            continue
        for j in range(min(upto, len(a))):
            if E.f2b(a[j]) != E.f2b(b[j]) and not (a[j] == 0.0 and b[j] == 0.0):
                out.append("%s %s[%d]: %r -> %r" % (w, k, j, a[j], b[j]))
                break
    if pre["t"] == "T":
        for x, y in zip(pre["kids"], post["kids"]):
            out += rows_prefix_equal(x, y, upto, w)
    return out


class Monitor(Observer):
    def __init__(self, ctx, p_twin=0.3):
        self.ctx = ctx
        self.p = p_twin

    def frame_oracle(self, bt, spec, root, step, i):
        """independent oracle for the two assembled frames (`positions`, `outlays` of a strategy): one column per security name
        below the node (first-seen order), the sum of the same-named securities' own recorded series up to now - whatever was
        read or cached before"""
        ctx = self.ctx
        try:
            c1 = copy.deepcopy(root)
            nodes = [m for m in c1.members if isinstance(m, bt.core.StrategyBase)]
        except Exception as e:  # noqa
            ctx.count("frame-oracle-raised:" + E.classify_exc(e))
            return
        if spec.get("oracle_all"):
            todo = [(nd, a) for nd in nodes for a in ("positions", "outlays")]
        else:
            todo = [(ctx.rng.choice(nodes), ctx.rng.choice(["positions", "positions", "outlays"]))]
        for nd, attr in todo:
            if self._frame_oracle_one(bt, spec, nd, attr, step, i):
                return

    def _frame_oracle_one(self, bt, spec, nd, attr, step, i):
        ctx = self.ctx
        try:
            v1 = getattr(nd, attr)
        except Exception as e:  # noqa
            ctx.count("frame-oracle-raised:" + E.classify_exc(e))
            return False
        exp = {}
        for x in nd.members:
            if isinstance(x, bt.core.SecurityBase):
                if isinstance(x.now, int) and x.now == 0:
                    ser = np.zeros(0)
                else:
                    ser = np.asarray((x._positions if attr == "positions" else x._outlays).loc[: x.now].values, dtype=float)
                exp[x.name] = exp[x.name] + ser if (x.name in exp and len(exp[x.name]) == len(ser)) else ser
        got = {str(c): np.asarray(v1[c].values, dtype=float) for c in getattr(v1, "columns", [])}
        ctx.count("assembled-frame-oracle:" + attr)
        badc = None
        if list(got) != list(exp):
            badc = "columns %r, expected %r" % (list(got), list(exp))
        else:
            for cname in exp:
                a, b = got[cname], exp[cname]
                if len(a) != len(b) or any(E.f2b(x) != E.f2b(y) and not (x == y) and not (x != x and y != y) for x, y in zip(a, b)):
                    badc = "column %s is %r, the securities' own series give %r" % (cname, list(a[-4:]), list(b[-4:]))
                    break
        if badc:
            ctx.violation("C08/stale-read:" + attr + ":assembled-frame", "after op %d %s: %s.%s does not show the current histories: %s"
                          % (i, step["op"]["op"], nd.full_name, attr, badc), {"spec": spec, "upto": i})
            return True
        return False

    def after(self, bt, spec, root, dates, step, i):
        ctx = self.ctx
        post = step["post"]
        now = post["root"]["now"]
        if now is None:
            return
        # (c) append-only: nothing before the current date changed in this step
        bad = rows_prefix_equal(step["pre"]["root"], post["root"], now)
        ctx.count("append-only-steps")
        if bad:
            ctx.violation("C08/past-row-changed", "op %d %s rewrote a row of an earlier date: %s" % (i, step["op"]["op"], bad[0]),
                          {"spec": spec, "upto": i})
        if not step["pending"] and ctx.rng.random() < max(self.p, 0.5):
            self.frame_oracle(bt, spec, root, step, i)
        force = (not step["pending"]) and bool(root.stale) and any(m.now != root.now for m in root.members)
        if ctx.rng.random() > self.p and not force:
            return
        # (a) idempotence of update on a deep copy
        try:
            c = copy.deepcopy(root)
            s0 = E.snap_world(bt, c) if (not root.stale and not step["pending"]) else None
            c.update(c.now)
            s1 = E.snap_world(bt, c)
            if s0 is not None:
                # the tree is fresh: this update is a repetition of the last one and must change nothing
                cm0 = E.cmp_world(s0, s1)
                ctx.count("idempotence-twins:fresh-tree-updated-again")
                if cm0.diffs or cm0.nbit != cm0.nfloat:
                    tolv0 = float(bt.core.TOL)
                    dust0 = any(isinstance(m, bt.core.SecurityBase) and 0 < abs(m._position) < tolv0 for m in root.members)
                    carry0 = (not cm0.diffs) and (not dust0) and any(hasattr(m, "_coupon_income") and m._position != 0 for m in root.members)
                    ctx.violation("C08/update-not-idempotent" + (":dust" if dust0 else ":low-bits-after-carry-sweep" if carry0 else ""),
                                  "after op %d %s: the tree was fresh, one more update of the same date changed the snapshot: %s"
                                  % (i, step["op"]["op"], cm0.diffs[0] if cm0.diffs else "a float changed in the low bits"), {"spec": spec, "upto": i})
                    return
            k = ctx.rng.randint(1, 3)
            for _ in range(k):
                c.update(c.now)
            s2 = E.snap_world(bt, c)
        except Exception as e:  # noqa
            ctx.count("twin-update-raised:" + E.classify_exc(e))
            return
        ctx.count("idempotence-twins")
        cm = E.cmp_world(s1, s2)
        exact = [d for d in cm.diffs]
        if exact or cm.nbit != cm.nfloat:
            what = exact[0] if exact else "a float changed in the low bits"
            tolv = float(bt.core.TOL)
            dust = any(isinstance(m, bt.core.SecurityBase) and 0 < abs(m._position) < tolv for m in root.members)
            carry = (not exact) and (not dust) and any(hasattr(m, "_coupon_income") and m._position != 0 for m in root.members)
            ctx.violation("C08/update-not-idempotent" + (":dust" if dust else ":low-bits-after-carry-sweep" if carry else ""), "after op %d %s: update x%d after update changed the snapshot: %s" % (i, step["op"]["op"], k, what),
                          {"spec": spec, "upto": i})
        if step["pending"]:
            return
        # (b) read freshness and (d) series end at now
        members = list(root.members)
        idx = ctx.rng.randrange(len(members))
        # nodes whose own clock lags the root's (flat securities the engine no longer marks): half of the reads on a stale tree
        lag = [j for j, m in enumerate(members) if m.now != root.now]
        if lag and root.stale and (force or ctx.rng.random() < 0.5):
            idx = ctx.rng.choice(lag)
            ctx.count("freshness-twins:read-on-a-lagging-node")
        # a security that was just closed (flat, still flagged) on a stale tree: its own series getters
        just_closed = [j for j, m in enumerate(members) if isinstance(m, bt.core.SecurityBase) and m._position == 0 and m._needupdate and m.now == root.now]
        jc = bool(just_closed) and bool(root.stale) and (self.p >= 1.0 or ctx.rng.random() < 0.5)
        if jc:
            idx = ctx.rng.choice(just_closed)
            ctx.count("freshness-twins:series-getter-of-a-just-closed-security")
        is_sec = isinstance(members[idx], bt.core.SecurityBase)
        attr = ctx.rng.choice(SERIES_SEC if jc else (SERIES_SEC + SCALAR_SEC) if is_sec else (SERIES_STRAT + SCALAR_STRAT))
        if jc and self.p >= 1.0:
            attr = "positions"      # (corpus / scripted runs: deterministic)
        was_stale = bool(root.stale)
        try:
            c1 = copy.deepcopy(root)
            v1 = getattr(list(c1.members)[idx], attr)
            c2 = copy.deepcopy(root)
            c2.update(c2.now)
            v2 = getattr(list(c2.members)[idx], attr)
        except Exception as e:  # noqa
            ctx.count("twin-read-raised:" + E.classify_exc(e))
            return
        ctx.count("freshness-twins:" + attr)
        # a read that refreshes a stale tree leaves exactly the tree an explicit update leaves (same clock, same rows everywhere)
        if was_stale and not c1.stale:
            try:
                cmw = E.cmp_world(E.snap_world(bt, c1), E.snap_world(bt, c2))
                ctx.count("freshness-twins:whole-tree-compared")
                if cmw.diffs:
                    m0 = members[idx]
                    only_bo = all("idoffer" in str(dd.get("field", "")) for dd in cmw.diffs)
                    if isinstance(m0, bt.core.SecurityBase) and m0._position == 0 and m0._needupdate and attr in SERIES_SEC and only_bo:
                        ctx.violation("C08/read-is-not-an-update:just-closed-security-series-getter",
                                      "after op %d %s: reading %s.%s (just closed, still flagged) on the stale tree: %s" % (i, step["op"]["op"], m0.full_name, attr, cmw.diffs[0]),
                                      {"spec": spec, "upto": i})
                        return
                    ctx.violation("C08/read-is-not-an-update:" + attr, "after op %d %s: reading %s.%s on the stale tree left a tree that differs from an explicit update: %s"
                                  % (i, step["op"]["op"], members[idx].full_name, attr, cmw.diffs[0]), {"spec": spec, "upto": i})
                    return
            except Exception as e:  # noqa
                ctx.count("twin-compare-raised:" + E.classify_exc(e))
        if canon(v1) != canon(v2) and not was_stale and _numerically_equal(v1, v2) \
                and any(hasattr(m, "_coupon_income") and m._position != 0 for m in root.members):
            # the tree was fresh: the explicit update was a SECOND update of the date, and it moved the last bits (see the finding)
            ctx.violation("C08/update-not-idempotent:low-bits-after-carry-sweep", "after op %d %s: a second update of the date changed %s.%s in the last bits: %r / %r"
                          % (i, step["op"]["op"], members[idx].full_name, attr, _short(v1), _short(v2)), {"spec": spec, "upto": i})
        elif canon(v1) != canon(v2):
            ctx.violation("C08/stale-read:" + attr, "after op %d %s: %s.%s read %r but after an explicit update %r"
                          % (i, step["op"]["op"], members[idx].full_name, attr, _short(v1), _short(v2)), {"spec": spec, "upto": i})
        if hasattr(v1, "index") and len(v1.index):
            node_now = list(c1.members)[idx].now
            if not (isinstance(node_now, int) and node_now == 0) and v1.index[-1] > c1.now:
                ctx.violation("C08/series-beyond-now:" + attr, "after op %d: %s.%s ends at %s but now is %s"
                              % (i, members[idx].full_name, attr, v1.index[-1], c1.now), {"spec": spec, "upto": i})


def _numerically_equal(a, b):
    import numpy as np
    try:
        x = np.asarray(a.values if hasattr(a, "values") else a, dtype=float).ravel()
        y = np.asarray(b.values if hasattr(b, "values") else b, dtype=float).ravel()
        return x.shape == y.shape and bool(np.all((x == y) | (np.abs(x - y) <= 1e-9 * np.maximum(1.0, np.abs(x))) | (np.isnan(x) & np.isnan(y))))
    except Exception:
        return False


def _short(v):
    if hasattr(v, "values"):
        return list(np.asarray(v.values).ravel()[-4:])
    return v


def corpus():
    import glob, json, os
    here = os.path.dirname(os.path.dirname(os.path.dirname(os.path.abspath(__file__))))
    return [json.load(open(f))["spec"] for f in sorted(glob.glob(os.path.join(here, "corpus", "C08_*.json")))]


def cached_reads(rng, spec):
    """a ticker held under two sub-strategies (and one held directly); on every date: update, read an assembled frame while the tree
    is up to date, trade with update=False, explicit update, observe"""
    from .. import gen_engine as G
    spec["tree"] = {"name": "root", "fi": False, "algos": False, "kids": [
        {"name": "s00", "fi": False, "algos": False, "kids": [{"sec": "a", "kind": 0, "mult": 1.0, "cfi": True}, {"sec": "b", "kind": 0, "mult": 1.0, "cfi": True}]},
        {"name": "s01", "fi": False, "algos": False, "kids": [{"sec": "a", "kind": 0, "mult": rng.choice([1.0, 10.0]), "cfi": True}, {"sec": "c", "kind": 0, "mult": 1.0, "cfi": True}]},
        {"sec": "d", "kind": 0, "mult": 1.0, "cfi": True}]}
    for k in ("coupons", "cost_long", "cost_short"):
        spec[k] = None
    T = spec["T"]
    for t, col in spec["prices"].items():
        spec["prices"][t] = [(10.0 + j) if (x is None or x == 0.0) else x for j, x in enumerate(col)]
    ops = [{"op": "adjust", "path": [], "amount": spec["capital"], "update": True, "flow": True}, {"op": "update", "d": 0},
           {"op": "allocate", "path": [0], "amount": spec["capital"] / 4, "update": True}, {"op": "allocate", "path": [1], "amount": spec["capital"] / 4, "update": True}]
    secs = [[0, 0], [0, 1], [1, 0], [1, 1], [2]]
    for d in range(0, T):
        ops.append({"op": "update", "d": d})
        ops.append({"op": "read", "path": [], "g": 4, "attr": "positions"})
        ops.append({"op": "read", "path": rng.choice([[], [0], [1]]), "g": 4, "attr": rng.choice(["positions", "outlays", "positions"])})
        # the ticker held under both sub-strategies is traded on every date, plus a few others
        ops.append({"op": "transact", "path": rng.choice([[0, 0], [1, 0]]), "q": float(rng.randint(1, 9)), "update": False, "price": None})
        for _ in range(rng.randint(0, 2)):
            ops.append({"op": "transact", "path": rng.choice(secs), "q": float(rng.randint(1, 9)), "update": False, "price": None})
        ops.append({"op": "update", "d": d})
        ops.append({"op": "observe", "on": "real"})
    spec["ops"] = ops
    spec["oracle_all"] = True


def dynamic_child_cases(ctx, bt, n):
    """sub-strategies created while a run is going on (`bt.Strategy(name, parent=target)` + `setup_from_parent()`, as a pairs-trading
    algo does), with reads of the parent's frames before and after the creation on the same date: every frame handed out still ends
    at the current date, and a read is still what an explicit update leaves"""
    import pandas as pd
    from .. import gen_runs as R
    for _ in range(n):
        T = ctx.rng.randint(5, 12)
        dates, _k = R.gen_index(ctx.rng, T)
        idx = pd.DatetimeIndex(dates)
        names = R.TICKERS[:ctx.rng.randint(2, 4)]
        data = pd.DataFrame({t: [10.0 + 3 * j + i * (1 + j % 2) for i in range(T)] for j, t in enumerate(names)}, index=idx)
        root = bt.Strategy("top", children=list(names))
        root.setup(data)
        root.adjust(100000.0)
        k0 = ctx.rng.randint(0, T - 2)
        for i in range(k0 + 1):
            root.update(idx[i])
        case = {"dyn": {"dates": dates, "names": names, "k0": k0}}
        ctx.evaluations += 1
        ctx.count("dynamic-child-cases")
        reads_before = ctx.rng.random() < 0.7
        if reads_before:
            _ = root.universe
            _ = root.values
        kid_names = ["dyn%d" % j for j in range(ctx.rng.randint(1, 2))]
        try:
            for nm in kid_names:
                kid = bt.Strategy(nm, children=[ctx.rng.choice(names)], parent=root)
                kid.setup_from_parent()
                if ctx.rng.random() < 0.5:
                    root.allocate(1000.0, nm)
        except Exception as e:  # noqa
            ctx.count("dynamic-child:raised:" + E.classify_exc(e))
            continue
        for step in range(ctx.rng.randint(1, 3)):
            now = root.now
            for attr in ("universe", "values", "prices", "cash"):
                try:
                    v = getattr(root, attr)
                except Exception as e:  # noqa
                    ctx.count("dynamic-child:read-raised:" + E.classify_exc(e))
                    continue
                ctx.count("dynamic-child:frames-read")
                if len(v.index) and v.index[-1] > now:
                    ctx.violation("C08/series-beyond-now:" + attr, "after creating %r under top on %s (frames read before: %s): top.%s ends at %s (%d rows), now is %s"
                                  % (kid_names, idx[k0].date(), reads_before, attr, v.index[-1].date(), len(v.index), now.date()), case)
                    break
            if attr == "universe" and any(nm not in root.universe.columns for nm in kid_names):
                pass
            nxt = idx.get_loc(root.now) + 1
            if nxt >= T:
                break
            root.update(idx[nxt])


def run(ctx, bt):
    dynamic_child_cases(ctx, bt, ctx.scale(40, 600))
    run_engine_protocol(ctx, bt, ctx.scale(12, 150), [Monitor(ctx, 1.0)], None, None, spec_kwargs={"fi_tree": False},
                        spec_mutator=cached_reads, corr_name="step[C08]:read-trade-silently-update-read")
    for sp in corpus():
        run_history_observed(bt, copy.deepcopy(sp), ctx.rng, len(sp["ops"]), [Monitor(ctx, 1.0)], ctx)
        ctx.evaluations += 1
    run_engine_protocol(ctx, bt, ctx.scale(90, 900), [Monitor(ctx)], None, None, corr_name="step[C08]:whole-snapshot")


def search(ctx, bt):
    continuation_search(ctx, bt, lambda: [Monitor(ctx, 1.0)])
    if ctx.violations:
        return
    run_engine_protocol(ctx, bt, ctx.scale(300, 2000), [Monitor(ctx, 0.6)], None, None, corr_name="step[C08]:search")


def replay(bt, data, ctx):
    if "dyn" in data.get("case", {}):
        dynamic_child_cases(ctx, bt, 200)       # regenerated from the seed of the run
        return
    spec = data["case"]["spec"]
    steps, root, dates = run_history_observed(bt, spec, ctx.rng, len(spec["ops"]), [Monitor(ctx, 1.0)], ctx)
    model_compare(ctx, bt, [(spec, i, st) for i, st in enumerate(steps)], None, None, "step[C08]")
