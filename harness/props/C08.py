"""C08 idempotent updates, fresh reads, append-only history: twin copies of the real tree inside generated histories
+ whole-snapshot step correspondence with the Lean model."""
import copy

import numpy as np

from .. import engine as E
from ..engine_run import Observer, run_engine_protocol, run_history_observed, model_compare, continuation_search

RULE = ("engine histories with redundant same-date updates and reads of every getter at random positions; after sampled steps: "
        "update;update on a deep copy leaves the full snapshot bit-identical; a getter read on one copy equals the read after an explicit "
        "update on another copy; rows before the current date never change between consecutive snapshots; no returned series ends after now; "
        "every step compared with the Lean model on the whole snapshot; scripted family of trades with a cash leg of exactly zero (instruments "
        "quoted at 0.0, transact(q, price=0.0) with bid/offer data; fixed-income and market-value trees, all security kinds, zero / price-"
        "proportional commission) followed directly by reads, judged by whole read-outs on twins: every getter of every node read on one deep "
        "copy equals the same getter read after an explicit update on another. distinct = (tree shape, op, outcome, integer, commission)")
ASSUMPTIONS = ["freshness is judged only when no update=False run is open (the caller then owes an update)"]

SERIES_STRAT = ["prices", "values", "notional_values", "cash", "fees", "flows", "positions", "outlays"]
SERIES_SEC = ["prices", "values", "notional_values", "positions", "outlays"]
SCALAR_STRAT = ["value", "weight", "notional_value", "price", "capital"]
SCALAR_SEC = ["value", "weight", "notional_value", "price", "position"]


def canon(v):
    if hasattr(v, "index") and hasattr(v, "values"):
        vals = np.asarray(v.values, dtype=float)
        return ("series", tuple(str(i) for i in v.index), tuple(E.f2b(x) if x == x else -1 for x in vals.ravel()),
                tuple(getattr(v, "columns", [])) if hasattr(v, "columns") else ())
    try:
        f = float(v)
        return ("scalar", E.f2b(f) if f == f else -1)
    except Exception:
        return ("other", repr(v))


def rows_prefix_equal(pre, post, upto, where=""):
    """rows of every node at indices < upto are identical in the two snapshots"""
    out = []
    w = where + "/" + pre["name"]
    if pre["t"] != post["t"]:
        return out
    keys = E.SEC_ROWS if pre["t"] == "S" else E.STRAT_ROWS
    for k in keys:
        a, b = pre[k], post[k]
        if len(a) != len(b):
            out.append("%s %s: length %d -> %d" % (w, k, len(a), len(b)))
            continue
        for j in range(min(upto, len(a))):
            if E.f2b(a[j]) != E.f2b(b[j]) and not (a[j] == 0.0 and b[j] == 0.0):
                out.append("%s %s[%d]: %r -> %r" % (w, k, j, a[j], b[j]))
                break
    if pre["t"] == "T":
        for x, y in zip(pre["kids"], post["kids"]):
            out += rows_prefix_equal(x, y, upto, w)
    return out


class Monitor(Observer):
    def __init__(self, ctx, p_twin=0.3):
        self.ctx = ctx
        self.p = p_twin

    def frame_oracle(self, bt, spec, root, step, i):
        """independent oracle for the two assembled frames (`positions`, `outlays` of a strategy): one column per security name
        below the node (first-seen order), the sum of the same-named securities' own recorded series up to now - whatever was
        read or cached before"""
        ctx = self.ctx
        try:
            c1 = copy.deepcopy(root)
            nodes = [m for m in c1.members if isinstance(m, bt.core.StrategyBase)]
        except Exception as e:  # noqa
            ctx.count("frame-oracle-raised:" + E.classify_exc(e))
            return
        if spec.get("oracle_all"):
            todo = [(nd, a) for nd in nodes for a in ("positions", "outlays")]
        else:
            todo = [(ctx.rng.choice(nodes), ctx.rng.choice(["positions", "positions", "outlays"]))]
        for nd, attr in todo:
            if self._frame_oracle_one(bt, spec, nd, attr, step, i):
                return

    def _frame_oracle_one(self, bt, spec, nd, attr, step, i):
        ctx = self.ctx
        try:
            v1 = getattr(nd, attr)
        except Exception as e:  # noqa
            ctx.count("frame-oracle-raised:" + E.classify_exc(e))
            return False
        exp = {}
        for x in nd.members:
            if isinstance(x, bt.core.SecurityBase):
                if isinstance(x.now, int) and x.now == 0:
                    ser = np.zeros(0)
                else:
                    ser = np.asarray((x._positions if attr == "positions" else x._outlays).loc[: x.now].values, dtype=float)
                exp[x.name] = exp[x.name] + ser if (x.name in exp and len(exp[x.name]) == len(ser)) else ser
        got = {str(c): np.asarray(v1[c].values, dtype=float) for c in getattr(v1, "columns", [])}
        ctx.count("assembled-frame-oracle:" + attr)
        badc = None
        if list(got) != list(exp):
            badc = "columns %r, expected %r" % (list(got), list(exp))
        else:
            for cname in exp:
                a, b = got[cname], exp[cname]
                if len(a) != len(b) or any(E.f2b(x) != E.f2b(y) and not (x == y) and not (x != x and y != y) for x, y in zip(a, b)):
                    badc = "column %s is %r, the securities' own series give %r" % (cname, list(a[-4:]), list(b[-4:]))
                    break
        if badc:
            ctx.violation("C08/stale-read:" + attr + ":assembled-frame", "after op %d %s: %s.%s does not show the current histories: %s"
                          % (i, step["op"]["op"], nd.full_name, attr, badc), {"spec": spec, "upto": i})
            return True
        return False

    def after(self, bt, spec, root, dates, step, i):
        ctx = self.ctx
        post = step["post"]
        now = post["root"]["now"]
        if now is None:
            return
        # (c) append-only: nothing before the current date changed in this step
        bad = rows_prefix_equal(step["pre"]["root"], post["root"], now)
        ctx.count("append-only-steps")
        if bad:
            ctx.violation("C08/past-row-changed", "op %d %s rewrote a row of an earlier date: %s" % (i, step["op"]["op"], bad[0]),
                          {"spec": spec, "upto": i})
        if not step["pending"] and ctx.rng.random() < max(self.p, 0.5):
            self.frame_oracle(bt, spec, root, step, i)
        force = (not step["pending"]) and bool(root.stale) and any(m.now != root.now for m in root.members)
        if ctx.rng.random() > self.p and not force:
            return
        # (a) idempotence of update on a deep copy
        try:
            c = copy.deepcopy(root)
            s0 = E.snap_world(bt, c) if (not root.stale and not step["pending"]) else None
            c.update(c.now)
            s1 = E.snap_world(bt, c)
            if s0 is not None:
                # the tree is fresh: this update is a repetition of the last one and must change nothing
                cm0 = E.cmp_world(s0, s1)
                ctx.count("idempotence-twins:fresh-tree-updated-again")
                if cm0.diffs or cm0.nbit != cm0.nfloat:
                    tolv0 = float(bt.core.TOL)
                    dust0 = any(isinstance(m, bt.core.SecurityBase) and 0 < abs(m._position) < tolv0 for m in root.members)
                    carry0 = (not cm0.diffs) and (not dust0) and any(hasattr(m, "_coupon_income") and m._position != 0 for m in root.members)
                    ctx.violation("C08/update-not-idempotent" + (":dust" if dust0 else ":low-bits-after-carry-sweep" if carry0 else ""),
                                  "after op %d %s: the tree was fresh, one more update of the same date changed the snapshot: %s"
                                  % (i, step["op"]["op"], cm0.diffs[0] if cm0.diffs else "a float changed in the low bits"), {"spec": spec, "upto": i})
                    return
            k = ctx.rng.randint(1, 3)
            for _ in range(k):
                c.update(c.now)
            s2 = E.snap_world(bt, c)
        except Exception as e:  # noqa
            ctx.count("twin-update-raised:" + E.classify_exc(e))
            return
        ctx.count("idempotence-twins")
        cm = E.cmp_world(s1, s2)
        exact = [d for d in cm.diffs]
        if exact or cm.nbit != cm.nfloat:
            what = exact[0] if exact else "a float changed in the low bits"
            tolv = float(bt.core.TOL)
            dust = any(isinstance(m, bt.core.SecurityBase) and 0 < abs(m._position) < tolv for m in root.members)
            carry = (not exact) and (not dust) and any(hasattr(m, "_coupon_income") and m._position != 0 for m in root.members)
            ctx.violation("C08/update-not-idempotent" + (":dust" if dust else ":low-bits-after-carry-sweep" if carry else ""), "after op %d %s: update x%d after update changed the snapshot: %s" % (i, step["op"]["op"], k, what),
                          {"spec": spec, "upto": i})
        if step["pending"]:
            return
        # (b) read freshness and (d) series end at now
        members = list(root.members)
        idx = ctx.rng.randrange(len(members))
        # nodes whose own clock lags the root's (flat securities the engine no longer marks): half of the reads on a stale tree
        lag = [j for j, m in enumerate(members) if m.now != root.now]
        if lag and root.stale and (force or ctx.rng.random() < 0.5):
            idx = ctx.rng.choice(lag)
            ctx.count("freshness-twins:read-on-a-lagging-node")
        # a security that was just closed (flat, still flagged) on a stale tree: its own series getters
        just_closed = [j for j, m in enumerate(members) if isinstance(m, bt.core.SecurityBase) and m._position == 0 and m._needupdate and m.now == root.now]
        jc = bool(just_closed) and bool(root.stale) and (self.p >= 1.0 or ctx.rng.random() < 0.5)
        if jc:
            idx = ctx.rng.choice(just_closed)
            ctx.count("freshness-twins:series-getter-of-a-just-closed-security")
        is_sec = isinstance(members[idx], bt.core.SecurityBase)
        attr = ctx.rng.choice(SERIES_SEC if jc else (SERIES_SEC + SCALAR_SEC) if is_sec else (SERIES_STRAT + SCALAR_STRAT))
        if jc and self.p >= 1.0:
            attr = "positions"      # (corpus / scripted runs: deterministic)
        was_stale = bool(root.stale)
        try:
            c1 = copy.deepcopy(root)
            v1 = getattr(list(c1.members)[idx], attr)
            c2 = copy.deepcopy(root)
            c2.update(c2.now)
            v2 = getattr(list(c2.members)[idx], attr)
        except Exception as e:  # noqa
            ctx.count("twin-read-raised:" + E.classify_exc(e))
            return
        ctx.count("freshness-twins:" + attr)
        # a read that refreshes a stale tree leaves exactly the tree an explicit update leaves (same clock, same rows everywhere)
        if was_stale and not c1.stale:
            try:
                cmw = E.cmp_world(E.snap_world(bt, c1), E.snap_world(bt, c2))
                ctx.count("freshness-twins:whole-tree-compared")
                if cmw.diffs:
                    m0 = members[idx]
                    only_bo = all("idoffer" in str(dd.get("field", "")) for dd in cmw.diffs)
                    if isinstance(m0, bt.core.SecurityBase) and m0._position == 0 and m0._needupdate and attr in SERIES_SEC and only_bo:
                        ctx.violation("C08/read-is-not-an-update:just-closed-security-series-getter",
                                      "after op %d %s: reading %s.%s (just closed, still flagged) on the stale tree: %s" % (i, step["op"]["op"], m0.full_name, attr, cmw.diffs[0]),
                                      {"spec": spec, "upto": i})
                        return
                    ctx.violation("C08/read-is-not-an-update:" + attr, "after op %d %s: reading %s.%s on the stale tree left a tree that differs from an explicit update: %s"
                                  % (i, step["op"]["op"], members[idx].full_name, attr, cmw.diffs[0]), {"spec": spec, "upto": i})
                    return
            except Exception as e:  # noqa
                ctx.count("twin-compare-raised:" + E.classify_exc(e))
        if canon(v1) != canon(v2) and not was_stale and _numerically_equal(v1, v2) \
                and any(hasattr(m, "_coupon_income") and m._position != 0 for m in root.members):
            # the tree was fresh: the explicit update was a SECOND update of the date, and it moved the last bits (see the finding)
            ctx.violation("C08/update-not-idempotent:low-bits-after-carry-sweep", "after op %d %s: a second update of the date changed %s.%s in the last bits: %r / %r"
                          % (i, step["op"]["op"], members[idx].full_name, attr, _short(v1), _short(v2)), {"spec": spec, "upto": i})
        elif canon(v1) != canon(v2):
            ctx.violation("C08/stale-read:" + attr, "after op %d %s: %s.%s read %r but after an explicit update %r"
                          % (i, step["op"]["op"], members[idx].full_name, attr, _short(v1), _short(v2)), {"spec": spec, "upto": i})
        if hasattr(v1, "index") and len(v1.index):
            node_now = list(c1.members)[idx].now
            if not (isinstance(node_now, int) and node_now == 0) and v1.index[-1] > c1.now:
                ctx.violation("C08/series-beyond-now:" + attr, "after op %d: %s.%s ends at %s but now is %s"
                              % (i, members[idx].full_name, attr, v1.index[-1], c1.now), {"spec": spec, "upto": i})


def _numerically_equal(a, b):
    import numpy as np
    try:
        x = np.asarray(a.values if hasattr(a, "values") else a, dtype=float).ravel()
        y = np.asarray(b.values if hasattr(b, "values") else b, dtype=float).ravel()
        return x.shape == y.shape and bool(np.all((x == y) | (np.abs(x - y) <= 1e-9 * np.maximum(1.0, np.abs(x))) | (np.isnan(x) & np.isnan(y))))
    except Exception:
        return False


def _short(v):
    if hasattr(v, "values"):
        return list(np.asarray(v.values).ravel()[-4:])
    return v


def corpus():
    import glob, json, os
    here = os.path.dirname(os.path.dirname(os.path.dirname(os.path.abspath(__file__))))
    return [json.load(open(f))["spec"] for f in sorted(glob.glob(os.path.join(here, "corpus", "C08_*.json")))]


def cached_reads(rng, spec):
    """a ticker held under two sub-strategies (and one held directly); on every date: update, read an assembled frame while the tree
    is up to date, trade with update=False, explicit update, observe"""
    from .. import gen_engine as G
    spec["tree"] = {"name": "root", "fi": False, "algos": False, "kids": [
        {"name": "s00", "fi": False, "algos": False, "kids": [{"sec": "a", "kind": 0, "mult": 1.0, "cfi": True}, {"sec": "b", "kind": 0, "mult": 1.0, "cfi": True}]},
        {"name": "s01", "fi": False, "algos": False, "kids": [{"sec": "a", "kind": 0, "mult": rng.choice([1.0, 10.0]), "cfi": True}, {"sec": "c", "kind": 0, "mult": 1.0, "cfi": True}]},
        {"sec": "d", "kind": 0, "mult": 1.0, "cfi": True}]}
    for k in ("coupons", "cost_long", "cost_short"):
        spec[k] = None
    T = spec["T"]
    for t, col in spec["prices"].items():
        spec["prices"][t] = [(10.0 + j) if (x is None or x == 0.0) else x for j, x in enumerate(col)]
    ops = [{"op": "adjust", "path": [], "amount": spec["capital"], "update": True, "flow": True}, {"op": "update", "d": 0},
           {"op": "allocate", "path": [0], "amount": spec["capital"] / 4, "update": True}, {"op": "allocate", "path": [1], "amount": spec["capital"] / 4, "update": True}]
    secs = [[0, 0], [0, 1], [1, 0], [1, 1], [2]]
    for d in range(0, T):
        ops.append({"op": "update", "d": d})
        ops.append({"op": "read", "path": [], "g": 4, "attr": "positions"})
        ops.append({"op": "read", "path": rng.choice([[], [0], [1]]), "g": 4, "attr": rng.choice(["positions", "outlays", "positions"])})
        # the ticker held under both sub-strategies is traded on every date, plus a few others
        ops.append({"op": "transact", "path": rng.choice([[0, 0], [1, 0]]), "q": float(rng.randint(1, 9)), "update": False, "price": None})
        for _ in range(rng.randint(0, 2)):
            ops.append({"op": "transact", "path": rng.choice(secs), "q": float(rng.randint(1, 9)), "update": False, "price": None})
        ops.append({"op": "update", "d": d})
        ops.append({"op": "observe", "on": "real"})
    spec["ops"] = ops
    spec["oracle_all"] = True


def dynamic_child_cases(ctx, bt, n):
    """sub-strategies created while a run is going on (`bt.Strategy(name, parent=target)` + `setup_from_parent()`, as a pairs-trading
    algo does), with reads of the parent's frames before and after the creation on the same date: every frame handed out still ends
    at the current date, and a read is still what an explicit update leaves"""
    import pandas as pd
    from .. import gen_runs as R
    for _ in range(n):
        T = ctx.rng.randint(5, 12)
        dates, _k = R.gen_index(ctx.rng, T)
        idx = pd.DatetimeIndex(dates)
        names = R.TICKERS[:ctx.rng.randint(2, 4)]
        data = pd.DataFrame({t: [10.0 + 3 * j + i * (1 + j % 2) for i in range(T)] for j, t in enumerate(names)}, index=idx)
        root = bt.Strategy("top", children=list(names))
        root.setup(data)
        root.adjust(100000.0)
        k0 = ctx.rng.randint(0, T - 2)
        for i in range(k0 + 1):
            root.update(idx[i])
        case = {"dyn": {"dates": dates, "names": names, "k0": k0}}
        ctx.evaluations += 1
        ctx.count("dynamic-child-cases")
        reads_before = ctx.rng.random() < 0.7
        if reads_before:
            _ = root.universe
            _ = root.values
        kid_names = ["dyn%d" % j for j in range(ctx.rng.randint(1, 2))]
        try:
            for nm in kid_names:
                kid = bt.Strategy(nm, children=[ctx.rng.choice(names)], parent=root)
                kid.setup_from_parent()
                if ctx.rng.random() < 0.5:
                    root.allocate(1000.0, nm)
        except Exception as e:  # noqa
            ctx.count("dynamic-child:raised:" + E.classify_exc(e))
            continue
        for step in range(ctx.rng.randint(1, 3)):
            now = root.now
            for attr in ("universe", "values", "prices", "cash"):
                try:
                    v = getattr(root, attr)
                except Exception as e:  # noqa
                    ctx.count("dynamic-child:read-raised:" + E.classify_exc(e))
                    continue
                ctx.count("dynamic-child:frames-read")
                if len(v.index) and v.index[-1] > now:
                    ctx.violation("C08/series-beyond-now:" + attr, "after creating %r under top on %s (frames read before: %s): top.%s ends at %s (%d rows), now is %s"
                                  % (kid_names, idx[k0].date(), reads_before, attr, v.index[-1].date(), len(v.index), now.date()), case)
                    break
            if attr == "universe" and any(nm not in root.universe.columns for nm in kid_names):
                pass
            nxt = idx.get_loc(root.now) + 1
            if nxt >= T:
                break
            root.update(idx[nxt])


# ---------------------------------------------------------------------------------------------------------------------------
# whole read-outs on twins + trades whose cash leg is exactly zero, read right afterwards

def getters_of(bt, node):
    """every public value getter of a node (the ones that exist for its kind / its set-up)"""
    if isinstance(node, bt.core.SecurityBase):
        names = SCALAR_SEC + ["bidoffer", "bidoffer_paid"] + SERIES_SEC
        if node._bidoffer_set:
            names = names + ["bidoffers", "bidoffers_paid"]
        if hasattr(node, "_coupon_income"):
            names = names + ["coupon", "holding_cost", "coupons", "holding_costs"]
        return names
    names = SCALAR_STRAT + SERIES_STRAT
    if node._bidoffer_set:
        names = names + ["bidoffer_paid", "bidoffers_paid"]
    return names


def same_reading(a, b):
    """two returned values are the same value (labels, shape, every entry; nan = nan, -0.0 = 0.0)"""
    sa, sb = hasattr(a, "index"), hasattr(b, "index")
    if sa != sb:
        return False
    if sa:
        if type(a) is not type(b) or a.shape != b.shape or not a.index.equals(b.index):
            return False
        if hasattr(a, "columns") and list(a.columns) != list(b.columns):
            return False
        x = np.asarray(a.values, dtype=float).ravel()
        y = np.asarray(b.values, dtype=float).ravel()
        return bool(np.all((x == y) | ((x != x) & (y != y))))
    x, y = float(a), float(b)
    return x == y or (x != x and y != y)


class ReadAllTwin(Observer):
    """clause 2 on whole read-outs: after a step that leaves nothing owed (no update=False run open) two deep copies of the real tree
    are taken; on one EVERY getter of EVERY node is read (one of them first - any getter may be the first thing a user reads - the
    others in a fixed order), on the other an explicit update of the current date is made and the same getters are read in the same
    order.  Every returned value must be the same, and no returned series may end after now.  Whether the engine flagged the tree is
    not consulted: `pending changes` is judged by what the explicit update changes."""
    TRADES = ("transact", "allocate", "rebalance", "close", "adjust", "flatten")

    def __init__(self, ctx, p_other=0.2):
        self.ctx = ctx
        self.p_other = p_other

    def start(self, bt, spec, root, dates):
        if spec.get("flavour"):
            self.ctx.count("zero-cash-histories:" + spec["flavour"] + (":bidoffer-data" if spec.get("bidoffer") else ":no-bidoffer-data"))

    @staticmethod
    def _zero_cash_trade(step):
        """a security trade that changed the position and left the parent's cash exactly where it was"""
        op = step["op"]
        if op["op"] != "transact" or not op.get("path"):
            return False
        a, b = step["pre"]["root"], step["post"]["root"]
        for k in op["path"][:-1]:
            a, b = a["kids"][k], b["kids"][k]
        sa, sb = a["kids"][op["path"][-1]], b["kids"][op["path"][-1]]
        return sa["t"] == "S" and sa["position"] != sb["position"] and a["capital"] == b["capital"] and a["lastFee"] == b["lastFee"]

    def after(self, bt, spec, root, dates, step, i):
        ctx = self.ctx
        if step["post"]["root"]["now"] is None or step["pending"]:
            return
        import random as _random
        r = _random.Random(int(spec.get("twin_seed", 0)) * 7919 + i)
        kind = step["op"]["op"]
        if kind not in self.TRADES and r.random() > self.p_other:
            return
        members = list(root.members)
        plan = [(j, a) for j, m in enumerate(members) for a in getters_of(bt, m)]
        # the first read: anything but a getter of a security that was just closed (flat, still flagged) - see the finding
        # C08/read-is-not-an-update:just-closed-security-series-getter, which Monitor covers
        firsts = [(j, a) for (j, a) in plan
                  if not (isinstance(members[j], bt.core.SecurityBase) and members[j]._position == 0 and members[j]._needupdate)]
        first = r.choice(firsts)
        order = [first] + [x for x in plan if x != first]
        was_stale = bool(root.stale)
        try:
            c1 = copy.deepcopy(root)
            m1 = list(c1.members)
            out1 = [getattr(m1[j], a) for (j, a) in order]
            c2 = copy.deepcopy(root)
            c2.update(c2.now)
            m2 = list(c2.members)
            out2 = [getattr(m2[j], a) for (j, a) in order]
        except Exception as e:  # noqa
            ctx.count("read-all-twins:raised:" + E.classify_exc(e))
            return
        ctx.count("read-all-twins")
        ctx.count("read-all-twins:after-" + kind)
        if self._zero_cash_trade(step):
            ctx.count("read-all-twins:right-after-a-trade-with-zero-cash-leg")
        ctx.count("read-all-twins:getters-compared", len(order))
        ctx.count("read-all-twins:tree-was-" + ("flagged-stale" if was_stale else "not-flagged"))
        ctx.count("read-all-twins:first-read:" + ("security" if isinstance(members[first[0]], bt.core.SecurityBase) else "strategy") + "." + first[1])
        bad = [(j, a, v1, v2) for (j, a), v1, v2 in zip(order, out1, out2) if not same_reading(v1, v2)]
        if bad:
            j, a, v1, v2 = bad[0]
            key = "C08/stale-read:" + a
            if not was_stale:
                # the tree was not flagged: the explicit update either repeats the last one (then the two known low-bit effects of a
                # second update of a date apply) or there WERE pending changes the reads did not show
                tolv = float(bt.core.TOL)
                dust = any(isinstance(m, bt.core.SecurityBase) and 0 < abs(m._position) < tolv for m in members)
                carry = any(hasattr(m, "_coupon_income") and m._position != 0 for m in members)
                if all(_numerically_equal(x[2], x[3]) for x in bad) and (dust or carry):
                    key = "C08/update-not-idempotent" + (":dust" if dust else ":low-bits-after-carry-sweep")
            ctx.violation(key, "after op %d %s (tree %sflagged stale; first read %s.%s): %s.%s read %r but after an explicit update of the same date %r (%d of %d getters differ)"
                          % (i, json_op(step["op"]), "" if was_stale else "not ", members[first[0]].full_name, first[1],
                             members[j].full_name, a, _short(v1), _short(v2), len(bad), len(order)), {"spec": spec, "upto": i})
            return
        for (j, a), v1 in zip(order, out1):
            if hasattr(v1, "index") and len(v1.index):
                node_now = m1[j].now
                if not (isinstance(node_now, int) and node_now == 0) and v1.index[-1] > c1.now:
                    ctx.violation("C08/series-beyond-now:" + a, "after op %d: %s.%s ends at %s but now is %s"
                                  % (i, members[j].full_name, a, v1.index[-1], c1.now), {"spec": spec, "upto": i})
                    return


def json_op(op):
    return " ".join("%s=%s" % (k, v) for k, v in op.items())


def _rand_read(rng, spec, paths):
    """a read operation on a random node (getter groups of the engine protocol)"""
    p = rng.choice(paths)
    if p[1]:
        g = rng.choice([1, 2, 3, 0])
        if g == 0:
            attr = rng.choice(["value", "weight", "notional_value"])
        elif g == 3:
            attr = "position"
        else:
            attr = rng.choice(E.GETTERS[g])
        if attr == "bidoffer_paid" and spec["bidoffer"] is None:
            attr = "price"
    else:
        g = rng.choice([0, 0, 0, 3, 4])
        attr = rng.choice(E.GETTERS[g])
    return {"op": "read", "path": p[0], "g": g, "attr": attr}


def zero_cash_trades(rng, spec):
    """trades whose total cash leg (price x quantity x multiplier + bid/offer + commission) is exactly zero, made with update=True and
    followed DIRECTLY by reads (no explicit update in between): the position changes, the cash does not.
      fi-par       fixed-income tree; some instruments are quoted at exactly 0.0 on some dates (a par swap on its trade date) and are
                   traded there at the market; notional = position for the fixed-income kinds, 0 for the hedge kinds
      fi-bespoke   fixed-income tree with bid/offer data: transact(q, price=0.0)
      mv-bespoke   market-value tree with bid/offer data: transact(q, price=0.0) (a free delivery / grant) at a non-zero market price
      mv-worthless market-value tree, a security quoted at exactly 0.0 for a spell and traded there
    with / without bid/offer data (none, all-zero spreads, non-zero spreads), commissions that vanish at a zero price (none, proportional
    to price) and, as a control, a flat fee; securities directly under the root and inside a sub-strategy; mixed with ordinary trades,
    update=False trades closed by an update, closes, redundant updates."""
    from .. import gen_engine as G
    T = min(max(spec["T"], 5), 7)
    spec["T"] = T
    flavour = rng.choice(["fi-par", "fi-par", "fi-bespoke", "mv-bespoke", "mv-bespoke", "mv-worthless"])
    fi = flavour.startswith("fi")
    bespoke = flavour.endswith("bespoke")
    names = G.TICKERS[:rng.randint(2, 4)]
    kinds = [rng.choice([1, 1, 2, 3, 4]) if fi else 0 for _ in names]
    if fi:
        kinds[0] = rng.choice([1, 1, 2])          # at least one instrument whose notional is its position
    leaves = [{"sec": t, "kind": k, "mult": rng.choice([1.0, 1.0, 10.0, 0.5]), "cfi": True} for t, k in zip(names, kinds)]
    kids = list(leaves)
    anchors = set()
    if fi:
        anchors.add(names[0])
    if len(leaves) >= 3 and rng.random() < 0.4:
        n_in = rng.randint(1, 2)
        if fi:
            # a fixed-income strategy needs notional to price its p&l: every strategy keeps one long instrument with notional
            leaves[-n_in]["kind"] = rng.choice([1, 1, 2])
            anchors.add(leaves[-n_in]["sec"])
        kids = leaves[:-n_in] + [{"name": "s00", "fi": fi, "algos": False, "kids": leaves[-n_in:]}]
    kinds = [l["kind"] for l in leaves]
    spec["tree"] = {"name": "root", "fi": fi, "algos": False, "kids": kids}
    # quotes: the instruments traded at zero are quoted at exactly 0.0 on about half of the dates (else small, of either sign in a
    # fixed-income tree); the others are ordinary
    n_zero = 0 if bespoke else rng.randint(1, 2)
    zero_quoted = set(names[:n_zero]) if rng.random() < 0.7 else set(rng.sample(names, n_zero))
    prices = {}
    for t in G.TICKERS:
        if t in zero_quoted:
            col = [0.0 if rng.random() < 0.55 else (rng.choice([-1, 1] if fi else [1]) * rng.randint(1, 24) / 8.0) for _ in range(T)]
            col[rng.randint(1, T - 1)] = 0.0
        else:
            p = float(rng.randint(80, 120)) if fi else float(rng.randint(10, 60))
            col = []
            for _ in range(T):
                p = max(1.0, p + rng.randint(-3, 3))
                col.append(p)
        prices[t] = col
    spec["prices"] = prices
    bo_mode = rng.choice(["zero", "nonzero"]) if bespoke else rng.choice(["none", "none", "zero", "zero", "nonzero"])
    if bo_mode == "none":
        spec["bidoffer"] = None
    else:
        spec["bidoffer"] = {t: [0.0 if bo_mode == "zero" else rng.choice([0.125, 0.25, 0.5])] * T for t in G.TICKERS}
    spec["comm"] = rng.choice([[0, 0, 0], [0, 0, 0], [3, 0, 0.001], [3, 0, 0.015625], [1, 2.0, 0]])
    if any(k in (2, 4) for k in kinds):
        spec["coupons"] = {t: [rng.choice([0.0, 0.25, 0.5, 1.0]) for _ in range(T)] for t in G.TICKERS}
        spec["cost_long"] = {t: [rng.choice([0.0, 0.125]) for _ in range(T)] for t in G.TICKERS} if rng.random() < 0.4 else None
        spec["cost_short"] = None
    else:
        spec["coupons"] = spec["cost_long"] = spec["cost_short"] = None
    spec["integer"] = rng.random() < 0.5
    spec["capital"] = 1000000.0
    spec["grid"] = "dyadic"
    spec["twin_all"] = True
    spec["twin_seed"] = rng.randrange(1 << 30)
    spec["flavour"] = flavour
    paths = G.all_paths(spec["tree"])
    secs = [p for p in paths if p[1]]
    subs = [p for p in paths if not p[1] and p[0]]
    ops = [{"op": "adjust", "path": [], "amount": spec["capital"], "update": True, "flow": True}, {"op": "update", "d": 0}]
    for p in subs:
        ops.append({"op": "allocate", "path": p[0], "amount": spec["capital"] / 4, "update": True})
    for p in sorted(secs, key=lambda p: p[2]["sec"] not in anchors):
        if p[2]["sec"] in anchors or rng.random() < (0.3 if p[2]["sec"] in zero_quoted else 0.8):
            ops.append({"op": "transact", "path": p[0], "q": float(rng.randint(5, 60)), "update": rng.random() < 0.7, "price": None})
    ops.append({"op": "update", "d": 0})

    def reads_after():
        for _ in range(rng.randint(1, 3)):
            ops.append(_rand_read(rng, spec, paths))
        if rng.random() < 0.5:
            ops.append({"op": "observe", "on": rng.choice(["real", "real", "copy"])})

    for d in range(1, T):
        ops.append({"op": "update", "d": d})
        if rng.random() < 0.2:
            ops.append({"op": "update", "d": d})
        if rng.random() < 0.3:
            ops.append(_rand_read(rng, spec, paths))
        at_zero = [p for p in secs if prices[p[2]["sec"]][d] == 0.0]
        for _ in range(rng.randint(1, 3)):
            p = rng.choice(at_zero) if (at_zero and rng.random() < 0.7) else rng.choice(secs)
            q = float((1 if p[2]["sec"] in anchors else rng.choice([-1, 1, 1])) * rng.randint(1, 40)) * (rng.choice([1.0, 100.0]) if fi else 1.0)
            px = 0.0 if (bespoke and rng.random() < 0.65) else None
            upd = rng.random() < 0.85
            ops.append({"op": "transact", "path": p[0], "q": q, "update": upd, "price": px})
            if upd:
                reads_after()
            else:
                ops.append({"op": "update", "d": d})
        if rng.random() < 0.25 and len(secs) > len(anchors):
            p = rng.choice([x for x in secs if x[2]["sec"] not in anchors])
            ops.append({"op": "close", "path": p[0][:-1], "child": p[0][-1], "update": True})
            reads_after()
        if rng.random() < 0.5:
            ops.append({"op": "update", "d": d})
    ops.append({"op": "update", "d": T - 1})
    ops.append({"op": "observe", "on": "real"})
    spec["ops"] = ops


def run(ctx, bt):
    dynamic_child_cases(ctx, bt, ctx.scale(40, 600))
    run_engine_protocol(ctx, bt, ctx.scale(12, 150), [Monitor(ctx, 1.0)], None, None, spec_kwargs={"fi_tree": False},
                        spec_mutator=cached_reads, corr_name="step[C08]:read-trade-silently-update-read")
    for sp in corpus():
        run_history_observed(bt, copy.deepcopy(sp), ctx.rng, len(sp["ops"]), [Monitor(ctx, 1.0)], ctx)
        ctx.evaluations += 1
    run_engine_protocol(ctx, bt, ctx.scale(90, 900), [Monitor(ctx)], None, None, corr_name="step[C08]:whole-snapshot")
    # (after the older families, whose random streams are left as they were)
    run_engine_protocol(ctx, bt, ctx.scale(12, 300), [ReadAllTwin(ctx)], None, None,
                        spec_mutator=zero_cash_trades, corr_name="step[C08]:zero-cash-trade-then-read")


def search(ctx, bt):
    continuation_search(ctx, bt, lambda: [Monitor(ctx, 1.0)])
    if ctx.violations:
        return
    run_engine_protocol(ctx, bt, ctx.scale(300, 2000), [Monitor(ctx, 0.6)], None, None, corr_name="step[C08]:search")


def replay(bt, data, ctx):
    if "dyn" in data.get("case", {}):
        dynamic_child_cases(ctx, bt, 200)       # regenerated from the seed of the run
        return
    spec = data["case"]["spec"]
    obs = [Monitor(ctx, 1.0)] + ([ReadAllTwin(ctx, 1.0)] if spec.get("twin_all") else [])
    steps, root, dates = run_history_observed(bt, spec, ctx.rng, len(spec["ops"]), obs, ctx)
    model_compare(ctx, bt, [(spec, i, st) for i, st in enumerate(steps)], None, None, "step[C08]")
