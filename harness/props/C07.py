"""C07 cash ledger: per-node per-date reconciliation from recorded series, per-trade bookkeeping from an external
trade log, on generated engine histories (also compared step-wise with the Lean model) and on whole backtests."""
from .. import engine as E
from .. import gen_runs as R
from .. import monitors as M
from ..engine_run import Observer, run_engine_protocol, run_history_observed, model_compare
from ..runs_run import run_programs, run_one

RULE = ("engine histories (closing-update discipline as in Backtest.run) and whole generated backtests; ledger equation per node "
        "and closed date from recorded series; every executed trade checked against q*p*m + spread and commission(q, p*m); "
        "histories of set_commissions calls at different nodes (re-imposed function objects, sub-strategy schedules, late children) with "
        "every trade charged the function last set on its parent or an ancestor; "
        "steps re-executed by the Lean model, compared inside the C07 footprint. distinct = (tree shape, op, outcome, integer, commission) "
        "/ (program shape)")
ASSUMPTIONS = ["dates are closed by an update before the clock moves (what Backtest.run does); rows of a date left stale by the caller are not judged"]

FOOT_FIELDS = {"capital", "lastFee", "netFlows", "outlayAcc", "bidofferPaid", "rCash", "rFees", "rFlows", "rOutlay",
               "rBidofferPaid", "position", "stale", "now"}


class Monitor(Observer):
    def __init__(self, ctx):
        self.ctx = ctx

    def start(self, bt, spec, root, dates):
        self.cm = R.trade_log(bt)
        self.log = self.cm.__enter__()

    def after(self, bt, spec, root, dates, step, i):
        # the ledger at the level of a single operation (theorem C07.ledger_step evaluated on the real state)
        for key, msg in M.live_ledger_check(step):
            self.ctx.violation("C07/" + key, "op %d: %s" % (i, msg), {"spec": spec, "mode": "history", "upto": i})
        self.ctx.count("node-balance-steps")

    def finish(self, bt, spec, root, dates, steps):
        self.cm.__exit__(None, None, None)
        if steps and "err" in steps[-1]:
            n_closed = None
        ok_steps = [s for s in steps if "err" not in s]
        if not ok_steps:
            return
        last = ok_steps[-1]["post"]
        now = last["root"]["now"]
        if now is None:
            return
        # the current date is closed only if the history ended fresh
        fresh = (not last["stale"]) and (not ok_steps[-1]["pending"]) and ("err" not in steps[-1])
        n = now + 1 if fresh else now
        user = M.user_log_from_ops(spec, steps)
        self.ctx.count("ledger-dates-checked", n)
        for key, msg in M.ledger_check(bt, root, n, user):
            self.ctx.violation("C07/" + key, msg, {"spec": spec, "mode": "history"})
        mine = [t for t in self.log]
        self.ctx.count("trades-checked", len(mine))
        for key, msg in M.trade_books_check(mine):
            self.ctx.violation("C07/" + key, msg, {"spec": spec, "mode": "history"})


def check_program(ctx, bt, spec, b, log):
    root = b.strategy
    n = len(b.dates)
    for key, msg in M.ledger_check(bt, root, n, None):
        ctx.violation("C07/" + key, msg, {"spec": spec, "mode": "program"})
    for key, msg in M.trade_books_check(log):
        ctx.violation("C07/" + key, msg, {"spec": spec, "mode": "program"})


def run(ctx, bt):
    from .. import gen_engine as _G
    run_engine_protocol(ctx, bt, ctx.scale(20, 300), [Monitor(ctx)], FOOT_FIELDS, None, spec_kwargs={"fi_tree": False},
                        spec_mutator=_G.custom_price_trades, corr_name="step[C07]:custom-price-trades-with-multipliers")
    run_engine_protocol(ctx, bt, ctx.scale(110, 1200), [Monitor(ctx)], FOOT_FIELDS, None, corr_name="step[C07]")
    # swept carry on the way into a liquidation: levered market-value roots holding coupon-paying securities through crashes
    from .. import gen_engine as _GE
    run_engine_protocol(ctx, bt, ctx.scale(25, 400), [Monitor(ctx)], FOOT_FIELDS, None, spec_kwargs={"fi_tree": False},
                        spec_mutator=_GE.carry_tree, corr_name="step[C07]:carry-into-liquidation")
    run_programs(ctx, bt, ctx.scale(90, 1500), check_program)
    from ..runs_run import run_steps_protocol
    run_steps_protocol(ctx, bt, ctx.scale(12, 300), FOOT_FIELDS, "run-steps[C07]")
    from .. import whole_run as W
    # complete backtests of program trees (flat and nested, shadow copies included) executed end to end by the model
    W.whole_run_protocol(ctx, bt, ctx.scale(15, 300), "whole-run[C07]", footprint_fields=FOOT_FIELDS)
    # which commission function is charged: set_commissions calls at different nodes and times (the top again with the same function
    # object, a sub-strategy's own schedule, children attached in between) interleaved with trades on two / three strategy levels
    from .. import comm_schedules as _CS
    _CS.run_family(ctx, bt, ctx.scale(40, 600))


def search(ctx, bt):
    from ..engine_run import continuation_search
    continuation_search(ctx, bt, lambda: [Monitor(ctx)])
    if ctx.violations:
        return
    run_engine_protocol(ctx, bt, ctx.scale(500, 3000), [Monitor(ctx)], FOOT_FIELDS, None, corr_name="step[C07]:search")
    run_programs(ctx, bt, ctx.scale(400, 3000), check_program)


def replay(bt, data, ctx):
    case = data["case"]
    spec = case["spec"]
    if case.get("mode") == "schedule":
        from .. import comm_schedules as _CS
        _CS.run_case(ctx, bt, spec)
    elif case.get("mode") == "program":
        run_one(ctx, bt, spec, check_program)
    else:
        steps, root, dates = run_history_observed(bt, spec, ctx.rng, len(spec["ops"]), [Monitor(ctx)], ctx)
        model_compare(ctx, bt, [(spec, i, st) for i, st in enumerate(steps)], FOOT_FIELDS, None, "step[C07]")
