"""C11 isolation, repeatability, inputs untouched: deep structural comparison of the strategy template and every input frame
before / after constructing and running backtests; several backtests from one template run in every order and interleaving;
re-runs of a finished backtest; the same spec in fresh interpreters with different PYTHONHASHSEED."""
import copy
import itertools
import json
import os
import random
import subprocess
import sys
import tempfile
from concurrent.futures import ThreadPoolExecutor

import numpy as np
import pandas as pd

from .. import c11_life as L
from .. import engine as E
from .. import gen_runs as R
from .. import loader
from .. import runsnap as S

RULE = ("generated programs incl. stateful algos (RunOnce, RunEveryNPeriods, RebalanceOverTime, LimitDeltas) and random algos (SelectRandomly, "
        "WeighRandomly with the global seed fixed), nested trees; per case: 2-3 backtests from one template (same or different data) run in all "
        "orders and with interleaved construction/running vs each run alone; template and frames deep-compared before/after; run() twice; "
        "child processes with PYTHONHASHSEED in {0,1,2,random}, incl. life-cycle programs (a security closed / rolled early, SelectActive, then an "
        "order-sensitive consumer of the remaining selection). distinct = (program shape, #backtests, order pattern)")
ASSUMPTIONS = ["object aliasing and interpreter hashing are not expressible in the Lean model: the model fixes what the result must be (a pure "
               "function of template, data, settings); this check is the refinement test against it"]
HERE = os.path.dirname(os.path.dirname(os.path.dirname(os.path.abspath(__file__))))


def canon(o, depth=0, seen=None):
    """structural value of an object graph (no ids, no reprs of objects)"""
    if seen is None:
        seen = {}
    if depth > 12:
        return "<deep>"
    if isinstance(o, (int, float, str, bool, type(None))):
        return o if not (isinstance(o, float) and o != o) else "nan"
    if id(o) in seen:
        return "<ref %d>" % seen[id(o)]
    if isinstance(o, (pd.DataFrame, pd.Series, pd.Index)):
        v = np.asarray(o.values)
        return ("pd", type(o).__name__, [str(i) for i in o.index] if not isinstance(o, pd.Index) else None,
                [str(c) for c in o.columns] if isinstance(o, pd.DataFrame) else None,
                S.bits(v) if v.dtype.kind in "fiub" else [str(x) for x in v.ravel()])
    if isinstance(o, np.ndarray):
        return ("np", S.bits(o) if o.dtype.kind in "fiub" else [str(x) for x in o.ravel()])
    seen[id(o)] = len(seen)
    if isinstance(o, dict):
        return ("dict", [(canon(k, depth + 1, seen), canon(v, depth + 1, seen)) for k, v in o.items()])
    if isinstance(o, (list, tuple)):
        return (type(o).__name__, [canon(x, depth + 1, seen) for x in o])
    if isinstance(o, (set, frozenset)):
        return ("set", sorted(str(canon(x, depth + 1, seen)) for x in o))
    if hasattr(o, "__dict__"):
        return ("obj", type(o).__name__, [(k, canon(v, depth + 1, seen)) for k, v in sorted(vars(o).items()) if not callable(v) or hasattr(v, "__dict__")])
    if callable(o):
        return ("callable", getattr(o, "__name__", type(o).__name__))
    return ("other", type(o).__name__)


def gen_case(rng, estimation=False):
    spec = R.gen_run_spec(rng, T=rng.randint(12, 18) if estimation else rng.randint(6, 14))
    # make the global-random algos really global for some cases
    spec["global_seed"] = rng.randint(0, 10 ** 6)
    ds = pd.to_datetime(spec["dates"])
    gap = max([1] + [int((b - a).days) for a, b in zip(ds[:-1], ds[1:])])
    if estimation or rng.random() < 0.3:
        # estimation-type weighers (an optimiser behind them): any of them in place of the generated weigher, at any depth
        def swap(tr):
            for j, d in enumerate(tr.get("stack") or []):
                if d[0] in ("WeighEqually", "WeighInvVol", "WeighRandomly", "WeighSpecified") and (estimation or rng.random() < 0.8):
                    tr["stack"][j] = ["WeighERC", gap * rng.randint(6, 12), gap * rng.randint(0, 1)]
                    if rng.random() < 0.85:
                        # the optimiser needs a few returns: wait for them (without the wait the first call raises, also a case)
                        tr["stack"].insert(0, ["RunAfterDays", rng.randint(5, 8)])
                    break
            for kd in tr.get("kids") or []:
                if isinstance(kd, dict):
                    swap(kd)
        swap(spec["tree"])
    if rng.random() < 0.3:
        # a stateful algo wrapped with run_always (the documented use of RebalanceOverTime), behind a scheduler that does not fire at once
        def rot(tr):
            st = tr.get("stack") or []
            if st and st[-1][0] in ("Rebalance", "RebalanceOverTime") and rng.random() < 0.8:
                st[-1] = ["RebalanceOverTime", rng.randint(3, 6), True]
                if st[0][0].startswith("Run"):
                    st[0] = rng.choice([["RunMonthly", False, False, False], ["RunWeekly", False, False, False], ["RunEveryNPeriods", rng.randint(3, 5), rng.randint(1, 2)]])
            for kd in tr.get("kids") or []:
                if isinstance(kd, dict):
                    rot(kd)
        rot(spec["tree"])
    if rng.random() < 0.3:
        # state kept in perm (as ClosePositionsAfterDates / RollPositionsAfterDates do): a gate that opens on every k-th call
        def pg(tr):
            st = tr.get("stack")
            if st and rng.random() < 0.8:
                st.insert(1 if st[0][0].startswith("Run") else 0, ["PermGate", rng.randint(2, 3)])
            for kd in tr.get("kids") or []:
                if isinstance(kd, dict):
                    pg(kd)
        pg(spec["tree"])
    spec["_tz"] = rng.choice(["America/New_York", "Asia/Tokyo"]) if rng.random() < 0.15 else None
    k = rng.randint(2, 3)
    variants = []
    for i in range(k):
        v = {"capital": float(rng.choice([spec["capital"], spec["capital"] * 2, 50000.0])), "same_data": rng.random() < 0.5,
             "permute": rng.random() < 0.5,
             "integer": rng.random() < 0.5, "comm": rng.choice([[0, 0, 0], [3, 0, 0.001], [1, 2.0, 0]])}
        v["tz"] = spec.get("_tz")
        if estimation and i > 0:
            v["same_data"], v["permute"] = False, True
        variants.append(v)
    order = list(range(k))
    rng.shuffle(order)
    return {"spec": spec, "variants": variants, "order": order, "interleave": rng.random() < 0.5}


def variant_spec(spec, v, i):
    s = copy.deepcopy(spec)
    s["capital"] = v["capital"]
    s["tz"] = v.get("tz")
    s["integer"] = v["integer"]
    s["comm"] = v["comm"]
    if not v["same_data"]:
        if v.get("permute"):
            # same tickers, same dates, other histories: the price columns rotate among the tickers
            ts = list(s["prices"])
            cols = [s["prices"][t] for t in ts]
            r = (i + 1) % max(len(ts), 1)
            for j, t in enumerate(ts):
                s["prices"][t] = list(cols[(j + r) % len(ts)])
        else:
            for t in s["prices"]:
                s["prices"][t] = [None if x is None else x * (1.0 + 0.125 * (i + 1)) for x in s["prices"][t]]
    return s


def fresh_bt(bt):
    """another import of the same source: a copy of the package with its own module-level state (what a new interpreter would see
    of bt itself); sys.modules is put back so the primary copy stays the one everything else uses"""
    saved = {m: sys.modules[m] for m in list(sys.modules) if m == "bt" or m.startswith("bt.")}
    try:
        return loader.load_bt()
    finally:
        for m in [m for m in sys.modules if m == "bt" or m.startswith("bt.")]:
            del sys.modules[m]
        sys.modules.update(saved)


def make_inputs(vs):
    data = R.frame(vs["prices"], vs["dates"])
    add = {}
    if vs.get("bidoffer"):
        add["bidoffer"] = R.frame(vs["bidoffer"], vs["dates"])
    if vs.get("tz"):
        # exchange-local time stamps: the frames the user hands over carry a time zone (and must still carry it afterwards)
        data.index = data.index.tz_localize(vs["tz"])
        for k in add:
            add[k].index = add[k].index.tz_localize(vs["tz"])
    return data, add


def make_bt(bt, template, vs, inputs=None):
    data, add = inputs if inputs is not None else make_inputs(vs)
    kw = {}
    if vs["comm"][0]:
        kw["commissions"] = E.make_comm(*vs["comm"])
    b = bt.Backtest(template, data, initial_capital=vs["capital"], integer_positions=vs["integer"], additional_data=add or None,
                    progress_bar=False, **kw)
    return b, data, add


def run_one(b, seed):
    random.seed(seed)
    try:
        b.run()
        return None
    except Exception as e:  # noqa
        return type(e).__name__


def run_case(ctx, bt, case):
    spec = case["spec"]
    rd = {"case": case}
    k = len(case["variants"])
    vspecs = [variant_spec(spec, v, i) for i, v in enumerate(case["variants"])]
    # baseline: each backtest alone, from its own fresh template
    base = []
    for i, vs in enumerate(vspecs):
        fb = fresh_bt(bt)
        ctx.count("baseline:fresh-module-copy")
        t = R.build_strategy(fb, vs)
        b, _, _ = make_bt(fb, t, vs)
        err = run_one(b, spec["global_seed"] + i)
        base.append((S.node_histories(fb, b.strategy) if hasattr(b.strategy, "data") else {}, err))
    # shared template, chosen order / interleaving
    template = R.build_strategy(bt, spec)
    t_before = canon(template)
    frames_before = None
    bts = [None] * k
    inputs = [None] * k
    if case["interleave"]:
        for i in case["order"]:
            d, a = make_inputs(vspecs[i])
            inputs[i] = (d, a, canon(d), canon(a))      # as handed over, before the constructor has seen them
            bts[i], d, a = make_bt(bt, template, vspecs[i], (d, a))
            run_one(bts[i], spec["global_seed"] + i)
    else:
        for i in range(k):
            d, a = make_inputs(vspecs[i])
            inputs[i] = (d, a, canon(d), canon(a))
            bts[i], d, a = make_bt(bt, template, vspecs[i], (d, a))
        for i in case["order"]:
            run_one(bts[i], spec["global_seed"] + i)
    ctx.classes.add((len(spec["tree"]["kids"]), tuple(d[0] for d in spec["tree"]["stack"]), k, tuple(case["order"]), case["interleave"]))
    if canon(template) != t_before:
        ctx.violation("C11/template-mutated", "the strategy template changed while backtests built from it were constructed / run", rd)
    for i in range(k):
        d, a, cd, ca = inputs[i]
        if canon(d) != cd or canon(a) != ca:
            ctx.violation("C11/input-frame-mutated", "an input frame of backtest #%d changed during construction / run" % i, rd)
    for i in range(k):
        h = S.node_histories(bt, bts[i].strategy) if hasattr(bts[i].strategy, "data") else {}
        df = S.first_diff(base[i][0], h)
        if df is not None:
            ctx.violation("C11/order-dependence", "backtest #%d run %s in order %r differs from the same backtest run alone: %s"
                          % (i, "interleaved with construction" if case["interleave"] else "after constructing all", case["order"], df), rd)
            break
    # a finished backtest does not run again
    b0 = bts[case["order"][0]]
    if b0.has_run and hasattr(b0.strategy, "data"):
        h1 = S.digest(S.node_histories(bt, b0.strategy))
        calls = []
        orig = type(b0.strategy).run

        def spy(self, *a, **kw):
            calls.append(1)
            return orig(self, *a, **kw)
        type(b0.strategy).run = spy
        try:
            b0.run()
        finally:
            type(b0.strategy).run = orig
        if calls or S.digest(S.node_histories(bt, b0.strategy)) != h1:
            ctx.violation("C11/rerun-ran-again", "calling run() on a finished backtest executed the strategy again (%d calls) or changed its histories" % len(calls), rd)


def order_sensitive_specs(rng):
    """one program per selection-type algo of the generator, followed by an order-sensitive consumer (SelectRandomly draws by
    position in the list; whole-unit sizing with little cash makes the order of trades matter)"""
    out = []
    menu = [["SelectAll"], ["SelectThese", list(R.TICKERS)], ["SelectHasData", 3, 1], ["SelectMomentum", 4, 3, 0], ["SelectWhere", rng.randint(0, 10 ** 6)],
            ["SetStatSelectN", rng.randint(0, 10 ** 6), 4, 0, True], ["SelectActive"]]
    for m in menu:
        spec = R.gen_run_spec(rng, nested=False, T=8, ncols=5)
        st = [["RunDaily", True, False, False], ["SelectAll"]]
        if m[0] != "SelectAll":
            st.append(m)
        st += [["SelectRandomly", 2, rng.randint(0, 10 ** 6)], ["WeighEqually"], ["Rebalance"]]
        spec["tree"] = {"name": "top", "tickers": list(R.TICKERS) if rng.random() < 0.5 else None, "kids": [], "stack": st}
        spec["global_seed"] = rng.randint(0, 10 ** 6)
        out.append(spec)
    return out


def life_specs(ctx, n):
    """life-cycle programs (harness/c11_life.py): a security matures or rolls early in the run (ClosePositionsAfterDates /
    RollPositionsAfterDates), SelectActive keeps it out afterwards, and what follows depends on the order of the remaining (>= 3,
    long distinct names) selection: SelectRandomly / WeighRandomly under fixed global seeds, whole-unit sizing with commissions.
    Every consumer appears in turn; judged by child_runs (identical histories in every process)."""
    out = []
    for i in range(n):
        spec = L.gen_life_spec(ctx.rng, L.CONSUMERS[i % len(L.CONSUMERS)])
        ctx.classes.add(("life", spec["consumer"], tuple(d[0] for d in spec["stack"]), bool(spec["close"]), bool(spec["roll"]), spec["integer"], spec["comm"][0]))
        out.append(spec)
    return out


def child_runs(ctx, bt, specs):
    """the same specs in fresh interpreters with different hash seeds: identical digests"""
    tmp = tempfile.mkdtemp(prefix="c11_")
    p = os.path.join(tmp, "specs.json")
    json.dump(specs, open(p, "w"))
    seeds = ["0", "1", "2", "random"]

    def go(hs):
        env = dict(os.environ)
        env["PYTHONHASHSEED"] = hs
        r = subprocess.run([sys.executable, os.path.join(HERE, "harness", "c11_child.py"), p, HERE], capture_output=True, text=True, env=env)
        try:
            return hs, json.loads(r.stdout.strip().split("\n")[-1])
        except Exception:
            return hs, None, (r.stderr or "")[-300:]

    with ThreadPoolExecutor(max_workers=4) as ex:
        res = list(ex.map(go, seeds))
    import shutil
    shutil.rmtree(tmp, ignore_errors=True)
    if any(r[1] is None for r in res):
        ctx.count("child-failed")
        ctx.notes.append("child failed: %r" % [r[2] for r in res if r[1] is None][:1])
        return
    ctx.count("child-processes", len(res))
    ctx.count("child-specs", len(specs))
    for j, spec in enumerate(specs):
        rs = [(r[0], r[1][j]) for r in res]
        if spec.get("kind") == "life":
            ctx.count("life:specs")
            ctx.count("life:consumer:" + spec["consumer"])
            ctx.count("life:something-closed-or-rolled" if rs[0][1].get("inactive") else "life:nothing-closed-or-rolled")
            if rs[0][1]["err"]:
                ctx.count("life:raised:" + str(rs[0][1]["err"]))
            if len({x[1]["digest"] for x in rs}) > 1:
                ctx.violation("C11/hash-seed-dependence:after-close-or-roll", "same life-cycle program (%s; stack %s), global seeds fixed, PYTHONHASHSEED %r: "
                              "final values %r, held at the end %r, closed / rolled %r"
                              % (spec["consumer"], [d[0] for d in spec["stack"]], [x[0] for x in rs], [x[1]["final"] for x in rs],
                                 [x[1].get("held") for x in rs], rs[0][1].get("inactive")), {"child_spec": spec})
            continue
        if len({x[1]["digest"] for x in rs}) > 1:
            ctx.violation("C11/hash-seed-dependence", "same spec, PYTHONHASHSEED %r: final values %r, universe column orders %r"
                          % ([x[0] for x in rs], [x[1]["final"] for x in rs], [x[1]["universe"] for x in rs]), {"child_spec": spec})


def shared_dict_case(ctx, bt, rng):
    """one `additional_data` dict object reused for several backtests, an entry replaced between the constructions, all of them
    constructed first and run afterwards: each backtest must give what it gives alone with the values it was constructed with, and
    the caller's dict must still hold the caller's objects"""
    spec = R.gen_run_spec(rng, T=rng.randint(6, 12))
    if not spec.get("bidoffer"):
        spec["bidoffer"] = {t: [0.25] * len(spec["dates"]) for t in spec["tickers"]}
    spec["global_seed"] = rng.randint(0, 10 ** 6)
    template = R.build_strategy(bt, spec)
    levels = [0.0, 0.25, 1.0][: rng.randint(2, 3)]
    shared = {}
    bts, frames = [], []
    data = R.frame(spec["prices"], spec["dates"])
    for lv in levels:
        fr = R.frame({t: [lv] * len(spec["dates"]) for t in spec["tickers"]}, spec["dates"])
        shared["bidoffer"] = fr
        frames.append((fr, canon(fr)))
        kw = {}
        if spec["comm"][0]:
            kw["commissions"] = E.make_comm(*spec["comm"])
        bts.append(bt.Backtest(template, data, initial_capital=spec["capital"], integer_positions=spec["integer"], additional_data=shared,
                               progress_bar=False, **kw))
    rd = {"case": {"spec": spec, "variants": [{"capital": spec["capital"], "same_data": True, "integer": spec["integer"], "comm": spec["comm"]}],
                   "order": [0], "interleave": True}, "shared_dict": levels}
    if shared.get("bidoffer") is not frames[-1][0]:
        ctx.violation("C11/input-dict-mutated", "the additional_data dict passed to Backtest no longer holds the caller's frame under 'bidoffer' "
                      "(%d rows, the caller's has %d)" % (len(shared["bidoffer"]), len(frames[-1][0])), rd)
    for fr, c0 in frames:
        if canon(fr) != c0:
            ctx.violation("C11/input-frame-mutated", "a bid/offer frame handed to Backtest changed", rd)
    for b in bts:
        run_one(b, spec["global_seed"])
    for lv, b in zip(levels, bts):
        fr = R.frame({t: [lv] * len(spec["dates"]) for t in spec["tickers"]}, spec["dates"])
        kw = {}
        if spec["comm"][0]:
            kw["commissions"] = E.make_comm(*spec["comm"])
        sb = bt.Backtest(R.build_strategy(bt, spec), R.frame(spec["prices"], spec["dates"]), initial_capital=spec["capital"],
                         integer_positions=spec["integer"], additional_data={"bidoffer": fr}, progress_bar=False, **kw)
        run_one(sb, spec["global_seed"])
        if not (hasattr(sb.strategy, "data") and hasattr(b.strategy, "data")):
            continue
        df = S.first_diff(S.node_histories(bt, sb.strategy), S.node_histories(bt, b.strategy))
        ctx.count("shared-dict-backtests")
        if df is not None:
            ctx.violation("C11/order-dependence:shared-input-dict", "backtest constructed with bid/offer %r from a reused additional_data dict (entry replaced "
                          "afterwards, run later) differs from the same backtest alone: %s" % (lv, df), rd)
            return


def session_protocol(ctx, bt, n):
    """`session`: random schedules of constructions and (repeated) runs over one template on the real code vs the model's
    `Session.steps`: the has_run flag of every backtest after the schedule; the real side also counts how often each backtest's
    strategy was actually set up (at most once) and compares every finished backtest with the same backtest run alone."""
    from ..leanrun import run_lines
    lines, meta = [], []
    for _ in range(n):
        spec = R.gen_run_spec(ctx.rng, T=ctx.rng.randint(5, 9))
        spec["global_seed"] = ctx.rng.randint(0, 10 ** 6)
        template = R.build_strategy(bt, spec)
        t_before = canon(template)
        ops, bts, setups = [], [], []
        for _k in range(ctx.rng.randint(3, 9)):
            if not bts or ctx.rng.random() < 0.35:
                b, d, a = make_bt(bt, template, spec)
                cnt = [0]
                orig_setup = b.strategy.setup

                def spy(*aa, _o=orig_setup, _c=cnt, **kw):
                    _c[0] += 1
                    return _o(*aa, **kw)
                b.strategy.setup = spy
                bts.append(b)
                setups.append(cnt)
                ops.append("C")
            else:
                i = ctx.rng.randrange(len(bts))
                run_one(bts[i], spec["global_seed"])
                ops.append("R %d" % i)
        rd = {"case": {"spec": spec, "variants": [{"capital": spec["capital"], "same_data": True, "integer": spec["integer"], "comm": spec["comm"]}],
                       "order": [0], "interleave": True}}
        if canon(template) != t_before:
            ctx.violation("C11/template-mutated", "the strategy template changed during a session of constructions and runs %r" % ops, rd)
        for i, c in enumerate(setups):
            if c[0] > 1:
                ctx.violation("C11/rerun-ran-again", "backtest #%d was set up %d times in the session %r" % (i, c[0], ops), rd)
        solo = None
        for i, b in enumerate(bts):
            if b.has_run and hasattr(b.strategy, "data"):
                if solo is None:
                    sb, _, _ = make_bt(bt, R.build_strategy(bt, spec), spec)
                    run_one(sb, spec["global_seed"])
                    solo = S.node_histories(bt, sb.strategy) if hasattr(sb.strategy, "data") else {}
                df = S.first_diff(solo, S.node_histories(bt, b.strategy))
                if df is not None:
                    ctx.violation("C11/order-dependence", "backtest #%d of the session %r differs from the same backtest run alone: %s" % (i, ops, df), rd)
                    break
        lines.append("session %d %s" % (len(ops), " ".join(ops)))
        meta.append((spec, ops, [bool(b.has_run) for b in bts]))
        ctx.count("session:ops", len(ops))
        ctx.count("session:repeated-runs", sum(1 for j, o in enumerate(ops) if o.startswith("R") and o in ops[:j]))
    outs = run_lines(lines) if lines else []
    nd = 0
    for (spec, ops, flags), o in zip(meta, outs):
        toks = o.split()
        model = [t == "1" for t in toks[2:]] if toks and toks[0] == "ok" else None
        if model != flags:
            nd += 1
            ctx.disagreement("corr:session:has_run", {"ops": ops, "real": flags, "model": model}, {"spec": spec, "ops": ops})
    ctx.protocols.append(("session", len(meta), nd))


# ---------------------------------------------------------------- benchmark_random (bt/backtest.py): backtests built from a template
def gen_benchmark_case(rng):
    T = rng.randint(12, 30)
    names = R.TICKERS[:rng.randint(2, 4)]
    dates, _ = R.gen_index(rng, T, "B")
    prices = R.gen_paths(rng, names, T, "float", late=0.0)
    return {"benchmark": True, "dates": dates, "names": names, "prices": prices, "nsim": rng.randint(1, 3), "seed": rng.randint(0, 10 ** 6),
            "k": rng.randint(1, len(names)), "weigher": rng.choice(["WeighRandomly", "WeighEqually"]), "prerun": rng.random() < 0.5,
            "tname": rng.choice(["rnd", "random_0", "skill-less"])}


def run_benchmark_case(ctx, bt, case):
    """`benchmark_random(backtest, random_strategy, nsim)` constructs and runs nsim backtests of the caller's template: the template and
    the data are not modified, a backtest that has already run is not run again, and with the seeds fixed a second call gives the same
    price frame"""
    a = bt.algos
    rd = case
    data = R.frame(case["prices"], case["dates"])

    def template():
        w = a.WeighRandomly() if case["weigher"] == "WeighRandomly" else a.WeighEqually()
        return bt.Strategy(case["tname"], [a.RunWeekly(), a.SelectAll(), a.SelectRandomly(case["k"]), w, a.Rebalance()])

    def once():
        mine = bt.Strategy("mine", [a.RunWeekly(), a.SelectAll(), a.WeighEqually(), a.Rebalance()])
        b = bt.Backtest(mine, data, progress_bar=False)
        calls = []
        if case["prerun"]:
            b.run()
            inner = b.strategy.run
            b.strategy.run = lambda *x, **k: (calls.append(1), inner(*x, **k))[1]
        t = template()
        t_before, d_before = canon(t), canon(data)
        random.seed(case["seed"])
        np.random.seed(case["seed"] % (2 ** 32))
        res = bt.backtest.benchmark_random(b, t, nsim=case["nsim"])
        return t, t_before, d_before, res, calls

    try:
        t, t_before, d_before, res, calls = once()
    except Exception as e:  # noqa
        ctx.count("benchmark_random:raised:" + type(e).__name__)
        return
    ctx.count("benchmark_random:cases")
    if canon(t) != t_before:
        after = canon(t)
        what = "name %r -> %r" % (case["tname"], t.name) if t.name != case["tname"] else "some attribute"
        ctx.violation("C11/template-mutated:benchmark_random", "benchmark_random changed the caller's strategy template (%s)" % what, rd)
    if canon(data) != d_before:
        ctx.violation("C11/input-frame-mutated:benchmark_random", "benchmark_random changed the caller's price frame", rd)
    if calls:
        ctx.violation("C11/rerun:benchmark_random", "benchmark_random ran the algos of a backtest that had already run (%d calls)" % len(calls), rd)
    try:
        _, _, _, res2, _ = once()
        if canon(res.prices) != canon(res2.prices):
            ctx.violation("C11/not-repeatable:benchmark_random", "two calls of benchmark_random with the same seeds gave different price frames", rd)
    except Exception as e:  # noqa
        ctx.count("benchmark_random:second-call-raised:" + type(e).__name__)


def run(ctx, bt, scale=1):
    import ffn as _ffn
    orig = _ffn.calc_erc_weights

    def counted(*a, **kw):
        ctx.count("optimiser-calls:erc")
        return orig(*a, **kw)
    _ffn.calc_erc_weights = counted
    try:
        _run(ctx, bt, scale)
    finally:
        _ffn.calc_erc_weights = orig


def _run(ctx, bt, scale=1):
    # witnesses of repaired defects run first (regression cases)
    import glob
    for f in sorted(glob.glob(os.path.join(os.path.dirname(os.path.dirname(os.path.dirname(os.path.abspath(__file__)))), "corpus", "C11_*.json"))):
        cs = json.load(open(f)).get("case")
        if isinstance(cs, dict) and cs.get("benchmark"):
            ctx.count("corpus-witnesses-run")
            ctx.evaluations += 1
            run_benchmark_case(ctx, bt, cs)
        elif isinstance(cs, dict) and "child_spec" in cs:
            ctx.count("corpus-witnesses-run")
            ctx.evaluations += 1
            child_runs(ctx, bt, [cs["child_spec"]])
    for _ in range(ctx.scale(12, 200) * scale):
        ctx.evaluations += 1
        try:
            shared_dict_case(ctx, bt, ctx.rng)
        except Exception as e:  # noqa
            ctx.count("shared-dict-case-raised:" + E.classify_exc(e))
    if scale == 1:
        session_protocol(ctx, bt, ctx.scale(25, 400))
    for _ in range(ctx.scale(6, 60) * scale):
        ctx.evaluations += 1
        run_benchmark_case(ctx, bt, gen_benchmark_case(ctx.rng))
    specs = []
    for _ in range(ctx.scale(45, 900) * scale):
        case = gen_case(ctx.rng, estimation=(_ % 4 == 3))
        ctx.evaluations += 1
        if len(ctx.samples) < 2:
            ctx.sample({"tree": case["spec"]["tree"], "variants": case["variants"], "order": case["order"]})
        try:
            run_case(ctx, bt, case)
        except Exception as e:  # noqa
            ctx.count("case-raised:" + E.classify_exc(e))
        if len(specs) < ctx.scale(20, 150) * scale:
            specs.append(case["spec"])
    for _ in range(ctx.scale(2, 10) * scale):
        specs += order_sensitive_specs(ctx.rng)
    specs += life_specs(ctx, ctx.scale(12, 80) * scale)
    # benchmark_random in fresh interpreters under different hash seeds (its random backtests see the caller's data)
    bench = [gen_benchmark_case(ctx.rng) for _ in range(ctx.scale(4, 30) * scale)]
    for c in bench:
        c["weigher"] = "WeighRandomly"
        c["k"] = max(1, len(c["names"]) - 1)
    ctx.count("benchmark_random:cases-across-hash-seeds", len(bench))
    child_runs(ctx, bt, specs + bench)


def search(ctx, bt):
    run(ctx, bt, 3)


def replay(bt, data, ctx):
    case = data["case"]
    if "shared_dict" in case:
        import random as _r
        shared_dict_case(ctx, bt, _r.Random(0))
        return
    if case.get("benchmark"):
        return run_benchmark_case(ctx, bt, case)
    if "child_spec" in case:
        child_runs(ctx, bt, [case["child_spec"]])
    else:
        run_case(ctx, bt, case["case"])
