"""C01 balance-sheet identity: monitor on the real tree + step correspondence inside the C01 footprint."""
import copy
import math

from .. import engine as E
from ..engine_run import Observer, run_engine_protocol

RULE = ("generated operation histories (trees flat/nested/fixed-income, 3 numeric grids, commissions, spreads) executed on the "
        "real tree; every step re-executed by the Lean model from the real pre-state and compared inside the C01 footprint; "
        "monitor recomputes the identity from public getters.  distinct = (tree shape, op kind, outcome, integer flag, commission kind)")
ASSUMPTIONS = ["monitor tolerance 1e-9*scale for real-valued identities computed in doubles"]

FOOT_FIELDS = {"value", "notl", "weight", "position", "price", "rValue", "rCash", "rPosition", "rNotl", "needupdate",
               "lastPos", "stale", "now", "capital", "bankrupt", "nkids", "kind"}


def tol(*xs):
    return 1e-9 * max([1.0] + [abs(x) for x in xs if x == x])


def check_tree(bt, root, where):
    """returns list of (key, message) violations of the identity on a (fresh) tree, public API only"""
    out = []
    c = bt.core

    def rec(n, path):
        if isinstance(n, c.SecurityBase):
            v = n.value
            pos = n.position
            p = n.price
            m = n.multiplier
            if p != p:
                return  # missing price: ill-formed unless flat (C10 covers the raise)
            exp = pos * p * m
            if abs(v - exp) > tol(v, exp):
                out.append(("sec-value", "%s %s: value %r != position*price*multiplier = %r*%r*%r = %r" % (where, path, v, pos, p, m, exp)))
            return
        v = n.value
        cash = n.capital
        kids = list(n.children.values())
        s = cash
        for k in kids:
            s += k.value
        if abs(v - s) > tol(v, s, cash):
            out.append(("strat-value", "%s %s: value %r != cash %r + children %r" % (where, path, v, cash, [k.value for k in kids])))
        fi = n.fixed_income
        nv = n.notional_value
        if fi:
            en = sum(abs(k.notional_value) for k in kids)
            if abs(nv - en) > tol(nv, en):
                out.append(("strat-notional", "%s %s: notional %r != sum |child notional| %r" % (where, path, nv, en)))
        wsum = 0.0
        for k in kids:
            w = k.weight
            if fi:
                ew = k.notional_value / nv if abs(nv) >= 1e-16 else 0.0
            else:
                ew = k.value / v if abs(v) >= 1e-16 else 0.0
            wsum += w
            if abs(w - ew) > 1e-9 * max(1.0, abs(w), abs(ew)):
                out.append(("child-weight", "%s %s>%s: weight %r != %r" % (where, path, k.name, w, ew)))
        if not fi and abs(v) >= 1e-16 and not any(True for _ in out):
            tot = wsum + cash / v
            if abs(tot - 1.0) > 1e-9 * max(1.0, sum(abs(k.weight) for k in kids), abs(cash / v)):
                out.append(("weights-sum", "%s %s: weights + cash fraction = %r" % (where, path, tot)))
        for k in kids:
            rec(k, path + ">" + k.name)

    rec(root, root.name)
    return out


def check_rows(bt, root, where):
    """rows recorded at the current date equal the current (fresh) state"""
    out = []
    c = bt.core
    if isinstance(root.now, int) and root.now == 0:
        return out
    _ = root.value  # refresh

    def rec(n, path):
        now = n.now
        if isinstance(now, int) and now == 0:
            return
        if isinstance(n, c.SecurityBase):
            if n.now != root.now:
                return  # a flat security that is (legitimately) not being marked
            pairs = [("value", n.values, n.value), ("position", n.positions, n.position), ("notional", n.notional_values, n.notional_value)]
        else:
            pairs = [("value", n.values, n.value), ("cash", n.cash.loc[:now], n.capital), ("notional", n.notional_values, n.notional_value)]
        for nm, ser, cur in pairs:
            r = ser.iloc[-1]
            if ser.index[-1] != now or abs(r - cur) > tol(r, cur):
                out.append(("row-" + nm, "%s %s: recorded %s row %r (at %s) != state %r (now %s)" % (where, path, nm, r, ser.index[-1], cur, now)))
        if not isinstance(n, c.SecurityBase):
            for k in n.children.values():
                rec(k, path + ">" + k.name)

    rec(root, root.name)
    return out


class Monitor(Observer):
    def __init__(self, ctx):
        self.ctx = ctx

    def observe(self, bt, spec, target, dates, step, i):
        op = step["op"]
        if step["pending"]:
            self.ctx.count("observation-skipped:update=False-run-still-open")
            return
        self.ctx.count("monitor-observations")
        try:
            v = check_tree(bt, target, "after op %d %s" % (i - 1, op["op"]))
            if op["op"] == "update":
                v += check_rows(bt, target, "after op %d update" % (i - 1))
        except Exception as e:  # reading may legitimately raise (NaN price on open position...)
            self.ctx.count("monitor-read-raised:" + E.classify_exc(e))
            return
        for key, msg in v:
            if target.bankrupt:
                key += ":root-bankrupt"
            self.ctx.violation("C01/" + key, msg, {"spec": spec, "upto": i})


def corpus():
    import glob
    import json
    import os
    here = os.path.dirname(os.path.dirname(os.path.dirname(os.path.abspath(__file__))))
    out = []
    for f in sorted(glob.glob(os.path.join(here, "corpus", "C01_*.json"))):
        out.append(json.load(open(f))["spec"])
    return out


def run(ctx, bt):
    n = ctx.scale(140, 1500)
    from .. import gen_engine as _G
    run_engine_protocol(ctx, bt, ctx.scale(25, 300), [Monitor(ctx)], FOOT_FIELDS, None,
                        spec_mutator=_G.zero_spell_hold, corr_name="step[C01]:hold-through-zero-price-spells")
    run_engine_protocol(ctx, bt, n, [Monitor(ctx)], FOOT_FIELDS, None, corr_name="step[C01]", corpus=corpus())
    from ..runs_run import run_steps_protocol
    run_steps_protocol(ctx, bt, ctx.scale(14, 300), FOOT_FIELDS, "run-steps[C01]")
    from .. import whole_run as W
    # complete backtests of program trees (flat and nested, shadow copies included) executed end to end by the model
    W.whole_run_protocol(ctx, bt, ctx.scale(15, 300), "whole-run[C01]", footprint_fields=FOOT_FIELDS)
    run_program_rows(ctx, bt, ctx.scale(60, 1200))


def run_program_rows(ctx, bt, n):
    """generated programs through Backtest.run (stock algos and user algos that trade with update=False and leave the closing update
    to the loop): whenever a tree leaves a date, the rows recorded for that date are the state it leaves behind; at the end of the
    run, balance and rows of the last date"""
    from .. import monitors as M
    from ..runs_run import run_programs
    with M.eod_watch(bt) as found:
        def checker(ctx_, bt_, spec, b, log):
            rd = {"spec": spec, "mode": "program"}
            ctx.count("program-rows:dates-left", max(0, len(b.dates) - 1))
            for root, date, node, field, rec, live in found[:3]:
                ctx.violation("C01/row-not-end-of-date:" + field, "%s left %s with %s %s = %r, but the row recorded for that date says %r"
                              % (root, date, node, field, live, rec), rd)
            del found[:]
            try:
                v = check_tree(bt, b.strategy, "end of run") + check_rows(bt, b.strategy, "end of run")
            except Exception as e:  # noqa
                ctx.count("program-rows:read-raised:" + E.classify_exc(e))
                return
            for key, msg in v:
                ctx.violation("C01/" + key + (":root-bankrupt" if b.strategy.bankrupt else ""), msg, rd)
            # the position rows a strategy hands out for its subtree: per name, what the securities of that name below it recorded
            try:
                import numpy as np
                root = b.strategy
                pos = root.positions
                secs = [m for m in root.members if isinstance(m, bt.core.SecurityBase)]
                for nm in sorted({m.name for m in secs}):
                    if nm not in pos.columns:
                        continue
                    got = np.asarray(pos[nm].values, dtype=float)
                    want = np.zeros(len(got))
                    for m in secs:
                        if m.name == nm:
                            want = want + np.nan_to_num(np.asarray(m._positions.values[:len(got)], dtype=float))
                    ctx.count("program-rows:strategy-position-columns")
                    bad = [i for i in range(len(got)) if abs(np.nan_to_num(got[i]) - want[i]) > 1e-9 * max(1.0, abs(want[i]))]
                    if bad:
                        i = bad[0]
                        ctx.violation("C01/row-position:strategy-frame", "%s.positions[%s] on date#%d is %r, the %d securities of that name below it recorded %r in total"
                                      % (root.name, nm, i, got[i], sum(1 for m in secs if m.name == nm), want[i]), rd)
                        break
            except Exception as e:  # noqa
                ctx.count("program-rows:positions-read-raised:" + E.classify_exc(e))
        run_programs(ctx, bt, n, checker)
        del found[:]


def search(ctx, bt):
    run_engine_protocol(ctx, bt, ctx.scale(600, 3000), [Monitor(ctx)], FOOT_FIELDS, None, corr_name="step[C01]:search")


def replay(bt, data, ctx):
    from ..engine_run import run_history_observed, model_compare
    if data["case"].get("mode") == "program":
        from ..runs_run import run_one
        from .. import monitors as M
        with M.eod_watch(bt) as found:
            run_one(ctx, bt, data["case"]["spec"], lambda *a: None)
            for root, date, node, field, rec, live in found[:3]:
                ctx.violation("C01/row-not-end-of-date:" + field, "%s left %s with %s %s = %r, row says %r" % (root, date, node, field, live, rec), data["case"])
        return
    spec = data["case"]["spec"]
    steps, root, dates = run_history_observed(bt, spec, ctx.rng, len(spec["ops"]), [Monitor(ctx)], ctx)
    model_compare(ctx, bt, [(spec, i, st) for i, st in enumerate(steps)], FOOT_FIELDS, None, "step[C01]")
